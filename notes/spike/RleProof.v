From Coq Require Import List NArith Lia Bool ZArith ZifyBool ZifyNat ZifyN.
Require Import Varint Rle.
Import ListNotations.
Ltac Zify.zify_post_hook ::= Z.div_mod_to_equations.
Open Scope N_scope.

Lemma vdec_go_cnt : forall buf val fac cnt r c, vdec_go buf val fac cnt = Some (r, c) -> (cnt < c <= cnt + length buf)%nat.
Proof.
  induction buf as [|b rest IH]; intros val fac cnt r c H; cbn in H; [discriminate|].
  destruct (b <? 128).
  - inversion H; subst. cbn [length]. lia.
  - apply IH in H. cbn [length]. lia.
Qed.
Lemma vdec_cnt : forall buf r c, vdec buf = Some (r, c) -> (0 < c <= length buf)%nat.
Proof. intros buf r c H. apply vdec_go_cnt in H. lia. Qed.

Lemma rdec_fuel : forall k1 k2 b, (length b <= k1)%nat -> (length b <= k2)%nat -> rdec k1 b = rdec k2 b.
Proof.
  induction k1 as [|k1 IH]; intros k2 b H1 H2.
  - destruct b; [|cbn in H1; lia]. destruct k2; reflexivity.
  - destruct k2 as [|k2].
    + destruct b; [reflexivity|cbn in H2; lia].
    + cbn [rdec]. destruct b as [|x b']; [reflexivity|].
      set (buf := x :: b') in *.
      destruct (vdec buf) as [[next c]|] eqn:Hv; [|reflexivity].
      apply vdec_cnt in Hv.
      assert (Hs : (length (skipn c buf) <= k1)%nat /\ (length (skipn c buf) <= k2)%nat).
      { rewrite skipn_length. lia. }
      destruct Hs as [Hs1 Hs2].
      destruct (next mod 2 =? 1).
      * rewrite (IH k2 _ Hs1 Hs2). reflexivity.
      * destruct (length (skipn c buf) <? N.to_nat (next / 2))%nat; [reflexivity|].
        rewrite (IH k2); [reflexivity| |]; rewrite skipn_length; lia.
Qed.

Definition D (buf : list N) := rle_decode buf.
Definition Tok (o d : list N) : Prop := forall X t, D X = Some t -> D (o ++ X) = Some (d ++ t).

Lemma Tok_nil : Tok [] [].
Proof. intros X t H. exact H. Qed.
Lemma Tok_app : forall o1 d1 o2 d2, Tok o1 d1 -> Tok o2 d2 -> Tok (o1 ++ o2) (d1 ++ d2).
Proof. intros o1 d1 o2 d2 H1 H2 X t H. rewrite <- !app_assoc. apply H1. apply H2. exact H. Qed.

Lemma venc_nonempty : forall n, venc n <> [].
Proof. intro n. unfold venc. cbn [venc_fuel]. destruct (n <=? 127); discriminate. Qed.

Lemma skipn_app_exact {A} (l1 l2 : list A) : skipn (length l1) (l1 ++ l2) = l2.
Proof. induction l1; cbn; auto. Qed.
Lemma firstn_app_exact {A} (l1 l2 : list A) : firstn (length l1) (l1 ++ l2) = l1.
Proof. induction l1; cbn; f_equal; auto. Qed.

Definition rbody (k : nat) (buf : list N) : option (list N) :=
  match vdec buf with
  | None => None
  | Some (next, c) =>
    let rest := skipn c buf in
    if next mod 2 =? 1 then
      match rdec k rest with None => None | Some t =>
        Some (repeat (if (next / 2) mod 2 =? 1 then 255 else 0) (N.to_nat (next / 4)) ++ t) end
    else
      let l := N.to_nat (next / 2) in
      if (length rest <? l)%nat then None else
      match rdec k (skipn l rest) with None => None | Some t => Some (firstn l rest ++ t) end
  end.
Lemma rdec_S : forall k buf, buf <> [] -> rdec (S k) buf = rbody k buf.
Proof. intros k [|x b] H; [congruence|reflexivity]. Qed.

Lemma D_step : forall n body X,
  n < 2^64 ->
  D ((venc n ++ body) ++ X) =
    let rest := body ++ X in
    if n mod 2 =? 1 then
      match D rest with None => None | Some t =>
        Some (repeat (if (n / 2) mod 2 =? 1 then 255 else 0) (N.to_nat (n / 4)) ++ t) end
    else
      let l := N.to_nat (n / 2) in
      if (length rest <? l)%nat then None else
      match D (skipn l rest) with None => None | Some t => Some (firstn l rest ++ t) end.
Proof.
  intros n body X Hn. unfold D, rle_decode.
  rewrite <- app_assoc.
  set (buf := venc n ++ body ++ X).
  assert (Hne : buf <> []).
  { subst buf. pose proof (venc_nonempty n). destruct (venc n); [congruence|discriminate]. }
  assert (Hlen : length buf = (length (venc n) + length (body ++ X))%nat) by (subst buf; apply app_length).
  assert (Hv1 : (0 < length (venc n))%nat).
  { pose proof (venc_nonempty n). destruct (venc n); [congruence|cbn; lia]. }
  destruct (length buf) as [|m] eqn:Em; [lia|].
  rewrite rdec_S by exact Hne. unfold rbody. subst buf.
  rewrite (vdec_venc n (body ++ X) Hn). rewrite skipn_app_exact.
  cbv zeta. destruct (n mod 2 =? 1).
  - rewrite (rdec_fuel m (length (body ++ X))) by lia. reflexivity.
  - destruct (length (body ++ X) <? N.to_nat (n / 2))%nat eqn:El; [reflexivity|].
    rewrite (rdec_fuel m (length (skipn (N.to_nat (n / 2)) (body ++ X)))); [reflexivity| |lia].
    rewrite skipn_length. lia.
Qed.

Lemma Tok_contig : forall l p, (p = 0 \/ p = 255) -> l < 2^61 -> Tok (wr_contig l p) (repeat p (N.to_nat l)).
Proof.
  intros l p Hp Hl X t HX. unfold wr_contig.
  set (n := l * 4 + 1 + (if p =? 255 then 2 else 0)).
  assert (Hn : n < 2^64) by (subst n; destruct (p =? 255); change (2^64) with 18446744073709551616; change (2^61) with 2305843009213693952 in Hl; lia).
  pose proof (D_step n [] X Hn) as S. rewrite app_nil_r in S. cbn [app] in S. rewrite S. clear S.
  assert (n mod 2 =? 1 = true) as -> by (subst n; destruct (p =? 255); apply N.eqb_eq; lia).
  rewrite HX. f_equal. f_equal.
  assert (n / 4 = l) as -> by (subst n; destruct (p =? 255); lia).
  f_equal. subst n. destruct Hp as [-> | ->]; cbn [N.eqb Pos.eqb].
  - assert ((l * 4 + 1 + 0) / 2 mod 2 =? 1 = false) as -> by (apply N.eqb_neq; lia). reflexivity.
  - assert ((l * 4 + 1 + 2) / 2 mod 2 =? 1 = true) as -> by (apply N.eqb_eq; lia). reflexivity.
Qed.

Lemma Tok_nonc : forall nc, N.of_nat (length nc) < 2^62 -> Tok (wr_nonc nc) nc.
Proof.
  intros nc Hl X t HX. unfold wr_nonc.
  set (n := 2 * N.of_nat (length nc)).
  assert (Hn : n < 2^64) by (subst n; change (2^64) with 18446744073709551616; change (2^62) with 4611686018427387904 in Hl; lia).
  rewrite (D_step n nc X Hn). cbv zeta.
  assert (n mod 2 =? 1 = false) as -> by (subst n; apply N.eqb_neq; lia).
  assert (N.to_nat (n / 2) = length nc) as -> by (subst n; lia).
  assert ((length (nc ++ X) <? length nc)%nat = false) as -> by (apply Nat.ltb_ge; rewrite app_length; lia).
  rewrite skipn_app_exact, firstn_app_exact, HX. reflexivity.
Qed.

Definition pending (s : est) : list N :=
  if contig s then repeat (prev s) (N.to_nat (len s)) else nonc s.

Record Inv (s : est) (i : nat) (done : list N) : Prop := {
  inv_tok : Tok (out s) done;
  inv_c : contig s = true -> (prev s = 0 \/ prev s = 255) /\ nonc s = [] /\ 1 <= len s;
  inv_n : contig s = false -> i = O -> nonc s = [] }.

Lemma repeat_snoc {A} (x : A) n : repeat x (S n) = repeat x n ++ [x].
Proof. induction n; cbn in *; [reflexivity|]. f_equal. exact IHn. Qed.

Lemma pending_len : forall s, contig s = true -> length (pending s) = N.to_nat (len s).
Proof. intros s H. unfold pending. rewrite H. apply repeat_length. Qed.

Lemma estep_inv : forall s i done b,
  Inv s i done ->
  N.of_nat (length (done ++ pending s)) + 1 < 2^61 ->
  exists done', Inv (estep s i b) (S i) done' /\
                done' ++ pending (estep s i b) = (done ++ pending s) ++ [b].
Proof.
  intros s i done b [Htok Hc Hn] Hsz.
  unfold estep.
  destruct (contig s) eqn:Ec.
  - destruct (Hc eq_refl) as (Hp & Hnc & Hl).
    assert (Hlen : len s < 2^61).
    { rewrite app_length in Hsz. unfold pending in Hsz. rewrite Ec, repeat_length in Hsz. lia. }
    destruct (b =? prev s) eqn:Eb; cbn [andb].
    + apply N.eqb_eq in Eb. subst b. exists done. split.
      * constructor; cbn; auto. intros _. repeat split; auto. lia.
      * unfold pending; cbn. rewrite Ec.
        replace (N.to_nat (len s + 1)) with (S (N.to_nat (len s))) by lia.
        rewrite repeat_snoc. rewrite app_assoc. reflexivity.
    + pose proof (Tok_app _ _ _ _ Htok (Tok_contig (len s) (prev s) Hp Hlen)) as Htok1.
      destruct ((b =? 0) || (b =? 255)) eqn:Ez.
      * exists (done ++ repeat (prev s) (N.to_nat (len s))). split.
        -- constructor; cbn; auto; try discriminate. intros _. repeat split; auto; try lia.
           all: try (apply orb_true_iff in Ez; destruct Ez as [E|E]; apply N.eqb_eq in E; auto).
        -- unfold pending; cbn. rewrite Ec. reflexivity.
      * exists (done ++ repeat (prev s) (N.to_nat (len s))). split.
        -- constructor; cbn; auto; discriminate.
        -- unfold pending; cbn. rewrite Ec, Hnc. reflexivity.
  - cbn [andb]. destruct ((b =? 0) || (b =? 255)) eqn:Ez.
    + destruct (Nat.eqb i 0) eqn:Ei; cbn [negb andb].
      * apply Nat.eqb_eq in Ei. rewrite (Hn eq_refl Ei). exists done. split.
        -- constructor; cbn; auto; try discriminate. intros _. repeat split; auto; try lia.
           all: try (apply orb_true_iff in Ez; destruct Ez as [E|E]; apply N.eqb_eq in E; auto).
        -- unfold pending; cbn. rewrite Ec. rewrite (Hn eq_refl Ei). rewrite app_nil_r. reflexivity.
      * assert (Hlen : N.of_nat (length (nonc s)) < 2^62).
        { rewrite app_length in Hsz. unfold pending in Hsz. rewrite Ec in Hsz.
          change (2^61) with 2305843009213693952 in Hsz. change (2^62) with 4611686018427387904. lia. }
        exists (done ++ nonc s). split.
        -- constructor; cbn; auto; try discriminate.
           ++ apply Tok_app; auto. apply Tok_nonc; auto.
           ++ intros _. repeat split; auto; try lia.
              all: try (apply orb_true_iff in Ez; destruct Ez as [E|E]; apply N.eqb_eq in E; auto).
        -- unfold pending; cbn. rewrite Ec. reflexivity.
    + exists done. split.
      * constructor; cbn; auto; try discriminate.
      * unfold pending; cbn. rewrite Ec. rewrite app_assoc. reflexivity.
Qed.

Lemma erun_inv : forall bs s i done,
  Inv s i done ->
  N.of_nat (length (done ++ pending s) + length bs) < 2^61 ->
  exists done', Inv (erun s i bs) (i + length bs) done' /\
                done' ++ pending (erun s i bs) = (done ++ pending s) ++ bs.
Proof.
  induction bs as [|b r IH]; intros s i done HI Hsz.
  - exists done. cbn. rewrite Nat.add_0_r, app_nil_r. auto.
  - cbn [erun length].
    destruct (estep_inv s i done b HI) as (d1 & HI1 & E1).
    { cbn [length] in Hsz. lia. }
    destruct (IH (estep s i b) (S i) d1 HI1) as (d2 & HI2 & E2).
    { rewrite E1, app_length. cbn [length] in *. lia. }
    exists d2. split.
    + replace (i + S (length r))%nat with (S i + length r)%nat by lia. exact HI2.
    + rewrite E2, E1, <- app_assoc. reflexivity.
Qed.

Theorem rle_roundtrip : forall bs, N.of_nat (length bs) < 2^61 ->
  rle_decode (rle_encode bs) = Some bs.
Proof.
  intros bs Hsz. unfold rle_encode.
  set (s0 := mk 0 false 0 [] []).
  assert (HI0 : Inv s0 O []).
  { constructor; cbn; auto; try discriminate. apply Tok_nil. }
  destruct (erun_inv bs s0 O [] HI0) as (d & [Htok Hc Hn] & E).
  { cbn. exact Hsz. }
  cbn [app] in E. unfold pending at 2 in E. cbn in E.
  set (s := erun s0 0 bs) in *.
  assert (Hlen : N.of_nat (length (d ++ pending s)) < 2^61) by (rewrite E; exact Hsz).
  unfold efinish. unfold pending in E, Hlen.
  destruct (contig s) eqn:Ec.
  - destruct (Hc eq_refl) as (Hp & _ & _).
    assert (Hl : len s < 2^61) by (rewrite app_length, repeat_length in Hlen; lia).
    pose proof (Tok_app _ _ _ _ Htok (Tok_contig (len s) (prev s) Hp Hl) [] [] eq_refl) as R.
    rewrite !app_nil_r in R. fold (D (out s ++ wr_contig (len s) (prev s))) . rewrite R, E. reflexivity.
  - assert (Hl : N.of_nat (length (nonc s)) < 2^62).
    { rewrite app_length in Hlen. change (2^61) with 2305843009213693952 in Hlen. change (2^62) with 4611686018427387904. lia. }
    pose proof (Tok_app _ _ _ _ Htok (Tok_nonc (nonc s) Hl) [] [] eq_refl) as R.
    rewrite !app_nil_r in R. fold (D (out s ++ wr_nonc (nonc s))). rewrite R, E. reflexivity.
Qed.
Print Assumptions rle_roundtrip.
