From Coq Require Import List NArith Lia Bool ZArith ZifyBool ZifyNat ZifyN.
Require Import Varint.
Import ListNotations.
Ltac Zify.zify_post_hook ::= Z.div_mod_to_equations.
Open Scope N_scope.

Record est := mk { len : N; contig : bool; prev : N; nonc : list N; out : list N }.

Definition wr_contig (l p : N) : list N := venc (l * 4 + 1 + (if p =? 255 then 2 else 0)).
Definition wr_nonc (nc : list N) : list N := venc (2 * N.of_nat (length nc)) ++ nc.

Definition estep (s : est) (i : nat) (b : N) : est :=
  if contig s && (b =? prev s) then mk (len s + 1) true (prev s) (nonc s) (out s)
  else
    let out1 := if contig s then out s ++ wr_contig (len s) (prev s) else out s in
    if (b =? 0) || (b =? 255) then
      let flush := negb (contig s) && negb (Nat.eqb i 0) in
      mk 1 true b (if flush then [] else nonc s) (if flush then out1 ++ wr_nonc (nonc s) else out1)
    else mk (len s) false (prev s) (nonc s ++ [b]) out1.

Fixpoint erun (s : est) (i : nat) (bs : list N) : est :=
  match bs with [] => s | b :: r => erun (estep s i b) (S i) r end.
Definition efinish (s : est) : list N :=
  if contig s then out s ++ wr_contig (len s) (prev s) else out s ++ wr_nonc (nonc s).
Definition rle_encode (bs : list N) : list N := efinish (erun (mk 0 false 0 [] []) O bs).

Fixpoint rdec (fuel : nat) (buf : list N) : option (list N) :=
  match fuel with
  | O => match buf with [] => Some [] | _ => None end
  | S k =>
    match buf with
    | [] => Some []
    | _ => match vdec buf with
           | None => None
           | Some (next, c) =>
             let rest := skipn c buf in
             if next mod 2 =? 1 then
               match rdec k rest with None => None | Some t =>
                 Some (repeat (if (next / 2) mod 2 =? 1 then 255 else 0) (N.to_nat (next / 4)) ++ t) end
             else
               let l := N.to_nat (next / 2) in
               if (length rest <? l)%nat then None else
               match rdec k (skipn l rest) with None => None | Some t => Some (firstn l rest ++ t) end
           end
    end
  end.
Definition rle_decode (buf : list N) : option (list N) := rdec (length buf) buf.

Eval vm_compute in rle_encode [255;255;85;84;0;0;0;183].
Eval vm_compute in rle_decode (rle_encode [255;255;85;84;0;0;0;183]).
Eval vm_compute in rle_encode [].
Eval vm_compute in rle_decode (rle_encode [0;5;0;255;255;7;7;0]).
