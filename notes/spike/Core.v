(* Spike: the rollback argument for one remote player, sticky prediction, no ring, no window. *)
From Coq Require Import List Arith Lia Bool.
Import ListNotations.

Section Core.
Variable input : Type.
Variable eqb : input -> input -> bool.
Hypothesis eqb_spec : forall a b, reflect (a = b) (eqb a b).
Variable dflt : input.
Variable predf : input -> input.
Hypothesis predf_idem : forall x, predf (predf x) = predf x.

Record st := mk {
  reals : list input;          (* real inputs of frames 0..n-1 *)
  hist : list input;           (* what the game used for frames 0..cur-1 *)
  pred : option (nat * input); (* next frame to compare, sticky value *)
  bad : option nat;            (* first_incorrect *)
  lreq : option nat }.         (* last_requested *)

Definition predval (rs : list input) : input :=
  match rev rs with [] => dflt | x :: _ => predf x end.

(* add_input_by_frame *)
Definition push (s : st) (x : input) : st :=
  let n := length (reals s) in
  match pred s with
  | None => mk (reals s ++ [x]) (hist s) None (bad s) (lreq s)
  | Some (p, v) =>
      let bad' := match bad s with None => if eqb v x then None else Some n | b => b end in
      let pred' := match bad', lreq s with
                   | None, Some r => if Nat.eqb p r then None else Some (S p, v)
                   | _, _ => Some (S p, v) end in
      mk (reals s ++ [x]) (hist s) pred' bad' (lreq s)
  end.

(* InputQueue::input *)
Definition input_at (s : st) (g : nat) : st * input :=
  let s1 := mk (reals s) (hist s) (pred s) (bad s) (Some g) in
  match pred s with
  | Some (_, v) => (s1, v)
  | None =>
      match nth_error (reals s) g with
      | Some x => (s1, x)
      | None => let v := predval (reals s) in
                (mk (reals s) (hist s) (Some (length (reals s), v)) (bad s) (Some g), v)
      end
  end.

Definition sim (s : st) : st :=
  let g := length (hist s) in
  let (s1, x) := input_at s g in
  mk (reals s1) (hist s1 ++ [x]) (pred s1) (bad s1) (lreq s1).

Fixpoint simn (k : nat) (s : st) : st := match k with O => s | S k' => simn k' (sim s) end.

Definition advance (s : st) : st :=
  let cur := length (hist s) in
  let s1 := match bad s with
            | None => s
            | Some r => simn (cur - r) (mk (reals s) (firstn r (hist s)) None None None)
            end in
  sim s1.

(* A.2 specialised *)
Definition used_ok (s : st) (upto : nat) : Prop :=
  forall g, g < upto -> g < length (hist s) ->
    nth_error (hist s) g = Some (match nth_error (reals s) g with Some x => x | None => predval (reals s) end).

Record Inv (s : st) : Prop := {
  i_used : match bad s with None => used_ok s (length (hist s)) | Some b => used_ok s b end;
  i_bad : forall b, bad s = Some b -> b < length (hist s) /\ b < length (reals s) /\
            (exists x y, nth_error (hist s) b = Some x /\ nth_error (reals s) b = Some y /\ x <> y);
  i_pred : forall p v, pred s = Some (p, v) -> bad s = None -> p = length (reals s) /\ v = predval (reals s);
  i_pred_bad : forall p v b, pred s = Some (p, v) -> bad s = Some b -> p = length (reals s);
  i_none : pred s = None -> length (hist s) <= length (reals s);
  i_lreq : pred s <> None -> lreq s = Some (length (hist s) - 1) /\ 0 < length (hist s) }.

End Core.
