From Coq Require Import List Arith Lia Bool.
Require Import Core.
Import ListNotations.

Definition S0 := mk nat [] [] None None None.
Inductive op := R (x : nat) | A.
Definition step (pf : nat -> nat) (s : st nat) (o : op) : st nat :=
  match o with R x => push nat Nat.eqb s x | A => advance nat 0 pf s end.
Fixpoint agree (h r : list nat) : bool :=
  match h, r with x :: h', y :: r' => Nat.eqb x y && agree h' r' | _, _ => true end.
(* after an Advance, all frames with real input must equal it *)
Fixpoint run_ok (pf : nat -> nat) (s : st nat) (ops : list op) : bool :=
  match ops with
  | [] => true
  | o :: r => let s' := step pf s o in
              (match o with A => agree (hist nat s') (reals nat s') | _ => true end) && run_ok pf s' r
  end.
Fixpoint all_seqs (n : nat) : list (list op) :=
  match n with O => [[]] | S k => flat_map (fun l => [R 0 :: l; R 1 :: l; A :: l]) (all_seqs k) end.
Eval vm_compute in (length (all_seqs 11), forallb (run_ok (fun x => x) S0) (all_seqs 11), forallb (run_ok (fun _ => 0) S0) (all_seqs 11)).
(* a non-idempotent predictor should break it *)
Eval vm_compute in (forallb (run_ok (fun x => (x + 1) mod 2) S0) (all_seqs 11)).
