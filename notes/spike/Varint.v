From Coq Require Import List NArith Lia Bool.
Import ListNotations.
Require Import ZArith ZifyBool ZifyNat ZifyN.
Ltac Zify.zify_post_hook ::= Z.div_mod_to_equations.
Open Scope N_scope.

Fixpoint venc_fuel (fuel : nat) (n : N) : list N :=
  match fuel with
  | O => [n]
  | S k => if n <=? 127 then [n] else (n mod 128 + 128) :: venc_fuel k (n / 128)
  end.
(* u64 values need at most 10 bytes *)
Definition venc (n : N) : list N := venc_fuel 9 n.

Fixpoint vdec_go (buf : list N) (val fac : N) (cnt : nat) : option (N * nat) :=
  match buf with
  | [] => None
  | b :: rest =>
      let val' := val + fac * (b mod 128) in
      if b <? 128 then Some (val', S cnt) else vdec_go rest val' (fac * 128) (S cnt)
  end.
Definition vdec (buf : list N) : option (N * nat) := vdec_go buf 0 1 O.

Lemma vdec_go_venc_fuel : forall fuel n rest val fac cnt,
  n < 128 ^ N.of_nat (S fuel) ->
  vdec_go (venc_fuel fuel n ++ rest) val fac cnt
  = Some (val + fac * n, (cnt + length (venc_fuel fuel n))%nat).
Proof.
  induction fuel as [|k IH]; intros n rest val fac cnt Hsz.
  - change (128 ^ N.of_nat 1) with 128 in Hsz.
    cbn [venc_fuel app vdec_go length].
    assert (n <? 128 = true) as -> by (apply N.ltb_lt; lia).
    rewrite N.mod_small by lia. replace (length [n]) with 1%nat by reflexivity. replace (cnt + 1)%nat with (S cnt) by lia. reflexivity.
  - cbn [venc_fuel]. destruct (N.leb_spec n 127) as [Hle|Hgt].
    + cbn [app vdec_go length]. assert (n <? 128 = true) as -> by (apply N.ltb_lt; lia).
      rewrite N.mod_small by lia. replace (length [n]) with 1%nat by reflexivity. replace (cnt + 1)%nat with (S cnt) by lia. reflexivity.
    + cbn [app vdec_go length].
      assert ((n mod 128 + 128) <? 128 = false) as -> by (apply N.ltb_ge; lia).
      assert (Hm : (n mod 128 + 128) mod 128 = n mod 128).
      { pose proof (N.mod_lt n 128 ltac:(lia)).
        rewrite <- (N.mul_1_l 128) at 2. rewrite N.mod_add by lia. apply N.mod_small; lia. }
      rewrite Hm. rewrite IH.
      * f_equal. f_equal; [|lia].
        pose proof (N.div_mod n 128 ltac:(lia)). lia.
      * apply N.div_lt_upper_bound; [lia|].
        replace (N.of_nat (S (S k))) with (N.succ (N.of_nat (S k))) in Hsz by lia.
        rewrite N.pow_succ_r' in Hsz. exact Hsz.
Qed.

Theorem vdec_venc : forall n rest, n < 2^64 ->
  vdec (venc n ++ rest) = Some (n, length (venc n)).
Proof.
  intros n rest H. unfold vdec, venc. rewrite vdec_go_venc_fuel.
  - f_equal. f_equal. lia.
  - eapply N.lt_trans; [exact H|]. reflexivity.
Qed.
Print Assumptions vdec_venc.
