use ggrs::*;
use std::cell::RefCell;
use std::rc::Rc;
use std::time::{Duration, Instant};

type Addr = u8;
#[derive(Default)]
struct Net { q: Vec<(Addr, Addr, Message)>, drop: Vec<(Addr, Addr)> }
struct Sock { me: Addr, net: Rc<RefCell<Net>> }
impl NonBlockingSocket<Addr> for Sock {
    fn send_to(&mut self, msg: &Message, addr: &Addr) {
        let mut n = self.net.borrow_mut();
        if n.drop.contains(&(self.me, *addr)) { return; }
        n.q.push((self.me, *addr, msg.clone()));
    }
    fn receive_all_messages(&mut self) -> Vec<(Addr, Message)> {
        let mut n = self.net.borrow_mut();
        let mut out = vec![]; let mut rest = vec![];
        for (f, t, m) in n.q.drain(..) { if t == self.me { out.push((f, m)); } else { rest.push((f, t, m)); } }
        n.q = rest; out
    }
}
#[derive(Debug)]
struct Cfg;
impl Config for Cfg { type Input = u8; type InputPredictor = PredictRepeatLast; type State = u64; type Address = Addr; }

struct Game { frame: i32, state: u64, log: Vec<(i32, Vec<(u8, InputStatus)>)> }
impl Game {
    fn handle(&mut self, reqs: Vec<GgrsRequest<Cfg>>) {
        for r in reqs { match r {
            GgrsRequest::SaveGameState { cell, frame } => { assert_eq!(frame, self.frame); cell.save(frame, Some(self.state), Some(self.state as u128)); }
            GgrsRequest::LoadGameState { cell, frame } => { self.state = cell.load().unwrap(); self.frame = frame; }
            GgrsRequest::AdvanceFrame { inputs } => {
                for (i, (v, _)) in inputs.iter().enumerate() { self.state = self.state.wrapping_mul(1000003).wrapping_add(*v as u64 + 7 * i as u64 + 1); }
                self.log.retain(|(f, _)| *f < self.frame); self.log.push((self.frame, inputs)); self.frame += 1;
            }
        } }
    }
}
fn mk(me: Addr, net: &Rc<RefCell<Net>>, maxpred: usize) -> P2PSession<Cfg> {
    let mut b = SessionBuilder::<Cfg>::new().with_num_players(3).unwrap().with_max_prediction_window(maxpred)
        .with_disconnect_timeout(Duration::from_millis(400)).with_disconnect_notify_delay(Duration::from_millis(100));
    for h in 0..3u8 { b = b.add_player(if h + 1 == me { PlayerType::Local } else { PlayerType::Remote(h + 1) }, h as usize).unwrap(); }
    b.start_p2p_session(Sock { me, net: net.clone() }).unwrap()
}
fn run(maxpred: usize, starve: usize) {
    let net = Rc::new(RefCell::new(Net::default()));
    let mut s: Vec<P2PSession<Cfg>> = (1..=3).map(|a| mk(a, &net, maxpred)).collect();
    let mut g: Vec<Game> = (0..3).map(|_| Game { frame: 0, state: 0, log: vec![] }).collect();
    let t0 = Instant::now();
    while s.iter().any(|x| x.current_state() != SessionState::Running) && t0.elapsed() < Duration::from_secs(5) { for x in s.iter_mut() { x.poll_remote_clients(); } }
    let mut evs: Vec<Vec<String>> = vec![vec![]; 3];
    let res = std::panic::catch_unwind(std::panic::AssertUnwindSafe(|| {
    for tick in 0..260 {
        if tick == 30 { net.borrow_mut().drop.push((3, 2)); } // C's packets to B lost
        let alive = if tick >= 30 + starve { 2 } else { 3 };
        if tick == 30 + starve { let mut n = net.borrow_mut(); n.drop.push((3, 1)); n.drop.push((3,2)); }
        for i in 0..alive {
            s[i].add_local_input(i, ((tick * (i + 3)) % 5) as u8).unwrap();
            match s[i].advance_frame() { Ok(r) => g[i].handle(r), Err(e) => { let _ = e; } }
            for e in s[i].events() { let d = format!("{:?}", e); if !d.starts_with("Sync") { evs[i].push(format!("t{tick}:{d}")); } }
        }
        std::thread::sleep(Duration::from_millis(4));
    }}));
    println!("SX maxpred={maxpred} starve={starve} panic={} frames A={} B={} stateA={} stateB={}", res.is_err(), g[0].frame, g[1].frame, g[0].state, g[1].state);
    println!("SX   evA={:?}", evs[0]); println!("SX   evB={:?}", evs[1]);
    let n = g[0].frame.min(g[1].frame);
    for f in 0..n { let a = g[0].log.iter().find(|x| x.0 == f); let b = g[1].log.iter().find(|x| x.0 == f);
        if a.map(|x| x.1.iter().map(|y| y.0).collect::<Vec<_>>()) != b.map(|x| x.1.iter().map(|y| y.0).collect::<Vec<_>>()) { println!("SX   first diff at frame {f}: A={:?} B={:?}", a, b); break; } }
}
#[test] fn sx_1() { run(8, 0); }
#[test] fn sx_4() { run(8, 1); }
#[test] fn sx_5() { run(8, 2); }
#[test] fn sx_2() { run(8, 3); }
#[test] fn sx_3() { run(8, 7); }
