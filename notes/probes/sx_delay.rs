use ggrs::*;
use std::cell::RefCell;
use std::rc::Rc;
use std::time::{Duration, Instant};
type Addr = u8;
#[derive(Default)]
struct Net { q: Vec<(Addr, Addr, Message)> }
struct Sock { me: Addr, net: Rc<RefCell<Net>> }
impl NonBlockingSocket<Addr> for Sock {
    fn send_to(&mut self, msg: &Message, addr: &Addr) { self.net.borrow_mut().q.push((self.me, *addr, msg.clone())); }
    fn receive_all_messages(&mut self) -> Vec<(Addr, Message)> {
        let mut n = self.net.borrow_mut();
        let mut out = vec![]; let mut rest = vec![];
        for (f, t, m) in n.q.drain(..) { if t == self.me { out.push((f, m)); } else { rest.push((f, t, m)); } }
        n.q = rest; out
    }
}
#[derive(Debug)]
struct Cfg;
impl Config for Cfg { type Input = u8; type InputPredictor = PredictRepeatLast; type State = u64; type Address = Addr; }
struct Game { frame: i32, state: u64, log: Vec<Vec<u8>> }
impl Game {
    fn handle(&mut self, reqs: Vec<GgrsRequest<Cfg>>) {
        for r in reqs { match r {
            GgrsRequest::SaveGameState { cell, frame } => { assert_eq!(frame, self.frame); cell.save(frame, Some(self.state), Some(self.state as u128)); }
            GgrsRequest::LoadGameState { cell, frame } => { self.state = cell.load().unwrap(); self.frame = frame; }
            GgrsRequest::AdvanceFrame { inputs } => {
                self.log.truncate(self.frame as usize); self.log.push(inputs.iter().map(|x| x.0).collect()); self.frame += 1;
            }
        } }
    }
}
fn run(name: &str, spectator: bool, script: &[(usize, usize)]) {
    let net = Rc::new(RefCell::new(Net::default()));
    let mk = |me: Addr| {
        let mut b = SessionBuilder::<Cfg>::new().with_num_players(2).unwrap();
        for h in 0..2u8 { b = b.add_player(if h + 1 == me { PlayerType::Local } else { PlayerType::Remote(h + 1) }, h as usize).unwrap(); }
        if spectator && me == 1 { b = b.add_player(PlayerType::Spectator(9), 2).unwrap(); }
        b.start_p2p_session(Sock { me, net: net.clone() }).unwrap()
    };
    let mut s = vec![mk(1), mk(2)];
    let mut spec = SessionBuilder::<Cfg>::new().with_num_players(2).unwrap().start_spectator_session(1, Sock { me: 9, net: net.clone() });
    let mut g: Vec<Game> = (0..2).map(|_| Game { frame: 0, state: 0, log: vec![] }).collect();
    let t0 = Instant::now();
    while s.iter().any(|x| x.current_state() != SessionState::Running) && t0.elapsed() < Duration::from_secs(5) { for x in s.iter_mut() { x.poll_remote_clients(); } if spectator { spec.poll_remote_clients(); } }
    let res = std::panic::catch_unwind(std::panic::AssertUnwindSafe(|| {
    for tick in 0..120usize {
        for &(t, d) in script { if t == tick { s[0].set_input_delay(0, d).unwrap(); } }
        for i in 0..2 {
            s[i].add_local_input(i, (10 + tick * (i + 1) % 200) as u8).unwrap();
            match s[i].advance_frame() { Ok(r) => g[i].handle(r), Err(_) => {} }
        }
        if spectator { let _ = spec.advance_frame(); }
    }}));
    let n = g[0].frame.min(g[1].frame) as usize;
    let mut diff = None;
    for f in 0..n.saturating_sub(10) { if g[0].log[f] != g[1].log[f] { diff = Some((f, g[0].log[f].clone(), g[1].log[f].clone())); break; } }
    println!("SX {name}: panic={} frames A={} B={} firstdiff={:?}", res.is_err(), g[0].frame, g[1].frame, diff);
}
#[test] fn sx_single_up() { run("single 0->3 @20", false, &[(20, 3)]); }
#[test] fn sx_double_up() { run("double 0->3,3->5 @20", false, &[(20, 3), (20, 5)]); }
#[test] fn sx_down_up() { run("3@0, 3->1 @20, 1->3 @21", false, &[(0, 3), (20, 1), (21, 3)]); }
#[test] fn sx_spec_up() { run("spectator + 0->3 @20", true, &[(20, 3)]); }
