use ggrs::*;
use std::cell::RefCell;
use std::collections::VecDeque;
use std::rc::Rc;
use std::time::{Duration, Instant};

type Addr = u8;
#[derive(Default)]
struct Net { q: Vec<(Addr, Addr, Message)>, drop_from: Option<Addr>, dropped: usize, log: bool }
struct Sock { me: Addr, net: Rc<RefCell<Net>> }
impl NonBlockingSocket<Addr> for Sock {
    fn send_to(&mut self, msg: &Message, addr: &Addr) {
        let mut n = self.net.borrow_mut();
        if n.drop_from == Some(self.me) { n.dropped += 1; return; }
        n.q.push((self.me, *addr, msg.clone()));
    }
    fn receive_all_messages(&mut self) -> Vec<(Addr, Message)> {
        let mut n = self.net.borrow_mut();
        let mut out = vec![]; let mut rest = vec![];
        for (f, t, m) in n.q.drain(..) { if t == self.me { out.push((f, m)); } else { rest.push((f, t, m)); } }
        n.q = rest; out
    }
}
#[derive(Debug)]
struct Cfg;
impl Config for Cfg { type Input = u8; type InputPredictor = PredictRepeatLast; type State = u64; type Address = Addr; }

fn run(spec_maxpred: usize, outage_frames: usize) {
    let net = Rc::new(RefCell::new(Net::default()));
    let mut host = SessionBuilder::<Cfg>::new().with_num_players(1).unwrap()
        .add_player(PlayerType::Local, 0).unwrap()
        .add_player(PlayerType::Spectator(2), 1).unwrap()
        .start_p2p_session(Sock { me: 1, net: net.clone() }).unwrap();
    let mut spec = SessionBuilder::<Cfg>::new().with_num_players(1).unwrap()
        .with_max_prediction_window(spec_maxpred)
        .start_spectator_session(1, Sock { me: 2, net: net.clone() });
    let t0 = Instant::now();
    while (host.current_state() != SessionState::Running || spec.current_state() != SessionState::Running) && t0.elapsed() < Duration::from_secs(5) {
        host.poll_remote_clients(); spec.poll_remote_clients();
    }
    assert_eq!(spec.current_state(), SessionState::Running);
    let mut spec_frames = 0; let mut host_events = vec![];
    for tick in 0..400 {
        // outage in the spectator->host direction for some frames
        net.borrow_mut().drop_from = if tick >= 20 && tick < 20 + outage_frames { Some(2) } else { None };
        host.add_local_input(0, (tick % 7) as u8).unwrap();
        for r in host.advance_frame().unwrap() { let _ = r; }
        for e in host.events() { host_events.push(format!("{:?}", e)); }
        match spec.advance_frame() { Ok(rs) => spec_frames += rs.len(), Err(_) => {} }
        std::thread::sleep(Duration::from_millis(5));
    }
    println!("SX spec_maxpred={spec_maxpred} outage={outage_frames}: host_frame={} spec_frame={} advanced={} behind={} dropped={} host_events={:?}",
        host.current_frame(), spec.current_frame(), spec_frames, spec.frames_behind_host(), net.borrow().dropped, host_events);
}
#[test] fn sx_a() { run(8, 5); }
#[test] fn sx_b() { run(8, 25); }
#[test] fn sx_c() { run(0, 1); }
#[test] fn sx_d() { run(1, 4); }
