(* L1: InputQueue.  ops: new <repeat|default> | add f v | input f | confirmed f | discard f | reset | delay d | fi *)
open Conv
let q = ref Model.q_new
let pred = ref (fun (x : Model.z) -> x)
let zs = fun z -> string_of_int (int_of_z z)
let st = function Model.Confirmed -> "C" | Model.Predicted -> "P" | Model.Disconnected -> "D"
let dead = ref false
let handle (_dbg : bool) (toks : string list) : string =
  let r = (match toks with
  | "new" :: _ -> dead := false; "" | _ -> "") in ignore r;
  if !dead then "dead" else
  let res = match toks with
  | ["new"; p] -> q := Model.q_new; pred := (if p = "repeat" then (fun x -> x) else (fun _ -> Model.Z0)); "ok"
  | ["add"; f; v] ->
      (match Model.add_input !q (z_of_int (int_of_string f)) (z_of_int (int_of_string v)) with
       | Model.Ok (q', r) -> q := q'; "ok " ^ zs r
       | _ -> "panic")
  | ["input"; f] ->
      (match Model.input !pred !q (z_of_int (int_of_string f)) with
       | Model.Ok (q', (v, s)) -> q := q'; "ok " ^ zs v ^ " " ^ st s
       | _ -> "panic")
  | ["confirmed"; f] ->
      (match Model.confirmed_input !q (z_of_int (int_of_string f)) with
       | Model.Ok pi -> "ok " ^ zs pi.Model.pi_frame ^ " " ^ zs pi.Model.pi_val
       | _ -> "panic")
  | ["discard"; f] ->
      (* `self.length -= offset` is usize arithmetic: the model keeps the length in Z (coq/Queue.v), and a negative
         result is the dev profile's "attempt to subtract with overflow" - reachable only by discarding below an
         earlier discard, which no session does (confirmed frames are monotone) but this level's scripts may *)
      let q' = Model.discard_confirmed_frames !q (z_of_int (int_of_string f)) in
      if _dbg && int_of_z q'.Model.q_length < 0 then "panic" else (q := q'; "ok")
  | ["reset"] -> q := Model.reset_prediction !q; "ok"
  | ["delay"; d] ->
      (match Model.set_frame_delay !q (z_of_int (int_of_string d)) with
       | Model.Ok (q', fills) -> q := q'; "ok " ^ (if fills = [] then "." else String.concat "," (List.map (fun pi -> zs pi.Model.pi_frame ^ ":" ^ zs pi.Model.pi_val) fills))
       | _ -> "panic")
  | ["fi"] -> "ok " ^ zs (!q).Model.q_first_incorrect
  | _ -> "badop" in
  if res = "panic" then dead := true; res
