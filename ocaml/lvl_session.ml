(* Level `session`: the P2P session core model driven by the same scripts as harness/src/session.rs.
   Endpoint events are queued by rin/gossip/epdisc and applied, in order, by the next poll/advance. *)
open Conv
type ev = EvInput of int * int * int list | EvGossip of int * (bool * int) list | EvDisc of int
let st : Model.p2p option ref = ref None
let pred = ref (fun (x : Model.z) -> x)
let queue : ev list ref = ref []
let dead = ref false
let ep_handles : (int * int list) list ref = ref []
let nremote = ref 0
let zi = z_of_int and iz = int_of_z

let fmt_status (p : Model.p2p) =
  String.concat "," (List.map (fun c -> (if c.Model.cs_disc then "1" else "0") ^ ":" ^ string_of_int (iz c.Model.cs_last)) p.Model.ps_status)
let stc = function Model.Confirmed -> "C" | Model.Predicted -> "P" | Model.Disconnected -> "D"
let fmt_req = function
  | Model.RSave f -> "S" ^ string_of_int (iz f)
  | Model.RLoad f -> "L" ^ string_of_int (iz f)
  | Model.RAdvance ins -> "A(" ^ String.concat "," (List.map (fun (v, s) -> string_of_int (iz v) ^ stc s) ins) ^ ")"
let fmt_rsends (l : (Model.z * Model.pinput) list list) =
  String.concat ";" (List.map (fun m ->
    let f = match m with (_, pi) :: _ -> List.fold_left (fun acc (_, pi) -> if iz pi.Model.pi_frame >= 0 then iz pi.Model.pi_frame else acc) (iz pi.Model.pi_frame) m | [] -> -1 in
    string_of_int f ^ ":" ^ String.concat "/" (List.map (fun (_, pi) -> string_of_int (iz pi.Model.pi_val)) m)) l)
let fmt_ssends (l : (Model.z * Model.pinput list) list) =
  String.concat ";" (List.map (fun (f, m) -> string_of_int (iz f) ^ ":" ^ String.concat "/" (List.map (fun pi -> string_of_int (iz pi.Model.pi_val)) m)) l)

exception Panicked
let unres = function Model.Ok x -> x | _ -> raise Panicked

(* applies the queued endpoint events to the model, as poll_remote_clients does *)
let apply_events (p : Model.p2p) : Model.p2p =
  let evs = List.rev !queue in
  queue := [];
  List.fold_left (fun p e ->
    match e with
    | EvGossip (ep, stl) ->
        Model.gossip p (zi ep) (List.map (fun (d, l) -> { Model.cs_disc = d; Model.cs_last = zi l }) stl)
    | EvInput (ep, frame, vals) ->
        let hs = List.assoc ep !ep_handles in
        List.fold_left2 (fun p h v -> unres (Model.ev_input p (zi h) (zi frame) (zi v))) p hs vals
    | EvDisc ep ->
        (* an endpoint raises Disconnected for a disconnect request only while it is not yet
           Disconnected (UdpProtocol::on_input); the session view of that is ev_running *)
        let running =
          if ep < !nremote then (match List.nth_opt p.Model.ps_remotes ep with Some e -> e.Model.ev_running | None -> false)
          else (match List.nth_opt p.Model.ps_spectators (ep - !nremote) with Some b -> b | None -> false) in
        if not running then p else
        let hs = List.assoc ep !ep_handles in
        unres (Model.ev_disconnected p (List.map zi hs))) p evs

let parse_status s = List.map (fun x -> match String.split_on_char ':' x with [d; l] -> (d = "1", int_of_string l) | _ -> (false, -1)) (String.split_on_char ',' s)

let handle (_dbg : bool) (toks : string list) : string =
  (match toks with "new" :: _ -> dead := false | _ -> ());
  if !dead then "dead" else
  try
    match toks with
    | "new" :: args ->
        let get k d = List.fold_left (fun acc a -> match String.split_on_char '=' a with [k'; v] when k' = k -> v | _ -> acc) d args in
        let players = int_of_string (get "players" "2") and window = int_of_string (get "window" "8") in
        let sparse = get "sparse" "0" = "1" and delay = int_of_string (get "delay" "0") in
        let kinds = String.split_on_char ',' (get "kinds" "L,R0") and nspec = int_of_string (get "spectators" "0") in
        pred := (if get "pred" "repeat" = "repeat" then (fun x -> x) else (fun _ -> Model.Z0));
        (* remote endpoints are numbered by ascending ep id as in the harness *)
        let epids = List.sort_uniq compare (List.filter_map (fun k -> if k = "L" then None else Some (int_of_string (String.sub k 1 (String.length k - 1)))) kinds) in
        let idx ep = let rec go i = function [] -> 0 | x :: r -> if x = ep then i else go (i + 1) r in go 0 epids in
        let handles_of ep = List.filter_map (fun x -> x) (List.mapi (fun h k -> if k <> "L" && int_of_string (String.sub k 1 (String.length k - 1)) = ep then Some h else None) kinds) in
        ep_handles := List.mapi (fun i ep -> (i, handles_of ep)) epids;
        nremote := List.length epids;
        let mkinds = List.map (fun k -> if k = "L" then Model.KLocal else Model.KRemote (zi (idx (int_of_string (String.sub k 1 (String.length k - 1)))))) kinds in
        let remotes = List.map (fun ep -> { Model.ev_running = true; Model.ev_status = List.init players (fun _ -> { Model.cs_disc = false; Model.cs_last = zi (-1) }); Model.ev_handles = List.map zi (handles_of ep) }) epids in
        let spec_handles = List.init nspec (fun k -> (zi (players + k), zi k)) in
        (* spectator puppets are addressed after the remote ones: epdisc <nremote + k> *)
        ep_handles := !ep_handles @ List.init nspec (fun k -> (!nremote + k, [players + k]));
        st := Some (Model.p2p_new (zi players) (zi window) sparse (zi delay) mkinds spec_handles remotes (nat_of_int nspec));
        queue := [];
        "ok"
    | _ ->
      (match !st with
       | None -> "badop"
       | Some p ->
         (match toks with
          | ["sync"] -> st := Some (Model.with_running p true); "ok running"
          | ["local"; h; v] ->
              let (p', r) = Model.api_add_local_input p (zi (int_of_string h)) (zi (int_of_string v)) in
              st := Some p'; (match r with Model.AOk -> "ok" | _ -> "invalid")
          | ["poll"] ->
              let p' = apply_events p in st := Some p';
              "ok rs=[] ss=[] cur=" ^ string_of_int (iz p'.Model.ps_sync.Model.s_current) ^ " st=" ^ fmt_status p'
          | ["advance"] ->
              let p1 = apply_events p in
              let ((p2, o), r) = unres (Model.advance !pred p1) in
              st := Some p2;
              (match r with
               | Model.ANotSynchronized -> "notsync"
               | Model.AInvalidRequest -> "invalid"
               | Model.AOk ->
                   "ok R=[" ^ String.concat "," (List.map fmt_req o.Model.o_requests) ^ "] rs=[" ^ fmt_rsends o.Model.o_remote_sends
                   ^ "] ss=[" ^ fmt_ssends o.Model.o_spec_sends ^ "] cur=" ^ string_of_int (iz p2.Model.ps_sync.Model.s_current) ^ " st=" ^ fmt_status p2)
          | "rin" :: ep :: frame :: vals ->
              queue := EvInput (int_of_string ep, int_of_string frame, List.map int_of_string vals) :: !queue; "ok"
          | ["gossip"; ep; stl] -> queue := EvGossip (int_of_string ep, parse_status stl) :: !queue; "ok"
          | ["epdisc"; ep] -> queue := EvDisc (int_of_string ep) :: !queue; "ok"
          | ["delay"; h; d] ->
              let ((p', o), r) = unres (Model.api_set_input_delay p (zi (int_of_string h)) (zi (int_of_string d))) in
              st := Some p';
              (match r with Model.AOk -> "ok rs=[" ^ fmt_rsends o.Model.o_remote_sends ^ "] st=" ^ fmt_status p' | _ -> "invalid")
          | ["disc"; h] ->
              let (p', r) = unres (Model.api_disconnect_player p (zi (int_of_string h))) in
              st := Some p';
              (match r with Model.AOk -> "ok st=" ^ fmt_status p' | _ -> "invalid")
          | _ -> "badop"))
  with Panicked -> dead := true; "panic"
