(* Level `spectator`: the SpectatorSession model (coq/Spectator.v) driven by the same scripts as
   harness/src/spectator.rs.  The session logic is the extracted model; this file parses, prints
   and replays what the real host endpoint would turn the scripted Input messages into: the
   Event::Input events (one per player per NEW frame, in order) and the endpoint's
   peer_connect_status at the time the events are handled (UdpProtocol::on_input: statuses are
   merged for every accepted packet, frames are decoded only when the packet's base frame is still
   kept, only frames newer than the last received one produce events). *)
open Conv
let zi = z_of_int and iz = int_of_z

let st : Model.sp_state option ref = ref None
let dead = ref false
let players = ref 2
let synced = ref false
(* the endpoint as far as Input events depend on it *)
let max_prediction = 8                         (* SessionBuilder default; the level never changes it *)
let ep_last = ref (-1)                         (* newest frame in recv_inputs *)
let ep_keys : int list ref = ref [-1]          (* frames kept in recv_inputs *)
let ep_status : (bool * int) list ref = ref []
let inbox : (int * int * (bool * int) list) list ref = ref []   (* Input messages not yet polled, newest first *)

let value p f = 10 * f + p + 1

exception Panicked
let unres = function Model.Ok x -> x | _ -> raise Panicked

let parse_status s =
  List.map (fun x -> match String.split_on_char ':' x with [d; l] -> (d = "1", int_of_string l) | _ -> (false, -1))
    (String.split_on_char ',' s)

(* poll_remote_clients: every queued message goes through handle_message/on_input first, then the
   events of the poll are handled with the endpoint's statuses as they are by then *)
let poll (s : Model.sp_state) : Model.sp_state =
  let msgs = List.rev !inbox in
  inbox := [];
  let events = ref [] in
  List.iter (fun (first, count, status) ->
    if List.length status = !players && first >= 0 then begin
      ep_status := List.map2 (fun (d0, l0) (d, l) -> (d0 || d, max l0 l)) !ep_status status;
      let decode_frame = if !ep_last = -1 then -1 else first - 1 in
      if List.mem decode_frame !ep_keys then begin
        for f = first to first + count - 1 do
          if f > !ep_last then begin
            ep_keys := f :: !ep_keys; ep_last := f;
            for p = 0 to !players - 1 do events := (p, f) :: !events done
          end
        done;
        let oldest = min (!ep_last - 2 * max_prediction) (first - 1) in
        ep_keys := List.filter (fun k -> k >= oldest) !ep_keys
      end
    end) msgs;
  let status_now = List.map (fun (d, l) -> { Model.sp_cs_disc = d; Model.sp_cs_last = zi l }) !ep_status in
  List.fold_left (fun s (p, f) -> unres (Model.sp_handle_input s (zi p) (zi f) (zi (value p f)) status_now))
    s (List.rev !events)

let tail (s : Model.sp_state) =
  Printf.sprintf "cur=%d behind=%s" (iz s.Model.sp_current_frame)
    (match Model.sp_frames_behind s with Model.Ok b -> string_of_int (iz b) | _ -> "panic")

let err_name = function
  | Model.Sp_NotSynchronized -> "NotSynchronized"
  | Model.Sp_PredictionThreshold -> "PredictionThreshold"
  | Model.Sp_SpectatorTooFarBehind -> "SpectatorTooFarBehind"

let handle (_dbg : bool) (toks : string list) : string =
  (match toks with "new" :: _ -> dead := false | _ -> ());
  if !dead then "dead" else
  try
    match toks with
    | "new" :: args ->
        let get k d = List.fold_left (fun acc a -> match String.split_on_char '=' a with [k'; v] when k' = k -> int_of_string v | _ -> acc) d args in
        let n = get "players" 2 and m = get "maxbehind" 10 and c = get "catchup" 1 in
        st := None;
        (* the builder's argument checks (Builder model, C16): not part of this level *)
        if n < 1 || m < 1 || m >= iz Model.sPECTATOR_BUFFER_SIZE || c < 1 then "invalid" else begin
          players := n; synced := false; ep_last := -1; ep_keys := [-1]; inbox := [];
          ep_status := List.init n (fun _ -> (false, -1));
          st := Some (Model.sp_new (zi n) (zi m) (zi c));
          "ok"
        end
    | _ ->
      (match !st with
       | None -> "badop"
       | Some s ->
         (match toks with
          | ["sync"] ->
              (* the handshake completes; Input packets received while synchronizing were ignored *)
              let s' = if !synced then poll s else (inbox := []; Model.sp_handle_synchronized s) in
              synced := true; st := Some s';
              "ok running " ^ tail s'
          | "frames" :: first :: count :: rest ->
              if not !synced then "notsync" else begin
                let status = match rest with ["status"; x] -> parse_status x | _ -> List.init !players (fun _ -> (false, -1)) in
                inbox := (int_of_string first, int_of_string count, status) :: !inbox;
                "ok"
              end
          | ["poll"] ->
              let s' = if !synced then poll s else s in
              st := Some s'; "ok " ^ tail s'
          | ["advance"] ->
              let s1 = if !synced then poll s else s in
              let before = iz s1.Model.sp_current_frame in
              let (s2, o) = unres (Model.sp_advance s1) in
              st := Some s2;
              (match o with
               | Model.Sp_Failed e -> "err " ^ err_name e ^ " " ^ tail s2
               | Model.Sp_Delivered l ->
                   let show i req =
                     Printf.sprintf "%d:(%s)" (before + 1 + i)
                       (String.concat "," (List.map (fun (v, stt) ->
                          string_of_int (iz v) ^ (match stt with Model.Sp_Confirmed -> "C" | Model.Sp_Disconnected -> "D")) req)) in
                   "ok " ^ (if l = [] then "-" else String.concat ";" (List.mapi show l)) ^ " " ^ tail s2)
          | _ -> "badop"))
  with Panicked -> dead := true; "panic"
