(* level `endpoint`: UdpProtocol endpoints (see harness/src/endpoint.rs for the op grammar).
   Parsing, printing, the virtual clock, the splitmix64 random source of ggrs::verif::rng and the
   per-link outboxes live here; every protocol decision is extracted Coq (Model.step & co). *)
open Conv

(* ---------- big decimal <-> Z (u128 fields exceed the native int) ---------- *)
let z_of_string (s : string) : Model.z =
  let neg = String.length s > 0 && s.[0] = '-' in
  let digits = if neg then String.sub s 1 (String.length s - 1) else s in
  if digits = "" then failwith "badnumber";
  String.iter (fun c -> if c < '0' || c > '9' then failwith "badnumber") digits;
  let v =
    if String.length digits <= 17 then z_of_int (int_of_string digits)
    else begin
      let acc = ref Model.Z0 in
      let ten = z_of_int 10 in
      String.iter (fun c -> acc := Model.Z.add (Model.Z.mul !acc ten) (z_of_int (Char.code c - 48))) digits;
      !acc
    end in
  if neg then Model.Z.sub Model.Z0 v else v

let rec string_of_z (x : Model.z) : string =
  match x with
  | Model.Z0 -> "0"
  | Model.Zneg p -> "-" ^ string_of_z (Model.Zpos p)
  | Model.Zpos _ ->
    let base = z_of_int 1000000000 in
    let q = Model.Z.div x base and r = int_of_z (Model.Z.modulo x base) in
    if q = Model.Z0 then string_of_int r else string_of_z q ^ Printf.sprintf "%09d" r

let z = z_of_string
let zi = z_of_int

(* ---------- ggrs::verif::rng (splitmix64), shared by all endpoints like the thread-local ---------- *)
let rng_state : int64 ref = ref 0L
let rng_peek (st : int64) : int64 * int =
  let s = Int64.add st 0x9E3779B97F4A7C15L in
  let x = s in
  let x = Int64.mul (Int64.logxor x (Int64.shift_right_logical x 30)) 0xBF58476D1CE4E5B9L in
  let x = Int64.mul (Int64.logxor x (Int64.shift_right_logical x 27)) 0x94D049BB133111EBL in
  let x = Int64.logxor x (Int64.shift_right_logical x 31) in
  (s, Int64.to_int (Int64.shift_right_logical x 32))
let rng_next () : int = let (s, v) = rng_peek !rng_state in rng_state := s; v

(* ---------- world ---------- *)
let now : int ref = ref 0
let eps : (int, Model.ep option) Hashtbl.t = Hashtbl.create 7     (* None: died in a panic *)
let peer : (int, int) Hashtbl.t = Hashtbl.create 7
let outbox : (int * int, Model.message list) Hashtbl.t = Hashtbl.create 7

let status_list (s : string) : Model.status list =
  if s = "-" then [] else
  List.map (fun e -> match String.split_on_char ':' e with
    | [d; f] -> (d = "1", z f)
    | _ -> failwith "badstatus") (String.split_on_char ',' s)
let show_status (l : Model.status list) : string =
  if l = [] then "-" else
  String.concat "," (List.map (fun (d, f) -> (if d then "1" else "0") ^ ":" ^ string_of_z f) l)

let show_msg (m : Model.message) : string =
  let b = match m.Model.m_body with
    | Model.SyncRequest n -> "sreq/" ^ string_of_z n
    | Model.SyncReply n -> "srep/" ^ string_of_z n
    | Model.Input (st, dr, sf, af, bytes) ->
      Printf.sprintf "input/%s/%d/%s/%s/%s" (show_status st) (if dr then 1 else 0) (string_of_z sf)
        (string_of_z af) (hex_of_bytes bytes)
    | Model.InputAck f -> "ack/" ^ string_of_z f
    | Model.QualityReport (a, p) -> "qrep/" ^ string_of_z a ^ "/" ^ string_of_z p
    | Model.QualityReply p -> "qrpl/" ^ string_of_z p
    | Model.ChecksumReport (c, f) -> "csum/" ^ string_of_z c ^ "/" ^ string_of_z f
    | Model.KeepAlive -> "ka" in
  string_of_z m.Model.m_magic ^ "/" ^ b

let show_event : Model.event -> string = function
  | Model.EvSynchronizing (t, c) -> "synchronizing/" ^ string_of_z t ^ "/" ^ string_of_z c
  | Model.EvSynchronized -> "synchronized"
  | Model.EvInput (f, v, p) -> "input/" ^ string_of_z f ^ "/" ^ string_of_z v ^ "/" ^ string_of_z p
  | Model.EvDisconnected -> "disconnected"
  | Model.EvNetworkInterrupted t -> "interrupted/" ^ string_of_z t
  | Model.EvNetworkResumed -> "resumed"

let join (l : string list) : string = if l = [] then "-" else String.concat ";" l

let parse_body : string list -> Model.body = function
  | ["sreq"; n] -> Model.SyncRequest (z n)
  | ["srep"; n] -> Model.SyncReply (z n)
  | ["input"; st; dr; sf; af; bytes] -> Model.Input (status_list st, dr = "1", z sf, z af, bytes_of_hex bytes)
  | ["ack"; f] -> Model.InputAck (z f)
  | ["qrep"; a; p] -> Model.QualityReport (z a, z p)
  | ["qrpl"; p] -> Model.QualityReply (z p)
  | ["csum"; c; f] -> Model.ChecksumReport (z c, z f)
  | ["ka"] -> Model.KeepAlive
  | _ -> failwith "badbody"

let state_name : Model.pstate -> string = function
  | Model.PInitializing -> "Initializing" | Model.PSynchronizing -> "Synchronizing"
  | Model.PRunning -> "Running" | Model.PDisconnected -> "Disconnected" | Model.PShutdown -> "Shutdown"

let kv (t : string) (key : string) : string =
  let p = key ^ "=" in
  let lp = String.length p in
  if String.length t >= lp && String.sub t 0 lp = p then String.sub t lp (String.length t - lp)
  else failwith "badkey"

(* prints the canonical line for endpoint [id] after an operation that produced [s] *)
let finish (id : int) (extra : string) (evs : Model.event list) (s : Model.ep) : string =
  let (out, s) = Model.drain s in
  Hashtbl.replace eps id (Some s);
  (match Hashtbl.find_opt peer id with
   | Some p ->
     let cur = (match Hashtbl.find_opt outbox (id, p) with Some q -> q | None -> []) in
     Hashtbl.replace outbox (id, p) (cur @ out)
   | None -> ());
  Printf.sprintf "ok%s | ev=%s | out=%s | st=%s po=%d ri=%d pc=%d sr=%d sq=%d eq=%d la=%s lr=%s adv=%s,%s rtt=%s pcs=%s run=%d syn=%d"
    extra (join (List.map show_event evs)) (join (List.map show_msg out))
    (state_name s.Model.u_state) (List.length s.Model.u_pending_output) (List.length s.Model.u_recv_inputs)
    (List.length s.Model.u_pending_checksums) (List.length s.Model.u_sync_requests)
    (List.length s.Model.u_send_queue) (List.length s.Model.u_event_queue)
    (string_of_z (fst s.Model.u_last_acked)) (string_of_z (Model.last_recv_frame s))
    (string_of_z s.Model.u_local_adv) (string_of_z s.Model.u_remote_adv) (string_of_z s.Model.u_rtt)
    (show_status s.Model.u_peer_status)
    (if Model.is_running s then 1 else 0) (if Model.is_synchronized s then 1 else 0)

let with_ep (id : int) (f : Model.ep -> string) : string =
  match Hashtbl.find_opt eps id with
  | None -> "noep"
  | Some None -> "dead"
  | Some (Some s) -> f s

let is_sreq (m : Model.message) : bool = match m.Model.m_body with Model.SyncRequest _ -> true | _ -> false

(* one model operation; [mk] receives the nonce the next send_sync_request would draw *)
let run_op (dbg : bool) (id : int) (mk : Model.z -> Model.op) : string =
  with_ep id (fun s ->
    let (_, nonce) = rng_peek !rng_state in
    match Model.step dbg (mk (zi nonce)) s with
    | Model.Ok (s', evs) ->
      (* the send queue was empty before the operation (it is drained after every one) *)
      let drawn = List.length (List.filter is_sreq s'.Model.u_send_queue) in
      for _ = 1 to drawn do ignore (rng_next ()) done;
      finish id "" evs s'
    | Model.Err -> Hashtbl.replace eps id None; "modelerr"
    | Model.Panic -> Hashtbl.replace eps id None; "panic")

let handle (dbg : bool) (toks : string list) : string =
  let t = zi !now in
  match toks with
  | ["seed"; s] -> rng_state := Int64.of_string ("0u" ^ s); "ok"
  | ["clock"; ms] -> now := int_of_string ms; "ok"
  | ["reset"] -> Hashtbl.reset eps; Hashtbl.reset peer; Hashtbl.reset outbox; "ok"
  | ["link"; a; b] -> Hashtbl.replace peer (int_of_string a) (int_of_string b); "ok"
  | ["new"; id; hs; np; lp; w; to_; nt; fps; ds] ->
    let id = int_of_string id in
    let hs = kv hs "handles" in
    let handles = if hs = "-" then [] else List.map z (String.split_on_char ',' hs) in
    let rec magic () = let v = (rng_next ()) land 0xFFFF in if v = 0 then magic () else v in
    let m = magic () in
    let ds = z (kv ds "desync") in
    let s = Model.ep_new t (zi m) handles (z (kv np "players")) (z (kv lp "local")) (z (kv w "window"))
        (z (kv to_ "timeout")) (z (kv nt "notify")) (z (kv fps "fps"))
        (if ds = Model.Z0 then None else Some ds) in
    finish id "" [] s
  | ["sync"; id] -> run_op dbg (int_of_string id) (fun n -> Model.OSynchronize (t, n))
  | ["disc"; id] -> run_op dbg (int_of_string id) (fun _ -> Model.ODisconnect t)
  | ["poll"; id; st] -> let st = status_list st in run_op dbg (int_of_string id) (fun n -> Model.OPoll (t, n, st))
  | ["send"; id; ins; st] ->
    let st = status_list st in
    let inputs = if ins = "-" then [] else
        List.map (fun e -> match String.split_on_char ':' e with
          | [h; f; v] -> (z h, (z f, z v))
          | _ -> failwith "badinput") (String.split_on_char ',' ins) in
    run_op dbg (int_of_string id) (fun _ -> Model.OSendInput (t, inputs, st))
  | ["csum"; id; frame; checksum] -> run_op dbg (int_of_string id) (fun _ -> Model.OChecksum (t, z frame, z checksum))
  | ["adv"; id; lf] -> run_op dbg (int_of_string id) (fun _ -> Model.OAdvantage (z lf))
  | ["stats"; id] ->
    let id = int_of_string id in
    with_ep id (fun s ->
      match Model.network_stats dbg t s with
      | Model.Ok Model.StatsNotSynchronized -> finish id " notsynchronized" [] s
      | Model.Ok Model.StatsNotEnoughData -> finish id " notenoughdata" [] s
      | Model.Ok (Model.Stats (p, q, l, r)) ->
        finish id (Printf.sprintf " stats/%s/%s/%s/%s" (string_of_z p) (string_of_z q) (string_of_z l) (string_of_z r)) [] s
      | Model.Err -> Hashtbl.replace eps id None; "modelerr"
      | Model.Panic -> Hashtbl.replace eps id None; "panic")
  | ["avg"; id] ->
    let id = int_of_string id in
    with_ep id (fun s ->
      match Model.ts_average_frame_advantage dbg s.Model.u_time_sync with
      | Model.Ok a -> finish id (" avg/" ^ string_of_z a) [] s
      | Model.Err -> Hashtbl.replace eps id None; "modelerr"
      | Model.Panic -> Hashtbl.replace eps id None; "panic")
  | "msg" :: id :: magic :: body ->
    let m = { Model.m_magic = z magic; Model.m_body = parse_body body } in
    run_op dbg (int_of_string id) (fun n -> Model.OMessage (t, n, m))
  | [("deliver" | "dup" | "drop") as kind; a; b; k] ->
    let a = int_of_string a and b = int_of_string b and k = int_of_string k in
    let q = (match Hashtbl.find_opt outbox (a, b) with Some q -> q | None -> []) in
    if k >= List.length q then "nomsg" else begin
      let m = List.nth q k in
      if kind <> "dup" then Hashtbl.replace outbox (a, b) (List.filteri (fun i _ -> i <> k) q);
      if kind = "drop" then "ok"
      else run_op dbg b (fun n -> Model.OMessage (t, n, m))
    end
  | _ -> "badop"
