(* level `builder`: one scenario per line = builder calls separated by `;`, the last item is the
   finisher.  e.g.  np 3 ; add L 0 ; add R 1 7 ; add S 3 9 ; win 4 ; delay 2 ; fps 0 ; p2p
   Result: `ok <summary>` | `err <index of the failing call>` | `panic`.  All logic is Model.run_calls. *)
open Conv

let z (s : string) : Model.z = z_of_int (int_of_string s)

let split_items (toks : string list) : string list list =
  let rec go cur acc = function
    | [] -> List.rev (List.rev cur :: acc)
    | ";" :: r -> go [] (List.rev cur :: acc) r
    | t :: r -> go (t :: cur) acc r in
  go [] [] toks

let parse_call : string list -> Model.call = function
  | ["np"; n] -> Model.CNumPlayers (z n)
  | ["add"; "L"; h] -> Model.CAddPlayer (Model.Local, z h)
  | ["add"; "R"; h; a] -> Model.CAddPlayer (Model.Remote (z a), z h)
  | ["add"; "S"; h; a] -> Model.CAddPlayer (Model.Spectator (z a), z h)
  | ["win"; w] -> Model.CMaxPrediction (z w)
  | ["delay"; d] -> Model.CInputDelay (z d)
  | ["sparse"; s] -> Model.CSparse (s = "1")
  | ["desync"; "off"] -> Model.CDesync None
  | ["desync"; i] -> Model.CDesync (Some (z i))
  | ["dto"; ms] -> Model.CDisconnectTimeout (z ms)
  | ["dnd"; ms] -> Model.CNotifyDelay (z ms)
  | ["fps"; f] -> Model.CFps (z f)
  | ["cd"; d] -> Model.CCheckDistance (z d)
  | ["mfb"; m] -> Model.CMaxFramesBehind (z m)
  | ["cs"; s] -> Model.CCatchupSpeed (z s)
  | _ -> failwith "badcall"

let parse_fin : string list -> Model.finisher = function
  | ["p2p"] -> Model.FP2P
  | ["spec"; a] -> Model.FSpectator (z a)
  | ["sync"] -> Model.FSyncTest
  | _ -> failwith "badfinisher"

let ints (l : Model.z list) : string =
  if l = [] then "-" else String.concat "," (List.map (fun x -> string_of_int (int_of_z x)) l)

let show_summary : Model.summary -> string = function
  | Model.SP2P p ->
    let addr = if p.Model.p_by_addr = [] then "-" else
      String.concat "/" (List.map (fun (a, hs) -> Printf.sprintf "%d:%s" (int_of_z a) (ints hs)) p.Model.p_by_addr) in
    Printf.sprintf "p2p state=%s np=%d ns=%d local=%s remote=%s spec=%s addr=%s win=%d lockstep=%d desync=%s"
      (if p.Model.p_running then "R" else "S")
      (int_of_z p.Model.p_num_players)
      (List.length p.Model.p_spectators)
      (ints p.Model.p_local) (ints p.Model.p_remote) (ints p.Model.p_spectators) addr
      (int_of_z p.Model.p_max_prediction)
      (if int_of_z p.Model.p_max_prediction = 0 then 1 else 0)
      (match p.Model.p_desync with None -> "off" | Some i -> string_of_int (int_of_z i))
  | Model.SSpectator (np, _, _, _) -> Printf.sprintf "spec np=%d state=S" (int_of_z np)
  | Model.SSyncTest (np, w, cd, _) -> Printf.sprintf "sync np=%d win=%d cd=%d" (int_of_z np) (int_of_z w) (int_of_z cd)

let handle (_dbg : bool) (toks : string list) : string =
  let items = split_items toks in
  let rec split_last acc = function
    | [] -> failwith "empty"
    | [x] -> (List.rev acc, x)
    | x :: r -> split_last (x :: acc) r in
  let (calls, fin) = split_last [] items in
  let (idx, out) = Model.run_calls (List.map parse_call calls) (parse_fin fin) in
  match out with
  | Model.Ok s -> "ok " ^ show_summary s
  | Model.Err -> "err " ^ string_of_int (int_of_nat idx)
  | Model.Panic -> "panic"
