(* conversions between OCaml ints/strings and the extracted Coq numbers; shared by all levels *)
open Model

let rec pos_of_int (n : int) : positive =
  if n = 1 then XH else if n land 1 = 0 then XO (pos_of_int (n lsr 1)) else XI (pos_of_int (n lsr 1))
let n_of_int (n : int) : n = if n = 0 then N0 else Npos (pos_of_int n)
let rec int_of_pos (p : positive) : int =
  match p with XH -> 1 | XO q -> 2 * int_of_pos q | XI q -> 2 * int_of_pos q + 1
let int_of_n (x : n) : int = match x with N0 -> 0 | Npos p -> int_of_pos p
let z_of_int (i : int) : z = if i = 0 then Z0 else if i > 0 then Zpos (pos_of_int i) else Zneg (pos_of_int (-i))
let int_of_z (x : z) : int = match x with Z0 -> 0 | Zpos p -> int_of_pos p | Zneg p -> - (int_of_pos p)
let rec nat_of_int (i : int) : nat = if i <= 0 then O else S (nat_of_int (i - 1))
let rec int_of_nat (n : nat) : int = match n with O -> 0 | S k -> 1 + int_of_nat k

let bytes_of_hex (s : string) : n list =
  if s = "-" then [] else
  let len = String.length s / 2 in
  List.init len (fun i -> n_of_int (int_of_string ("0x" ^ String.sub s (2*i) 2)))
let hex_of_bytes (l : n list) : string =
  if l = [] then "-" else String.concat "" (List.map (fun b -> Printf.sprintf "%02x" (int_of_n b)) l)
