(* Driver for the extracted Coq models: reads one operation per line on stdin, prints one
   canonical result line per operation on stdout.  No logic of its own beyond parsing/printing. *)
open Model

(* ---- conversions between OCaml ints and the extracted Coq numbers ---- *)
let rec pos_of_int (n : int) : positive =
  if n = 1 then XH else if n land 1 = 0 then XO (pos_of_int (n lsr 1)) else XI (pos_of_int (n lsr 1))
let n_of_int (n : int) : n = if n = 0 then N0 else Npos (pos_of_int n)
let rec int_of_pos (p : positive) : int =
  match p with XH -> 1 | XO q -> 2 * int_of_pos q | XI q -> 2 * int_of_pos q + 1
let int_of_n (x : n) : int = match x with N0 -> 0 | Npos p -> int_of_pos p

let bytes_of_hex (s : string) : n list =
  if s = "-" then [] else
  let len = String.length s / 2 in
  List.init len (fun i -> n_of_int (int_of_string ("0x" ^ String.sub s (2*i) 2)))
let hex_of_bytes (l : n list) : string =
  if l = [] then "-" else String.concat "" (List.map (fun b -> Printf.sprintf "%02x" (int_of_n b)) l)

let dbg = ref true

let codec_line (toks : string list) : string =
  match toks with
  | "enc" :: r :: ins ->
      hex_of_bytes (Model.encode (bytes_of_hex r) (List.map bytes_of_hex ins))
      |> fun s -> "ok " ^ s
  | ["dec"; r; d] ->
      (match Model.decode !dbg (bytes_of_hex r) (bytes_of_hex d) with
       | Ok outs -> "ok " ^ (if outs = [] then "." else String.concat "," (List.map hex_of_bytes outs))
       | Err -> "err"
       | Panic -> "panic")
  | ["decu"; r; d] ->
      (match Model.decode_unvalidated !dbg (bytes_of_hex r) (bytes_of_hex d) with
       | Ok outs -> "ok " ^ (if outs = [] then "." else String.concat "," (List.map hex_of_bytes outs))
       | Err -> "err"
       | Panic -> "panic")
  | _ -> "badop"

let () =
  let level = if Array.length Sys.argv > 1 then Sys.argv.(1) else "codec" in
  if Array.length Sys.argv > 2 then dbg := (Sys.argv.(2) = "debug");
  (try
    while true do
      let line = input_line stdin in
      let toks = String.split_on_char ' ' (String.trim line) |> List.filter (fun s -> s <> "") in
      if toks <> [] then begin
        let out = match level with
          | "codec" -> codec_line toks
          | _ -> "badlevel" in
        print_endline out
      end
    done
  with End_of_file -> ())
