(* Driver for the extracted Coq models: `driver <level> <debug|release>` reads one operation per
   line on stdin and prints one canonical result line per operation.  Each level lives in its own
   lvl_<level>.ml (parsing/printing only; all logic is extracted Coq). *)
let () =
  let level = if Array.length Sys.argv > 1 then Sys.argv.(1) else "codec" in
  let dbg = not (Array.length Sys.argv > 2 && Sys.argv.(2) = "release") in
  let handle : string list -> string = match level with
    | "codec" -> Lvl_codec.handle dbg
    | "builder" -> Lvl_builder.handle dbg
    | "queue" -> Lvl_queue.handle dbg
    | "timesync" -> Lvl_timesync.handle dbg
    | "endpoint" -> Lvl_endpoint.handle dbg
    | "session" -> Lvl_session.handle dbg
    | "synctest" -> Lvl_synctest.handle dbg
    | "spectator" -> Lvl_spectator.handle dbg
    | "desync" -> Lvl_desync.handle dbg
    (* LEVELS: one line per level, keep this marker *)
    | _ -> (fun _ -> "badlevel") in
  (try
    while true do
      let line = input_line stdin in
      let toks = String.split_on_char ' ' (String.trim line) |> List.filter (fun s -> s <> "") in
      if toks <> [] then print_endline (try handle toks with Stack_overflow -> "modelcrash stack" | Not_found -> "modelcrash notfound" | Failure m -> "modelcrash " ^ m)
    done
  with End_of_file -> ())
