(* level timesync: TimeSync windows + the frame-advantage estimate (all logic is extracted Coq) *)
open Conv
let state : Model.time_sync ref = ref Model.ts_new
(* next_recommended_sleep of the recommendation gate *)
let gate : Model.z ref = ref Model.gate_init

(* decimal strings beyond the native int range are not needed: scripts keep |values| < 2^62 *)
let z (s : string) : Model.z = z_of_int (int_of_string s)

let handle (dbg : bool) (toks : string list) : string =
  match toks with
  | ["new"] -> state := Model.ts_new; "ok"
  | ["adv"; f; l; r] ->
    (match Model.ts_advance_frame !state (z f) (z l) (z r) with
     | Model.Ok ts -> state := ts; "ok"
     | Model.Err -> "err"
     | Model.Panic -> "panic")
  | ["avg"] ->
    (match Model.ts_average_frame_advantage dbg !state with
     | Model.Ok a -> "ok " ^ string_of_int (int_of_z a)
     | Model.Err -> "err"
     | Model.Panic -> "panic")
  | ["lfa"; fps; now; pong; lr; lf] ->
    let rtt = Model.ts_round_trip_time (z now) (z pong) in
    (match Model.ts_update_local_frame_advantage dbg rtt (z fps) (z lr) (z lf) Model.Z0 with
     | Model.Ok a ->
       (match Model.ts_report_frame_advantage a with
        | Model.Ok c -> "ok " ^ string_of_int (int_of_z a) ^ " " ^ string_of_int (int_of_z c)
        | Model.Err -> "err"
        | Model.Panic -> "panic")
     | Model.Err -> "err"
     | Model.Panic -> "panic")
  | ["gnew"] -> gate := Model.gate_init; "ok"
  | ["gate"; cf; fa] ->
    (match Model.gate_step !gate (z cf) (z fa) with
     | Model.Ok (n, o) ->
       gate := n;
       (match o with Some k -> "wait " ^ string_of_int (int_of_z k) | None -> "none")
     | Model.Err -> "err"
     | Model.Panic -> "panic")
  | _ -> "badop"
