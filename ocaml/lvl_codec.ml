(* L0: input codec *)
open Conv
let handle (dbg : bool) (toks : string list) : string =
  let show = function
    | Model.Ok outs -> "ok " ^ (if outs = [] then "." else String.concat "," (List.map hex_of_bytes outs))
    | Model.Err -> "err"
    | Model.Panic -> "panic" in
  match toks with
  | "enc" :: r :: ins -> "ok " ^ hex_of_bytes (Model.encode (bytes_of_hex r) (List.map bytes_of_hex ins))
  | ["dec"; r; d] -> show (Model.decode dbg (bytes_of_hex r) (bytes_of_hex d))
  | ["decu"; r; d] -> show (Model.decode_unvalidated dbg (bytes_of_hex r) (bytes_of_hex d))
  | _ -> "badop"
