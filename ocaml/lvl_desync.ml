(* level `desync` (C09): the desync-detection model (coq/Desync.v) fed with what the real session read at
   each advance_frame call (last confirmed frame and saved cells, observed through the hook accessor)
   and with the checksum reports the puppets sent.
   ops:  new interval=<i> eps=<n>            -> ok
         report <ep> <frame> <cs>            -> ok
         advance L=<l> cells=<f:c|f:-,..>     -> rep=<f:c|-> ev=<ep/f/local/remote;..|-> sent=<f> hist=<f:c,..|-> pend=<..|..> *)
open Conv
let zi = z_of_int and iz = int_of_z
let st : Model.ds option ref = ref None

let fmt_map (m : (Model.z * Model.z) list) : string =
  if m = [] then "-" else
  List.map (fun (f, c) -> (iz f, iz c)) m |> List.sort compare
  |> List.map (fun (f, c) -> Printf.sprintf "%d:%d" f c) |> String.concat ","

let kv (args : string list) (k : string) : string =
  List.fold_left (fun acc a -> match String.index_opt a '=' with
    | Some i when String.sub a 0 i = k -> String.sub a (i + 1) (String.length a - i - 1) | _ -> acc) "" args

let handle (_dbg : bool) (toks : string list) : string =
  match toks with
  | "new" :: args ->
      st := Some (Model.ds_new (zi (int_of_string (kv args "interval"))) (nat_of_int (int_of_string (kv args "eps")))); "ok"
  | ["report"; ep; f; cs] ->
      (match !st with None -> "badop" | Some s ->
        st := Some (Model.report (zi (int_of_string ep)) (zi (int_of_string f)) (zi (int_of_string cs)) s); "ok")
  | "advance" :: args ->
      (match !st with None -> "badop" | Some s ->
        let l = int_of_string (kv args "L") in
        let cells = String.split_on_char ',' (kv args "cells") |> List.filter (fun x -> x <> "") |> List.map (fun c ->
          match String.split_on_char ':' c with
          | [f; "-"] -> (zi (int_of_string f), None)
          | [f; v] -> (zi (int_of_string f), Some (zi (int_of_string v)))
          | _ -> failwith "badcell") in
        (match Model.ds_advance (zi l) cells s with
         | Model.Ok ((s', rep), evs) ->
             st := Some s';
             let rep_s = match rep with None -> "-" | Some (f, c) -> Printf.sprintf "%d:%d" (iz f) (iz c) in
             let evl = List.map (fun (((ep, f), lc), rc) -> (iz ep, iz f, iz lc, iz rc)) evs |> List.sort compare in
             let ev_s = if evl = [] then "-" else String.concat ";" (List.map (fun (e, f, a, b) -> Printf.sprintf "%d/%d/%d/%d" e f a b) evl) in
             Printf.sprintf "rep=%s ev=%s sent=%d hist=%s pend=%s" rep_s ev_s (iz s'.Model.ds_last_sent) (fmt_map s'.Model.ds_hist)
               (String.concat "|" (List.map fmt_map s'.Model.ds_pending))
         | Model.Err -> "err"
         | Model.Panic -> "panic"))
  | _ -> "badop"
