(* Level `synctest` (C13): the SyncTestSession model (coq/SyncTest.v) driven by the same scripts as
   harness/src/synctest.rs.  The session logic is the extracted model; the game that executes the
   returned requests lives here (outside Coq) and feeds `st_saved` with the checksum of every save, as
   the protocol in SyncTest.v prescribes.  Game state = the inputs of the current timeline; the
   checksum of a save = an interned id of (timeline, noise counter of that frame), so two saves get
   the same checksum iff they save the same timeline with the same counter. *)
open Conv
let zi = z_of_int and iz = int_of_z

type finputs = (int * string) list
type game = {
  mutable tl : finputs list;                       (* newest frame first *)
  mutable frame : int;
  cells : (int * finputs list) option array;
  noise : (int, int) Hashtbl.t;
  window : int }

let st : Model.st_state option ref = ref None
let game : game option ref = ref None
let dead = ref false
let interned : (finputs list * int, int) Hashtbl.t = Hashtbl.create 1024

let checksum (tl : finputs list) (n : int) : int =
  match Hashtbl.find_opt interned (tl, n) with
  | Some i -> i
  | None -> let i = Hashtbl.length interned + 1 in Hashtbl.add interned (tl, n) i; i

let stc = function Model.Confirmed -> "C" | Model.Predicted -> "P" | Model.Disconnected -> "D"

exception Panicked
let unres = function Model.Ok x -> x | _ -> raise Panicked

let rec drop n l = if n <= 0 then l else match l with [] -> [] | _ :: r -> drop (n - 1) r

(* executes one request list on the game and reports the saves to the model *)
let execute (g : game) (s : Model.st_state) (reqs : Model.request list) (noisy : (int * int) list) : Model.st_state * string * string list =
  let out = ref [] and bad = ref [] and s = ref s in
  List.iter (fun r ->
    match r with
    | Model.RSave f ->
        let f = iz f in
        out := ("S" ^ string_of_int f) :: !out;
        if f <> g.frame then bad := Printf.sprintf "save-frame:%d@%d" f g.frame :: !bad;
        (* noise@F: every save of F differs; noise@F#k: only the k-th save of F differs *)
        let n = match List.assoc_opt g.frame noisy with
          | Some only ->
            let k = (try Hashtbl.find g.noise g.frame with Not_found -> 0) + 1 in
            Hashtbl.replace g.noise g.frame k; if only = 0 || only = k then k else 0
          | None -> 0 in
        let cs = checksum g.tl n in
        g.cells.(((f mod (g.window + 1)) + g.window + 1) mod (g.window + 1)) <- Some (g.frame, g.tl);
        s := unres (Model.st_saved !s (zi f) (Some (zi cs)))
    | Model.RLoad f ->
        let f = iz f in
        out := ("L" ^ string_of_int f) :: !out;
        if f < 0 || f >= g.frame then bad := Printf.sprintf "load-not-earlier:%d@%d" f g.frame :: !bad
        else if g.frame - f > g.window then bad := Printf.sprintf "load-beyond-window:%d@%d" f g.frame :: !bad;
        (match g.cells.(((f mod (g.window + 1)) + g.window + 1) mod (g.window + 1)) with
         | None -> bad := Printf.sprintf "load-empty-cell:%d" f :: !bad
         | Some (cf, ctl) ->
             let want = if f >= 0 && f <= g.frame then Some (drop (g.frame - f) g.tl) else None in
             if cf <> f || Some ctl <> want then bad := Printf.sprintf "load-stale-cell:%d" f :: !bad;
             g.frame <- cf; g.tl <- ctl)
    | Model.RAdvance ins ->
        let fi = List.map (fun (v, c) -> (iz v, stc c)) ins in
        out := Printf.sprintf "A%d(%s)" g.frame (String.concat "," (List.map (fun (v, c) -> string_of_int v ^ ":" ^ c) fi)) :: !out;
        g.tl <- fi :: g.tl;
        g.frame <- g.frame + 1) reqs;
  (!s, String.concat " " (List.rev !out), List.rev !bad)

let hlen (s : Model.st_state) = List.length s.Model.st_history
let cur (s : Model.st_state) = iz s.Model.st_sync.Model.s_current

let handle (_dbg : bool) (toks : string list) : string =
  (match toks with "new" :: _ -> dead := false | _ -> ());
  if !dead then "dead" else
  try
    match toks with
    | "new" :: args ->
        let get k d = List.fold_left (fun acc a -> match String.split_on_char '=' a with [k'; v] when k' = k -> int_of_string v | _ -> acc) d args in
        let players = get "players" 2 and window = get "window" 8 and dist = get "dist" 2 and delay = get "delay" 0 in
        st := None; game := None;
        (* the builder model decides whether the configuration is accepted *)
        let calls = [Model.CNumPlayers (zi players); Model.CMaxPrediction (zi window); Model.CCheckDistance (zi dist); Model.CInputDelay (zi delay)] in
        (match snd (Model.run_calls calls Model.FSyncTest) with
         | Model.Ok (Model.SSyncTest (np, w, cd, d)) ->
             st := Some (unres (Model.st_new np w cd d));
             game := Some { tl = []; frame = 0; cells = Array.make (iz w + 1) None; noise = Hashtbl.create 16; window = iz w };
             "ok"
         | Model.Ok _ -> "modelcrash wrong session kind"
         | Model.Err -> "rejected"
         | Model.Panic -> raise Panicked)
    | _ ->
      (match !st, !game with
       | Some s, Some g ->
         (match toks with
          | ["local"; h; v] ->
              (match Model.st_add_local_input s (zi (int_of_string h)) (zi (int_of_string v)) with
               | Model.Ok s' -> st := Some s'; "ok"
               | Model.Err -> "invalid"
               | Model.Panic -> raise Panicked)
          | "advance" :: rest ->
              let noisy = List.filter_map (fun t ->
                if String.length t > 6 && String.sub t 0 6 = "noise@" then
                  (match String.split_on_char '#' (String.sub t 6 (String.length t - 6)) with
                   | [f; k] -> Some (int_of_string f, int_of_string k)
                   | [f] -> Some (int_of_string f, 0)
                   | _ -> None)
                else None) rest in
              let (s1, o) = unres (Model.st_advance_frame (fun x -> x) s) in
              st := Some s1;
              (match o with
               | Model.StRequests reqs ->
                   let (s2, txt, bad) = execute g s1 reqs noisy in
                   st := Some s2;
                   let flags = (if g.frame <> cur s2 then [Printf.sprintf "game-frame:%d" g.frame] else []) @ bad in
                   Printf.sprintf "req %s cur=%d h=%d%s" txt (cur s2) (hlen s2) (String.concat "" (List.map (fun b -> " !" ^ b) flags))
               | Model.StMismatched (c, fs) ->
                   Printf.sprintf "mismatch cur=%d frames=%s h=%d" (iz c) (String.concat "," (List.map (fun f -> string_of_int (iz f)) fs)) (hlen s1)
               | Model.StInvalid -> Printf.sprintf "invalid cur=%d h=%d" (cur s1) (hlen s1))
          | _ -> "badop")
       | _ -> "badop")
  with Panicked -> dead := true; "panic"
