//! Level `builder` (C16): replays one scenario of `SessionBuilder` calls per line on the real builder.
//!   [drive <frames> :] <call> ; <call> ; ... ; <finisher>
//! calls:     np N | add L h | add R h a | add S h a | win N | delay N | sparse 0|1 | desync off|N |
//!            dto ms | dnd ms | fps N | cd N | mfb N | cs N
//! finishers: p2p | spec <host addr> | sync
//! Output:    ok <summary from the public accessors> | err <index of the failing call> | panic #...
//! With the `drive` prefix an accepted session is additionally polled and advanced for <frames> frames
//! through the public API (inputs for all local players, requests fulfilled by a trivial game) and
//! ` | drive frames=.. ok=.. adv=.. notsync=.. predthr=.. invalid=.. other=.. panic=..` is appended.
use crate::util::guarded;
use ggrs::{
    Config, DesyncDetection, GgrsError, GgrsRequest, Message, NonBlockingSocket, P2PSession,
    PlayerType, PredictRepeatLast, SessionBuilder, SessionState, SpectatorSession, SyncTestSession,
};
use serde::{Deserialize, Serialize};
use std::io::{BufRead, Write};
use std::time::Duration;

#[derive(Copy, Clone, PartialEq, Eq, Default, Debug, Serialize, Deserialize)]
pub struct Inp {
    v: u8,
}

pub struct Cfg;
impl Config for Cfg {
    type Input = Inp;
    type InputPredictor = PredictRepeatLast;
    type State = u64;
    type Address = u64;
}

/// A socket that never delivers anything and drops everything it is given.
struct NullSocket;
impl NonBlockingSocket<u64> for NullSocket {
    fn send_to(&mut self, _msg: &Message, _addr: &u64) {}
    fn receive_all_messages(&mut self) -> Vec<(u64, Message)> {
        Vec::new()
    }
}

#[derive(Clone, Debug)]
enum Call {
    Np(usize),
    Add(PlayerType<u64>, usize),
    Win(usize),
    Delay(usize),
    Sparse(bool),
    Desync(DesyncDetection),
    Dto(u64),
    Dnd(u64),
    Fps(usize),
    Cd(usize),
    Mfb(usize),
    Cs(usize),
}

#[derive(Clone, Debug)]
enum Fin {
    P2p,
    Spec(u64),
    Sync,
}

fn num<T: std::str::FromStr>(s: &str) -> Option<T> {
    s.parse::<T>().ok()
}

fn parse_call(t: &[&str]) -> Option<Call> {
    Some(match t {
        ["np", n] => Call::Np(num(n)?),
        ["add", "L", h] => Call::Add(PlayerType::Local, num(h)?),
        ["add", "R", h, a] => Call::Add(PlayerType::Remote(num(a)?), num(h)?),
        ["add", "S", h, a] => Call::Add(PlayerType::Spectator(num(a)?), num(h)?),
        ["win", n] => Call::Win(num(n)?),
        ["delay", n] => Call::Delay(num(n)?),
        ["sparse", s] => Call::Sparse(*s == "1"),
        ["desync", "off"] => Call::Desync(DesyncDetection::Off),
        ["desync", i] => Call::Desync(DesyncDetection::On { interval: num(i)? }),
        ["dto", n] => Call::Dto(num(n)?),
        ["dnd", n] => Call::Dnd(num(n)?),
        ["fps", n] => Call::Fps(num(n)?),
        ["cd", n] => Call::Cd(num(n)?),
        ["mfb", n] => Call::Mfb(num(n)?),
        ["cs", n] => Call::Cs(num(n)?),
        _ => return None,
    })
}

fn parse_fin(t: &[&str]) -> Option<Fin> {
    Some(match t {
        ["p2p"] => Fin::P2p,
        ["spec", a] => Fin::Spec(num(a)?),
        ["sync"] => Fin::Sync,
        _ => return None,
    })
}

fn apply(b: SessionBuilder<Cfg>, c: &Call) -> Result<SessionBuilder<Cfg>, GgrsError> {
    match c {
        Call::Np(n) => b.with_num_players(*n),
        Call::Add(t, h) => b.add_player(*t, *h),
        Call::Win(n) => Ok(b.with_max_prediction_window(*n)),
        Call::Delay(n) => Ok(b.with_input_delay(*n)),
        Call::Sparse(s) => Ok(b.with_sparse_saving_mode(*s)),
        Call::Desync(d) => Ok(b.with_desync_detection_mode(*d)),
        Call::Dto(ms) => Ok(b.with_disconnect_timeout(Duration::from_millis(*ms))),
        Call::Dnd(ms) => Ok(b.with_disconnect_notify_delay(Duration::from_millis(*ms))),
        Call::Fps(n) => b.with_fps(*n),
        Call::Cd(n) => Ok(b.with_check_distance(*n)),
        Call::Mfb(n) => b.with_max_frames_behind(*n),
        Call::Cs(n) => b.with_catchup_speed(*n),
    }
}

enum Session {
    P2p(P2PSession<Cfg>),
    Spec(SpectatorSession<Cfg>),
    Sync(SyncTestSession<Cfg>),
}

fn list(mut v: Vec<usize>) -> String {
    if v.is_empty() {
        return "-".to_string();
    }
    v.sort_unstable();
    v.iter().map(|x| x.to_string()).collect::<Vec<_>>().join(",")
}

fn state(s: SessionState) -> &'static str {
    match s {
        SessionState::Running => "R",
        SessionState::Synchronizing => "S",
    }
}

/// Only public accessors of the sessions.
fn summarize(s: &Session, addrs: &[u64]) -> String {
    match s {
        Session::P2p(s) => {
            let by_addr = if addrs.is_empty() {
                "-".to_string()
            } else {
                addrs
                    .iter()
                    .map(|a| format!("{}:{}", a, list(s.handles_by_address(*a))))
                    .collect::<Vec<_>>()
                    .join("/")
            };
            format!(
                "p2p state={} np={} ns={} local={} remote={} spec={} addr={} win={} lockstep={} desync={}",
                state(s.current_state()),
                s.num_players(),
                s.num_spectators(),
                list(s.local_player_handles()),
                list(s.remote_player_handles()),
                list(s.spectator_handles()),
                by_addr,
                s.max_prediction(),
                u8::from(s.in_lockstep_mode()),
                match s.desync_detection() {
                    DesyncDetection::Off => "off".to_string(),
                    DesyncDetection::On { interval } => interval.to_string(),
                }
            )
        }
        Session::Spec(s) => format!("spec np={} state={}", s.num_players(), state(s.current_state())),
        Session::Sync(s) => format!(
            "sync np={} win={} cd={}",
            s.num_players(),
            s.max_prediction(),
            s.check_distance()
        ),
    }
}

#[derive(Default)]
struct DriveStats {
    frames: usize,
    ok: usize,
    adv: usize,
    notsync: usize,
    predthr: usize,
    invalid: usize,
    other: usize,
    panic: Option<String>,
}

/// The trivial game: state is a counter mixed with the inputs.
fn fulfil(reqs: Vec<GgrsRequest<Cfg>>, st: &mut u64, adv: &mut usize) {
    for r in reqs {
        match r {
            GgrsRequest::SaveGameState { cell, frame } => cell.save(frame, Some(*st), Some(u128::from(*st))),
            GgrsRequest::LoadGameState { cell, .. } => {
                *st = cell.load().expect("LoadGameState for a cell that was never saved")
            }
            GgrsRequest::AdvanceFrame { inputs } => {
                let mut x = st.wrapping_mul(31).wrapping_add(1);
                for (i, _) in &inputs {
                    x = x.wrapping_mul(131).wrapping_add(u64::from(i.v));
                }
                *st = x;
                *adv += 1;
            }
        }
    }
}

fn inp(frame: usize, handle: usize) -> Inp {
    Inp { v: ((frame * 7 + handle * 3) % 251) as u8 }
}

fn drive(sess: Session, frames: usize) -> DriveStats {
    let mut st = DriveStats { frames, ..Default::default() };
    let mut game: u64 = 0;
    let mut sess = sess;
    for f in 0..frames {
        ggrs::verif::clock::advance_ms(16);
        let mut adv = 0usize;
        let r = guarded(|| -> Result<(), GgrsError> {
            match &mut sess {
                Session::P2p(s) => {
                    s.poll_remote_clients();
                    let _ = s.events().count();
                    let mut locals = s.local_player_handles();
                    locals.sort_unstable();
                    for h in locals {
                        s.add_local_input(h, inp(f, h))?;
                    }
                    let reqs = s.advance_frame()?;
                    fulfil(reqs, &mut game, &mut adv);
                }
                Session::Spec(s) => {
                    s.poll_remote_clients();
                    let _ = s.events().count();
                    let reqs = s.advance_frame()?;
                    fulfil(reqs, &mut game, &mut adv);
                }
                Session::Sync(s) => {
                    for h in 0..s.num_players() {
                        s.add_local_input(h, inp(f, h))?;
                    }
                    let reqs = s.advance_frame()?;
                    fulfil(reqs, &mut game, &mut adv);
                }
            }
            Ok(())
        });
        st.adv += adv;
        match r {
            Ok(Ok(())) => st.ok += 1,
            Ok(Err(GgrsError::NotSynchronized)) => st.notsync += 1,
            Ok(Err(GgrsError::PredictionThreshold)) => st.predthr += 1,
            Ok(Err(GgrsError::InvalidRequest { .. })) => st.invalid += 1,
            Ok(Err(_)) => st.other += 1,
            Err(msg) => {
                st.panic = Some(format!("frame{}:{}", f, msg.replace(char::is_whitespace, "_")));
                break;
            }
        }
    }
    st
}

fn scenario(toks: &[&str]) -> String {
    let (frames, toks) = match toks {
        ["drive", n, ":", rest @ ..] => (num::<usize>(n), rest),
        _ => (None, toks),
    };
    let items: Vec<&[&str]> = toks.split(|t| *t == ";").collect();
    let Some((fin_t, call_ts)) = items.split_last() else { return "badop".to_string() };
    let Some(fin) = parse_fin(fin_t) else { return "badop".to_string() };
    let mut calls = Vec::new();
    for c in call_ts {
        match parse_call(c) {
            Some(c) => calls.push(c),
            None => return "badop".to_string(),
        }
    }
    // deterministic endpoints (magic numbers) and time
    ggrs::verif::clock::set_ms(Some(1000));
    ggrs::verif::rng::seed(Some(0xC16));
    let mut addrs: Vec<u64> = calls
        .iter()
        .filter_map(|c| match c {
            Call::Add(PlayerType::Remote(a), _) | Call::Add(PlayerType::Spectator(a), _) => Some(*a),
            _ => None,
        })
        .collect();
    addrs.sort_unstable();
    addrs.dedup();

    let mut b = match guarded(SessionBuilder::<Cfg>::new) {
        Ok(b) => b,
        Err(m) => return format!("panic #new {m}"),
    };
    for (i, c) in calls.iter().enumerate() {
        match guarded(move || apply(b, c)) {
            Ok(Ok(nb)) => b = nb,
            Ok(Err(GgrsError::InvalidRequest { .. })) => return format!("err {i}"),
            Ok(Err(e)) => return format!("err-other {i} {e:?}"),
            Err(m) => return format!("panic #call {i} {m}"),
        }
    }
    let n = calls.len();
    let sess = match guarded(move || -> Result<Session, GgrsError> {
        Ok(match fin {
            Fin::P2p => Session::P2p(b.start_p2p_session(NullSocket)?),
            Fin::Spec(a) => Session::Spec(b.start_spectator_session(a, NullSocket)),
            Fin::Sync => Session::Sync(b.start_synctest_session()?),
        })
    }) {
        Ok(Ok(s)) => s,
        Ok(Err(GgrsError::InvalidRequest { .. })) => return format!("err {n}"),
        Ok(Err(e)) => return format!("err-other {n} {e:?}"),
        Err(m) => return format!("panic #finisher {n} {m}"),
    };
    let summary = match guarded(|| summarize(&sess, &addrs)) {
        Ok(s) => s,
        Err(m) => return format!("panic #summary {m}"),
    };
    match frames {
        None => format!("ok {summary}"),
        Some(frames) => {
            let d = drive(sess, frames);
            format!(
                "ok {summary} | drive frames={} ok={} adv={} notsync={} predthr={} invalid={} other={} panic={}",
                d.frames,
                d.ok,
                d.adv,
                d.notsync,
                d.predthr,
                d.invalid,
                d.other,
                d.panic.unwrap_or_else(|| "-".to_string())
            )
        }
    }
}

pub fn run() {
    let stdin = std::io::stdin();
    let stdout = std::io::stdout();
    let mut out = stdout.lock();
    for line in stdin.lock().lines() {
        let line = line.expect("read");
        let toks: Vec<&str> = line.split_whitespace().collect();
        if toks.is_empty() {
            continue;
        }
        let res = scenario(&toks);
        writeln!(out, "{res}").unwrap();
        out.flush().unwrap();
    }
}
