//! Level `synctest` (C13): one real SyncTestSession built through the real SessionBuilder and driven
//! through its public API; the returned requests are executed by a small game whose checksum for a
//! save of frame f is a hash of the inputs of the current timeline up to f, plus - for frames
//! listed as noisy on the `advance` op - a counter that changes on every save of that frame (the
//! nondeterministic step).
//!
//! ops:
//!   new players=<n> window=<w> dist=<d> delay=<k> [ext=1]  -> ok | rejected | panic
//!       ext=1: the game keeps its snapshots itself and hands ggrs only the checksum (`cell.save(f, None, Some(c))`)
//!   local <h> <v>                                   -> ok | invalid | panic
//!   advance [noise@<frame>[#<k>]...]                -> req <requests> cur=<c> h=<n>[ !<contract violation>..]
//!                                                      | mismatch cur=<c> frames=<f,..> h=<n> | invalid cur=<c> h=<n> | panic
//! requests: S<f> (save), L<f> (load), A<game frame>(<v>:<C|P|D>,..) (advance);
//! cur = current_frame() after the call, h = number of remembered checksums (verif hook).
//! After a panic every op answers `dead` until the next `new`.
use crate::sim::game::{mix, status_code, GState, Inp};
use crate::sim::CfgRepeat;
use crate::util::guarded;
use ggrs::{GgrsError, GgrsRequest, InputStatus, SessionBuilder, SyncTestSession};
use std::collections::HashMap;
use std::io::{BufRead, Write};

struct Game {
    window: usize,
    frame: i32,
    hash: u64,
    /// hash after n steps of the current timeline
    hashes: Vec<u64>,
    /// number of saves of each noisy frame so far
    noise: HashMap<i32, u64>,
    /// the game stores its snapshots itself (frame -> (frame, hash)) and saves `None` data
    ext: bool,
    snaps: HashMap<i32, (i32, u64)>,
}

impl Game {
    fn new(window: usize, ext: bool) -> Self {
        Self { window, frame: 0, hash: 0x1234_5678, hashes: vec![0x1234_5678], noise: HashMap::new(), ext, snaps: HashMap::new() }
    }

    /// Executes one request list; returns its rendering and the contract violations seen.
    fn execute(&mut self, reqs: Vec<GgrsRequest<CfgRepeat>>, noisy: &[(i32, u64)]) -> (String, Vec<String>) {
        let mut out = Vec::new();
        let mut bad = Vec::new();
        for r in reqs {
            match r {
                GgrsRequest::SaveGameState { cell, frame } => {
                    out.push(format!("S{frame}"));
                    if frame != self.frame {
                        bad.push(format!("save-frame:{frame}@{}", self.frame));
                    }
                    let mut checksum = mix(self.hash, 0x5a5a ^ self.frame as u64);
                    // `noise@F`: every save of F differs; `noise@F#k`: only the k-th save of F differs
                    if let Some((_, only)) = noisy.iter().find(|(f, _)| *f == self.frame) {
                        let n = self.noise.entry(self.frame).or_insert(0);
                        *n += 1;
                        if *only == 0 || *only == *n {
                            checksum = mix(checksum, 0xdead_0000 + *n);
                        }
                    }
                    if self.ext {
                        self.snaps.insert(frame, (self.frame, self.hash));
                        cell.save(frame, None, Some(u128::from(checksum)));
                    } else {
                        cell.save(frame, Some(GState { frame: self.frame, hash: self.hash }), Some(u128::from(checksum)));
                    }
                }
                GgrsRequest::LoadGameState { cell, frame } => {
                    out.push(format!("L{frame}"));
                    if frame < 0 || frame >= self.frame {
                        bad.push(format!("load-not-earlier:{frame}@{}", self.frame));
                    } else if self.frame - frame > self.window as i32 {
                        bad.push(format!("load-beyond-window:{frame}@{}", self.frame));
                    }
                    let loaded = if self.ext { self.snaps.get(&frame).map(|(f, h)| GState { frame: *f, hash: *h }) } else { cell.load() };
                    match loaded {
                        None => bad.push(format!("load-empty-cell:{frame}")),
                        Some(st) => {
                            let want = if frame >= 0 && (frame as usize) < self.hashes.len() { Some(self.hashes[frame as usize]) } else { None };
                            if st.frame != frame || Some(st.hash) != want {
                                bad.push(format!("load-stale-cell:{frame}"));
                            }
                            self.frame = st.frame;
                            self.hash = st.hash;
                            self.hashes.truncate(st.frame.max(0) as usize);
                            self.hashes.push(st.hash);
                        }
                    }
                }
                GgrsRequest::AdvanceFrame { inputs } => {
                    let txt: Vec<String> = inputs
                        .iter()
                        .map(|(i, s)| {
                            format!(
                                "{}:{}",
                                i.0,
                                match s {
                                    InputStatus::Confirmed => "C",
                                    InputStatus::Predicted => "P",
                                    InputStatus::Disconnected => "D",
                                }
                            )
                        })
                        .collect();
                    out.push(format!("A{}({})", self.frame, txt.join(",")));
                    let mut h = mix(self.hash, 0xadadad);
                    for (i, s) in &inputs {
                        h = mix(h, (u64::from(i.0) << 2) | u64::from(status_code(*s)));
                    }
                    self.hash = h;
                    self.frame += 1;
                    self.hashes.push(h);
                }
            }
        }
        (out.join(" "), bad)
    }
}

struct World {
    sess: SyncTestSession<CfgRepeat>,
    game: Game,
}

fn kv<'a>(toks: &'a [&'a str], key: &str) -> Option<usize> {
    toks.iter().find_map(|t| t.strip_prefix(key).and_then(|r| r.strip_prefix('=')).and_then(|v| v.parse().ok()))
}

fn new_world(toks: &[&str]) -> Result<Option<World>, String> {
    let players = kv(toks, "players").unwrap_or(2);
    let window = kv(toks, "window").unwrap_or(8);
    let dist = kv(toks, "dist").unwrap_or(2);
    let delay = kv(toks, "delay").unwrap_or(0);
    let ext = kv(toks, "ext").unwrap_or(0) == 1;
    guarded(move || -> Result<SyncTestSession<CfgRepeat>, GgrsError> {
        SessionBuilder::<CfgRepeat>::new()
            .with_num_players(players)?
            .with_max_prediction_window(window)
            .with_check_distance(dist)
            .with_input_delay(delay)
            .start_synctest_session()
    })
    .map(|r| r.ok().map(|sess| World { sess, game: Game::new(window, ext) }))
}

pub fn run() {
    let stdin = std::io::stdin();
    let stdout = std::io::stdout();
    let mut out = stdout.lock();
    let mut world: Option<World> = None;
    let mut dead = false;
    for line in stdin.lock().lines() {
        let line = line.expect("read");
        let toks: Vec<&str> = line.split_whitespace().collect();
        if toks.is_empty() {
            continue;
        }
        let res = match toks[0] {
            "new" => {
                dead = false;
                world = None;
                match new_world(&toks[1..]) {
                    Ok(Some(w)) => {
                        world = Some(w);
                        "ok".to_string()
                    }
                    Ok(None) => "rejected".to_string(),
                    Err(_) => {
                        dead = true;
                        "panic".to_string()
                    }
                }
            }
            _ if dead => "dead".to_string(),
            "local" => match (&mut world, toks.get(1).and_then(|t| t.parse::<usize>().ok()), toks.get(2).and_then(|t| t.parse::<u32>().ok())) {
                (Some(w), Some(h), Some(v)) => match guarded(|| w.sess.add_local_input(h, Inp(v))) {
                    Ok(Ok(())) => "ok".to_string(),
                    Ok(Err(_)) => "invalid".to_string(),
                    Err(_) => {
                        dead = true;
                        "panic".to_string()
                    }
                },
                _ => "badop".to_string(),
            },
            "advance" => match &mut world {
                None => "badop".to_string(),
                Some(w) => {
                    let noisy: Vec<(i32, u64)> = toks[1..]
                        .iter()
                        .filter_map(|t| t.strip_prefix("noise@"))
                        .filter_map(|v| match v.split_once('#') {
                            Some((f, k)) => Some((f.parse().ok()?, k.parse().ok()?)),
                            None => Some((v.parse().ok()?, 0)),
                        })
                        .collect();
                    let r = guarded(|| match w.sess.advance_frame() {
                        Ok(reqs) => {
                            let (txt, bad) = w.game.execute(reqs, &noisy);
                            let mut s = format!("req {} cur={} h={}", txt, w.sess.current_frame(), w.sess.verif_checksum_history_len());
                            if w.game.frame != w.sess.current_frame() {
                                s.push_str(&format!(" !game-frame:{}", w.game.frame));
                            }
                            for b in bad {
                                s.push_str(" !");
                                s.push_str(&b);
                            }
                            s
                        }
                        Err(GgrsError::MismatchedChecksum { current_frame, mismatched_frames }) => format!(
                            "mismatch cur={} frames={} h={}",
                            current_frame,
                            mismatched_frames.iter().map(|f| f.to_string()).collect::<Vec<_>>().join(","),
                            w.sess.verif_checksum_history_len()
                        ),
                        Err(GgrsError::InvalidRequest { .. }) => {
                            format!("invalid cur={} h={}", w.sess.current_frame(), w.sess.verif_checksum_history_len())
                        }
                        Err(e) => format!("othererr {e:?}"),
                    });
                    match r {
                        Ok(s) => s,
                        Err(_) => {
                            dead = true;
                            "panic".to_string()
                        }
                    }
                }
            },
            _ => "badop".to_string(),
        };
        writeln!(out, "{res}").unwrap();
        out.flush().unwrap();
    }
}
