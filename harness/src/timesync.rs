//! Level `timesync`: `TimeSync` through the verif-hooks wrapper, and the frame-advantage estimate of
//! `UdpProtocol` through a real endpoint driven with real messages and the virtual clock.
//!   new                                     -> ok
//!   adv <frame> <local_adv> <remote_adv>    -> ok | panic
//!   avg                                     -> ok <i32> | panic
//!   lfa <fps> <now_ms> <pong> <last_recv_frame> <local_frame>
//!        -> ok <local_frame_advantage> <frame_advantage in the next QualityReport> | panic
//!      a fresh endpoint is synchronised, receives (if last_recv_frame >= 0) one Input packet starting
//!      at that frame, then a QualityReply{pong} at virtual time now_ms (round trip = now - pong,
//!      saturating), then update_local_frame_advantage(local_frame); 201 ms later poll() emits the
//!      QualityReport whose i16 field is printed second.
use crate::util::guarded;
use ggrs::verif::msg::{build, view, Body, MsgView};
use ggrs::verif::{clock, codec, rng, Endpoint, TimeSyncW};
use ggrs::{Config, DesyncDetection, PredictRepeatLast};
use std::io::{BufRead, Write};

struct Cfg;
impl Config for Cfg {
    type Input = u8;
    type InputPredictor = PredictRepeatLast;
    type State = ();
    type Address = u64;
}

const PEER_MAGIC: u16 = 0x5a5a;
const NUM_PLAYERS: usize = 2;

fn status() -> Vec<(bool, i32)> {
    vec![(false, -1); NUM_PLAYERS]
}

/// Brings a fresh endpoint (one remote player, handle 1) into the Running state at virtual time `t0`.
fn running_endpoint(fps: usize, t0: u64) -> Result<Endpoint<Cfg>, String> {
    clock::set_ms(Some(t0));
    rng::seed(Some(0xC15));
    let mut ep = Endpoint::<Cfg>::new(vec![1], 7u64, NUM_PLAYERS, 1, 8, 2000, 500, fps, DesyncDetection::Off);
    ep.synchronize();
    for _ in 0..64 {
        if ep.is_running() {
            break;
        }
        let mut answered = false;
        for m in ep.drain_messages() {
            if let Body::SyncRequest(r) = view(&m).body {
                ep.handle_message(&build(&MsgView { magic: PEER_MAGIC, body: Body::SyncReply(r) }));
                answered = true;
            }
        }
        if !answered {
            return Err("handshake stalled".to_string());
        }
    }
    if !ep.is_running() {
        return Err("endpoint did not reach Running".to_string());
    }
    ep.poll(&status());
    ep.drain_messages();
    Ok(ep)
}

fn lfa(fps: usize, now: u64, pong: u128, last_recv: i32, local_frame: i32) -> Result<String, String> {
    let mut ep = running_endpoint(fps, now)?;
    if last_recv >= 0 {
        // first input packet: decoded against the all-zero reference, sets last_recv_frame = start_frame
        let bytes = codec::encode(&[0u8], &[vec![1u8]]);
        ep.handle_message(&build(&MsgView {
            magic: PEER_MAGIC,
            body: Body::Input {
                status: status(),
                disconnect_requested: false,
                start_frame: last_recv,
                ack_frame: -1,
                bytes,
            },
        }));
    }
    if ep.info().last_recv_frame != last_recv.max(-1) {
        return Err(format!("last_recv_frame is {} not {}", ep.info().last_recv_frame, last_recv));
    }
    ep.handle_message(&build(&MsgView { magic: PEER_MAGIC, body: Body::QualityReply(pong) }));
    ep.update_local_frame_advantage(local_frame);
    let adv = ep.info().local_frame_advantage;
    ep.poll(&status());
    ep.drain_messages();
    clock::advance_ms(201);
    ep.poll(&status());
    let mut reported: Option<i16> = None;
    for m in ep.drain_messages() {
        if let Body::QualityReport { frame_advantage, .. } = view(&m).body {
            reported = Some(frame_advantage);
        }
    }
    match reported {
        Some(r) => Ok(format!("ok {adv} {r}")),
        None => Err("no QualityReport after 201 ms".to_string()),
    }
}

pub fn run() {
    let stdin = std::io::stdin();
    let stdout = std::io::stdout();
    let mut out = stdout.lock();
    let mut ts = TimeSyncW::new();
    for line in stdin.lock().lines() {
        let line = line.expect("read");
        let t: Vec<&str> = line.split_whitespace().collect();
        if t.is_empty() {
            continue;
        }
        let num = |i: usize| -> i32 { t[i].parse().expect("i32") };
        let res = match t[0] {
            "new" => {
                ts = TimeSyncW::new();
                "ok".to_string()
            }
            "adv" => match guarded(|| ts.advance_frame(num(1), num(2), num(3))) {
                Ok(()) => "ok".to_string(),
                Err(_) => "panic".to_string(),
            },
            "avg" => match guarded(|| ts.average_frame_advantage()) {
                Ok(v) => format!("ok {v}"),
                Err(_) => "panic".to_string(),
            },
            "lfa" => {
                let fps: usize = t[1].parse().expect("fps");
                let now: u64 = t[2].parse().expect("now");
                let pong: u128 = t[3].parse().expect("pong");
                let r = guarded(|| lfa(fps, now, pong, num(4), num(5)));
                clock::set_ms(None);
                rng::seed(None);
                match r {
                    Ok(Ok(s)) => s,
                    Ok(Err(e)) => format!("harness-error {e}"),
                    Err(_) => "panic".to_string(),
                }
            }
            _ => "badop".to_string(),
        };
        writeln!(out, "{res}").unwrap();
        out.flush().unwrap();
    }
}
