//! Level `endpoint` (C12, C05, C07, C08, C18): drives real `UdpProtocol` endpoints through
//! `ggrs::verif::Endpoint`.  One op per line, one canonical result line per op.
//!
//!   seed <s>                         seeds the hook RNG (splitmix64) of this thread        -> ok
//!   clock <ms>                       sets the virtual clock                                 -> ok
//!   reset                            forgets all endpoints, links and outboxes              -> ok
//!   link <a> <b>                     what endpoint a sends is kept in the outbox a->b       -> ok
//!   new <id> handles=<h,h|-> players=<n> local=<n> window=<w> timeout=<ms> notify=<ms> fps=<n> desync=<k|0>
//!   sync <id> | disc <id> | poll <id> <status> | send <id> <h:f:v,..|-> <status>
//!   csum <id> <frame> <checksum> | adv <id> <local frame> | stats <id> | avg <id>
//!   msg <id> <magic> <body>          body: sreq n | srep n | input <status> <0|1> <start> <ack> <hex>
//!                                          | ack f | qrep adv ping | qrpl pong | csum checksum frame | ka
//!   deliver|dup|drop <a> <b> <k>     k-th message of the outbox a->b goes to b.handle_message
//!                                    (dup keeps it in the outbox, drop only removes it)
//! status lists: `d:f,d:f` or `-`.
//! Result: `ok|panic|dead|nomsg|noep | ev=<events> | out=<drained messages> | <info scalars>`.
use crate::util::{guarded, hex, unhex};
use ggrs::verif::msg::{self, Body, MsgView};
use ggrs::verif::{clock, rng, Endpoint, EventView};
use ggrs::{Config, DesyncDetection, Message, PredictRepeatLast};
use serde::{Deserialize, Serialize};
use std::collections::HashMap;
use std::io::{BufRead, Write};

#[derive(Copy, Clone, PartialEq, Eq, Default, Debug, Serialize, Deserialize)]
pub struct Inp(u32);

pub struct Cfg;
impl Config for Cfg {
    type Input = Inp;
    type InputPredictor = PredictRepeatLast;
    type State = u64;
    type Address = u32;
}

fn status_list(s: &str) -> Option<Vec<(bool, i32)>> {
    if s == "-" {
        return Some(Vec::new());
    }
    s.split(',')
        .map(|e| {
            let (d, f) = e.split_once(':')?;
            Some((d == "1", f.parse().ok()?))
        })
        .collect()
}

fn show_status(v: &[(bool, i32)]) -> String {
    if v.is_empty() {
        return "-".to_string();
    }
    v.iter()
        .map(|(d, f)| format!("{}:{}", u8::from(*d), f))
        .collect::<Vec<_>>()
        .join(",")
}

fn show_msg(m: &Message) -> String {
    let v = msg::view(m);
    let b = match &v.body {
        Body::SyncRequest(n) => format!("sreq/{n}"),
        Body::SyncReply(n) => format!("srep/{n}"),
        Body::Input {
            status,
            disconnect_requested,
            start_frame,
            ack_frame,
            bytes,
        } => format!(
            "input/{}/{}/{}/{}/{}",
            show_status(status),
            u8::from(*disconnect_requested),
            start_frame,
            ack_frame,
            hex(bytes)
        ),
        Body::InputAck(f) => format!("ack/{f}"),
        Body::QualityReport {
            frame_advantage,
            ping,
        } => format!("qrep/{frame_advantage}/{ping}"),
        Body::QualityReply(p) => format!("qrpl/{p}"),
        Body::ChecksumReport { checksum, frame } => format!("csum/{checksum}/{frame}"),
        Body::KeepAlive => "ka".to_string(),
    };
    format!("{}/{}", v.magic, b)
}

fn show_event(e: &EventView<Inp>) -> String {
    match e {
        EventView::Synchronizing { total, count } => format!("synchronizing/{total}/{count}"),
        EventView::Synchronized => "synchronized".to_string(),
        EventView::Input {
            frame,
            input,
            player,
        } => format!("input/{frame}/{}/{player}", input.0),
        EventView::Disconnected => "disconnected".to_string(),
        EventView::NetworkInterrupted { disconnect_timeout } => {
            format!("interrupted/{disconnect_timeout}")
        }
        EventView::NetworkResumed => "resumed".to_string(),
    }
}

fn join(v: Vec<String>) -> String {
    if v.is_empty() {
        "-".to_string()
    } else {
        v.join(";")
    }
}

fn parse_body(t: &[&str]) -> Option<Body> {
    Some(match t {
        ["sreq", n] => Body::SyncRequest(n.parse().ok()?),
        ["srep", n] => Body::SyncReply(n.parse().ok()?),
        ["input", st, dr, start, ack, bytes] => Body::Input {
            status: status_list(st)?,
            disconnect_requested: *dr == "1",
            start_frame: start.parse().ok()?,
            ack_frame: ack.parse().ok()?,
            bytes: unhex(bytes),
        },
        ["ack", f] => Body::InputAck(f.parse().ok()?),
        ["qrep", adv, ping] => Body::QualityReport {
            frame_advantage: adv.parse().ok()?,
            ping: ping.parse().ok()?,
        },
        ["qrpl", pong] => Body::QualityReply(pong.parse().ok()?),
        ["csum", c, f] => Body::ChecksumReport {
            checksum: c.parse().ok()?,
            frame: f.parse().ok()?,
        },
        ["ka"] => Body::KeepAlive,
        _ => return None,
    })
}

fn kv<'a>(t: &'a str, key: &str) -> Option<&'a str> {
    t.strip_prefix(key)?.strip_prefix('=')
}

struct World {
    eps: HashMap<u32, Option<Endpoint<Cfg>>>, // None: died in a panic
    peer: HashMap<u32, u32>,
    outbox: HashMap<(u32, u32), Vec<Message>>,
}

impl World {
    /// Runs `f` on endpoint `id`, then drains its send queue and prints the canonical line.
    fn on(
        &mut self,
        id: u32,
        f: impl FnOnce(&mut Endpoint<Cfg>) -> (Vec<EventView<Inp>>, Option<String>),
    ) -> String {
        let slot = match self.eps.get_mut(&id) {
            None => return "noep".to_string(),
            Some(s) => s,
        };
        let ep = match slot.as_mut() {
            None => return "dead".to_string(),
            Some(e) => e,
        };
        let res = guarded(|| {
            let (evs, extra) = f(ep);
            let out = ep.drain_messages();
            (evs, extra, out, ep.info(), ep.is_running(), ep.is_synchronized())
        });
        match res {
            Err(_) => {
                *slot = None;
                "panic".to_string()
            }
            Ok((evs, extra, out, i, running, synced)) => {
                let line = format!(
                    "ok{} | ev={} | out={} | st={} po={} ri={} pc={} sr={} sq={} eq={} la={} lr={} adv={},{} rtt={} pcs={} run={} syn={}",
                    extra.map(|e| format!(" {e}")).unwrap_or_default(),
                    join(evs.iter().map(show_event).collect()),
                    join(out.iter().map(show_msg).collect()),
                    i.state,
                    i.pending_output,
                    i.recv_inputs,
                    i.pending_checksums,
                    i.sync_random_requests,
                    i.send_queue,
                    i.event_queue,
                    i.last_acked_frame,
                    i.last_recv_frame,
                    i.local_frame_advantage,
                    i.remote_frame_advantage,
                    i.round_trip_time,
                    show_status(&i.peer_connect_status),
                    u8::from(running),
                    u8::from(synced)
                );
                if let Some(&p) = self.peer.get(&id) {
                    self.outbox.entry((id, p)).or_default().extend(out);
                }
                line
            }
        }
    }

    fn op(&mut self, t: &[&str]) -> Option<String> {
        Some(match t {
            ["seed", s] => {
                rng::seed(Some(s.parse().ok()?));
                "ok".to_string()
            }
            ["clock", ms] => {
                clock::set_ms(Some(ms.parse().ok()?));
                "ok".to_string()
            }
            ["reset"] => {
                self.eps.clear();
                self.peer.clear();
                self.outbox.clear();
                "ok".to_string()
            }
            ["link", a, b] => {
                self.peer.insert(a.parse().ok()?, b.parse().ok()?);
                "ok".to_string()
            }
            ["new", id, hs, np, lp, w, to, nt, fps, ds] => {
                let id: u32 = id.parse().ok()?;
                let hs = kv(hs, "handles")?;
                let handles: Vec<usize> = if hs == "-" {
                    Vec::new()
                } else {
                    hs.split(',').map(|h| h.parse().ok()).collect::<Option<_>>()?
                };
                let np: usize = kv(np, "players")?.parse().ok()?;
                let lp: usize = kv(lp, "local")?.parse().ok()?;
                let w: usize = kv(w, "window")?.parse().ok()?;
                let to: u64 = kv(to, "timeout")?.parse().ok()?;
                let nt: u64 = kv(nt, "notify")?.parse().ok()?;
                let fps: usize = kv(fps, "fps")?.parse().ok()?;
                let ds: u32 = kv(ds, "desync")?.parse().ok()?;
                let desync = if ds == 0 {
                    DesyncDetection::Off
                } else {
                    DesyncDetection::On { interval: ds }
                };
                match guarded(|| Endpoint::<Cfg>::new(handles, id, np, lp, w, to, nt, fps, desync)) {
                    Ok(e) => {
                        self.eps.insert(id, Some(e));
                        self.on(id, |_| (Vec::new(), None))
                    }
                    Err(_) => {
                        self.eps.insert(id, None);
                        "panic".to_string()
                    }
                }
            }
            ["sync", id] => self.on(id.parse().ok()?, |e| {
                e.synchronize();
                (Vec::new(), None)
            }),
            ["disc", id] => self.on(id.parse().ok()?, |e| {
                e.disconnect();
                (Vec::new(), None)
            }),
            ["poll", id, st] => {
                let st = status_list(st)?;
                self.on(id.parse().ok()?, |e| (e.poll(&st), None))
            }
            ["send", id, ins, st] => {
                let st = status_list(st)?;
                let inputs: Vec<(usize, i32, Inp)> = if *ins == "-" {
                    Vec::new()
                } else {
                    ins.split(',')
                        .map(|e| {
                            let p: Vec<&str> = e.split(':').collect();
                            if p.len() != 3 {
                                return None;
                            }
                            Some((p[0].parse().ok()?, p[1].parse().ok()?, Inp(p[2].parse().ok()?)))
                        })
                        .collect::<Option<_>>()?
                };
                self.on(id.parse().ok()?, |e| {
                    e.send_input(&inputs, &st);
                    (Vec::new(), None)
                })
            }
            ["csum", id, frame, checksum] => {
                let (f, c): (i32, u128) = (frame.parse().ok()?, checksum.parse().ok()?);
                self.on(id.parse().ok()?, |e| {
                    e.send_checksum_report(f, c);
                    (Vec::new(), None)
                })
            }
            ["adv", id, lf] => {
                let lf: i32 = lf.parse().ok()?;
                self.on(id.parse().ok()?, |e| {
                    e.update_local_frame_advantage(lf);
                    (Vec::new(), None)
                })
            }
            ["stats", id] => self.on(id.parse().ok()?, |e| {
                let s = match e.network_stats() {
                    Ok(s) => format!(
                        "stats/{}/{}/{}/{}",
                        s.ping, s.send_queue_len, s.local_frames_behind, s.remote_frames_behind
                    ),
                    Err(ggrs::GgrsError::NotSynchronized) => "notsynchronized".to_string(),
                    Err(ggrs::GgrsError::NotEnoughData) => "notenoughdata".to_string(),
                    Err(_) => "othererror".to_string(),
                };
                (Vec::new(), Some(s))
            }),
            ["avg", id] => self.on(id.parse().ok()?, |e| {
                let a = e.average_frame_advantage();
                (Vec::new(), Some(format!("avg/{a}")))
            }),
            ["msg", id, magic, body @ ..] => {
                let m = msg::build(&MsgView {
                    magic: magic.parse().ok()?,
                    body: parse_body(body)?,
                });
                self.on(id.parse().ok()?, |e| {
                    e.handle_message(&m);
                    (Vec::new(), None)
                })
            }
            [kind @ ("deliver" | "dup" | "drop"), a, b, k] => {
                let (a, b, k): (u32, u32, usize) = (a.parse().ok()?, b.parse().ok()?, k.parse().ok()?);
                let q = self.outbox.entry((a, b)).or_default();
                if k >= q.len() {
                    return Some("nomsg".to_string());
                }
                let m = if *kind == "dup" { q[k].clone() } else { q.remove(k) };
                if *kind == "drop" {
                    return Some("ok".to_string());
                }
                self.on(b, |e| {
                    e.handle_message(&m);
                    (Vec::new(), None)
                })
            }
            _ => return None,
        })
    }
}

pub fn run() {
    let stdin = std::io::stdin();
    let stdout = std::io::stdout();
    let mut out = stdout.lock();
    let mut w = World {
        eps: HashMap::new(),
        peer: HashMap::new(),
        outbox: HashMap::new(),
    };
    clock::set_ms(Some(0));
    rng::seed(Some(0));
    for line in stdin.lock().lines() {
        let line = line.expect("read");
        let toks: Vec<&str> = line.split_whitespace().collect();
        if toks.is_empty() {
            continue;
        }
        let res = w.op(&toks).unwrap_or_else(|| "badop".to_string());
        writeln!(out, "{res}").unwrap();
        out.flush().unwrap();
    }
}
