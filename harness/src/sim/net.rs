//! In-memory network with a virtual clock: per directed link a base latency, per-packet faults
//! indexed by the packet's sequence number on that link, and outage windows.
use ggrs::{Message, NonBlockingSocket};
use std::cell::RefCell;
use std::collections::{BTreeMap, HashMap};
use std::rc::Rc;

pub type Addr = u32;

#[derive(Clone, Copy, Debug)]
pub enum Fault {
    Drop,
    Dup(u64),   // deliver twice, second copy this many ms later
    Delay(u64), // extra delay in ms (reorders behind later packets)
}

#[derive(Default)]
pub struct Link {
    pub latency: u64,
    pub sent: u64,
    pub faults: HashMap<u64, Fault>,
    pub outages: Vec<(u64, u64)>,
}

#[derive(Default)]
pub struct Net {
    pub now: u64,
    pub seq: u64,
    pub links: HashMap<(Addr, Addr), Link>,
    pub default_latency: u64,
    // (due, seq) -> (from, to, msg)
    pub inflight: BTreeMap<(u64, u64), (Addr, Addr, Message)>,
    pub inboxes: HashMap<Addr, Vec<(Addr, Message, bool)>>,
    pub dead: Vec<Addr>,
    pub sent_total: u64,
    pub dropped_total: u64,
    /// log of every packet handed to the network: (time, from, to)
    pub log_sizes: HashMap<(Addr, Addr), u64>,
    /// magic number last seen on each directed link (what the receiver knows as the sender's magic)
    pub magic_seen: HashMap<(Addr, Addr), u16>,
    /// start frame of the first Input packet handed to the network on each directed link, and whether a
    /// monitor has already looked at it (the input stream to a peer starts at frame 0: C05/C06)
    pub first_input_start: HashMap<(Addr, Addr), (i32, bool)>,
}

impl Net {
    pub fn send(&mut self, from: Addr, to: Addr, msg: &Message) {
        self.sent_total += 1;
        let mv = ggrs::verif::msg::view(msg);
        self.magic_seen.insert((from, to), mv.magic);
        if let ggrs::verif::msg::Body::Input { start_frame, .. } = mv.body {
            self.first_input_start.entry((from, to)).or_insert((start_frame, false));
        }
        if self.dead.contains(&from) || self.dead.contains(&to) {
            self.dropped_total += 1;
            return;
        }
        let default_latency = self.default_latency;
        let now = self.now;
        let link = self.links.entry((from, to)).or_insert_with(|| Link {
            latency: default_latency,
            ..Default::default()
        });
        let idx = link.sent;
        link.sent += 1;
        if link.outages.iter().any(|&(a, b)| now >= a && now < b) {
            self.dropped_total += 1;
            return;
        }
        let lat = link.latency;
        match link.faults.get(&idx).copied() {
            Some(Fault::Drop) => {
                self.dropped_total += 1;
            }
            Some(Fault::Dup(extra)) => {
                self.seq += 1;
                self.inflight.insert((now + lat, self.seq), (from, to, msg.clone()));
                self.seq += 1;
                self.inflight.insert((now + lat + extra, self.seq), (from, to, msg.clone()));
            }
            Some(Fault::Delay(extra)) => {
                self.seq += 1;
                self.inflight.insert((now + lat + extra, self.seq), (from, to, msg.clone()));
            }
            None => {
                self.seq += 1;
                self.inflight.insert((now + lat, self.seq), (from, to, msg.clone()));
            }
        }
    }

    /// Moves every packet that is due into its destination inbox.
    pub fn deliver_due(&mut self) {
        let due: Vec<(u64, u64)> = self
            .inflight
            .range(..=(self.now, u64::MAX))
            .map(|(k, _)| *k)
            .collect();
        for k in due {
            let (from, to, msg) = self.inflight.remove(&k).unwrap();
            if self.dead.contains(&to) || self.dead.contains(&from) {
                continue;
            }
            self.inboxes.entry(to).or_default().push((from, msg, false));
        }
    }

    pub fn inject(&mut self, from: Addr, to: Addr, msg: Message) {
        self.inboxes.entry(to).or_default().push((from, msg, true));
    }
}

pub struct SimSocket {
    pub me: Addr,
    pub net: Rc<RefCell<Net>>,
    /// senders seen by the most recent receive_all_messages call
    pub last_rx_from: Rc<RefCell<Vec<Addr>>>,
    /// genuine QualityReply packets received so far, per sender (C15: "enough data exists")
    pub qreplies: Rc<RefCell<HashMap<Addr, u32>>>,
    /// distinct nonces of the genuine SyncReply packets received so far, per sender (C12: duplicated
    /// replies do not count as round trips)
    pub sync_nonces: Rc<RefCell<HashMap<Addr, Vec<u32>>>>,
}

impl NonBlockingSocket<Addr> for SimSocket {
    fn send_to(&mut self, msg: &Message, addr: &Addr) {
        self.net.borrow_mut().send(self.me, *addr, msg);
    }
    fn receive_all_messages(&mut self) -> Vec<(Addr, Message)> {
        let v = self
            .net
            .borrow_mut()
            .inboxes
            .get_mut(&self.me)
            .map(std::mem::take)
            .unwrap_or_default();
        let mut seen = self.last_rx_from.borrow_mut();
        for (a, m, injected) in &v {
            // injected (forged) packets do not count as traffic from the peer for the timer monitor
            if !injected && !seen.contains(a) {
                seen.push(*a);
            }
            if !injected && matches!(ggrs::verif::msg::view(m).body, ggrs::verif::msg::Body::QualityReply { .. }) {
                *self.qreplies.borrow_mut().entry(*a).or_insert(0) += 1;
            }
            if !injected {
                if let ggrs::verif::msg::Body::SyncReply(r) = ggrs::verif::msg::view(m).body {
                    let mut sn = self.sync_nonces.borrow_mut();
                    let v = sn.entry(*a).or_default();
                    if !v.contains(&r) {
                        v.push(r);
                    }
                }
            }
        }
        v.into_iter().map(|(a, m, _)| (a, m)).collect()
    }
}
