//! The harness game: executes request lists with full checking (C02/C04) and records, per frame,
//! the inputs of the first and of the last simulation (C01/C03/C06/C07).
use ggrs::{Config, Frame, GgrsRequest, InputStatus};
use serde::{Deserialize, Serialize};

#[derive(Copy, Clone, PartialEq, Eq, Default, Debug, Serialize, Deserialize)]
pub struct Inp(pub u32);

#[derive(Clone, Debug)]
pub struct GState {
    pub frame: Frame,
    pub hash: u64,
}

pub fn mix(h: u64, x: u64) -> u64 {
    let mut z = h ^ x.wrapping_mul(0x9E37_79B9_7F4A_7C15);
    z = (z ^ (z >> 30)).wrapping_mul(0xBF58_476D_1CE4_E5B9);
    z = (z ^ (z >> 27)).wrapping_mul(0x94D0_49BB_1331_11EB);
    z ^ (z >> 31)
}

pub fn status_code(s: InputStatus) -> u8 {
    match s {
        InputStatus::Confirmed => 0,
        InputStatus::Predicted => 1,
        InputStatus::Disconnected => 2,
    }
}

/// the `window` argument of `execute` for spectator sessions (they never save or load)
pub const SPECTATOR_WINDOW: usize = usize::MAX / 4;

pub type FrameInputs = Vec<(u32, u8)>;

pub struct Game {
    pub players: usize,
    pub frame: Frame,
    pub hash: u64,
    /// hash after n advances on the current timeline (hashes[0] = initial)
    pub hashes: Vec<u64>,
    /// inputs of the current timeline
    pub hist: Vec<FrameInputs>,
    /// inputs of the first simulation of each frame
    pub first_sim: Vec<FrameInputs>,
    /// checksum saved for each frame by the latest save
    pub saved: std::collections::HashMap<Frame, u64>,
    pub saved_zero_before_advance: bool,
    pub advanced_any: bool,
    pub diverge_from: Option<Frame>,
    pub noise: u64,
    /// request log digest (C17)
    pub req_digest: u64,
    pub n_saves: u64,
    pub n_loads: u64,
    pub n_advances: u64,
    pub max_rollback: i32,
    pub hits: Vec<(String, String, String)>,
    /// per call: list of (frame, inputs) simulated in this call, in order
    pub call_sims: Vec<(Frame, FrameInputs)>,
    pub call_loads: Vec<(Frame, Frame)>, // (from frame, to frame)
    pub call_saves: Vec<Frame>,
}

impl Game {
    pub fn new(players: usize) -> Self {
        Self {
            players,
            frame: 0,
            hash: 0x1234_5678,
            hashes: vec![0x1234_5678],
            hist: Vec::new(),
            first_sim: Vec::new(),
            saved: Default::default(),
            saved_zero_before_advance: false,
            advanced_any: false,
            diverge_from: None,
            noise: 0,
            req_digest: 0,
            n_saves: 0,
            n_loads: 0,
            n_advances: 0,
            max_rollback: 0,
            hits: Vec::new(),
            call_sims: Vec::new(),
            call_loads: Vec::new(),
            call_saves: Vec::new(),
        }
    }

    fn hit(&mut self, prop: &str, class: &str, what: String) {
        if self.hits.len() < 20 {
            self.hits.push((prop.to_string(), class.to_string(), what));
        }
    }

    /// Executes one request list. `window` = max_prediction of the session.
    pub fn execute<C>(&mut self, requests: Vec<GgrsRequest<C>>, window: usize)
    where
        C: Config<Input = Inp, State = GState>,
    {
        self.call_sims.clear();
        self.call_loads.clear();
        self.call_saves.clear();
        if std::env::var_os("VERIF_SIM_TRACE").is_some() {
            let t: Vec<String> = requests.iter().map(|r| match r {
                GgrsRequest::SaveGameState { frame, .. } => format!("S{frame}"),
                GgrsRequest::LoadGameState { frame, .. } => format!("L{frame}"),
                GgrsRequest::AdvanceFrame { inputs } => format!("A({})", inputs.iter().map(|(i, s)| format!("{}{}", i.0, ["C", "P", "D"][status_code(*s) as usize])).collect::<Vec<_>>().join(",")),
            }).collect();
            eprintln!("TRACE game@{} {}", self.frame, t.join(" "));
        }
        for req in requests {
            match req {
                GgrsRequest::SaveGameState { cell, frame } => {
                    self.n_saves += 1;
                    self.req_digest = mix(self.req_digest, 0x5a00_0000 ^ frame as u64);
                    if window == 0 {
                        self.hit("C04", "lockstep-save", format!("SaveGameState({frame}) issued with max_prediction = 0"));
                    }
                    if window == SPECTATOR_WINDOW {
                        self.hit("C06", "spectator-save", format!("a spectator session issued SaveGameState({frame})"));
                    }
                    if frame != self.frame {
                        self.hit("C02", "save-frame", format!("SaveGameState names frame {frame} but the game is at frame {}", self.frame));
                    }
                    let mut checksum = self.hash;
                    if let Some(from) = self.diverge_from {
                        if self.frame >= from {
                            self.noise = self.noise.wrapping_add(1);
                            checksum = mix(checksum, 0xdead_0000 + self.noise);
                        }
                    }
                    cell.save(frame, Some(GState { frame: self.frame, hash: self.hash }), Some(u128::from(checksum)));
                    self.saved.insert(frame, checksum);
                    if frame == 0 && !self.advanced_any {
                        self.saved_zero_before_advance = true;
                    }
                    self.call_saves.push(frame);
                }
                GgrsRequest::LoadGameState { cell, frame } => {
                    self.n_loads += 1;
                    self.req_digest = mix(self.req_digest, 0x10ad_0000 ^ frame as u64);
                    if window == 0 {
                        self.hit("C04", "lockstep-load", format!("LoadGameState({frame}) issued with max_prediction = 0"));
                    }
                    if window == SPECTATOR_WINDOW {
                        self.hit("C06", "spectator-load", format!("a spectator session issued LoadGameState({frame})"));
                    }
                    if frame >= self.frame || frame < 0 {
                        self.hit("C02", "load-not-earlier", format!("LoadGameState({frame}) while the game is at frame {}", self.frame));
                    }
                    let dist = self.frame - frame;
                    if dist > window as i32 {
                        self.hit("C04", "load-beyond-window", format!("LoadGameState({frame}) is {dist} frames behind the game frame {} (max_prediction {window})", self.frame));
                    }
                    self.max_rollback = self.max_rollback.max(dist);
                    match cell.load() {
                        None => self.hit("C02", "load-empty-cell", format!("LoadGameState({frame}): the cell holds no state")),
                        Some(st) => {
                            let want = if frame >= 0 && (frame as usize) < self.hashes.len() { Some(self.hashes[frame as usize]) } else { None };
                            if st.frame != frame || Some(st.hash) != want {
                                self.hit("C02", "load-stale-cell", format!(
                                    "LoadGameState({frame}): the cell holds the state of frame {} (hash {:x}), not the state saved for frame {frame} on the current timeline", st.frame, st.hash));
                            }
                            self.call_loads.push((self.frame, frame));
                            // restore
                            self.frame = st.frame;
                            self.hash = st.hash;
                            let keep = (st.frame.max(0)) as usize;
                            self.hist.truncate(keep);
                            self.hashes.truncate(keep + 1);
                            if self.hashes.is_empty() { self.hashes.push(st.hash); }
                        }
                    }
                }
                GgrsRequest::AdvanceFrame { inputs } => {
                    self.n_advances += 1;
                    let fi: FrameInputs = inputs.iter().map(|(i, s)| (i.0, status_code(*s))).collect();
                    for (v, s) in &fi {
                        self.req_digest = mix(self.req_digest, (u64::from(*v) << 8) | u64::from(*s));
                    }
                    if fi.len() != self.players {
                        self.hit("C02", "advance-arity", format!("AdvanceFrame carries {} inputs for {} players", fi.len(), self.players));
                    }
                    if self.frame == 0 && !self.advanced_any && window > 0 && window != SPECTATOR_WINDOW && !self.saved_zero_before_advance {
                        self.hit("C02", "no-save-before-first-advance", "the first simulation of frame 0 was not preceded by SaveGameState(0)".to_string());
                    }
                    self.advanced_any = true;
                    let f = self.frame as usize;
                    if f == self.first_sim.len() {
                        self.first_sim.push(fi.clone());
                    }
                    self.call_sims.push((self.frame, fi.clone()));
                    let mut h = self.hash;
                    for (v, s) in &fi {
                        // the game logic depends on the input value and on whether the player is disconnected
                        h = mix(h, (u64::from(*v) << 1) | u64::from(*s == 2));
                    }
                    self.hist.push(fi);
                    self.frame += 1;
                    self.hash = h;
                    self.hashes.push(h);
                }
            }
        }
    }
}
