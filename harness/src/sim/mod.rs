//! L4: several real sessions over the in-memory network under a virtual clock, driven by a
//! scenario script; implementation-side monitors for the session-level properties.
//!
//! Script (one scenario per block):
//!   scenario <name>
//!   cfg players=<n> window=<w> sparse=<0|1> pred=<repeat|default> desync=<k|0> fps=<n> timeout=<ms>
//!       notify=<ms> inputrun=<k> seed=<n> lat=<ms> expect=<flags,comma separated>
//!   peer <id> p2p local=<h,h,..> delay=<d> [nodrain=1]
//!   peer <id> spec host=<id> catchup=<n> maxbehind=<n>
//!   spectate <host> <spec> <handle>
//!   link <from> <to> lat=<ms> faults=<idx:kind[:arg],..> out=<t0>-<t1>,..
//!   begin
//!   t <ms> | tick <peer> | poll <peer> | delay <peer> <handle> <d> | disc <peer> <handle> | kill <peer>
//!   mark | progress <peer> <n> | diverge <peer> <frame> | inject <from> <to> <kind> [args] | misuse <peer> <kind>
//!   end
//! Output: `HIT <prop> <class> <scenario> <what>`, `OBS <scenario> <peer> <digests>`, `STAT ...`, `END <scenario>`.
pub mod game;
pub mod net;

use crate::util::guarded;
use game::{mix, Game, GState, Inp};
use ggrs::verif::msg::{Body, MsgView};
use ggrs::{
    Config, DesyncDetection, Frame, GgrsError, GgrsEvent, P2PSession, PlayerType, PredictDefault,
    PredictRepeatLast, SessionBuilder, SessionState, SpectatorSession,
};
use net::{Addr, Fault, Link, Net, SimSocket};
use std::cell::RefCell;
use std::collections::{BTreeMap, HashMap};
use std::io::{BufRead, Write};
use std::rc::Rc;
use std::time::Duration;

pub struct CfgRepeat;
impl Config for CfgRepeat {
    type Input = Inp;
    type InputPredictor = PredictRepeatLast;
    type State = GState;
    type Address = Addr;
}
pub struct CfgDefault;
impl Config for CfgDefault {
    type Input = Inp;
    type InputPredictor = PredictDefault;
    type State = GState;
    type Address = Addr;
}

/// A custom predictor that is NOT idempotent (predict(predict(x)) != predict(x)): outside C01's space
/// ("both shipped predictors"); used only by the exploratory family `fam_custom_predictor`.
pub struct PredictInc;
impl ggrs::InputPredictor<Inp> for PredictInc {
    fn predict(previous: Inp) -> Inp {
        Inp((previous.0 + 1) % 6)
    }
}
pub struct CfgInc;
impl Config for CfgInc {
    type Input = Inp;
    type InputPredictor = PredictInc;
    type State = GState;
    type Address = Addr;
}

#[derive(Clone, Debug, Default)]
pub struct ScenCfg {
    pub players: usize,
    pub window: usize,
    pub sparse: bool,
    pub pred_repeat: bool,
    pub pred_inc: bool,
    pub desync: u32,
    pub fps: usize,
    pub timeout: u64,
    pub notify: u64,
    pub inputrun: u64,
    pub seed: u64,
    pub lat: u64,
    pub expect: Vec<String>,
}

#[derive(Clone, Debug)]
pub enum PeerSpec {
    P2P { local: Vec<usize>, delay: usize, nodrain: bool },
    Spec { host: Addr, catchup: usize, maxbehind: usize },
}

#[derive(Clone, Debug, Default)]
pub struct Scenario {
    pub name: String,
    pub cfg: ScenCfg,
    pub peers: Vec<(Addr, PeerSpec)>,
    pub spectate: Vec<(Addr, Addr, usize)>,
    pub links: Vec<(Addr, Addr, Link0)>,
    pub ops: Vec<Vec<String>>,
}
#[derive(Clone, Debug, Default)]
pub struct Link0 {
    pub lat: u64,
    pub faults: Vec<(u64, String, u64)>,
    pub outages: Vec<(u64, u64)>,
}

fn kv(tok: &str) -> (&str, &str) {
    match tok.split_once('=') {
        Some((k, v)) => (k, v),
        None => (tok, ""),
    }
}

pub fn parse(lines: &[String]) -> Vec<Scenario> {
    let mut out = Vec::new();
    let mut cur: Option<Scenario> = None;
    let mut in_ops = false;
    for line in lines {
        let toks: Vec<&str> = line.split_whitespace().collect();
        if toks.is_empty() || toks[0].starts_with('#') {
            continue;
        }
        match toks[0] {
            "scenario" => {
                cur = Some(Scenario { name: toks[1].to_string(), ..Default::default() });
                in_ops = false;
            }
            "cfg" => {
                let c = &mut cur.as_mut().unwrap().cfg;
                c.fps = 60;
                c.timeout = 2000;
                c.notify = 500;
                c.inputrun = 3;
                c.pred_repeat = true;
                for t in &toks[1..] {
                    let (k, v) = kv(t);
                    match k {
                        "players" => c.players = v.parse().unwrap(),
                        "window" => c.window = v.parse().unwrap(),
                        "sparse" => c.sparse = v == "1",
                        "pred" => {
                            c.pred_repeat = v == "repeat";
                            c.pred_inc = v == "inc";
                        }
                        "desync" => c.desync = v.parse().unwrap(),
                        "fps" => c.fps = v.parse().unwrap(),
                        "timeout" => c.timeout = v.parse().unwrap(),
                        "notify" => c.notify = v.parse().unwrap(),
                        "inputrun" => c.inputrun = v.parse().unwrap(),
                        "seed" => c.seed = v.parse().unwrap(),
                        "lat" => c.lat = v.parse().unwrap(),
                        "expect" => c.expect = v.split(',').map(str::to_string).collect(),
                        _ => {}
                    }
                }
            }
            "peer" => {
                let id: Addr = toks[1].parse().unwrap();
                let mut local = Vec::new();
                let (mut delay, mut nodrain, mut host, mut catchup, mut maxbehind) = (0, false, 0, 1, 10);
                for t in &toks[3..] {
                    let (k, v) = kv(t);
                    match k {
                        "local" => local = v.split(',').filter(|s| !s.is_empty()).map(|s| s.parse().unwrap()).collect(),
                        "delay" => delay = v.parse().unwrap(),
                        "nodrain" => nodrain = v == "1",
                        "host" => host = v.parse().unwrap(),
                        "catchup" => catchup = v.parse().unwrap(),
                        "maxbehind" => maxbehind = v.parse().unwrap(),
                        _ => {}
                    }
                }
                let spec = if toks[2] == "p2p" {
                    PeerSpec::P2P { local, delay, nodrain }
                } else {
                    PeerSpec::Spec { host, catchup, maxbehind }
                };
                cur.as_mut().unwrap().peers.push((id, spec));
            }
            "spectate" => cur.as_mut().unwrap().spectate.push((
                toks[1].parse().unwrap(),
                toks[2].parse().unwrap(),
                toks[3].parse().unwrap(),
            )),
            "link" => {
                let mut l = Link0::default();
                for t in &toks[3..] {
                    let (k, v) = kv(t);
                    match k {
                        "lat" => l.lat = v.parse().unwrap(),
                        "faults" => {
                            for f in v.split(',').filter(|s| !s.is_empty()) {
                                let p: Vec<&str> = f.split(':').collect();
                                l.faults.push((p[0].parse().unwrap(), p[1].to_string(), p.get(2).map_or(0, |x| x.parse().unwrap())));
                            }
                        }
                        "out" => {
                            for o in v.split(',').filter(|s| !s.is_empty()) {
                                let (a, b) = o.split_once('-').unwrap();
                                l.outages.push((a.parse().unwrap(), b.parse().unwrap()));
                            }
                        }
                        _ => {}
                    }
                }
                cur.as_mut().unwrap().links.push((toks[1].parse().unwrap(), toks[2].parse().unwrap(), l));
            }
            "begin" => in_ops = true,
            "end" => {
                if let Some(s) = cur.take() {
                    out.push(s);
                }
                in_ops = false;
            }
            _ if in_ops => cur.as_mut().unwrap().ops.push(toks.iter().map(|s| s.to_string()).collect()),
            _ => {}
        }
    }
    out
}

/// Reference implementation of the documented input-delay semantics for one local player
/// (C11): user frame u lands at u + delay; an increase repeats the last input for the frames it
/// opens up; a decrease drops later submissions until the queue has caught up.
#[derive(Default, Clone)]
pub struct DelayRef {
    pub delay: i32,
    pub last_user: i32,
    pub truth: Vec<u32>, // truth[f] = the player's real input for frame f
    pub started: bool,
}
impl DelayRef {
    fn last_val(&self) -> u32 {
        self.truth.last().copied().unwrap_or(0)
    }
    pub fn submit(&mut self, user_frame: i32, v: u32) {
        if self.started && user_frame != self.last_user + 1 {
            return; // not sequential: dropped
        }
        self.started = true;
        self.last_user = user_frame;
        let target = user_frame + self.delay;
        let next = self.truth.len() as i32;
        if target < next {
            return; // dropped while the queue catches up
        }
        let lv = self.last_val();
        while (self.truth.len() as i32) < target {
            self.truth.push(lv);
        }
        self.truth.push(v);
    }
    pub fn set_delay(&mut self, d: i32) {
        self.delay = d;
        if !self.started || self.truth.is_empty() {
            return;
        }
        let lv = self.last_val();
        while (self.truth.len() as i32) <= self.last_user + d {
            self.truth.push(lv);
        }
    }
}

pub struct PeerMon {
    pub game: Game,
    pub events: BTreeMap<Addr, Vec<String>>,
    pub other_events: Vec<String>,
    pub confirmed_max: Frame,
    pub frozen: Vec<Option<Vec<u32>>>,
    pub last_rx: HashMap<Addr, u64>,
    pub notified: HashMap<Addr, bool>,
    pub dead_reported: HashMap<Addr, u32>,
    pub last_wait_frame: Option<Frame>,
    /// one entry per successful advance_frame: (current_frame(), frames_ahead(), the WaitRecommendation it queued)
    pub gate_trace: Vec<(Frame, i32, Option<u32>)>,
    pub marked: Frame,
    pub panicked: bool,
    pub err_counts: HashMap<String, u64>,
    pub ticks: u64,
    pub stalls: u64,
    pub max_sizes: HashMap<String, usize>,
    pub sync_counts: HashMap<Addr, u32>,
    pub desync_events: Vec<(Frame, u128, u128, Addr)>,
    pub disc_at: HashMap<usize, Frame>, // player handle -> last_frame when first seen disconnected
    pub spec_frames: Vec<game::FrameInputs>,
    pub host_conf_seen: Frame,
    pub last_status: Vec<(bool, Frame)>,
}

impl PeerMon {
    fn new(players: usize) -> Self {
        Self {
            game: Game::new(players),
            events: BTreeMap::new(),
            other_events: Vec::new(),
            confirmed_max: -1,
            frozen: Vec::new(),
            last_rx: HashMap::new(),
            notified: HashMap::new(),
            dead_reported: HashMap::new(),
            last_wait_frame: None,
            gate_trace: Vec::new(),
            marked: 0,
            panicked: false,
            err_counts: HashMap::new(),
            ticks: 0,
            stalls: 0,
            max_sizes: HashMap::new(),
            sync_counts: HashMap::new(),
            desync_events: Vec::new(),
            disc_at: HashMap::new(),
            spec_frames: Vec::new(),
            host_conf_seen: -1,
            last_status: Vec::new(),
        }
    }
}

pub enum Sess<C: Config> {
    P2P(Box<P2PSession<C>>),
    Spec(Box<SpectatorSession<C>>),
    Dead,
}

pub struct Peer<C: Config> {
    pub id: Addr,
    pub spec: PeerSpec,
    pub sess: Sess<C>,
    pub mon: PeerMon,
    pub rx_seen: Rc<RefCell<Vec<Addr>>>,
    pub qreplies: Rc<RefCell<HashMap<Addr, u32>>>,
    pub sync_nonces: Rc<RefCell<HashMap<Addr, Vec<u32>>>>,
    pub delay_ref: HashMap<usize, DelayRef>,
    pub started: u64,
}

pub struct Out {
    pub lines: Vec<String>,
}
impl Out {
    fn hit(&mut self, prop: &str, class: &str, scen: &str, what: &str) {
        let prefix = format!("HIT {prop} {class} ");
        if self.lines.iter().filter(|l| l.starts_with(&prefix)).count() < 2 {
            self.lines.push(format!("HIT {prop} {class} {scen} {what}"));
        }
    }
}

fn input_value(seed: u64, handle: usize, user_frame: i32, run: u64) -> u32 {
    let r = run.max(1);
    (mix(seed ^ 0xabcd, (handle as u64) << 32 | (user_frame as u64 / r)) % 6) as u32
}

fn predict(repeat: bool, v: u32) -> u32 {
    if repeat { v } else { 0 }
}

pub fn run_scenario<C>(sc: &Scenario, rng_seed: u64, out: &mut Out) -> Vec<(Addr, String)>
where
    C: Config<Input = Inp, State = GState, Address = Addr>,
{
    let cfg = &sc.cfg;
    ggrs::verif::clock::set_ms(Some(1_000_000));
    ggrs::verif::rng::seed(Some(rng_seed));
    let net = Rc::new(RefCell::new(Net { now: 1_000_000, default_latency: cfg.lat, ..Default::default() }));
    for (a, b, l) in &sc.links {
        let mut link = Link { latency: l.lat, ..Default::default() };
        for (idx, kind, arg) in &l.faults {
            let f = match kind.as_str() {
                "drop" => Fault::Drop,
                "dup" => Fault::Dup(*arg),
                _ => Fault::Delay(*arg),
            };
            link.faults.insert(*idx, f);
        }
        link.outages = l.outages.iter().map(|&(x, y)| (x + 1_000_000, y + 1_000_000)).collect();
        net.borrow_mut().links.insert((*a, *b), link);
    }
    // owner of each player handle
    let mut owner: HashMap<usize, Addr> = HashMap::new();
    for (id, spec) in &sc.peers {
        if let PeerSpec::P2P { local, .. } = spec {
            for h in local {
                owner.insert(*h, *id);
            }
        }
    }
    let mut peers: Vec<Peer<C>> = Vec::new();
    for (id, spec) in &sc.peers {
        let rx_seen = Rc::new(RefCell::new(Vec::new()));
        let qreplies = Rc::new(RefCell::new(HashMap::new()));
        let sync_nonces = Rc::new(RefCell::new(HashMap::new()));
        let sock = SimSocket { me: *id, net: net.clone(), last_rx_from: rx_seen.clone(), qreplies: qreplies.clone(), sync_nonces: sync_nonces.clone() };
        let mut delay_ref = HashMap::new();
        let built = guarded(|| -> Result<Sess<C>, GgrsError> {
            match spec {
                PeerSpec::P2P { local, delay, .. } => {
                    let mut b = SessionBuilder::<C>::new()
                        .with_num_players(cfg.players)?
                        .with_max_prediction_window(cfg.window)
                        .with_input_delay(*delay)
                        .with_sparse_saving_mode(cfg.sparse)
                        .with_desync_detection_mode(if cfg.desync > 0 { DesyncDetection::On { interval: cfg.desync } } else { DesyncDetection::Off })
                        .with_disconnect_timeout(Duration::from_millis(cfg.timeout))
                        .with_disconnect_notify_delay(Duration::from_millis(cfg.notify))
                        .with_fps(cfg.fps)?;
                    for h in 0..cfg.players {
                        if local.contains(&h) {
                            b = b.add_player(PlayerType::Local, h)?;
                        } else {
                            b = b.add_player(PlayerType::Remote(owner[&h]), h)?;
                        }
                    }
                    for (host, sp, h) in &sc.spectate {
                        if host == id {
                            b = b.add_player(PlayerType::Spectator(*sp), *h)?;
                        }
                    }
                    Ok(Sess::P2P(Box::new(b.start_p2p_session(sock)?)))
                }
                PeerSpec::Spec { host, catchup, maxbehind } => {
                    let b = SessionBuilder::<C>::new()
                        .with_num_players(cfg.players)?
                        .with_max_prediction_window(cfg.window)
                        .with_disconnect_timeout(Duration::from_millis(cfg.timeout))
                        .with_disconnect_notify_delay(Duration::from_millis(cfg.notify))
                        .with_fps(cfg.fps)?
                        .with_max_frames_behind(*maxbehind)?
                        .with_catchup_speed(*catchup)?;
                    Ok(Sess::Spec(Box::new(b.start_spectator_session(*host, sock))))
                }
            }
        });
        let sess = match built {
            Ok(Ok(s)) => s,
            Ok(Err(e)) => {
                out.hit("C16", "builder-rejected-valid", &sc.name, &format!("peer {id}: {e}"));
                Sess::Dead
            }
            Err(p) => {
                out.hit("C16", "builder-panic", &sc.name, &format!("peer {id}: {p}"));
                Sess::Dead
            }
        };
        if let PeerSpec::P2P { local, delay, .. } = spec {
            for h in local {
                delay_ref.insert(*h, DelayRef { delay: *delay as i32, last_user: -1, ..Default::default() });
            }
        }
        peers.push(Peer { id: *id, spec: spec.clone(), sess, mon: PeerMon::new(cfg.players), rx_seen, qreplies, sync_nonces, delay_ref, started: 0 });
    }
    // initial SyncRequests were queued at construction; the first poll sends them.
    let truth: Rc<RefCell<HashMap<usize, Vec<u32>>>> = Rc::new(RefCell::new(HashMap::new()));
    let mut now: u64 = 1_000_000;
    let scen = sc.name.clone();
    for op in &sc.ops {
        let o: Vec<&str> = op.iter().map(String::as_str).collect();
        match o[0] {
            "t" => {
                now += o[1].parse::<u64>().unwrap();
                ggrs::verif::clock::set_ms(Some(now));
                net.borrow_mut().now = now;
            }
            "tick" | "poll" => {
                let id: Addr = o[1].parse().unwrap();
                net.borrow_mut().deliver_due();
                let idx = peers.iter().position(|p| p.id == id).unwrap();
                step_peer::<C>(&mut peers, idx, o[0] == "tick", sc, now, &truth, out);
                // the stream of inputs a session sends to a peer or spectator starts at frame 0 (nothing is skipped
                // before the first packet): checked on what is handed to the network
                for ((from, to), (start, seen)) in net.borrow_mut().first_input_start.iter_mut() {
                    if !*seen {
                        *seen = true;
                        if *start != 0 {
                            for label in ["C05", "C06"] {
                                out.hit(label, "input-stream-starts-late", &scen, &format!("the first input packet {from} sends to {to} starts at frame {start}, not at frame 0: the frames before it are never sent"));
                            }
                        }
                    }
                }
            }
            "delay" => {
                let id: Addr = o[1].parse().unwrap();
                let h: usize = o[2].parse().unwrap();
                let d: usize = o[3].parse().unwrap();
                let p = peers.iter_mut().find(|p| p.id == id).unwrap();
                if let Sess::P2P(s) = &mut p.sess {
                    match guarded(|| s.set_input_delay(h, d)) {
                        Ok(Ok(())) => {
                            if let Some(r) = p.delay_ref.get_mut(&h) {
                                r.set_delay(d as i32);
                                truth.borrow_mut().insert(h, r.truth.clone());
                            }
                        }
                        Ok(Err(e)) => out.hit("C11", "set-delay-error", &scen, &format!("peer {id} set_input_delay({h},{d}) -> {e}")),
                        Err(m) => {
                            out.hit("C11", "set-delay-panic", &scen, &format!("peer {id} set_input_delay({h},{d}) panicked: {m}"));
                            p.mon.panicked = true;
                            p.sess = Sess::Dead;
                        }
                    }
                }
            }
            "disc" => {
                let id: Addr = o[1].parse().unwrap();
                let h: usize = o[2].parse().unwrap();
                let p = peers.iter_mut().find(|p| p.id == id).unwrap();
                if let Sess::P2P(s) = &mut p.sess {
                    match guarded(|| s.disconnect_player(h)) {
                        Ok(_) => {}
                        Err(m) => {
                            out.hit("C07", "disconnect-panic", &scen, &format!("peer {id} disconnect_player({h}) panicked: {m}"));
                            p.mon.panicked = true;
                            p.sess = Sess::Dead;
                        }
                    }
                }
            }
            "kill" => {
                let id: Addr = o[1].parse().unwrap();
                net.borrow_mut().dead.push(id);
                let p = peers.iter_mut().find(|p| p.id == id).unwrap();
                p.sess = Sess::Dead;
            }
            "mark" => {
                for p in peers.iter_mut() {
                    p.mon.marked = cur_frame(p);
                }
            }
            "progress" => {
                let id: Addr = o[1].parse().unwrap();
                let n: i32 = o[2].parse().unwrap();
                let p = peers.iter().find(|p| p.id == id).unwrap();
                let adv = cur_frame(p) - p.mon.marked;
                // the recorded finding is about a stream that started properly (at frame 0) and then lost more than a
                // ring of frames to a fault; a stream that never carried its first frames is something else
                let started_at_0 = !net.borrow().first_input_start.iter().any(|((_, to), (start, _))| *to == id && *start != 0);
                let too_far = started_at_0 && p.mon.err_counts.get("SpectatorTooFarBehind").copied().unwrap_or(0) > 0;
                if !matches!(p.sess, Sess::Dead) && adv < n && too_far {
                    out.hit("C05", "spectator-too-far-behind", &scen, &format!(
                        "spectator {id} fell more than the 60-frame spectator buffer behind during the fault and reports SpectatorTooFarBehind from then on (advanced {adv} frames, current frame {})", cur_frame(p)));
                } else if !matches!(p.sess, Sess::Dead) && adv < n {
                    // the property the stall belongs to (default: C05, recovery after transient faults)
                    let label: &str = o.get(3).copied().unwrap_or("C05");
                    out.hit(label, "no-progress", &scen, &format!(
                        "peer {id} advanced only {adv} frames (expected >= {n}) after the network behaved again; current frame {}", cur_frame(p)));
                }
            }
            "diverge" => {
                let id: Addr = o[1].parse().unwrap();
                let f: Frame = o[2].parse().unwrap();
                peers.iter_mut().find(|p| p.id == id).unwrap().mon.game.diverge_from = Some(f);
            }
            "inject" => {
                let from: Addr = o[1].parse().unwrap();
                let to: Addr = o[2].parse().unwrap();
                if let Some(mut m) = build_injected(&o[3..]) {
                    // magic 0 = "the magic number the sender's endpoint really uses" (a malformed
                    // packet from the genuine peer rather than from another session)
                    if m.magic == 0 {
                        m.magic = net.borrow().magic_seen.get(&(from, to)).copied().unwrap_or(1);
                    }
                    net.borrow_mut().inject(from, to, ggrs::verif::msg::build(&m));
                }
            }
            "misuse" => {
                let id: Addr = o[1].parse().unwrap();
                let idx = peers.iter().position(|p| p.id == id).unwrap();
                misuse::<C>(&mut peers[idx], o[2], sc, out);
            }
            _ => {}
        }
    }
    // ---------- end-of-scenario monitors ----------
    end_monitors::<C>(&mut peers, sc, out);
    let mut obs = Vec::new();
    for p in &peers {
        let mut evd = 0u64;
        for (a, evs) in &p.mon.events {
            for e in evs {
                evd = mix(evd, mix(u64::from(*a), hash_str(e)));
            }
        }
        let mut st = 0u64;
        for h in &p.mon.game.hashes {
            st = mix(st, *h);
        }
        obs.push((p.id, format!("req={:016x} ev={:016x} st={:016x} frames={}", p.mon.game.req_digest, evd, st, p.mon.game.frame)));
    }
    for p in &peers {
        let m = &p.mon;
        out.lines.push(format!(
            "STAT {} peer={} frames={} ticks={} stalls={} saves={} loads={} advances={} maxrollback={} errs={:?} sizes={:?} panicked={}",
            scen, p.id, m.game.frame, m.ticks, m.stalls, m.game.n_saves, m.game.n_loads, m.game.n_advances, m.game.max_rollback,
            sorted(&m.err_counts), sorted_us(&m.max_sizes), m.panicked));
    }
    if std::env::var_os("VERIF_GATE_TRACE").is_some() {
        for p in &peers {
            if !p.mon.gate_trace.is_empty() {
                let t: Vec<String> = p.mon.gate_trace.iter().map(|(cf, fa, w)| match w {
                    Some(k) => format!("{cf}:{fa}:{k}"),
                    None => format!("{cf}:{fa}:-"),
                }).collect();
                out.lines.push(format!("STAT {} gate={} {}", scen, p.id, t.join(" ")));
            }
        }
    }
    let n = net.borrow();
    out.lines.push(format!("STAT {} net sent={} dropped={}", scen, n.sent_total, n.dropped_total));
    obs
}

fn sorted(m: &HashMap<String, u64>) -> Vec<(String, u64)> {
    let mut v: Vec<_> = m.iter().map(|(k, v)| (k.clone(), *v)).collect();
    v.sort();
    v
}
fn sorted_us(m: &HashMap<String, usize>) -> Vec<(String, usize)> {
    let mut v: Vec<_> = m.iter().map(|(k, v)| (k.clone(), *v)).collect();
    v.sort();
    v
}
fn hash_str(s: &str) -> u64 {
    let mut h = 0xcbf2_9ce4_8422_2325u64;
    for b in s.bytes() {
        h = (h ^ u64::from(b)).wrapping_mul(0x1000_0000_01b3);
    }
    h
}

fn cur_frame<C: Config>(p: &Peer<C>) -> Frame {
    match &p.sess {
        Sess::P2P(s) => s.current_frame(),
        Sess::Spec(s) => s.current_frame(),
        Sess::Dead => p.mon.game.frame,
    }
}

fn build_injected(toks: &[&str]) -> Option<MsgView> {
    let magic: u16 = toks.get(1).and_then(|m| m.parse().ok()).unwrap_or(1);
    let body = match toks[0] {
        "syncreply" => Body::SyncReply(toks.get(2).and_then(|m| m.parse().ok()).unwrap_or(777)),
        "syncreq" => Body::SyncRequest(toks.get(2).and_then(|m| m.parse().ok()).unwrap_or(777)),
        "keepalive" => Body::KeepAlive,
        "ack" => Body::InputAck(toks.get(2).and_then(|m| m.parse().ok()).unwrap_or(0)),
        "input" | "inputdr" => {
            // input <magic> <nstatus> <start> <ack> <hexbytes>   (inputdr: with the disconnect flag set)
            let nst: usize = toks[2].parse().ok()?;
            Body::Input {
                status: vec![(false, -1); nst],
                disconnect_requested: toks[0] == "inputdr",
                start_frame: toks[3].parse().ok()?,
                ack_frame: toks[4].parse().ok()?,
                bytes: crate::util::unhex(toks[5]),
            }
        }
        "qrep" => Body::QualityReport { frame_advantage: 0, ping: 0 },
        "checksum" => Body::ChecksumReport { checksum: 1, frame: toks.get(2).and_then(|m| m.parse().ok()).unwrap_or(1) },
        _ => return None,
    };
    Some(MsgView { magic, body })
}

fn misuse<C>(p: &mut Peer<C>, kind: &str, sc: &Scenario, out: &mut Out)
where
    C: Config<Input = Inp, State = GState, Address = Addr>,
{
    let scen = &sc.name;
    let id = p.id;
    if let Sess::P2P(s) = &mut p.sess {
        let locals = s.local_player_handles();
        let remotes = s.remote_player_handles();
        let res: Result<Result<bool, String>, String> = guarded(|| match kind {
            // returns Ok(true) when the documented error came back
            "input-nonlocal" => Ok(remotes.first().is_none_or(|h| matches!(s.add_local_input(*h, Inp(9)), Err(GgrsError::InvalidRequest { .. })))),
            "input-unknown" => Ok(matches!(s.add_local_input(99, Inp(9)), Err(GgrsError::InvalidRequest { .. }))),
            "disc-local" => Ok(locals.first().is_none_or(|h| matches!(s.disconnect_player(*h), Err(GgrsError::InvalidRequest { .. })))),
            "disc-unknown" => Ok(matches!(s.disconnect_player(99), Err(GgrsError::InvalidRequest { .. }))),
            "delay-remote" => Ok(remotes.first().is_none_or(|h| matches!(s.set_input_delay(*h, 2), Err(GgrsError::InvalidRequest { .. })))),
            "delay-unknown" => Ok(matches!(s.set_input_delay(99, 2), Err(GgrsError::InvalidRequest { .. }))),
            "stats-local" => Ok(locals.first().is_none_or(|h| matches!(s.network_stats(*h), Err(GgrsError::InvalidRequest { .. })))),
            "stats-unknown" => Ok(matches!(s.network_stats(99), Err(GgrsError::InvalidRequest { .. }))),
            // `disc-again:<h>`: the scenario has already dropped a player at the address of handle h
            k if k.starts_with("disc-again:") => match k["disc-again:".len()..].parse::<usize>() {
                Ok(h) => Ok(matches!(s.disconnect_player(h), Err(GgrsError::InvalidRequest { .. }))),
                Err(_) => Err(format!("bad misuse {kind}")),
            },
            _ => Err(format!("unknown misuse {kind}")),
        });
        match res {
            Ok(Ok(true)) => {}
            Ok(Ok(false)) => out.hit("C16", "misuse-not-rejected", scen, &format!("peer {id}: misuse call `{kind}` did not return the documented InvalidRequest")),
            Ok(Err(e)) => out.lines.push(format!("NOTE {scen} {e}")),
            Err(m) => {
                out.hit("C16", "misuse-panic", scen, &format!("peer {id}: misuse call `{kind}` panicked: {m}"));
                p.mon.panicked = true;
                p.sess = Sess::Dead;
            }
        }
    }
}

fn ev_name<C: Config<Address = Addr>>(e: &GgrsEvent<C>) -> (Option<Addr>, String) {
    match e {
        GgrsEvent::Synchronizing { addr, total, count } => (Some(*addr), format!("Synchronizing({count}/{total})")),
        GgrsEvent::Synchronized { addr } => (Some(*addr), "Synchronized".into()),
        GgrsEvent::Disconnected { addr } => (Some(*addr), "Disconnected".into()),
        GgrsEvent::NetworkInterrupted { addr, disconnect_timeout } => (Some(*addr), format!("NetworkInterrupted({disconnect_timeout})")),
        GgrsEvent::NetworkResumed { addr } => (Some(*addr), "NetworkResumed".into()),
        GgrsEvent::WaitRecommendation { skip_frames } => (None, format!("WaitRecommendation({skip_frames})")),
        GgrsEvent::DesyncDetected { frame, local_checksum, remote_checksum, addr } => {
            (None, format!("DesyncDetected({frame},{local_checksum:x},{remote_checksum:x},{addr})"))
        }
    }
}

/// per-address lifecycle automaton (C12)
fn grammar_step(state: &mut u32, ev: &str) -> Result<(), String> {
    // state: 0..=4 = number of Synchronizing seen (expect count = state+1), 10 = running,
    // 11 = interrupted, 20 = dead
    let err = |s: u32| Err(format!("event `{ev}` in lifecycle state {s}"));
    if ev.starts_with("Synchronizing(") {
        let inner = &ev["Synchronizing(".len()..ev.len() - 1];
        let (c, t) = inner.split_once('/').unwrap();
        let (c, t): (u32, u32) = (c.parse().unwrap(), t.parse().unwrap());
        if *state < 10 && c == *state + 1 && c < t {
            *state += 1;
            Ok(())
        } else {
            err(*state)
        }
    } else if ev == "Synchronized" {
        if *state < 10 { let s = *state; *state = 10; if s == 4 { Ok(()) } else { Err(format!("Synchronized after {s} Synchronizing events (expected total-1 = 4)")) } } else { err(*state) }
    } else if ev.starts_with("NetworkInterrupted") {
        if *state == 10 { *state = 11; Ok(()) } else { err(*state) }
    } else if ev == "NetworkResumed" {
        if *state == 11 { *state = 10; Ok(()) } else { err(*state) }
    } else if ev == "Disconnected" {
        if *state == 10 || *state == 11 { *state = 20; Ok(()) } else { err(*state) }
    } else {
        Ok(())
    }
}

#[allow(clippy::too_many_lines)]
fn step_peer<C>(peers: &mut [Peer<C>], idx: usize, tick: bool, sc: &Scenario, now: u64, truth: &Rc<RefCell<HashMap<usize, Vec<u32>>>>, out: &mut Out)
where
    C: Config<Input = Inp, State = GState, Address = Addr>,
{
    let cfg = &sc.cfg;
    let scen = sc.name.clone();
    let no_disc_scen = !sc.ops.iter().any(|o| o[0] == "kill" || o[0] == "disc");
    // finality of confirmed inputs (C03) is monitored where nothing can legitimately move a cut-off: runs
    // without a disconnect, and two-peer sessions (no third peer whose gossip could lower it)
    let finality_scen = no_disc_scen || peers.iter().filter(|p| matches!(p.spec, PeerSpec::P2P { .. })).count() == 2;
    // the host's confirmed frame, for the spectator monitor
    let host_conf: HashMap<Addr, Frame> = peers.iter().map(|p| (p.id, p.mon.confirmed_max)).collect();
    let p = &mut peers[idx];
    let id = p.id;
    p.rx_seen.borrow_mut().clear();
    let nodrain = matches!(p.spec, PeerSpec::P2P { nodrain: true, .. });
    match &mut p.sess {
        Sess::Dead => {}
        Sess::P2P(s) => {
            let before = s.current_frame();
            let status_before = s.verif_connect_status();
            p.mon.last_status = status_before.clone();
            let locals = {
                let mut l = s.local_player_handles();
                l.sort_unstable();
                l
            };
            let mut submitted: Vec<(usize, u32)> = Vec::new();
            let was_running = s.current_state() == SessionState::Running;
            let res = guarded(|| {
                if tick {
                    for h in &locals {
                        let v = input_value(cfg.seed, *h, s.current_frame(), cfg.inputrun);
                        s.add_local_input(*h, Inp(v)).expect("add_local_input for a local handle");
                        submitted.push((*h, v));
                    }
                    s.advance_frame().map(Some)
                } else {
                    s.poll_remote_clients();
                    Ok(None)
                }
            });
            let mut advanced_ok = false;
            match res {
                Err(m) => {
                    let class = if m.contains("prediction window") || m.contains("must load frame") { "panic-load-frame" } else { "panic" };
                    out.hit("PANIC", class, &scen, &format!("peer {id} {} panicked at t={} frame {before}: {m}", if tick { "advance_frame" } else { "poll" }, now - 1_000_000));
                    p.mon.panicked = true;
                    p.sess = Sess::Dead;
                    return;
                }
                Ok(Err(e)) => {
                    let name = match e {
                        GgrsError::NotSynchronized => "NotSynchronized",
                        GgrsError::PredictionThreshold => "PredictionThreshold",
                        GgrsError::InvalidRequest { .. } => "InvalidRequest",
                        _ => "Other",
                    };
                    *p.mon.err_counts.entry(name.to_string()).or_insert(0) += 1;
                    if name == "NotSynchronized" && was_running && s.current_state() == SessionState::Running {
                        out.hit("C12", "notsync-while-running", &scen, &format!("peer {id}: advance_frame returned NotSynchronized while the session is Running"));
                    }
                    if name == "InvalidRequest" {
                        out.hit("C16", "advance-invalid", &scen, &format!("peer {id}: advance_frame with all local inputs supplied returned {e}"));
                    }
                }
                Ok(Ok(None)) => {}
                Ok(Ok(Some(reqs))) => {
                    if s.current_state() != SessionState::Running {
                        out.hit("C12", "advance-before-sync", &scen, &format!("peer {id}: advance_frame succeeded while the session is Synchronizing"));
                    }
                    p.mon.ticks += 1;
                    advanced_ok = true;
                    // the recommendation gate ran once at the end of this call (advance_frame() is one
                    // advance_frame_after_poll in every mode); its decision shows in the next drain of events
                    if !nodrain {
                        p.mon.gate_trace.push((s.current_frame(), s.frames_ahead(), None));
                    }
                    p.mon.game.execute::<C>(reqs, cfg.window);
                    for (prop, class, what) in p.mon.game.hits.drain(..) {
                        out.hit(&prop, &class, &scen, &format!("peer {id}: {what}"));
                    }
                }
            }
            let Sess::P2P(s) = &mut p.sess else { return };
            let after = s.current_frame();
            let status = s.verif_connect_status();
            if advanced_ok {
                // local submissions that the session accepted feed the reference delay semantics
                for (h, v) in &submitted {
                    if let Some(r) = p.delay_ref.get_mut(h) {
                        r.submit(before, *v);
                        let mut t = truth.borrow_mut();
                        let e = t.entry(*h).or_default();
                        let have = e.len();
                        if r.truth.len() > have {
                            e.extend_from_slice(&r.truth[have..]);
                        }
                    }
                }
                if after == before {
                    p.mon.stalls += 1;
                }
                // ---- C02: frame bookkeeping ----
                if p.mon.game.frame != after {
                    out.hit("C02", "frame-mismatch", &scen, &format!("peer {id}: after executing the requests the game is at frame {} but current_frame() = {after}", p.mon.game.frame));
                }
                if after != before && after != before + 1 {
                    out.hit("C02", "frame-delta", &scen, &format!("peer {id}: current_frame() went from {before} to {after} in one call"));
                }
                // ---- C04 / C03 on the simulations of this call ----
                let held = status.iter().filter(|s| !s.0).map(|s| s.1).min().unwrap_or(i32::MAX);
                let sims = p.mon.game.call_sims.clone();
                let first_new = sims.iter().map(|(f, _)| *f).max();
                for (f, fi) in &sims {
                    let is_first = Some(*f) == first_new && *f + 1 == after && after == before + 1;
                    if is_first && held != i32::MAX && *f - held > cfg.window as i32 {
                        out.hit("C04", "speculation-beyond-window", &scen, &format!(
                            "peer {id}: first simulation of frame {f} while the newest frame with every connected player's input is {held} (max_prediction {})", cfg.window));
                    }
                    for (h, (v, st)) in fi.iter().enumerate() {
                        let is_local = locals.contains(&h);
                        if cfg.window == 0 && *st == 1 {
                            out.hit("C04", "lockstep-predicted", &scen, &format!("peer {id}: frame {f} player {h} carries a Predicted input with max_prediction = 0"));
                        }
                        if is_local && *st != 0 {
                            out.hit("C03", "local-not-confirmed", &scen, &format!("peer {id}: local player {h} frame {f} has status {st}"));
                        }
                        match *st {
                            1 if !is_local => {
                                // Predicted = predictor applied to the newest real input received (C03)
                                let l = status[h].1;
                                let want = if l < 0 { Some(0) } else { truth.borrow().get(&h).and_then(|t| t.get(l as usize)).map(|t| if cfg.pred_inc { (*t + 1) % 6 } else { predict(cfg.pred_repeat, *t) }) };
                                if l >= *f {
                                    out.hit("C03", "predicted-although-received", &scen, &format!(
                                        "peer {id}: player {h} frame {f} handed out as Predicted although inputs up to frame {l} were received"));
                                } else if want.is_some() && want != Some(*v) {
                                    out.hit("C03", "prediction-value", &scen, &format!(
                                        "peer {id}: frame {f} player {h} Predicted value {v}, but the predictor applied to the newest received input (frame {l}) gives {want:?}"));
                                }
                            }
                            0 => {
                                if !is_local && status[h].1 < *f {
                                    out.hit("C03", "confirmed-not-received", &scen, &format!(
                                        "peer {id}: player {h} frame {f} handed out as Confirmed but the last frame received from that player is {}", status[h].1));
                                }
                            }
                            2 => {
                                if *v != 0 || !status[h].0 || status[h].1 >= *f {
                                    out.hit("C03", "disconnected-status-wrong", &scen, &format!(
                                        "peer {id}: player {h} frame {f} handed out as Disconnected (value {v}) but status is disconnected={} last_frame={}", status[h].0, status[h].1));
                                }
                            }
                            _ => {}
                        }
                    }
                }
                // confirmed_frame() monotone + finality
                let conf = guarded(|| s.confirmed_frame()).unwrap_or(-1);
                if finality_scen {
                    if conf < p.mon.confirmed_max {
                        out.hit("C03", "confirmed-frame-decreased", &scen, &format!("peer {id}: confirmed_frame() went from {} to {conf}", p.mon.confirmed_max));
                    }
                    for (f, fi) in &sims {
                        let fu = *f as usize;
                        if fu < p.mon.frozen.len() {
                            if let Some(fr) = &p.mon.frozen[fu] {
                                let vals: Vec<u32> = fi.iter().map(|x| x.0).collect();
                                if &vals != fr {
                                    out.hit("C03", "confirmed-input-changed", &scen, &format!(
                                        "peer {id}: frame {f} was at or below confirmed_frame() with inputs {fr:?} and is now re-simulated with {vals:?}"));
                                }
                            }
                        }
                    }
                    let upto = conf.min(after - 1);
                    while (p.mon.frozen.len() as i32) <= upto {
                        let f = p.mon.frozen.len();
                        let v = p.mon.game.hist.get(f).map(|fi| fi.iter().map(|x| x.0).collect());
                        p.mon.frozen.push(v);
                    }
                }
                p.mon.confirmed_max = p.mon.confirmed_max.max(conf);
                let _ = status_before;
            }
            // ---- sizes (C18 / C12 / C11) ----
            let sz = s.verif_sizes();
            let mut note = |k: &str, v: usize| {
                let e = p.mon.max_sizes.entry(k.to_string()).or_insert(0);
                *e = (*e).max(v);
            };
            note("event_queue", sz.event_queue);
            note("pending_local_inputs", sz.pending_local_inputs);
            note("outgoing_local_inputs", sz.outgoing_local_inputs);
            note("local_checksum_history", sz.local_checksum_history);
            for (_, e) in sz.remotes.iter().chain(sz.spectators.iter()) {
                note("pending_output", e.pending_output);
                note("recv_inputs", e.recv_inputs);
                note("pending_checksums", e.pending_checksums);
                note("send_queue", e.send_queue);
                note("ep_event_queue", e.event_queue);
            }
            if sz.event_queue > 100 {
                out.hit("C12", "event-queue-overflow", &scen, &format!("peer {id}: {} events buffered (documented bound 100)", sz.event_queue));
            }
            let w = cfg.window;
            if sz.pending_local_inputs > locals.len() {
                out.hit("C18", "pending-local-inputs", &scen, &format!("peer {id}: {} pending local inputs for {} local players", sz.pending_local_inputs, locals.len()));
            }
            if sz.outgoing_local_inputs > 8 || (sz.remotes.is_empty() && sz.outgoing_local_inputs > 0) {
                out.hit("C18", "outgoing-local-inputs", &scen, &format!("peer {id}: {} frames of local inputs queued for sending", sz.outgoing_local_inputs));
            }
            // inside the space of C18_session_buffers_bounded (nobody leaves, no delay change: all local players of a
            // peer share one delay) nothing is left queued after a call: the theorem's OB, checked on the real session
            let in_space = sc.cfg.expect.iter().any(|x| x == "nodisconnect")
                && !sc.ops.iter().any(|o| matches!(o[0].as_str(), "delay" | "disc" | "kill"));
            if in_space && sz.outgoing_local_inputs > 0 {
                out.hit("C18", "outgoing-local-inputs-left", &scen, &format!("peer {id}: {} frames of local inputs still queued after the call (no delay change, nobody left)", sz.outgoing_local_inputs));
            }
            if sz.local_checksum_history > 33 {
                out.hit("C18", "checksum-history", &scen, &format!("peer {id}: {} local checksums remembered", sz.local_checksum_history));
            }
            for (a, e) in sz.remotes.iter().chain(sz.spectators.iter()) {
                if e.pending_output > 128 + 2 * w + 20 {
                    out.hit("C18", "pending-output", &scen, &format!("peer {id} endpoint {a}: {} unacknowledged inputs buffered", e.pending_output));
                }
                // kept: the last 2*window frames, or back to the input the sender still encodes against
                // (its un-acknowledged window, itself bounded like pending_output)
                if e.recv_inputs > 128 + 2 * w + 24 {
                    out.hit("C18", "recv-inputs", &scen, &format!("peer {id} endpoint {a}: {} received inputs remembered (max_prediction {w})", e.recv_inputs));
                }
                // the trimming threshold follows the frame of the arriving report: every report that arrives out of
                // order between two in-order ones can add one entry above the cap (C18_pending_checksums_unbounded_refuted
                // is the adversarial limit of that); the networks of these families reorder single packets, so a
                // handful above 32 is what the unchanged code may hold, and unbounded growth is what is looked for
                if e.pending_checksums > 40 {
                    out.hit("C18", "pending-checksums", &scen, &format!("peer {id} endpoint {a}: {} pending checksums", e.pending_checksums));
                }
                if e.send_queue > 0 {
                    out.hit("C18", "send-queue", &scen, &format!("peer {id} endpoint {a}: {} messages left in the send queue after a public call", e.send_queue));
                }
            }
            // session state vs endpoint states (C12)
            let all_synced = sz.remotes.iter().chain(sz.spectators.iter()).all(|(_, e)| matches!(e.state, "Running" | "Disconnected" | "Shutdown"));
            let running = s.current_state() == SessionState::Running;
            if running != all_synced {
                out.hit("C12", "running-iff-all-synchronized", &scen, &format!("peer {id}: session state Running={running} but all endpoints past the handshake={all_synced}"));
            }
            // C16: a call that advanced the session although an endpoint had not finished its handshake
            if advanced_ok && !all_synced {
                out.hit("C16", "advance-before-sync", &scen, &format!("peer {id}: advance_frame was accepted (frame {before} -> {after}) although an endpoint has not finished its handshake (documented: NotSynchronized)"));
            }
            // ---- network_stats (C15): numbers only once data exists; ping within the link's round trip ----
            if let Some(slack) = cfg.expect.iter().find_map(|x| x.strip_prefix("ping").and_then(|v| v.parse::<u128>().ok())) {
                for h in s.remote_player_handles() {
                    let Some(addr) = sc.peers.iter().find_map(|(pid, spec)| match spec {
                        PeerSpec::P2P { local, .. } if local.contains(&h) => Some(*pid),
                        _ => None,
                    }) else { continue };
                    if let Ok(st) = s.network_stats(h) {
                        let n = p.qreplies.borrow().get(&addr).copied().unwrap_or(0);
                        let rtt = 2 * u128::from(cfg.lat);
                        if n == 0 {
                            out.hit("C15", "stats-without-data", &scen, &format!("peer {id}: network_stats({h}) returns numbers (ping {}) before any quality reply from {addr} has arrived", st.ping));
                        } else if st.ping < rtt || st.ping > rtt + slack {
                            out.hit("C15", "ping", &scen, &format!("peer {id}: network_stats({h}).ping = {} ms, the link's round trip is {rtt} ms (+ at most {slack} ms of polling delay)", st.ping));
                        }
                    }
                }
            }
            // ---- receive times for the timer monitor (C07) ----
            for a in p.rx_seen.borrow().iter() {
                p.mon.last_rx.insert(*a, now);
            }
            // ---- events ----
            if !nodrain {
                let evs: Vec<GgrsEvent<C>> = s.events().collect();
                let fa = s.frames_ahead();
                for e in &evs {
                    let (addr, name) = ev_name(e);
                    match (addr, e) {
                        (Some(a), _) => {
                            let lst = p.mon.events.entry(a).or_default();
                            lst.push(name.clone());
                            let stt = p.mon.sync_counts.entry(a).or_insert(0);
                            if let Err(m) = grammar_step(stt, &name) {
                                out.hit("C12", "event-grammar", &scen, &format!("peer {id} address {a}: {m}; stream so far {:?}", &lst[lst.len().saturating_sub(8)..]));
                            }
                            // the handshake is five matched round trips: five replies with different nonces (C12)
                            if name == "Synchronized" {
                                let n = p.sync_nonces.borrow().get(&a).map_or(0, Vec::len);
                                // the number of round trips the library itself announces (Synchronizing { total, .. })
                                let total = lst.iter().rev().find_map(|e| e.strip_prefix("Synchronizing(").and_then(|r| r.trim_end_matches(')').split('/').nth(1)).and_then(|t| t.parse::<usize>().ok())).unwrap_or(5);
                                if n < total {
                                    out.hit("C12", "synchronized-early", &scen, &format!("peer {id} address {a}: Synchronized after {n} distinct sync replies were received from it ({total} round trips announced; duplicated replies do not count)"));
                                }
                            }
                            // timing (C07)
                            let lrx = p.mon.last_rx.get(&a).copied();
                            if name.starts_with("NetworkInterrupted") {
                                if sc.cfg.expect.iter().any(|x| x == "nointerrupt") {
                                    out.hit("C12", "spurious-interrupt", &scen, &format!("peer {id}: NetworkInterrupted for {a} at t={} between two connected sessions that merely poll", now - 1_000_000));
                                }
                                if let Some(l) = lrx {
                                    if now <= l + cfg.notify {
                                        out.hit("C07", "interrupted-early", &scen, &format!("peer {id}: NetworkInterrupted for {a} at t={} but the last packet was handled at t={} (notify delay {})", now - 1_000_000, l - 1_000_000, cfg.notify));
                                    }
                                }
                                let want = cfg.timeout.saturating_sub(cfg.notify);
                                if name != format!("NetworkInterrupted({want})") {
                                    out.hit("C07", "interrupted-payload", &scen, &format!("peer {id}: {name}, expected disconnect_timeout {want}"));
                                }
                                p.mon.notified.insert(a, true);
                            }
                            if name == "NetworkResumed" {
                                p.mon.notified.insert(a, false);
                            }
                            if name == "Disconnected" {
                                *p.mon.dead_reported.entry(a).or_insert(0) += 1;
                                if sc.cfg.expect.iter().any(|x| x == "nodisconnect") {
                                    out.hit("C05", "disconnected", &scen, &format!("peer {id}: Disconnected event for {a} at t={} although every fault ended before the timeout", now - 1_000_000));
                                }
                                if let Some(l) = lrx {
                                    // a timeout-driven disconnect must not come early (pending_output overflow and
                                    // disconnect requests are the other sources; they need silence or a request)
                                    let silent_spectator = sz.spectators.iter().any(|(n, _)| n == &format!("{a}"));
                                    let requested = sc.ops.iter().any(|o| o[0] == "disc" || o[0] == "kill");
                                    if now <= l + cfg.timeout && !silent_spectator && !requested {
                                        out.hit("C07", "disconnected-early", &scen, &format!("peer {id}: Disconnected for {a} at t={} but the last packet was handled at t={} (timeout {})", now - 1_000_000, l - 1_000_000, cfg.timeout));
                                    }
                                }
                            }
                        }
                        (None, GgrsEvent::WaitRecommendation { skip_frames }) => {
                            p.mon.other_events.push(name.clone());
                            if let Some(last) = p.mon.gate_trace.last_mut() {
                                last.2 = Some(*skip_frames);
                            }
                            let cf = s.current_frame();
                            if fa < 3 || *skip_frames as i32 != fa {
                                out.hit("C15", "wait-recommendation-value", &scen, &format!("peer {id}: WaitRecommendation(skip {skip_frames}) while frames_ahead() = {fa}"));
                            }
                            if let Some(l) = p.mon.last_wait_frame {
                                if cf - l < 60 {
                                    out.hit("C15", "wait-recommendation-spacing", &scen, &format!("peer {id}: WaitRecommendations at frames {l} and {cf}"));
                                }
                            }
                            p.mon.last_wait_frame = Some(cf);
                        }
                        (None, GgrsEvent::DesyncDetected { frame, local_checksum, remote_checksum, addr }) => {
                            p.mon.other_events.push(name.clone());
                            p.mon.desync_events.push((*frame, *local_checksum, *remote_checksum, *addr));
                        }
                        _ => {}
                    }
                }
                // timers that must have fired (C07): endpoint Running, silent for longer than the threshold
                for (aname, e) in &sz.remotes {
                    let a: Addr = aname.parse().unwrap_or(0);
                    if e.state != "Running" {
                        continue;
                    }
                    if let Some(l) = p.mon.last_rx.get(&a).copied() {
                        if now > l + cfg.notify && !p.mon.notified.get(&a).copied().unwrap_or(false) && p.mon.dead_reported.get(&a).copied().unwrap_or(0) == 0 {
                            out.hit("C07", "interrupted-missing", &scen, &format!("peer {id}: no NetworkInterrupted for {a} at t={} although the last packet was handled at t={} (notify delay {})", now - 1_000_000, l - 1_000_000, cfg.notify));
                            p.mon.notified.insert(a, true);
                        }
                        if now > l + cfg.timeout && p.mon.dead_reported.get(&a).copied().unwrap_or(0) == 0 {
                            out.hit("C07", "disconnected-missing", &scen, &format!("peer {id}: no Disconnected for {a} at t={} although the last packet was handled at t={} (timeout {})", now - 1_000_000, l - 1_000_000, cfg.timeout));
                            p.mon.dead_reported.insert(a, 1);
                        }
                    }
                }
            }
            // remember the last_frame at which each player was first seen disconnected
            for (h, stt) in status.iter().enumerate() {
                if stt.0 {
                    p.mon.disc_at.entry(h).or_insert(stt.1);
                }
            }
        }
        Sess::Spec(s) => {
            let before = s.current_frame();
            let res = guarded(|| {
                s.poll_remote_clients();
                let behind = s.frames_behind_host();
                if tick {
                    (behind, s.advance_frame().map(Some))
                } else {
                    (behind, Ok(None))
                }
            });
            match res {
                Err(m) => {
                    out.hit("PANIC", "panic-spectator", &scen, &format!("spectator {id} panicked at frame {before}: {m}"));
                    p.mon.panicked = true;
                    p.sess = Sess::Dead;
                    return;
                }
                Ok((_, Err(e))) => {
                    let name = match e {
                        GgrsError::NotSynchronized => "NotSynchronized",
                        GgrsError::PredictionThreshold => "PredictionThreshold",
                        GgrsError::SpectatorTooFarBehind => "SpectatorTooFarBehind",
                        _ => "Other",
                    };
                    *p.mon.err_counts.entry(name.to_string()).or_insert(0) += 1;
                }
                Ok((_, Ok(None))) => {}
                Ok((behind, Ok(Some(reqs)))) => {
                    p.mon.ticks += 1;
                    let (catchup, maxbehind, host) = match p.spec {
                        PeerSpec::Spec { catchup, maxbehind, host } => (catchup, maxbehind, host),
                        PeerSpec::P2P { .. } => (1, 10, 0),
                    };
                    let n = reqs.len();
                    if n > catchup.max(1) || (n > 1 && behind <= maxbehind) {
                        out.hit("C06", "catchup", &scen, &format!("spectator {id}: advanced {n} frames in one call with {behind} frames buffered (catchup_speed {catchup}, max_frames_behind {maxbehind})"));
                    }
                    // frame numbering: the game stub numbers from 0; the session from NULL_FRAME
                    p.mon.game.execute::<C>(reqs, game::SPECTATOR_WINDOW);
                    for (prop, class, what) in p.mon.game.hits.drain(..) {
                        out.hit(&prop, &class, &scen, &format!("spectator {id}: {what}"));
                    }
                    for (f, fi) in p.mon.game.call_sims.clone() {
                        if f as usize != p.mon.spec_frames.len() {
                            out.hit("C06", "spectator-frame-order", &scen, &format!("spectator {id}: simulated frame {f} but {} frames were delivered so far", p.mon.spec_frames.len()));
                        }
                        let hc = host_conf.get(&host).copied().unwrap_or(-1);
                        if f > hc {
                            out.hit("C06", "beyond-host-confirmed", &scen, &format!("spectator {id}: frame {f} delivered but the host's confirmed_frame() never exceeded {hc}"));
                        }
                        p.mon.spec_frames.push(fi);
                    }
                }
            }
            let Sess::Spec(s) = &mut p.sess else { return };
            let after = s.current_frame();
            if after + 1 != p.mon.game.frame {
                out.hit("C02", "spectator-frame-mismatch", &scen, &format!("spectator {id}: {} frames executed but current_frame() = {after}", p.mon.game.frame));
            }
            let sz = s.verif_sizes();
            if sz.event_queue > 100 {
                out.hit("C12", "event-queue-overflow", &scen, &format!("spectator {id}: {} events buffered", sz.event_queue));
            }
            if sz.host.recv_inputs > 128 + 2 * cfg.window + 24 {
                out.hit("C18", "recv-inputs", &scen, &format!("spectator {id}: {} received inputs remembered", sz.host.recv_inputs));
            }
            let evs: Vec<GgrsEvent<C>> = s.events().collect();
            for e in &evs {
                let (addr, name) = ev_name(e);
                if let Some(a) = addr {
                    let lst = p.mon.events.entry(a).or_default();
                    lst.push(name.clone());
                    let stt = p.mon.sync_counts.entry(a).or_insert(0);
                    if let Err(m) = grammar_step(stt, &name) {
                        out.hit("C12", "event-grammar", &scen, &format!("spectator {id} address {a}: {m}"));
                    }
                    if name == "Disconnected" && sc.cfg.expect.iter().any(|x| x == "nodisconnect") {
                        out.hit("C05", "disconnected", &scen, &format!("spectator {id}: Disconnected event for {a}"));
                    }
                }
            }
        }
    }
}

fn end_monitors<C>(peers: &mut [Peer<C>], sc: &Scenario, out: &mut Out)
where
    C: Config<Input = Inp, State = GState, Address = Addr>,
{
    let cfg = &sc.cfg;
    let scen = &sc.name;
    let has_disc = sc.ops.iter().any(|o| o[0] == "kill" || o[0] == "disc");
    let has_div = sc.ops.iter().any(|o| o[0] == "diverge");
    // truth table per player handle, from the reference delay semantics of the owner
    let mut truth: HashMap<usize, Vec<u32>> = HashMap::new();
    for p in peers.iter() {
        for (h, r) in &p.delay_ref {
            truth.insert(*h, r.truth.clone());
        }
    }
    let tval = |h: usize, f: usize| -> Option<u32> { truth.get(&h).and_then(|t| t.get(f)).copied() };
    // killed peers: their players
    let killed: Vec<Addr> = sc.ops.iter().filter(|o| o[0] == "kill").map(|o| o[1].parse().unwrap()).collect();
    let mut dropped_players: Vec<usize> = Vec::new();
    for (id, spec) in &sc.peers {
        if killed.contains(id) {
            if let PeerSpec::P2P { local, .. } = spec {
                dropped_players.extend(local.iter().copied());
            }
        }
    }
    for o in sc.ops.iter().filter(|o| o[0] == "disc") {
        let h: usize = o[2].parse().unwrap();
        if h < cfg.players && !dropped_players.contains(&h) {
            dropped_players.push(h);
        }
    }
    // how differently the survivors saw the dropped players when they noticed the disconnect (C10 class)
    {
        let mut gap = 0;
        for h in &dropped_players {
            let seen: Vec<Frame> = peers.iter().filter(|q| !q.delay_ref.contains_key(h) && matches!(q.spec, PeerSpec::P2P { .. }))
                .filter_map(|q| q.mon.disc_at.get(h).copied().or_else(|| q.mon.last_status.get(*h).map(|x| x.1))).collect();
            if let (Some(mx), Some(mn)) = (seen.iter().max(), seen.iter().min()) {
                gap = gap.max(mx - mn);
            }
        }
        out.lines.push(format!("STAT {scen} gap={gap}"));
    }
    // ---- per peer: final timeline vs truth (C01 / C11 / C07) ----
    for p in peers.iter() {
        let Sess::P2P(s) = &p.sess else { continue };
        let status = s.verif_connect_status();
        let conf = if status.iter().any(|x| !x.0) { guarded(|| s.confirmed_frame()).unwrap_or(-1) } else { -1 };
        let hist = &p.mon.game.hist;
        for (f, fi) in hist.iter().enumerate() {
            for (h, (v, st)) in fi.iter().enumerate() {
                if fi.len() != cfg.players {
                    continue;
                }
                let dropped = dropped_players.contains(&h) || status[h].0;
                if !dropped {
                    if f as i32 <= conf {
                        match tval(h, f) {
                            Some(t) if t == *v && *st != 2 => {}
                            Some(t) => {
                                let prop = if sc.ops.iter().any(|o| o[0] == "delay") { "C11" } else { "C01" };
                                out.hit(prop, "confirmed-timeline-differs", scen, &format!(
                                    "peer {}: final simulation of confirmed frame {f} used ({v}, status {st}) for player {h}, the owner's real input is {t} (confirmed_frame {conf})", p.id));
                                return;
                            }
                            None if peers.iter().any(|q| q.delay_ref.contains_key(&h) && (q.mon.panicked || matches!(q.sess, Sess::Dead))) => {}
                            None => {
                                out.hit("C01", "confirmed-without-truth", scen, &format!("peer {}: frame {f} is confirmed but player {h}'s owner never produced an input for it", p.id));
                                return;
                            }
                        }
                    }
                } else if status[h].0 {
                    // C07: real inputs up to the last frame received, default + Disconnected afterwards
                    let l = status[h].1;
                    if f as i32 <= l {
                        if let Some(t) = tval(h, f) {
                            if t != *v {
                                out.hit("C07", "dropped-player-real-input", scen, &format!("peer {}: frame {f} of dropped player {h} uses {v}, real input {t} (last frame received {l})", p.id));
                                return;
                            }
                        }
                    } else if *v != 0 || *st != 2 {
                        let prop = if peers.iter().filter(|q| matches!(q.sess, Sess::P2P(_))).count() >= 2 && sc.peers.iter().filter(|(_, s)| matches!(s, PeerSpec::P2P { .. })).count() >= 3 { "C10" } else { "C07" };
                        out.hit(prop, "dropped-player-after-cutoff", scen, &format!(
                            "peer {}: frame {f} of dropped player {h} (last frame received {l}) ends up with ({v}, status {st}) instead of (0, Disconnected)", p.id));
                        return;
                    }
                }
            }
        }
    }
    // ---- per peer: the game state is the serial replay of the inputs of its final timeline (C01) ----
    // (a state handed back by a stale saved cell breaks this although every input is right)
    for p in peers.iter() {
        if !matches!(p.sess, Sess::P2P(_)) {
            continue;
        }
        let g = &p.mon.game;
        let mut h = 0x1234_5678u64;
        let mut bad: Option<usize> = None;
        for (f, fi) in g.hist.iter().enumerate() {
            for (v, s) in fi {
                h = mix(h, (u64::from(*v) << 1) | u64::from(*s == 2));
            }
            if g.hashes.get(f + 1).copied() != Some(h) && bad.is_none() {
                bad = Some(f + 1);
            }
        }
        if let Some(f) = bad {
            out.hit("C01", "state-not-serial-replay", scen, &format!(
                "peer {}: the game state at frame {f} is not the serial replay of the inputs the session had it simulate (frames 0..{f}): a saved state from an abandoned timeline was loaded", p.id));
        } else if g.hash != h {
            out.hit("C01", "state-not-serial-replay", scen, &format!("peer {}: the final game state is not the serial replay of the inputs of its timeline", p.id));
        }
    }
    // ---- cross-peer: identical states on mutually confirmed frames (C01), survivors agree (C10) ----
    let live: Vec<&Peer<C>> = peers.iter().filter(|p| matches!(p.sess, Sess::P2P(_))).collect();
    for i in 0..live.len() {
        for j in i + 1..live.len() {
            let (a, b) = (live[i], live[j]);
            let (Sess::P2P(sa), Sess::P2P(sb)) = (&a.sess, &b.sess) else { continue };
            // two sessions that dropped each other continue on their own: nothing to compare
            let sta0 = sa.verif_connect_status();
            let stb0 = sb.verif_connect_status();
            if b.delay_ref.keys().any(|h| sta0[*h].0) || a.delay_ref.keys().any(|h| stb0[*h].0) {
                continue;
            }
            let ca = guarded(|| sa.confirmed_frame()).unwrap_or(-1);
            let cb = guarded(|| sb.confirmed_frame()).unwrap_or(-1);
            let upto = ca.min(cb).min(a.mon.game.hist.len() as i32 - 1).min(b.mon.game.hist.len() as i32 - 1);
            for f in 0..=upto.max(-1) {
                let f = f as usize;
                if f >= a.mon.game.hist.len() || f >= b.mon.game.hist.len() {
                    break;
                }
                let same_frame = a.mon.game.hist[f].len() == b.mon.game.hist[f].len()
                    && a.mon.game.hist[f].iter().zip(b.mon.game.hist[f].iter()).all(|(x, y)| x.0 == y.0 && (x.1 == 2) == (y.1 == 2));
                if !same_frame {
                    let sta = sa.verif_connect_status();
                    let stb = sb.verif_connect_status();
                    let gap = dropped_players.iter().map(|h| (a.mon.disc_at.get(h).copied().unwrap_or(-1) - b.mon.disc_at.get(h).copied().unwrap_or(-1)).abs()).max().unwrap_or(0);
                    let (prop, class) = if has_disc && live.len() >= 2 && sc.peers.iter().filter(|(_, s)| matches!(s, PeerSpec::P2P { .. })).count() >= 3 {
                        ("C10", if gap >= 1 { "survivor_view_gap>=1" } else { "survivors-disagree" })
                    } else if has_disc { ("C07", "timelines-differ-after-disconnect") } else { ("C01", "peers-differ-on-confirmed-frame") };
                    out.hit(prop, class, scen, &format!(
                        "peers {} and {} both confirmed frame {f} but simulated it with {:?} vs {:?} (status {:?} vs {:?})",
                        a.id, b.id, a.mon.game.hist[f], b.mon.game.hist[f], sta, stb));
                    break;
                }
            }
        }
    }
    // ---- spectators replay the host's confirmed timeline (C06) ----
    for p in peers.iter() {
        if let PeerSpec::Spec { host, .. } = p.spec {
            if let Some(hp) = peers.iter().find(|q| q.id == host) {
                let Sess::P2P(hs) = &hp.sess else { continue };
                let hconf = guarded(|| hs.confirmed_frame()).unwrap_or(-1);
                for (n, fi) in p.mon.spec_frames.iter().enumerate() {
                    if n as i32 > hconf || n >= hp.mon.game.hist.len() {
                        break;
                    }
                    let hf = &hp.mon.game.hist[n];
                    let same = fi.len() == hf.len() && fi.iter().zip(hf.iter()).all(|(x, y)| x.0 == y.0 && (x.1 == 2) == (y.1 == 2));
                    if !same {
                        out.hit("C06", "spectator-differs-from-host", scen, &format!(
                            "spectator {}: frame {n} delivered as {:?}, the host's confirmed timeline has {:?}", p.id, fi, hf));
                        break;
                    }
                }
            }
        }
    }
    // ---- desync detection (C09) ----
    if cfg.desync > 0 {
        if !has_div {
            for p in peers.iter() {
                if let Some(e) = p.mon.desync_events.first() {
                    let (prop, class) = if has_disc && sc.peers.len() >= 3 { ("C10", "desync-after-cutoff") } else { ("C09", "false-alarm") };
                    out.hit(prop, class, scen, &format!("peer {}: DesyncDetected(frame {}, local {:x}, remote {:x}, addr {}) with deterministic games", p.id, e.0, e.1, e.2, e.3));
                }
            }
        } else {
            let dv = sc.ops.iter().find(|o| o[0] == "diverge").unwrap();
            let f0: Frame = dv[2].parse().unwrap();
            for p in peers.iter() {
                if !matches!(p.sess, Sess::P2P(_)) {
                    continue;
                }
                let good: Vec<_> = p.mon.desync_events.iter().filter(|e| e.0 >= f0).collect();
                // "within a few reporting intervals": only expected once both games are well past the divergence
                let reach = peers.iter().filter(|q| matches!(q.sess, Sess::P2P(_))).map(|q| q.mon.game.frame).min().unwrap_or(0);
                let due = reach >= f0 + 4 * cfg.desync as i32 + 2 * cfg.window as i32 + 12;
                if good.is_empty() && due {
                    out.hit("C09", "divergence-missed", scen, &format!("peer {}: games diverge from frame {f0} on but no DesyncDetected for a frame >= {f0} arrived (events: {:?})", p.id, p.mon.desync_events));
                } else {
                    for e in &good {
                        let mine = p.mon.game.saved.get(&e.0).copied().map(u128::from);
                        let other = peers.iter().find(|q| q.id == e.3).and_then(|q| q.mon.game.saved.get(&e.0).copied()).map(u128::from);
                        if mine.is_some() && other.is_some() && (Some(e.1) != mine || Some(e.2) != other) && p.mon.game.n_loads == 0 {
                            out.hit("C09", "desync-checksums-wrong", scen, &format!("peer {}: DesyncDetected frame {} carries ({:x},{:x}) but the peers saved ({:x?},{:x?})", p.id, e.0, e.1, e.2, mine, other));
                        }
                    }
                }
                if let Some(e) = p.mon.desync_events.iter().find(|e| e.0 < f0) {
                    out.hit("C09", "false-alarm", scen, &format!("peer {}: DesyncDetected for frame {} before the divergence at {f0}", p.id, e.0));
                }
            }
        }
    }
    // ---- the stream of every local player is the reference stream (C11) ----
    for p in peers.iter() {
        if let Sess::P2P(s) = &p.sess {
            let status = s.verif_connect_status();
            for (h, r) in &p.delay_ref {
                let want = r.truth.len() as i32 - 1;
                if status[*h].1 != want {
                    out.hit("C11", "local-last-frame", scen, &format!(
                        "peer {}: local player {h}: the session reports last frame {} but the documented delay semantics give {want} (delay {})", p.id, status[*h].1, r.delay));
                }
            }
        }
    }
}

pub fn run() {
    let stdin = std::io::stdin();
    let lines: Vec<String> = stdin.lock().lines().map(|l| l.unwrap()).collect();
    let scenarios = parse(&lines);
    let threads: usize = std::env::var("SIM_THREADS").ok().and_then(|v| v.parse().ok()).unwrap_or(16);
    let scenarios = std::sync::Arc::new(scenarios);
    let next = std::sync::Arc::new(std::sync::atomic::AtomicUsize::new(0));
    let results = std::sync::Arc::new(std::sync::Mutex::new(BTreeMap::<usize, Vec<String>>::new()));
    let mut hs = Vec::new();
    for _ in 0..threads.max(1) {
        let (scs, nx, res) = (scenarios.clone(), next.clone(), results.clone());
        hs.push(std::thread::Builder::new().stack_size(32 << 20).spawn(move || loop {
            let i = nx.fetch_add(1, std::sync::atomic::Ordering::SeqCst);
            if i >= scs.len() {
                break;
            }
            let sc = &scs[i];
            let mut out = Out { lines: Vec::new() };
            let repeat = sc.cfg.expect.iter().any(|x| x == "repeat");
            let runs = if repeat { 2 } else { 1 };
            let mut all_obs = Vec::new();
            for r in 0..runs {
                let mut o = Out { lines: Vec::new() };
                let rs = guarded(|| {
                    if sc.cfg.pred_inc {
                        run_scenario::<CfgInc>(sc, sc.cfg.seed.wrapping_add(r * 7919), &mut o)
                    } else if sc.cfg.pred_repeat {
                        run_scenario::<CfgRepeat>(sc, sc.cfg.seed.wrapping_add(r * 7919), &mut o)
                    } else {
                        run_scenario::<CfgDefault>(sc, sc.cfg.seed.wrapping_add(r * 7919), &mut o)
                    }
                });
                match rs {
                    Ok(obs) => all_obs.push(obs),
                    Err(m) => o.lines.push(format!("HIT PANIC harness {} harness-level panic: {m}", sc.name)),
                }
                if r == 0 {
                    out.lines.append(&mut o.lines);
                }
            }
            if all_obs.len() == 2 && all_obs[0] != all_obs[1] {
                out.lines.push(format!("HIT C17 nondeterministic-observables {} two runs of the same scenario (fresh hash states, different handshake nonces) differ: {:?} vs {:?}", sc.name, all_obs[0], all_obs[1]));
            }
            if let Some(obs) = all_obs.first() {
                for (id, d) in obs {
                    out.lines.push(format!("OBS {} {} {}", sc.name, id, d));
                }
            }
            out.lines.push(format!("END {}", sc.name));
            res.lock().unwrap().insert(i, out.lines);
        }).unwrap());
    }
    for h in hs {
        let _ = h.join();
    }
    let stdout = std::io::stdout();
    let mut w = stdout.lock();
    for (_, lines) in results.lock().unwrap().iter() {
        for l in lines {
            writeln!(w, "{l}").unwrap();
        }
    }
}
