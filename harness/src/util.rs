use std::panic::{catch_unwind, AssertUnwindSafe};

pub fn hex(b: &[u8]) -> String {
    if b.is_empty() {
        return "-".to_string();
    }
    b.iter().map(|x| format!("{x:02x}")).collect()
}

pub fn unhex(s: &str) -> Vec<u8> {
    if s == "-" {
        return Vec::new();
    }
    (0..s.len() / 2)
        .map(|i| u8::from_str_radix(&s[2 * i..2 * i + 2], 16).expect("bad hex"))
        .collect()
}

/// Runs `f`, turning a panic into `Err(message)`.
pub fn guarded<R>(f: impl FnOnce() -> R) -> Result<R, String> {
    catch_unwind(AssertUnwindSafe(f)).map_err(|e| {
        if let Some(s) = e.downcast_ref::<&str>() {
            (*s).to_string()
        } else if let Some(s) = e.downcast_ref::<String>() {
            s.clone()
        } else {
            "panic".to_string()
        }
    })
}

pub fn quiet_panics() {
    std::panic::set_hook(Box::new(|_| {}));
}
