//! L0: the input codec.  One op per line:
//!   enc <ref> <in>*      -> ok <bytes>
//!   dec <ref> <data>     -> ok <in>,<in>,.. | err | panic      (second column: peak bytes allocated)
use crate::alloc;
use crate::util::{guarded, hex, unhex};
use ggrs::verif::codec;
use std::io::{BufRead, Write};

pub fn run() {
    let stdin = std::io::stdin();
    let stdout = std::io::stdout();
    let mut out = stdout.lock();
    for line in stdin.lock().lines() {
        let line = line.expect("read");
        let toks: Vec<&str> = line.split_whitespace().collect();
        if toks.is_empty() {
            continue;
        }
        let res = match toks[0] {
            "enc" => {
                let r = unhex(toks[1]);
                let ins: Vec<Vec<u8>> = toks[2..].iter().map(|t| unhex(t)).collect();
                match guarded(|| codec::encode(&r, &ins)) {
                    Ok(b) => format!("ok {}", hex(&b)),
                    Err(_) => "panic".to_string(),
                }
            }
            "dec" | "decu" => {
                let r = unhex(toks[1]);
                let d = unhex(toks[2]);
                let base = alloc::reset_peak();
                let res = guarded(|| codec::decode(&r, &d));
                let peak = alloc::peak_above(base);
                match res {
                    Ok(Ok(outs)) => {
                        let s = if outs.is_empty() {
                            ".".to_string()
                        } else {
                            outs.iter().map(|o| hex(o)).collect::<Vec<_>>().join(",")
                        };
                        format!("ok {s} #peak={peak}")
                    }
                    Ok(Err(_)) => format!("err #peak={peak}"),
                    Err(_) => format!("panic #peak={peak}"),
                }
            }
            _ => "badop".to_string(),
        };
        writeln!(out, "{res}").unwrap();
        out.flush().unwrap();
    }
}
