//! Counting allocator: tracks live and peak bytes so that monitors can bound what one operation
//! allocates; refuses (returns null => the process aborts) when live memory would exceed the
//! hard limit, so that an allocation bomb ends the process instead of the machine.
use std::alloc::{GlobalAlloc, Layout, System};
use std::sync::atomic::{AtomicUsize, Ordering};

pub struct Counting;
static LIVE: AtomicUsize = AtomicUsize::new(0);
static PEAK: AtomicUsize = AtomicUsize::new(0);
pub const HARD_LIMIT: usize = 1 << 30;

unsafe impl GlobalAlloc for Counting {
    unsafe fn alloc(&self, layout: Layout) -> *mut u8 {
        let now = LIVE.fetch_add(layout.size(), Ordering::Relaxed) + layout.size();
        if now > HARD_LIMIT {
            LIVE.fetch_sub(layout.size(), Ordering::Relaxed);
            return std::ptr::null_mut();
        }
        PEAK.fetch_max(now, Ordering::Relaxed);
        System.alloc(layout)
    }
    unsafe fn dealloc(&self, ptr: *mut u8, layout: Layout) {
        LIVE.fetch_sub(layout.size(), Ordering::Relaxed);
        System.dealloc(ptr, layout)
    }
    unsafe fn alloc_zeroed(&self, layout: Layout) -> *mut u8 {
        let now = LIVE.fetch_add(layout.size(), Ordering::Relaxed) + layout.size();
        if now > HARD_LIMIT {
            LIVE.fetch_sub(layout.size(), Ordering::Relaxed);
            return std::ptr::null_mut();
        }
        PEAK.fetch_max(now, Ordering::Relaxed);
        System.alloc_zeroed(layout)
    }
}

/// Resets the peak to the current live size and returns the live size.
pub fn reset_peak() -> usize {
    let live = LIVE.load(Ordering::Relaxed);
    PEAK.store(live, Ordering::Relaxed);
    live
}
/// Peak bytes above `base` since the last reset.
pub fn peak_above(base: usize) -> usize {
    PEAK.load(Ordering::Relaxed).saturating_sub(base)
}
