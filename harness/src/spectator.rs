//! Level `spectator`: one real SpectatorSession driven by a puppet host (the harness speaks the
//! wire protocol itself), virtual clock frozen, so that every Input event the session sees is
//! scripted.
//!
//! ops:
//!   new players=<n> maxbehind=<m> catchup=<c>      -> ok | invalid
//!   sync                                           -> ok <running|synchronizing> cur=.. behind=..
//!   frames <first> <count> [status d:l,d:l,..]     -> ok | notsync   (one Input message with <count>
//!        consecutive frames from <first>, value of player p in frame f = 10 f + p + 1; the message is
//!        handled by the next poll/advance)
//!   advance   -> ok <frame>:(<v><C|D>,..);.. cur=.. behind=..  |  err <Error> cur=.. behind=..
//!   poll      -> ok cur=.. behind=..
//! behind = frames_behind_host() or `panic`.
use crate::sim::game::{GState, Inp};
use crate::sim::CfgDefault;
use crate::util::guarded;
use ggrs::verif::msg::{build, view, Body, MsgView};
use ggrs::{GgrsError, GgrsRequest, InputStatus, Message, NonBlockingSocket, SessionBuilder, SessionState, SpectatorSession};
use std::cell::RefCell;
use std::io::{BufRead, Write};
use std::rc::Rc;

type Addr = u32;
const HOST: Addr = 7;
const MAGIC: u16 = 4242;

#[derive(Default)]
struct Wire {
    inbox: Vec<(Addr, Message)>,
    outbox: Vec<(Addr, Message)>,
}
struct PuppetSocket(Rc<RefCell<Wire>>);
impl NonBlockingSocket<Addr> for PuppetSocket {
    fn send_to(&mut self, msg: &Message, addr: &Addr) {
        self.0.borrow_mut().outbox.push((*addr, msg.clone()));
    }
    fn receive_all_messages(&mut self) -> Vec<(Addr, Message)> {
        std::mem::take(&mut self.0.borrow_mut().inbox)
    }
}

struct World {
    sess: SpectatorSession<CfgDefault>,
    wire: Rc<RefCell<Wire>>,
    players: usize,
    last_sent: i32, // newest frame the puppet host has put on the wire
    synced: bool,
}

/// the host's input of player p in frame f
fn value(p: usize, f: i32) -> u32 {
    (10 * i64::from(f) + p as i64 + 1).rem_euclid(1 << 32) as u32
}

fn frame_bytes(players: usize, f: i32) -> Vec<u8> {
    let mut b = Vec::with_capacity(4 * players);
    for p in 0..players {
        b.extend_from_slice(&value(p, f).to_le_bytes());
    }
    b
}

impl World {
    /// what the session sent: handshake requests are answered only while `answer` (they stay
    /// on the wire until then); everything else (acks) is dropped
    fn react(&mut self, answer: bool) {
        let out: Vec<(Addr, Message)> = std::mem::take(&mut self.wire.borrow_mut().outbox);
        for (to, m) in out {
            if let Body::SyncRequest(n) = view(&m).body {
                if answer {
                    let reply = build(&MsgView { magic: MAGIC, body: Body::SyncReply(n) });
                    self.wire.borrow_mut().inbox.push((to, reply));
                } else {
                    self.wire.borrow_mut().outbox.push((to, m));
                }
            }
        }
    }

    fn tail(&self) -> String {
        let behind = match guarded(|| self.sess.frames_behind_host()) {
            Ok(b) => b.to_string(),
            Err(_) => "panic".to_string(),
        };
        format!("cur={} behind={}", self.sess.current_frame(), behind)
    }
}

fn status_char(s: InputStatus) -> char {
    match s {
        InputStatus::Confirmed => 'C',
        InputStatus::Predicted => 'P',
        InputStatus::Disconnected => 'D',
    }
}

fn new_world(t: &[&str]) -> Option<World> {
    ggrs::verif::clock::set_ms(Some(5_000_000));
    ggrs::verif::rng::seed(Some(99));
    let (mut players, mut maxbehind, mut catchup) = (2usize, 10usize, 1usize);
    for a in &t[1..] {
        let (k, v) = a.split_once('=').unwrap_or((a, ""));
        match k {
            "players" => players = v.parse().unwrap(),
            "maxbehind" => maxbehind = v.parse().unwrap(),
            "catchup" => catchup = v.parse().unwrap(),
            _ => {}
        }
    }
    let wire = Rc::new(RefCell::new(Wire::default()));
    let b = SessionBuilder::<CfgDefault>::new()
        .with_num_players(players)
        .ok()?
        .with_max_frames_behind(maxbehind)
        .ok()?
        .with_catchup_speed(catchup)
        .ok()?
        .with_disconnect_timeout(std::time::Duration::from_millis(1_000_000))
        .with_disconnect_notify_delay(std::time::Duration::from_millis(900_000));
    let sess = b.start_spectator_session(HOST, PuppetSocket(wire.clone()));
    let _ = (GState { frame: 0, hash: 0 }, Inp(0));
    Some(World { sess, wire, players, last_sent: -1, synced: false })
}

fn step(w: &mut World, t: &[&str]) -> String {
    match t[0] {
        "sync" => {
            for _ in 0..12 {
                w.sess.poll_remote_clients();
                w.react(true);
            }
            w.wire.borrow_mut().inbox.clear();
            w.synced = w.sess.current_state() == SessionState::Running;
            format!("ok {} {}", if w.synced { "running" } else { "synchronizing" }, w.tail())
        }
        "frames" => {
            if !w.synced {
                return "notsync".to_string();
            }
            let first: i32 = t[1].parse().unwrap();
            let count: i32 = t[2].parse().unwrap();
            let status: Vec<(bool, i32)> = if t.len() > 4 && t[3] == "status" {
                t[4].split(',')
                    .map(|s| {
                        let (d, l) = s.split_once(':').unwrap();
                        (d == "1", l.parse().unwrap())
                    })
                    .collect()
            } else {
                vec![(false, -1); w.players]
            };
            // the host encodes against the input before the first one of the packet (the blank
            // input at the very beginning)
            let reference = if w.last_sent < 0 || first <= 0 { vec![0u8; 4 * w.players] } else { frame_bytes(w.players, first - 1) };
            let frames: Vec<Vec<u8>> = (0..count).map(|i| frame_bytes(w.players, first + i)).collect();
            let bytes = ggrs::verif::codec::encode(&reference, &frames);
            let body = Body::Input { status, disconnect_requested: false, start_frame: first, ack_frame: -1, bytes };
            let m = build(&MsgView { magic: MAGIC, body });
            w.wire.borrow_mut().inbox.push((HOST, m));
            if first >= 0 && count > 0 {
                w.last_sent = w.last_sent.max(first + count - 1);
            }
            "ok".to_string()
        }
        "poll" => {
            w.sess.poll_remote_clients();
            w.react(false);
            format!("ok {}", w.tail())
        }
        "advance" => {
            let before = w.sess.current_frame();
            let r = w.sess.advance_frame();
            w.react(false);
            let _ = w.sess.events().count();
            match r {
                Err(GgrsError::NotSynchronized) => format!("err NotSynchronized {}", w.tail()),
                Err(GgrsError::PredictionThreshold) => format!("err PredictionThreshold {}", w.tail()),
                Err(GgrsError::SpectatorTooFarBehind) => format!("err SpectatorTooFarBehind {}", w.tail()),
                Err(e) => format!("err other:{e} {}", w.tail()),
                Ok(reqs) => {
                    let mut rq = Vec::new();
                    for (i, r) in reqs.into_iter().enumerate() {
                        match r {
                            GgrsRequest::AdvanceFrame { inputs } => rq.push(format!(
                                "{}:({})",
                                before + 1 + i as i32,
                                inputs.iter().map(|(v, s)| format!("{}{}", v.0, status_char(*s))).collect::<Vec<_>>().join(",")
                            )),
                            GgrsRequest::SaveGameState { frame, .. } => rq.push(format!("S{frame}")),
                            GgrsRequest::LoadGameState { frame, .. } => rq.push(format!("L{frame}")),
                        }
                    }
                    format!("ok {} {}", if rq.is_empty() { "-".to_string() } else { rq.join(";") }, w.tail())
                }
            }
        }
        _ => "badop".to_string(),
    }
}

pub fn run() {
    let stdin = std::io::stdin();
    let stdout = std::io::stdout();
    let mut out = stdout.lock();
    let mut world: Option<World> = None;
    let mut dead = false;
    for line in stdin.lock().lines() {
        let line = line.expect("read");
        let t: Vec<&str> = line.split_whitespace().collect();
        if t.is_empty() {
            continue;
        }
        let res = if t[0] == "new" {
            dead = false;
            world = None;
            match guarded(|| new_world(&t)) {
                Ok(Some(w)) => {
                    world = Some(w);
                    "ok".to_string()
                }
                Ok(None) => "invalid".to_string(),
                Err(_) => {
                    dead = true;
                    "panic".to_string()
                }
            }
        } else if dead {
            "dead".to_string()
        } else if let Some(w) = world.as_mut() {
            match guarded(|| step(w, &t)) {
                Ok(s) => s,
                Err(m) => {
                    dead = true;
                    format!("panic {}", m.split_whitespace().take(6).collect::<Vec<_>>().join("_"))
                }
            }
        } else {
            "badop".to_string()
        };
        writeln!(out, "{res}").unwrap();
        out.flush().unwrap();
    }
}
