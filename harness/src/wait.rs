//! Level `wait`: two real lockstep P2PSessions (max_prediction = 0) over an in-memory network whose packets
//! become visible to the receiver only after it has polled a given number of times; every poll advances the
//! virtual clock by one millisecond, so `advance_frame_with_wait_timeout` spins for a bounded number of polls
//! and the awaited input can arrive in the middle of the wait.
//! One scenario per input line: `wait seed=<s> delay=<d> fps=<f> timeout=<ms> ticks=<k>`; one result line:
//! `ok frames=<a>/<b> waits_resolved=<n> stalls=<m>` or `viol <what>` (C04: a call that returns no AdvanceFrame
//! leaves current_frame() unchanged, a call advances by at most one frame, every input is Confirmed, nothing
//! is saved or loaded; C02: the game executing the requests ends at current_frame()).
use crate::sim::game::{status_code, GState, Inp};
use crate::util::guarded;
use ggrs::verif::clock;
use ggrs::{Config, GgrsRequest, Message, NonBlockingSocket, P2PSession, PlayerType, PredictRepeatLast, SessionBuilder, SessionState};
use std::cell::RefCell;
use std::collections::{HashMap, VecDeque};
use std::io::BufRead;
use std::rc::Rc;
use std::time::Duration;

type Addr = u32;
struct Cfg;
impl Config for Cfg {
    type Input = Inp;
    type InputPredictor = PredictRepeatLast;
    type State = GState;
    type Address = Addr;
}

#[derive(Default)]
struct Net {
    /// per receiver: (polls still to wait, sender, message)
    queues: HashMap<Addr, VecDeque<(u32, Addr, Message)>>,
    /// polls a packet sent now to `receiver` has to wait
    hold: HashMap<Addr, u32>,
}
struct Sock {
    me: Addr,
    net: Rc<RefCell<Net>>,
}
impl NonBlockingSocket<Addr> for Sock {
    fn send_to(&mut self, msg: &Message, addr: &Addr) {
        let mut n = self.net.borrow_mut();
        let h = n.hold.get(addr).copied().unwrap_or(0);
        n.queues.entry(*addr).or_default().push_back((h, self.me, msg.clone()));
    }
    fn receive_all_messages(&mut self) -> Vec<(Addr, Message)> {
        clock::advance_ms(1);
        let mut n = self.net.borrow_mut();
        let q = n.queues.entry(self.me).or_default();
        let mut out = Vec::new();
        // in-order delivery: a packet is visible once it has waited its polls and nothing older is still waiting
        while let Some((h, _, _)) = q.front() {
            if *h == 0 {
                let (_, a, m) = q.pop_front().unwrap();
                out.push((a, m));
            } else {
                break;
            }
        }
        for e in q.iter_mut() {
            if e.0 > 0 {
                e.0 -= 1;
            }
        }
        out
    }
}

struct Lcg(u64);
impl Lcg {
    fn next(&mut self) -> u64 {
        self.0 = self.0.wrapping_mul(6364136223846793005).wrapping_add(1442695040888963407);
        self.0 >> 33
    }
    fn pick(&mut self, v: &[u32]) -> u32 {
        v[(self.next() % v.len() as u64) as usize]
    }
}

fn kv(line: &str, key: &str, default: u64) -> u64 {
    line.split_whitespace().find_map(|t| t.strip_prefix(&format!("{key}="))).and_then(|v| v.parse().ok()).unwrap_or(default)
}

fn scenario(line: &str) -> String {
    let seed = kv(line, "seed", 1);
    let delay = kv(line, "delay", 0) as usize;
    let fps = kv(line, "fps", 60) as usize;
    let timeout = kv(line, "timeout", 16);
    let ticks = kv(line, "ticks", 60);
    clock::set_ms(Some(1_000_000));
    let net = Rc::new(RefCell::new(Net::default()));
    let mk = |me: Addr, other: Addr, local: usize| -> P2PSession<Cfg> {
        SessionBuilder::<Cfg>::new()
            .with_num_players(2)
            .expect("players")
            .with_max_prediction_window(0)
            .with_input_delay(delay)
            .with_fps(fps)
            .expect("fps")
            .add_player(PlayerType::Local, local)
            .expect("local")
            .add_player(PlayerType::Remote(other), 1 - local)
            .expect("remote")
            .start_p2p_session(Sock { me, net: net.clone() })
            .expect("start")
    };
    let mut sess = [mk(1, 2, 0), mk(2, 1, 1)];
    for _ in 0..400 {
        for s in sess.iter_mut() {
            s.poll_remote_clients();
        }
        if sess.iter().all(|s| s.current_state() == SessionState::Running) {
            break;
        }
    }
    if !sess.iter().all(|s| s.current_state() == SessionState::Running) {
        return "viol handshake did not complete".to_string();
    }
    let mut rng = Lcg(seed);
    let mut game_frame = [0i32; 2];
    let (mut resolved, mut stalls) = (0u32, 0u32);
    for tick in 0..ticks {
        // how long packets sent during this tick stay invisible to their receiver (in polls of the receiver)
        let h1 = rng.pick(&[0, 0, 1, 3, 8, 20, 60]);
        let h2 = rng.pick(&[0, 0, 1, 3, 8, 20, 60]);
        net.borrow_mut().hold.insert(1, h1);
        net.borrow_mut().hold.insert(2, h2);
        let order: [usize; 2] = if rng.next() % 2 == 0 { [0, 1] } else { [1, 0] };
        for &i in &order {
            let s = &mut sess[i];
            let before = s.current_frame();
            let v = (rng.next() % 7) as u32 + 1;
            if let Err(e) = s.add_local_input(i, Inp(v)) {
                return format!("viol add_local_input failed at tick {tick}: {e}");
            }
            let use_wait = rng.next() % 4 != 0;
            let r = guarded(|| if use_wait { s.advance_frame_with_wait_timeout(Duration::from_millis(timeout)) } else { s.advance_frame() });
            let reqs = match r {
                Err(m) => return format!("viol peer {} panicked at tick {tick} frame {before}: {m}", i + 1),
                Ok(Err(e)) => return format!("viol peer {} advance error at tick {tick}: {e}", i + 1),
                Ok(Ok(q)) => q,
            };
            let mut n_adv = 0;
            for q in &reqs {
                match q {
                    GgrsRequest::AdvanceFrame { inputs } => {
                        n_adv += 1;
                        game_frame[i] += 1;
                        if let Some((_, st)) = inputs.iter().find(|(_, st)| status_code(*st) != 0) {
                            return format!("viol peer {} frame {before}: lockstep handed out an input with status {}", i + 1, status_code(*st));
                        }
                    }
                    GgrsRequest::SaveGameState { frame, .. } => return format!("viol peer {} frame {before}: lockstep requested SaveGameState({frame})", i + 1),
                    GgrsRequest::LoadGameState { frame, .. } => return format!("viol peer {} frame {before}: lockstep requested LoadGameState({frame})", i + 1),
                }
            }
            let after = s.current_frame();
            if n_adv == 0 {
                stalls += 1;
            } else if use_wait {
                resolved += 1;
            }
            if n_adv > 1 || after != before + n_adv {
                return format!(
                    "viol peer {} tick {tick}: the call returned {n_adv} AdvanceFrame request(s) but current_frame() went from {before} to {after} ({})",
                    i + 1,
                    if use_wait { format!("advance_frame_with_wait_timeout({timeout} ms)") } else { "advance_frame".to_string() }
                );
            }
            if game_frame[i] != after {
                return format!("viol peer {} tick {tick}: the game is at frame {} but current_frame() = {after}", i + 1, game_frame[i]);
            }
            let _ = s.events().count();
        }
    }
    format!("ok frames={}/{} waits_resolved={resolved} stalls={stalls}", game_frame[0], game_frame[1])
}

pub fn run() {
    for line in std::io::stdin().lock().lines() {
        let line = line.unwrap_or_default();
        if line.trim().is_empty() {
            println!("skip");
            continue;
        }
        println!("{}", scenario(&line));
    }
}
