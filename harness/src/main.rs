//! Correspondence / monitor harness for the ggrs verification framework.
//! Every sub-command reads an operation script on stdin and prints one result line per op.
mod alloc;
mod builder;
mod codec;
mod endpoint;
mod queue;
mod session;
mod sim;
mod spectator;
mod synctest;
mod timesync;
mod util;
mod wait;

#[global_allocator]
static GLOBAL: alloc::Counting = alloc::Counting;

fn main() {
    util::quiet_panics();
    let args: Vec<String> = std::env::args().collect();
    let level = args.get(1).map(String::as_str).unwrap_or("");
    match level {
        "codec" => codec::run(),
        "endpoint" => endpoint::run(),
        "builder" => builder::run(),
        "sim" => sim::run(),
        "queue" => queue::run(),
        "session" | "desync" => session::run(),
        "spectator" => spectator::run(),
        "synctest" => synctest::run(),
        "timesync" => timesync::run(),
        "wait" => wait::run(),
        "profile" => println!("{}", if cfg!(debug_assertions) { "debug" } else { "release" }),
        _ => {
            eprintln!("usage: vharness <codec|...>");
            std::process::exit(2);
        }
    }
}
