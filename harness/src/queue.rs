//! L1: InputQueue through the verif-hooks wrapper.
//! ops: new <repeat|default> | add f v | input f | confirmed f | discard f | reset | delay d | fi
use crate::sim::game::Inp;
use crate::sim::{CfgDefault, CfgRepeat};
use crate::util::guarded;
use ggrs::verif::Queue;
use ggrs::InputStatus;
use std::io::{BufRead, Write};

enum Q {
    R(Queue<CfgRepeat>),
    D(Queue<CfgDefault>),
}

fn st(s: InputStatus) -> &'static str {
    match s {
        InputStatus::Confirmed => "C",
        InputStatus::Predicted => "P",
        InputStatus::Disconnected => "D",
    }
}

macro_rules! both {
    ($q:expr, $x:ident => $e:expr) => {
        match $q {
            Q::R($x) => $e,
            Q::D($x) => $e,
        }
    };
}

pub fn run() {
    let stdin = std::io::stdin();
    let stdout = std::io::stdout();
    let mut out = stdout.lock();
    let mut q = Q::R(Queue::new());
    let mut dead = false;
    for line in stdin.lock().lines() {
        let line = line.expect("read");
        let t: Vec<&str> = line.split_whitespace().collect();
        if t.is_empty() {
            continue;
        }
        let num = |i: usize| -> i32 { t[i].parse().unwrap() };
        if t[0] == "new" {
            q = if t[1] == "repeat" { Q::R(Queue::new()) } else { Q::D(Queue::new()) };
            dead = false;
            writeln!(out, "ok").unwrap();
            continue;
        }
        if dead {
            // after a panic the real queue is in an unspecified state; the model stops too
            writeln!(out, "dead").unwrap();
            continue;
        }
        let r = guarded(|| match t[0] {
            "add" => format!("ok {}", both!(&mut q, x => x.add_input(num(1), Inp(num(2) as u32)))),
            "input" => {
                let (v, s) = both!(&mut q, x => x.input(num(1)));
                format!("ok {} {}", v.0, st(s))
            }
            "confirmed" => {
                let (f, v) = both!(&q, x => x.confirmed_input(num(1)));
                format!("ok {} {}", f, v.0)
            }
            "discard" => {
                both!(&mut q, x => x.discard_confirmed_frames(num(1)));
                "ok".to_string()
            }
            "reset" => {
                both!(&mut q, x => x.reset_prediction());
                "ok".to_string()
            }
            "delay" => {
                let fills = both!(&mut q, x => x.set_frame_delay(num(1) as usize));
                if fills.is_empty() {
                    "ok .".to_string()
                } else {
                    format!("ok {}", fills.iter().map(|(f, v)| format!("{}:{}", f, v.0)).collect::<Vec<_>>().join(","))
                }
            }
            "fi" => format!("ok {}", both!(&q, x => x.first_incorrect_frame())),
            _ => "badop".to_string(),
        });
        match r {
            Ok(s) => writeln!(out, "{s}").unwrap(),
            Err(_) => {
                dead = true;
                writeln!(out, "panic").unwrap();
            }
        }
        out.flush().unwrap();
    }
}
