//! Level `session`: one real P2PSession driven through puppet peers (the harness speaks the wire
//! protocol itself), so that every endpoint event the session sees is scripted.
//!
//! ops:
//!   new players=<n> window=<w> sparse=<0|1> pred=<repeat|default> delay=<d> kinds=<L|R<ep>,..> spectators=<k>
//!   sync | local <h> <v> | advance | poll | rin <ep> <frame> <v>.. | gossip <ep> <d:l,..> | epdisc <ep>
//!   delay <h> <d> | disc <h>
//! with `desync=<interval>` on the `new` line (level `desync`): every save carries the checksum
//! frame*1000 + (number of saves of that frame so far); `report <ep> <frame> <cs|match>` lets a puppet send
//! a ChecksumReport (`match` = the checksum of the latest save of that frame); `advance` appends
//! ` | ds pre=L:<l>;cells:<f:c,..> rep=<f:c|-> ev=<ep/f/local/remote;..|-> sent=<f> hist=<f:c,..|-> pend=<..|..>`
use crate::sim::game::{status_code, GState, Inp};
use crate::sim::{CfgDefault, CfgRepeat};
use crate::util::guarded;
use ggrs::verif::msg::{build, view, Body, MsgView};
use ggrs::{Config, DesyncDetection, GgrsError, GgrsEvent, GgrsRequest, Message, NonBlockingSocket, P2PSession, PlayerType, SessionBuilder, SessionState};
use std::cell::RefCell;
use std::collections::HashMap;
use std::io::{BufRead, Write};
use std::rc::Rc;

type Addr = u32;

#[derive(Default)]
struct Wire {
    inbox: Vec<(Addr, Message)>,
    outbox: Vec<(Addr, Message)>,
}
struct PuppetSocket(Rc<RefCell<Wire>>);
impl NonBlockingSocket<Addr> for PuppetSocket {
    fn send_to(&mut self, msg: &Message, addr: &Addr) {
        self.0.borrow_mut().outbox.push((*addr, msg.clone()));
    }
    fn receive_all_messages(&mut self) -> Vec<(Addr, Message)> {
        std::mem::take(&mut self.0.borrow_mut().inbox)
    }
}

struct Puppet {
    addr: Addr,
    handles: Vec<usize>,
    last_sent: i32,
    last_bytes: Vec<u8>,
    status: Vec<(bool, i32)>,
    max_seen: i32, // newest frame of the subject's inputs seen by this puppet
    acked: i32,
}

const MAGIC: u16 = 4242;

struct World<C: Config<Input = Inp, State = GState, Address = Addr>> {
    sess: P2PSession<C>,
    wire: Rc<RefCell<Wire>>,
    puppets: Vec<Puppet>, // remote endpoints first, then spectators
    nremote: usize,
    players: usize,
    dead: bool,
    /// desync mode: interval (0 = off), saves per frame, checksum reports seen in the outbox
    desync: u32,
    saves: HashMap<i32, u64>,
    reports_out: Vec<(usize, i32, u128)>,
    /// the game's input history (values only), executed from the requests: the checksum of a save is a
    /// hash of the history up to the saved frame, so equal states give equal checksums
    ghist: Vec<Vec<u32>>,
}

fn le(v: u32) -> Vec<u8> {
    v.to_le_bytes().to_vec()
}

impl<C: Config<Input = Inp, State = GState, Address = Addr>> World<C> {
    /// Lets every puppet react to what the session sent: handshake replies, acks; returns the new
    /// frames carried by Input messages, per puppet, in order.
    fn react(&mut self) -> Vec<(usize, i32, Vec<u32>)> {
        let out: Vec<(Addr, Message)> = std::mem::take(&mut self.wire.borrow_mut().outbox);
        let mut news = Vec::new();
        for (to, m) in out {
            let Some(pi) = self.puppets.iter().position(|p| p.addr == to) else { continue };
            let v = view(&m);
            match v.body {
                Body::SyncRequest(n) => {
                    let reply = build(&MsgView { magic: MAGIC, body: Body::SyncReply(n) });
                    self.wire.borrow_mut().inbox.push((to, reply));
                }
                Body::Input { start_frame, bytes, .. } => news.push((pi, start_frame, bytes)),
                Body::ChecksumReport { checksum, frame } => self.reports_out.push((pi, frame, checksum)),
                _ => {}
            }
        }
        // decode inputs: keep a per-puppet history of the subject's frames
        let mut res = Vec::new();
        for (pi, start, bytes) in news {
            let p = &mut self.puppets[pi];
            let known = HIST.with(|h| h.borrow().get(&p.addr).and_then(|m| m.get(&(start - 1)).cloned()));
            let reference = known.unwrap_or_else(|| vec![0u8; ZERO.with(|z| *z.borrow().get(&p.addr).unwrap_or(&4))]);
            if let Ok(frames) = ggrs::verif::codec::decode(&reference, &bytes) {
                for (i, fb) in frames.into_iter().enumerate() {
                    let f = start + i as i32;
                    HIST.with(|h| {
                        h.borrow_mut().entry(p.addr).or_default().insert(f, fb.clone());
                    });
                    if f > p.max_seen {
                        p.max_seen = f;
                        let vals: Vec<u32> = fb.chunks(4).map(|c| u32::from_le_bytes([c[0], c[1], c[2], c[3]])).collect();
                        res.push((pi, f, vals));
                    }
                }
            }
            // acknowledge everything seen
            let ack = build(&MsgView { magic: MAGIC, body: Body::InputAck(p.max_seen) });
            self.wire.borrow_mut().inbox.push((p.addr, ack));
            p.acked = p.max_seen;
        }
        res
    }
}

thread_local! {
    static HIST: RefCell<HashMap<Addr, HashMap<i32, Vec<u8>>>> = RefCell::new(HashMap::new());
    static ZERO: RefCell<HashMap<Addr, usize>> = RefCell::new(HashMap::new());
}

fn fmt_status(st: &[(bool, i32)]) -> String {
    st.iter().map(|(d, l)| format!("{}:{}", u8::from(*d), l)).collect::<Vec<_>>().join(",")
}

fn fmt_sends(news: &[(usize, i32, Vec<u32>)], nremote: usize) -> (String, String) {
    // remote endpoints all receive the same frames: report the first remote puppet's view;
    // spectators likewise
    let mut rs = Vec::new();
    let mut ss = Vec::new();
    let first_remote = news.iter().filter(|n| n.0 < nremote).map(|n| n.0).min();
    let first_spec = news.iter().filter(|n| n.0 >= nremote).map(|n| n.0).min();
    for (pi, f, vals) in news {
        let s = format!("{}:{}", f, vals.iter().map(u32::to_string).collect::<Vec<_>>().join("/"));
        if Some(*pi) == first_remote {
            rs.push(s);
        } else if Some(*pi) == first_spec {
            ss.push(s);
        }
    }
    (rs.join(";"), ss.join(";"))
}

fn run_world<C: Config<Input = Inp, State = GState, Address = Addr>>(
    first: &[&str],
    lines: &mut dyn Iterator<Item = String>,
    out: &mut dyn Write,
) -> Option<String> {
    HIST.with(|h| h.borrow_mut().clear());
    ZERO.with(|z| z.borrow_mut().clear());
    ggrs::verif::clock::set_ms(Some(5_000_000));
    ggrs::verif::rng::seed(Some(99));
    let mut players = 2;
    let mut window = 8;
    let mut sparse = false;
    let mut delay = 0;
    let mut kinds: Vec<String> = Vec::new();
    let mut nspec = 0usize;
    let mut desync = 0u32;
    for t in &first[1..] {
        let (k, v) = t.split_once('=').unwrap_or((t, ""));
        match k {
            "players" => players = v.parse().unwrap(),
            "window" => window = v.parse().unwrap(),
            "sparse" => sparse = v == "1",
            "delay" => delay = v.parse().unwrap(),
            "kinds" => kinds = v.split(',').map(str::to_string).collect(),
            "spectators" => nspec = v.parse().unwrap(),
            "desync" => desync = v.parse().unwrap(),
            _ => {}
        }
    }
    let wire = Rc::new(RefCell::new(Wire::default()));
    let mut b = SessionBuilder::<C>::new()
        .with_num_players(players)
        .unwrap()
        .with_max_prediction_window(window)
        .with_input_delay(delay)
        .with_sparse_saving_mode(sparse)
        .with_disconnect_timeout(std::time::Duration::from_millis(1_000_000))
        .with_disconnect_notify_delay(std::time::Duration::from_millis(900_000))
        .with_desync_detection_mode(if desync > 0 { DesyncDetection::On { interval: desync } } else { DesyncDetection::Off });
    let mut eps: HashMap<usize, Vec<usize>> = HashMap::new();
    for (h, k) in kinds.iter().enumerate() {
        if k == "L" {
            b = b.add_player(PlayerType::Local, h).unwrap();
        } else {
            let ep: usize = k[1..].parse().unwrap();
            eps.entry(ep).or_default().push(h);
            b = b.add_player(PlayerType::Remote(100 + ep as u32), h).unwrap();
        }
    }
    for k in 0..nspec {
        b = b.add_player(PlayerType::Spectator(200 + k as u32), players + k).unwrap();
    }
    let sess = b.start_p2p_session(PuppetSocket(wire.clone())).unwrap();
    let mut puppets = Vec::new();
    let mut epids: Vec<usize> = eps.keys().copied().collect();
    epids.sort_unstable();
    for ep in &epids {
        let hs = eps[ep].clone();
        ZERO.with(|z| z.borrow_mut().insert(100 + *ep as u32, 4 * kinds.iter().filter(|k| *k == "L").count()));
        puppets.push(Puppet { addr: 100 + *ep as u32, handles: hs, last_sent: -1, last_bytes: Vec::new(), status: vec![(false, -1); players], max_seen: -1, acked: -1 });
    }
    let nremote = puppets.len();
    for k in 0..nspec {
        ZERO.with(|z| z.borrow_mut().insert(200 + k as u32, 4 * players));
        puppets.push(Puppet { addr: 200 + k as u32, handles: vec![], last_sent: -1, last_bytes: Vec::new(), status: vec![(false, -1); players], max_seen: -1, acked: -1 });
    }
    let mut w = World { sess, wire, puppets, nremote, players, dead: false, desync, saves: HashMap::new(), reports_out: Vec::new(), ghist: Vec::new() };
    writeln!(out, "ok").unwrap();
    for line in lines {
        let t: Vec<&str> = line.split_whitespace().collect();
        if t.is_empty() {
            continue;
        }
        if t[0] == "new" {
            return Some(line);
        }
        if w.dead {
            writeln!(out, "dead").unwrap();
            continue;
        }
        let res: Result<String, String> = guarded(|| match t[0] {
            "sync" => {
                for _ in 0..12 {
                    w.sess.poll_remote_clients();
                    w.react();
                }
                if w.sess.current_state() == SessionState::Running { "ok running".to_string() } else { "ok synchronizing".to_string() }
            }
            "local" => match w.sess.add_local_input(t[1].parse().unwrap(), Inp(t[2].parse().unwrap())) {
                Ok(()) => "ok".to_string(),
                Err(_) => "invalid".to_string(),
            },
            "poll" => {
                w.sess.poll_remote_clients();
                let news = w.react();
                // acks are handled by the next poll; they carry no session-level effect
                let (rs, ss) = fmt_sends(&news, w.nremote);
                format!("ok rs=[{}] ss=[{}] cur={} st={}", rs, ss, w.sess.current_frame(), fmt_status(&w.sess.verif_connect_status()))
            }
            "report" => {
                let ep: usize = t[1].parse().unwrap();
                // `conf<k>`: the frame k below the session's last confirmed frame (what an honest peer,
                // which has confirmed at least as much, could report)
                let frame: i32 = match t[2].strip_prefix("conf") {
                    Some(k) => (w.sess.verif_desync().last_confirmed - k.parse::<i32>().unwrap()).max(0),
                    None => t[2].parse().unwrap(),
                };
                let saved = w.saves.get(&frame).map(|k| u128::from(*k));
                if t[3] == "match" && saved.is_none() {
                    "skip".to_string()
                } else {
                    let cs: u128 = if t[3] == "match" { saved.unwrap() } else { t[3].parse().unwrap() };
                    let m = build(&MsgView { magic: MAGIC, body: Body::ChecksumReport { checksum: cs, frame } });
                    let addr = w.puppets[ep].addr;
                    w.wire.borrow_mut().inbox.push((addr, m));
                    format!("ok f={frame} cs={cs}")
                }
            }
            "advance" => {
                let pre = if w.desync > 0 { Some(w.sess.verif_desync()) } else { None };
                w.reports_out.clear();
                let r = w.sess.advance_frame();
                let news = w.react();
                let (rs, ss) = fmt_sends(&news, w.nremote);
                match r {
                    Err(GgrsError::NotSynchronized) => "notsync".to_string(),
                    Err(GgrsError::InvalidRequest { .. }) => "invalid".to_string(),
                    Err(e) => format!("err {e}"),
                    Ok(reqs) => {
                        let mut rq = Vec::new();
                        for r in reqs {
                            match r {
                                GgrsRequest::SaveGameState { cell, frame } => {
                                    let mut h = 0x9e37u64;
                                    for fi in w.ghist.iter().take(frame.max(0) as usize) {
                                        for v in fi {
                                            h = crate::sim::game::mix(h, u64::from(*v));
                                        }
                                    }
                                    let cs = if w.desync > 0 { u64::from(frame.unsigned_abs()) * 1_000_000 + h % 1_000_000 } else { 0 };
                                    w.saves.insert(frame, cs);
                                    cell.save(frame, Some(GState { frame, hash: 0 }), Some(u128::from(cs)));
                                    rq.push(format!("S{frame}"));
                                }
                                GgrsRequest::LoadGameState { frame, .. } => {
                                    w.ghist.truncate(frame.max(0) as usize);
                                    rq.push(format!("L{frame}"));
                                }
                                GgrsRequest::AdvanceFrame { inputs } => {
                                    w.ghist.push(inputs.iter().map(|(i, _)| i.0).collect());
                                    rq.push(format!(
                                    "A({})",
                                    inputs.iter().map(|(i, s)| format!("{}{}", i.0, ["C", "P", "D"][status_code(*s) as usize])).collect::<Vec<_>>().join(",")
                                    ));
                                }
                            }
                        }
                        let mut line = format!("ok R=[{}] rs=[{}] ss=[{}] cur={} st={}", rq.join(","), rs, ss, w.sess.current_frame(), fmt_status(&w.sess.verif_connect_status()));
                        if let Some(pre) = pre {
                            let post = w.sess.verif_desync();
                            let fm = |m: &[(i32, u128)]| if m.is_empty() { "-".to_string() } else { m.iter().map(|(f, c)| format!("{f}:{c}")).collect::<Vec<_>>().join(",") };
                            let cells = pre.cells.iter().map(|(f, c)| match c { Some(c) => format!("{f}:{c}"), None => format!("{f}:-") }).collect::<Vec<_>>().join(",");
                            // every remote endpoint gets the same report: show the first puppet's
                            let rep = w.reports_out.iter().filter(|r| r.0 == 0).map(|r| format!("{}:{}", r.1, r.2)).collect::<Vec<_>>();
                            let mut evs: Vec<(u32, i32, u128, u128)> = Vec::new();
                            for e in w.sess.events() {
                                if let GgrsEvent::DesyncDetected { frame, local_checksum, remote_checksum, addr } = e {
                                    evs.push((addr - 100, frame, local_checksum, remote_checksum));
                                }
                            }
                            evs.sort_unstable();
                            let ev = if evs.is_empty() { "-".to_string() } else { evs.iter().map(|e| format!("{}/{}/{}/{}", e.0, e.1, e.2, e.3)).collect::<Vec<_>>().join(";") };
                            let pend = post.pending.iter().map(|(_, m)| fm(m)).collect::<Vec<_>>().join("|");
                            line.push_str(&format!(" | ds pre=L:{};cells:{} rep={} ev={} sent={} hist={} pend={}", pre.last_confirmed, cells,
                                if rep.is_empty() { "-".to_string() } else { rep.join(",") }, ev, post.last_sent, fm(&post.history), pend));
                        }
                        line
                    }
                }
            }
            "rin" | "gossip" | "epdisc" => {
                let ep: usize = t[1].parse().unwrap();
                let p = &mut w.puppets[ep];
                let (start, bytes) = if t[0] == "rin" {
                    let frame: i32 = t[2].parse().unwrap();
                    let mut fb = Vec::new();
                    for v in &t[3..] {
                        fb.extend(le(v.parse().unwrap()));
                    }
                    let reference = if p.last_sent < 0 { vec![0u8; 4 * p.handles.len()] } else { p.last_bytes.clone() };
                    let enc = ggrs::verif::codec::encode(&reference, &[fb.clone()]);
                    p.last_sent = frame;
                    p.last_bytes = fb;
                    (frame, enc)
                } else {
                    if t[0] == "gossip" {
                        p.status = t[2].split(',').map(|s| { let (d, l) = s.split_once(':').unwrap(); (d == "1", l.parse().unwrap()) }).collect();
                    }
                    // re-send of the newest frame: carries the statuses / the disconnect request only
                    if p.last_sent < 0 {
                        (0, ggrs::verif::codec::encode(&vec![0u8; 4 * p.handles.len().max(1)], &[]))
                    } else {
                        (p.last_sent + 1, ggrs::verif::codec::encode(&p.last_bytes, &[]))
                    }
                };
                let body = Body::Input {
                    status: p.status.clone(),
                    disconnect_requested: t[0] == "epdisc",
                    start_frame: start,
                    ack_frame: p.max_seen,
                    bytes,
                };
                let m = build(&MsgView { magic: MAGIC, body });
                w.wire.borrow_mut().inbox.push((p.addr, m));
                "ok".to_string()
            }
            "delay" => match w.sess.set_input_delay(t[1].parse().unwrap(), t[2].parse().unwrap()) {
                Ok(()) => {
                    let news = w.react();
                    let (rs, _) = fmt_sends(&news, w.nremote);
                    format!("ok rs=[{}] st={}", rs, fmt_status(&w.sess.verif_connect_status()))
                }
                Err(_) => "invalid".to_string(),
            },
            "disc" => match w.sess.disconnect_player(t[1].parse().unwrap()) {
                Ok(()) => format!("ok st={}", fmt_status(&w.sess.verif_connect_status())),
                Err(_) => "invalid".to_string(),
            },
            _ => "badop".to_string(),
        });
        match res {
            Ok(s) => writeln!(out, "{s}").unwrap(),
            Err(m) => {
                w.dead = true;
                let _ = w.players;
                writeln!(out, "panic {}", m.split_whitespace().take(6).collect::<Vec<_>>().join("_")).unwrap();
            }
        }
        out.flush().unwrap();
    }
    None
}

pub fn run() {
    let stdin = std::io::stdin();
    let stdout = std::io::stdout();
    let mut out = stdout.lock();
    let mut lines = stdin.lock().lines().map(|l| l.unwrap());
    let mut pending: Option<String> = lines.next();
    while let Some(first) = pending.take() {
        let t: Vec<&str> = first.split_whitespace().collect();
        if t.is_empty() || t[0] != "new" {
            writeln!(out, "badop").unwrap();
            pending = lines.next();
            continue;
        }
        let repeat = t.iter().any(|x| *x == "pred=repeat");
        let first_owned: Vec<String> = t.iter().map(|s| s.to_string()).collect();
        let first_refs: Vec<&str> = first_owned.iter().map(String::as_str).collect();
        pending = if repeat {
            run_world::<CfgRepeat>(&first_refs, &mut lines, &mut out)
        } else {
            run_world::<CfgDefault>(&first_refs, &mut lines, &mut out)
        };
    }
}
