(* Faithful model of src/sessions/sync_test_session.rs (SyncTestSession) on top of the SyncLayer
   model (Sync.v) and the InputQueue model (Queue.v).

   The user's game is NOT part of the model.  What the session can see of it are the contents of the
   GameStateCells, i.e. what the user's `cell.save(frame, data, checksum)` calls stored.  The model
   keeps them in `st_cells` (one (frame, checksum) pair per cell; (NULL, None) = never saved).

   PROTOCOL between the model and its environment (the game): after a call of `st_advance_frame`
   that returned `StRequests l`, the environment executes `l` in order and applies, for every
   `RSave f` in `l`, the operation `st_saved s f checksum` with the checksum its game produced for
   that save, before the next call.  Request lists that are lost (the Mismatched / InvalidRequest
   outcomes return no requests) are not executed, so no `st_saved` happens for them.

   Every assert!/panic! on a modelled path is an explicit Panic: load_frame's asserts, get_cell's
   `frame >= 0`, SyncLayer::add_local_input's `input.frame == current_frame`, the asserts of the
   input queue, adjust_gamestate's two assert_eq!, GameStateCell::save's `frame != NULL_FRAME`.
   HashMaps: `checksum_history` is an association list (only get / insert-if-absent / retain are
   used, so the order is irrelevant); `local_inputs` is an association list kept in ascending handle
   order, which is the order in which advance_frame is modelled to pass them to the sync layer (the
   real iteration order is unspecified; the per-player queues are independent of each other). *)
From GGRS Require Import Base Consts Queue Sync.
Open Scope Z_scope.

Record st_state := st_mk {
  st_np : Z;                          (* num_players *)
  st_maxpred : Z;                     (* max_prediction *)
  st_dist : Z;                        (* check_distance *)
  st_sync : sync;                     (* sync_layer *)
  st_status : list cstat;             (* dummy_connect_status *)
  st_history : list (Z * option Z);   (* checksum_history: frame -> checksum *)
  st_locals : list (Z * (Z * Z));     (* local_inputs: handle -> (frame, value), ascending handles *)
  st_cells : list (Z * option Z) }.   (* the user-visible content of the cells: (frame, checksum) *)

Inductive st_outcome :=
| StRequests (l : list request)
| StMismatched (current_frame : Z) (mismatched_frames : list Z)
| StInvalid.

Definition st_with_sync (s : st_state) (y : sync) : st_state :=
  st_mk (st_np s) (st_maxpred s) (st_dist s) y (st_status s) (st_history s) (st_locals s) (st_cells s).
Definition st_with_status (s : st_state) (l : list cstat) : st_state :=
  st_mk (st_np s) (st_maxpred s) (st_dist s) (st_sync s) l (st_history s) (st_locals s) (st_cells s).
Definition st_with_history (s : st_state) (h : list (Z * option Z)) : st_state :=
  st_mk (st_np s) (st_maxpred s) (st_dist s) (st_sync s) (st_status s) h (st_locals s) (st_cells s).
Definition st_with_locals (s : st_state) (l : list (Z * (Z * Z))) : st_state :=
  st_mk (st_np s) (st_maxpred s) (st_dist s) (st_sync s) (st_status s) (st_history s) l (st_cells s).
Definition st_with_cells (s : st_state) (c : list (Z * option Z)) : st_state :=
  st_mk (st_np s) (st_maxpred s) (st_dist s) (st_sync s) (st_status s) (st_history s) (st_locals s) c.

(* a, a+1, .., a+n-1 *)
Fixpoint st_zrange (a : Z) (n : nat) : list Z :=
  match n with O => [] | S k => a :: st_zrange (a + 1) k end.

(* `for i in 0..num_players { sync_layer.set_frame_delay(i, input_delay) }` *)
Fixpoint st_set_delays (y : sync) (hs : list Z) (delay : Z) : res sync :=
  match hs with
  | [] => Ok y
  | h :: r => res_bind (set_queue_delay y h delay) (fun '(y', _) => st_set_delays y' r delay)
  end.

(* SyncTestSession::new (the builder's checks are in Builder.start_synctest_session) *)
Definition st_new (num_players max_prediction check_distance input_delay : Z) : res st_state :=
  res_bind (st_set_delays (sync_new num_players max_prediction) (st_zrange 0 (Z.to_nat num_players)) input_delay)
    (fun y => Ok (st_mk num_players max_prediction check_distance y
                        (repeat cs_default (Z.to_nat num_players)) [] []
                        (repeat (NULL, None) (Z.to_nat (max_prediction + 1))))).

(* HashMap::insert on the handle-sorted association list *)
Fixpoint st_put (l : list (Z * (Z * Z))) (h : Z) (x : Z * Z) : list (Z * (Z * Z)) :=
  match l with
  | [] => [(h, x)]
  | (k, y) :: r => if h <? k then (h, x) :: l else if h =? k then (h, x) :: r else (k, y) :: st_put r h x
  end.

(* add_local_input: Err = InvalidRequest *)
Definition st_add_local_input (s : st_state) (h v : Z) : res st_state :=
  if st_np s <=? h then Err
  else Ok (st_with_locals s (st_put (st_locals s) h (s_current (st_sync s), v))).

(* GameStateCell::save as executed by the environment for a request `RSave f` (the cell of the
   request is get_cell(f)) *)
Definition st_saved (s : st_state) (f : Z) (checksum : option Z) : res st_state :=
  if f =? NULL then Panic
  else Ok (st_with_cells s (updz (st_cells s) (Z.to_nat (f mod (st_maxpred s + 1))) (f, checksum))).

Fixpoint st_hist_get (l : list (Z * option Z)) (k : Z) : option (option Z) :=
  match l with
  | [] => None
  | (k', v) :: r => if k' =? k then Some v else st_hist_get r k
  end.

Definition st_opt_eqb (a b : option Z) : bool :=
  match a, b with
  | Some x, Some y => x =? y
  | None, None => true
  | _, _ => false
  end.

(* checksums_consistent: returns the new checksum_history and the verdict *)
Definition st_checksums_consistent (s : st_state) (hist : list (Z * option Z)) (frame_to_check : Z)
  : res (list (Z * option Z) * bool) :=
  let oldest_allowed := s_current (st_sync s) - st_dist s in
  let hist1 := filter (fun e => oldest_allowed <=? fst e) hist in          (* retain *)
  (* saved_state_by_frame -> get_cell: assert!(frame >= 0) *)
  if frame_to_check <? 0 then Panic else
  let cell := nth (Z.to_nat (frame_to_check mod (st_maxpred s + 1))) (st_cells s) (NULL, None) in
  if negb (fst cell =? frame_to_check) then Ok (hist1, true) else
  match st_hist_get hist1 (fst cell) with
  | Some cs => Ok (hist1, st_opt_eqb cs (snd cell))
  | None => Ok (hist1 ++ [(fst cell, snd cell)], true)
  end.

(* the filter over `oldest_frame_to_check..=current_frame`: runs checksums_consistent on every
   frame of the range, in order, and collects the frames for which it returned false *)
Fixpoint st_check_go (s : st_state) (hist : list (Z * option Z)) (frames : list Z)
  : res (list (Z * option Z) * list Z) :=
  match frames with
  | [] => Ok (hist, [])
  | f :: r =>
    res_bind (st_checksums_consistent s hist f) (fun '(h1, ok) =>
      res_bind (st_check_go s h1 r) (fun '(h2, bad) => Ok (h2, if ok then bad else f :: bad)))
  end.

Fixpoint st_add_all (y : sync) (l : list (Z * (Z * Z))) : res sync :=
  match l with
  | [] => Ok y
  | (h, (f, v)) :: r => res_bind (add_local_input y h f v) (fun '(y', _) => st_add_all y' r)
  end.

Section WithPredictor.
Variable predict : Z -> Z.

(* the loop of adjust_gamestate: i = index of the iteration *)
Fixpoint st_resim (n : nat) (first : bool) (y : sync) (status : list cstat) : res (sync * list request) :=
  match n with
  | O => Ok (y, [])
  | S k =>
    res_bind (synchronized_inputs predict y status) (fun '(y1, ins) =>
      res_bind (if first then Ok (y1, []) else
                res_bind (save_current_state y1) (fun '(y2, rq) => Ok (y2, [rq]))) (fun '(y2, saves) =>
        res_bind (st_resim k false (advance_frame y2) status) (fun '(y3, rest) =>
          Ok (y3, saves ++ RAdvance ins :: rest))))
  end.

Definition st_adjust_gamestate (y : sync) (status : list cstat) (frame_to : Z) : res (sync * list request) :=
  let start_frame := s_current y in
  let count := start_frame - frame_to in
  res_bind (load_frame y frame_to) (fun '(y1, rq) =>
    let y2 := reset_all y1 in
    if negb (s_current y2 =? frame_to) then Panic else
    res_bind (st_resim (Z.to_nat count) true y2 status) (fun '(y3, reqs) =>
      if negb (s_current y3 =? start_frame) then Panic else Ok (y3, rq :: reqs))).

(* the comparison and the simulated rollback at the start of advance_frame:
   (state, mismatched frames, requests); requests are only produced when nothing mismatched *)
Definition st_rollback_phase (s : st_state) : res (st_state * list Z * list request) :=
  let cur := s_current (st_sync s) in
  if (0 <? st_dist s) && (st_dist s <? cur) then
    res_bind (st_check_go s (st_history s) (st_zrange (cur - st_dist s) (Z.to_nat (st_dist s + 1)))) (fun '(h, bad) =>
      let s1 := st_with_history s h in
      match bad with
      | _ :: _ => Ok (s1, bad, [])
      | [] =>
        res_bind (st_adjust_gamestate (st_sync s1) (st_status s1) (cur - st_dist s)) (fun '(y, reqs) =>
          Ok (st_with_sync s1 y, [], reqs))
      end)
  else Ok (s, [], []).

Definition st_advance_frame (s : st_state) : res (st_state * st_outcome) :=
  let cur := s_current (st_sync s) in
  res_bind (st_rollback_phase s) (fun '(s1, bad, reqs1) =>
    match bad with
    | _ :: _ => Ok (s1, StMismatched cur bad)
    | [] =>
      (* the requests pushed so far are dropped with the Err *)
      if negb (st_np s1 =? Z.of_nat (length (st_locals s1))) then Ok (s1, StInvalid) else
      res_bind (st_add_all (st_sync s1) (st_locals s1)) (fun y2 =>
        res_bind (if 0 <? st_dist s1 then res_bind (save_current_state y2) (fun '(y3, rq) => Ok (y3, [rq]))
                  else Ok (y2, [])) (fun '(y3, reqs2) =>
          res_bind (synchronized_inputs predict y3 (st_status s1)) (fun '(y4, ins) =>
            let y5 := advance_frame y4 in
            res_bind (set_last_confirmed_frame y5 (s_current y5 - st_dist s1) false) (fun y6 =>
              let status' := map (fun c => mkcs (cs_disc c) (s_current y6)) (st_status s1) in
              Ok (st_with_status (st_with_locals (st_with_sync s1 y6) []) status',
                  StRequests (reqs1 ++ reqs2 ++ [RAdvance ins]))))))
    end).

End WithPredictor.
