(* Progress for the session core model: in the space C01 claims (every player connected, honest
   peers that deliver each player's inputs in frame order, no spectators, dense saving) no modelled
   assert fires, whatever the interleaving of API calls and arriving inputs. *)
From GGRS Require Import Base Consts Queue QueueProofs QueueTheorems Sync P2P Session SessionProofs.
From Coq Require Import ZifyBool ZifyNat ZifyN.
Ltac Zify.zify_post_hook ::= Z.div_mod_to_equations.
Open Scope Z_scope.

(* ================= the session invariant for runs without disconnects ================= *)
(* kind-specific facts about a player's queue *)
Definition KI (c d : Z) (k : pkind) (q : queue) (hist : list Z) : Prop :=
  match k with
  | KLocal => q_delay q = d /\ pi_frame (q_pred q) = NULL /\
              ((hist = [] /\ q_last_user q = NULL /\ c = 0) \/
               (hlen hist = c + d /\ q_last_user q = c - 1 /\ 1 <= c) \/
               (hlen hist = c + d + 1 /\ q_last_user q = c))
  | KRemote _ => q_delay q = 0 /\ q_last_user q = hlen hist - 1
  | KSpectator _ => False
  end.

(* what the calls of one advance leave alone *)
Definition p_rest (p p' : p2p) : Prop :=
  ps_nplayers p' = ps_nplayers p /\ ps_maxpred p' = ps_maxpred p /\ ps_sparse p' = ps_sparse p /\
  ps_disc_frame p' = ps_disc_frame p /\ ps_running p' = ps_running p /\ ps_kinds p' = ps_kinds p /\
  ps_spec_handles p' = ps_spec_handles p /\ ps_remotes p' = ps_remotes p /\
  ps_spectators p' = ps_spectators p /\ ps_pending p' = ps_pending p.
Lemma p_rest_refl : forall p, p_rest p p.
Proof. intros p. unfold p_rest. repeat split. Qed.
Lemma p_rest_trans : forall a b c, p_rest a b -> p_rest b c -> p_rest a c.
Proof. unfold p_rest. intros a b c H1 H2. intuition congruence. Qed.

Lemma nth_connected : forall st h, connected st -> cs_disc (nth h st cs_default) = false.
Proof.
  induction st as [|s st IH]; intros [|h] H; cbn; try reflexivity; inversion H; subst; auto.
Qed.

(* nobody is disconnected and no peer reports a disconnect: update_player_disconnects does nothing *)
Lemma update_disconnects_noop : forall p,
  connected (ps_status p) -> Forall (fun e => connected (ev_status e)) (ps_remotes p) ->
  update_player_disconnects p = Ok p.
Proof.
  intros p Hc Hg. unfold update_player_disconnects.
  generalize (zrange_from 0 (Z.to_nat (ps_nplayers p))) as hs.
  induction hs as [|h hs IH]; cbn [fold_left]; [reflexivity|]. cbn [res_bind].
  assert (forallb (fun e => negb (cs_disc (nth (Z.to_nat h) (ev_status e) cs_default))) (filter ev_running (ps_remotes p)) = true) as ->.
  { apply forallb_forall. intros e He. apply filter_In in He. destruct He as [He _].
    rewrite Forall_forall in Hg. rewrite (nth_connected _ _ (Hg e He)). reflexivity. }
  cbn [negb andb]. exact IH.
Qed.

Lemma cf_fold : forall st acc, connected st ->
  let m := fold_left (fun acc c => if cs_disc c then acc else Z.min acc (cs_last c)) st acc in
  m <= acc /\ Forall (fun c => m <= cs_last c) st /\ (m = acc \/ Exists (fun c => m = cs_last c) st).
Proof.
  induction st as [|s st IH]; intros acc Hc; cbn [fold_left].
  - split; [lia|]. split; [constructor|left; reflexivity].
  - inversion Hc as [|? ? Hs Hc']; subst. rewrite Hs.
    destruct (IH (Z.min acc (cs_last s)) Hc') as (A & B & C).
    split; [lia|]. split; [constructor; [lia|exact B]|].
    destruct C as [C|C]; [|right; right; exact C].
    destruct (Z.le_ge_cases acc (cs_last s)); [left; lia|right; left; lia].
Qed.

Lemma confirmed_frame_spec : forall p, connected (ps_status p) -> ps_status p <> [] ->
  Forall (fun c => cs_last c < I32MAX) (ps_status p) ->
  exists cf, confirmed_frame p = Ok cf /\ Forall (fun c => cf <= cs_last c) (ps_status p) /\
             Exists (fun c => cf = cs_last c) (ps_status p).
Proof.
  intros p Hc Hne Hb. unfold confirmed_frame.
  destruct (cf_fold (ps_status p) I32MAX Hc) as (A & B & C).
  set (m := fold_left _ _ _) in *.
  assert (m < I32MAX).
  { destruct (ps_status p) as [|s st]; [congruence|]. inversion B; subst. inversion Hb; subst. lia. }
  assert ((m <? I32MAX) = true) as -> by lia.
  exists m. split; [reflexivity|]. split; [exact B|]. destruct C as [C|C]; [lia|exact C].
Qed.

Lemma nth_error_some_len {A B} : forall (l1 : list A) (l2 : list B) i b,
  length l1 = length l2 -> nth_error l2 i = Some b -> exists a, nth_error l1 i = Some a.
Proof.
  intros l1 l2 i b Hl Hn. destruct (nth_error l1 i) eqn:E; [eauto|].
  apply nth_error_None in E. assert (nth_error l2 i <> None) as B7 by congruence.
  apply nth_error_Some in B7. lia.
Qed.

Lemma with_sync_self : forall p, with_sync p (ps_sync p) = p.
Proof. destruct p; reflexivity. Qed.
Lemma with_disc_null : forall p, ps_disc_frame p = NULL -> with_disc_frame p NULL = p.
Proof. destruct p; cbn; intros ->; reflexivity. Qed.

Section ProgressA.
Variable predict : Z -> Z.

Lemma resim_go_shape : forall n i p mc o p' o',
  resim_go predict n i p mc o = Ok (p', o') -> p' = with_sync p (ps_sync p').
Proof.
  induction n as [|n IH]; intros i p mc o p' o' E; cbn [resim_go] in E.
  - injection E as <- <-. symmetry. apply with_sync_self.
  - destruct (synchronized_inputs predict (ps_sync p) (ps_status p)) as [[s1 ins]| |]; cbn [res_bind] in E; try discriminate.
    match type of E with res_bind ?X _ = _ => destruct X as [[s2 o2]| |] end; cbn [res_bind] in E; try discriminate.
    apply IH in E. rewrite E. cbn [with_sync ps_sync]. rewrite with_sync_idem. reflexivity.
Qed.

Lemma adjust_shape : forall p fi mc o p' o',
  adjust_gamestate predict p fi mc o = Ok (p', o') -> p' = with_sync p (ps_sync p').
Proof.
  intros p fi mc o p' o' E. unfold adjust_gamestate in E.
  destruct (_ <? _); [discriminate|].
  destruct (load_frame _ _) as [[s1 r]| |]; cbn [res_bind] in E; try discriminate.
  destruct (resim_go _ _ _ _ _ _) as [[p2 o2]| |] eqn:Er; cbn [res_bind] in E; try discriminate.
  destruct (negb _); [discriminate|]. injection E as <- <-.
  apply resim_go_shape in Er. rewrite Er. cbn [with_sync ps_sync]. rewrite with_sync_idem. reflexivity.
Qed.

(* the rollback step of advance_rollback_frame cannot fail in a session whose queues satisfy the
   invariant and whose frames sit inside the window *)
Lemma handle_rollback_progress : forall p gs cf o g w hi,
  ps_sparse p = false -> connected (ps_status p) ->
  length (ps_status p) = length (s_queues (ps_sync p)) -> ps_disc_frame p = NULL ->
  QsI (s_current (ps_sync p)) (s_last_confirmed (ps_sync p)) (s_queues (ps_sync p)) gs ->
  -1 <= s_last_confirmed (ps_sync p) -> 0 <= s_current (ps_sync p) ->
  s_current (ps_sync p) <= Z.max 0 (s_last_confirmed (ps_sync p)) + w ->
  1 <= w -> s_maxpred (ps_sync p) = w -> gframe g = s_current (ps_sync p) ->
  s_current (ps_sync p) - 1 <= hi ->
  CellsI w (Z.max 0 (s_current (ps_sync p) - w)) hi (ps_sync p) g ->
  exists p1 o1, handle_rollback_and_save predict p cf o = Ok (p1, o1) /\
    p1 = with_sync p (ps_sync p1) /\
    QsI (s_current (ps_sync p)) (s_last_confirmed (ps_sync p)) (s_queues (ps_sync p1)) gs /\
    all_clean (s_queues (ps_sync p1)) /\
    same_user (s_queues (ps_sync p)) (s_queues (ps_sync p1)) /\
    s_last_confirmed (ps_sync p1) = s_last_confirmed (ps_sync p) /\
    s_current (ps_sync p1) = s_current (ps_sync p) /\
    (forall h q gh q', nth_error (s_queues (ps_sync p)) h = Some q -> nth_error gs h = Some gh ->
       nth_error (s_queues (ps_sync p1)) h = Some q' -> s_current (ps_sync p) <= hlen (fst gh) ->
       pi_frame (q_pred q) = NULL -> pi_frame (q_pred q') = NULL).
Proof.
  intros p gs cf o g w hi Hsp Hcon Hlen Hdf HQ HL Hc Hwin Hw Hmp Hgf Hhi Hcells.
  unfold handle_rollback_and_save. unfold check_simulation_consistency. rewrite Hdf.
  pose proof (csc_spec predict (s_queues (ps_sync p)) gs _ _ NULL HQ (or_introl eq_refl)) as Hcsc. cbv zeta in Hcsc.
  set (fi := fold_left _ _ NULL) in *.
  destruct Hcsc as [(Hr & _ & Hcl)|Hr].
  - rewrite Hr, Z.eqb_refl. cbn [res_bind]. cbv beta iota. rewrite Hsp.
    unfold save_current_state. assert ((s_current (ps_sync p) <? 0) = false) as -> by lia. cbn [res_bind].
    eexists; eexists. split; [reflexivity|].
    cbn [with_sync ps_sync s_queues s_last_confirmed s_current].
    split; [reflexivity|]. split; [exact HQ|]. split; [exact Hcl|]. split; [apply same_user_refl|].
    split; [reflexivity|]. split; [reflexivity|].
    intros h q gh q' A _ B _ Hn. rewrite A in B. injection B as <-. exact Hn.
  - assert ((fi =? NULL) = false) as -> by (unfold NULL in *; lia).
    destruct (adjust_progress predict p gs (s_last_confirmed (ps_sync p)) fi cf o g w hi Hsp Hcon Hlen HQ)
      as (p2 & o2 & Ea & A1 & A2 & A3 & A4 & A5 & A6 & A7); try lia; try assumption.
    rewrite Ea. cbn [res_bind].
    pose proof (adjust_shape _ _ _ _ _ _ Ea) as Hshape.
    assert (Hd2 : with_disc_frame p2 NULL = p2).
    { apply with_disc_null. rewrite Hshape. cbn. exact Hdf. }
    rewrite Hd2.
    assert (Hsp2 : ps_sparse p2 = false) by (rewrite Hshape; cbn; exact Hsp).
    rewrite Hsp2. unfold save_current_state. rewrite A6.
    assert ((s_current (ps_sync p) <? 0) = false) as -> by lia. cbn [res_bind].
    eexists; eexists. split; [reflexivity|].
    cbn [with_sync ps_sync s_queues s_last_confirmed s_current].
    split; [rewrite Hshape at 1; cbn [with_sync]; reflexivity|].
    split; [exact A1|]. split; [exact A2|]. split; [exact A3|]. split; [exact A4|]. split; [reflexivity|].
    intros h q gh q' _ B C D _. exact (A7 h gh q' B C D).
Qed.

End ProgressA.

(* ================= the queue-side session invariant ================= *)
(* w = max_prediction, d = the input delay of the local players; gs = per player (history, low) *)
Record QS (w d : Z) (p : p2p) (gs : list ghost) : Prop := {
  qs_w : 1 <= w /\ ps_maxpred p = w /\ s_maxpred (ps_sync p) = w;
  qs_d : 0 <= d /\ w + d + 3 <= QLEN;
  qs_mode : ps_running p = true /\ ps_sparse p = false /\ ps_spectators p = [] /\ ps_disc_frame p = NULL;
  qs_n : Z.of_nat (length gs) = ps_nplayers p /\ 0 < ps_nplayers p /\ length (ps_kinds p) = length gs /\
         length (ps_status p) = length gs;
  qs_conn : connected (ps_status p);
  qs_gossip : Forall (fun e => connected (ev_status e)) (ps_remotes p);
  qs_qs : QsI (s_current (ps_sync p)) (s_last_confirmed (ps_sync p)) (s_queues (ps_sync p)) gs;
  qs_last : Forall2 (fun st g => cs_last st = hlen (fst g) - 1) (ps_status p) gs;
  qs_frames : -1 <= s_last_confirmed (ps_sync p) <= s_current (ps_sync p) /\ 0 <= s_current (ps_sync p) /\
              s_current (ps_sync p) <= Z.max 0 (s_last_confirmed (ps_sync p)) + w;
  qs_kinds : forall h k q gh, nth_error (ps_kinds p) h = Some k -> nth_error (s_queues (ps_sync p)) h = Some q ->
             nth_error gs h = Some gh -> KI (s_current (ps_sync p)) d k q (fst gh);
  qs_pending : forall h pi, assoc_get (ps_pending p) h = Some pi -> pi_frame pi = s_current (ps_sync p);
}.

Lemma QS_outgoing : forall w d p gs X Y, QS w d p gs -> QS w d (with_outgoing p X Y) gs.
Proof. intros w d p gs X Y [A B C D E F G H I J K]. constructor; cbn [with_outgoing ps_maxpred ps_sync ps_running ps_sparse ps_spectators ps_disc_frame ps_nplayers ps_kinds ps_status ps_remotes ps_pending]; assumption. Qed.

Lemma updz_same {A} : forall (l : list A) i x, nth_error l i = Some x -> updz l i x = l.
Proof.
  induction l as [|y l IH]; intros [|i] x H; cbn in *; try discriminate.
  - injection H as ->. reflexivity.
  - rewrite (IH i x H). reflexivity.
Qed.
Lemma nth_error_updz_same {A} : forall (l : list A) i x, (i < length l)%nat -> nth_error (updz l i x) i = Some x.
Proof. induction l as [|y l IH]; intros [|i] x H; cbn in *; try lia; auto. apply IH. lia. Qed.
Lemma nth_error_updz_other {A} : forall (l : list A) i j x, i <> j -> nth_error (updz l i x) j = nth_error l j.
Proof. induction l as [|y l IH]; intros [|i] [|j] x H; cbn; auto; try congruence. Qed.

Lemma assoc_get_put {A} : forall (l : list (Z * A)) k v k',
  assoc_get (assoc_put l k v) k' = if k =? k' then Some v else assoc_get l k'.
Proof.
  induction l as [|[k0 v0] l IH]; intros k v k'; cbn [assoc_put assoc_get].
  - destruct (Z.eqb_spec k k'); reflexivity.
  - destruct (Z.eqb_spec k k0) as [E0|E0].
    + subst k0. cbn [assoc_get]. destruct (Z.eqb_spec k k'); reflexivity.
    + destruct (Z.ltb_spec k k0).
      * cbn [assoc_get]. destruct (Z.eqb_spec k k'); reflexivity.
      * cbn [assoc_get]. rewrite IH. destruct (Z.eqb_spec k0 k') as [E1|E1]; [|reflexivity].
        destruct (Z.eqb_spec k k'); [congruence|reflexivity].
Qed.

(* ---------- the outgoing-input bookkeeping never fails ---------- *)
Definition out_only (p p' : p2p) : Prop := p' = with_outgoing p (ps_outgoing p') (ps_last_sent_out p').
Lemma out_only_refl : forall p, out_only p p.
Proof. intros p. unfold out_only. destruct p; reflexivity. Qed.
Lemma out_only_trans : forall a b c, out_only a b -> out_only b c -> out_only a c.
Proof. unfold out_only. intros a b c H1 H2. rewrite H2. rewrite H1 at 1. destruct a; reflexivity. Qed.
Lemma out_only_with : forall p X Y, out_only p (with_outgoing p X Y).
Proof. intros. unfold out_only. destruct p; reflexivity. Qed.
Lemma QS_out_only : forall w d p p' gs, QS w d p gs -> out_only p p' -> QS w d p' gs.
Proof. intros w d p p' gs H E. rewrite E. apply QS_outgoing. exact H. Qed.

Lemma queue_outgoing_ok : forall p h i, pi_frame i <> NULL -> exists p', queue_outgoing p h i = Ok p' /\ out_only p p'.
Proof.
  intros p h i Hn. unfold queue_outgoing. assert ((pi_frame i =? NULL) = false) as -> by lia.
  destruct (ps_remotes p); eexists; (split; [reflexivity|]); [apply out_only_refl|apply out_only_with].
Qed.

Lemma queue_blanks_ok : forall n p h f, 0 <= f -> exists p', queue_blanks n p h f = Ok p' /\ out_only p p'.
Proof.
  induction n as [|n IH]; intros p h f Hf; cbn [queue_blanks].
  - exists p. split; [reflexivity|apply out_only_refl].
  - destruct (queue_outgoing_ok p h (blank f)) as (p1 & E1 & O1); [cbn; unfold NULL; lia|].
    rewrite E1. cbn [res_bind]. destruct (IH p1 h (f + 1) ltac:(lia)) as (p2 & E2 & O2).
    exists p2. split; [exact E2|eapply out_only_trans; eassumption].
Qed.

Lemma find_assoc {A} : forall (l : list (Z * A)) P f m, find P l = Some (f, m) -> exists m', assoc_get l f = Some m'.
Proof.
  induction l as [|[k v] l IH]; intros P f m H; cbn [find assoc_get] in *; [discriminate|].
  destruct (P (k, v)).
  - injection H as -> ->. rewrite Z.eqb_refl. eauto.
  - destruct (Z.eqb_spec k f); [eauto|]. eapply IH. exact H.
Qed.

Lemma send_ready_go_ok : forall n p locals o, exists p' o', send_ready_go n p locals o = Ok (p', o') /\ out_only p p'.
Proof.
  induction n as [|n IH]; intros p locals o; cbn [send_ready_go].
  - exists p, o. split; [reflexivity|apply out_only_refl].
  - destruct (next_complete p locals) as [f|] eqn:En.
    + assert (exists m, assoc_get (ps_outgoing p) f = Some m) as (m & Em).
      { unfold next_complete in En. destruct (ps_last_sent_out p =? NULL).
        - destruct (find _ _) as [[f0 m0]|] eqn:Ef; [|discriminate]. injection En as <-. eapply find_assoc. exact Ef.
        - destruct (assoc_get _ _) as [m0|] eqn:Ea; [|discriminate]. destruct (complete locals m0); [|discriminate].
          injection En as <-. eauto. }
      rewrite Em.
      match goal with |- context [send_ready_go n ?P locals ?O] => destruct (IH P locals O) as (p' & o' & E & Oo) end.
      exists p', o'. split; [exact E|]. eapply out_only_trans; [apply out_only_with|exact Oo].
    + exists p, o. split; [reflexivity|apply out_only_refl].
Qed.

Lemma send_ready_outgoing_ok : forall p o, exists p' o', send_ready_outgoing p o = Ok (p', o') /\ out_only p p'.
Proof.
  intros p o. unfold send_ready_outgoing. destruct (ps_remotes p).
  - exists p, o. split; [reflexivity|apply out_only_refl].
  - destruct (local_handles p).
    + exists p, o. split; [reflexivity|apply out_only_refl].
    + apply send_ready_go_ok.
Qed.

(* ---------- register_local_inputs ---------- *)
Lemma Forall_updz {A} (P : A -> Prop) : forall l i x, Forall P l -> P x -> Forall P (updz l i x).
Proof. induction l as [|y l IH]; intros [|i] x H Hx; inversion H; subst; cbn [updz]; constructor; auto. Qed.

Lemma hlen_fill : forall hist x n v, hlen (hist ++ repeat x n ++ [v]) = hlen hist + Z.of_nat n + 1.
Proof. intros. unfold hlen. rewrite !app_length, repeat_length. cbn. lia. Qed.

Lemma with_queues_self : forall s, with_queues s (s_queues s) = s.
Proof. destruct s; reflexivity. Qed.

(* a local insertion into a queue that is not predicting keeps the per-queue invariant *)
Lemma qi_local_add : forall c L q hist low q' hist',
  QI c L q hist low -> pi_frame (q_pred q) = NULL -> q_first_incorrect q = NULL ->
  RInv q' hist' low -> q_last_requested q' = q_last_requested q ->
  q_first_incorrect q' = q_first_incorrect q -> q_pred q' = q_pred q -> hlen hist <= hlen hist' ->
  QI c L q' hist' low.
Proof.
  intros c L q hist low q' hist' [I P1 P2 P4 Rq Lw Cf] Hp Hf I' R' F' P' Hle.
  constructor; rewrite ?R', ?F', ?P'.
  - exact I'.
  - left. exact Hp.
  - intros A. congruence.
  - intros A. congruence.
  - exact Rq.
  - exact Lw.
  - lia.
Qed.

Definition Done (c d : Z) (qs : list queue) (gs : list ghost) (h : Z) : Prop :=
  forall q gh, nth_error qs (Z.to_nat h) = Some q -> nth_error gs (Z.to_nat h) = Some gh ->
    hlen (fst gh) = c + d + 1 /\ q_last_user q = c.

(* the part of an iteration after the sync layer accepted the input for frame c + d *)
Lemma register_tail : forall w d p gs h v r q q' hist hist' low,
  QS w d p gs -> all_clean (s_queues (ps_sync p)) ->
  0 <= h -> nth_error (ps_kinds p) (Z.to_nat h) = Some KLocal ->
  nth_error (s_queues (ps_sync p)) (Z.to_nat h) = Some q -> nth_error gs (Z.to_nat h) = Some (hist, low) ->
  pi_frame (q_pred q) = NULL -> q_first_incorrect q = NULL ->
  RInv q' hist' low -> q_delay q' = q_delay q -> q_last_user q' = s_current (ps_sync p) ->
  q_last_requested q' = q_last_requested q -> q_first_incorrect q' = q_first_incorrect q -> q_pred q' = q_pred q ->
  hlen hist' = s_current (ps_sync p) + d + 1 -> hlen hist <= hlen hist' ->
  let p1 := with_sync p (with_queues (ps_sync p) (updz (s_queues (ps_sync p)) (Z.to_nat h) q')) in
  let actual := s_current (ps_sync p) + d in
  exists p' gs',
    res_bind (if cs_last (stat_at p1 h) =? NULL then queue_blanks (Z.to_nat actual) p1 h 0 else Ok p1)
      (fun p2 => res_bind (queue_outgoing (with_status p2 (set_stat (ps_status p2) h (mkcs (cs_disc (stat_at p2 h)) actual)))
                                          h (mkpi actual v))
                          (fun p4 => register_go p4 r)) = register_go p' r /\
    QS w d p' gs' /\ all_clean (s_queues (ps_sync p')) /\ p_rest p p' /\
    s_current (ps_sync p') = s_current (ps_sync p) /\ s_last_confirmed (ps_sync p') = s_last_confirmed (ps_sync p) /\
    Done (s_current (ps_sync p)) d (s_queues (ps_sync p')) gs' h /\
    (forall h', h' <> h -> 0 <= h' -> Done (s_current (ps_sync p)) d (s_queues (ps_sync p)) gs h' ->
                Done (s_current (ps_sync p)) d (s_queues (ps_sync p')) gs' h').
Proof.
  intros w d p gs h v r q q' hist hist' low HQS Hcl Hh Hk Eq Eg Hpn Hfq I' D' U' R' F' P' Hlen' Hle p1 actual.
  pose proof HQS as [Hw Hd Hmode Hn Hconn Hgos HQ Hlast Hfr Hkinds Hpe].
  set (c := s_current (ps_sync p)) in *. set (L := s_last_confirmed (ps_sync p)) in *.
  pose proof (QsI_length _ _ _ _ HQ) as Hlq.
  destruct Hn as (Hn1 & Hn2 & Hn3 & Hn4).
  assert (Hhl : (Z.to_nat h < length gs)%nat).
  { assert (nth_error (ps_kinds p) (Z.to_nat h) <> None) as A by congruence. apply nth_error_Some in A. lia. }
  pose proof (Forall2_nth _ _ _ _ _ _ HQ Eq Eg) as Hqi. cbn [fst snd] in Hqi.
  assert (Hact : actual <> NULL) by (subst actual; unfold NULL; lia).
  (* the blanks *)
  assert (Hb : exists p2, (if cs_last (stat_at p1 h) =? NULL then queue_blanks (Z.to_nat actual) p1 h 0 else Ok p1) = Ok p2 /\ out_only p1 p2).
  { destruct (cs_last (stat_at p1 h) =? NULL).
    - apply queue_blanks_ok. lia.
    - exists p1. split; [reflexivity|apply out_only_refl]. }
  destruct Hb as (p2 & Eb & O2). rewrite Eb. cbn [res_bind].
  set (st' := set_stat (ps_status p2) h (mkcs (cs_disc (stat_at p2 h)) actual)).
  destruct (queue_outgoing_ok (with_status p2 st') h (mkpi actual v)) as (p4 & E4 & O4); [exact Hact|].
  rewrite E4. cbn [res_bind].
  set (gs' := updz gs (Z.to_nat h) (hist', low)).
  exists p4, gs'. split; [reflexivity|].
  (* the state before the outgoing bookkeeping *)
  set (stA := set_stat (ps_status p) h (mkcs false actual)).
  set (pA := with_status p1 stA).
  assert (Hst2 : ps_status p2 = ps_status p) by (rewrite O2; reflexivity).
  assert (Hdisc : cs_disc (stat_at p2 h) = false).
  { unfold stat_at. rewrite Hst2. apply nth_connected. exact Hconn. }
  assert (HpA : with_status p2 st' = with_outgoing pA (ps_outgoing p2) (ps_last_sent_out p2)).
  { subst st' pA stA. rewrite Hdisc, Hst2. rewrite O2. subst p1. reflexivity. }
  assert (HQA : QS w d pA gs').
  { subst pA p1 stA gs'. constructor;
      cbn [with_status with_sync with_queues ps_maxpred ps_sync ps_running ps_sparse ps_spectators ps_disc_frame ps_nplayers
           ps_kinds ps_status ps_remotes ps_pending s_maxpred s_current s_last_confirmed s_queues].
    - exact Hw.
    - exact Hd.
    - exact Hmode.
    - rewrite updz_length. unfold set_stat. rewrite updz_length. repeat split; assumption.
    - unfold set_stat. apply Forall_updz; [exact Hconn|reflexivity].
    - exact Hgos.
    - apply Forall2_updz2; [exact HQ|]. cbn [fst snd].
      eapply qi_local_add; eassumption.
    - unfold set_stat. apply Forall2_updz2; [exact Hlast|]. cbn [cs_last fst]. subst actual. lia.
    - exact Hfr.
    - intros h0 k q0 gh0 A B C.
      destruct (Nat.eq_dec (Z.to_nat h) h0) as [Eh|Eh].
      + subst h0. rewrite nth_error_updz_same in B by lia. rewrite nth_error_updz_same in C by lia.
        injection B as <-. injection C as <-. rewrite Hk in A. injection A as <-.
        cbn [KI fst].
        pose proof (Hkinds _ _ _ _ Hk Eq Eg) as Hki. cbn [KI] in Hki. destruct Hki as (Hdel & _ & _).
        split; [congruence|]. split; [congruence|]. right. right. split; [exact Hlen'|exact U'].
      + rewrite nth_error_updz_other in B by exact Eh. rewrite nth_error_updz_other in C by exact Eh.
        exact (Hkinds _ _ _ _ A B C).
    - exact Hpe. }
  assert (HQ4 : QS w d p4 gs').
  { eapply QS_out_only; [|exact O4]. rewrite HpA. apply QS_outgoing. exact HQA. }
  assert (Hs4 : ps_sync p4 = with_queues (ps_sync p) (updz (s_queues (ps_sync p)) (Z.to_nat h) q')).
  { rewrite O4. cbn [with_outgoing ps_sync]. rewrite HpA. reflexivity. }
  split; [exact HQ4|].
  split.
  { rewrite Hs4. cbn [with_queues s_queues]. apply Forall_updz; [exact Hcl|congruence]. }
  split.
  { rewrite O4, HpA. subst pA p1. unfold p_rest. cbn. repeat split. }
  split; [rewrite Hs4; reflexivity|]. split; [rewrite Hs4; reflexivity|].
  split.
  - intros q0 gh0 B C. rewrite Hs4 in B. cbn [with_queues s_queues] in B. subst gs'.
    rewrite nth_error_updz_same in B by lia. rewrite nth_error_updz_same in C by lia.
    injection B as <-. injection C as <-. cbn [fst]. split; [exact Hlen'|exact U'].
  - intros h' Hne Hh' Hdone q0 gh0 B C. rewrite Hs4 in B. cbn [with_queues s_queues] in B. subst gs'.
    assert (Z.to_nat h <> Z.to_nat h') by lia.
    rewrite nth_error_updz_other in B by assumption. rewrite nth_error_updz_other in C by assumption.
    exact (Hdone q0 gh0 B C).
Qed.

(* one iteration of register_local_inputs for a local handle with a pending input *)
Lemma register_step : forall w d p gs h pi r,
  QS w d p gs -> all_clean (s_queues (ps_sync p)) ->
  0 <= h -> nth_error (ps_kinds p) (Z.to_nat h) = Some KLocal ->
  assoc_get (ps_pending p) h = Some pi ->
  exists p' gs', register_go p (h :: r) = register_go p' r /\
    QS w d p' gs' /\ all_clean (s_queues (ps_sync p')) /\ p_rest p p' /\
    s_current (ps_sync p') = s_current (ps_sync p) /\ s_last_confirmed (ps_sync p') = s_last_confirmed (ps_sync p) /\
    Done (s_current (ps_sync p)) d (s_queues (ps_sync p')) gs' h /\
    (forall h', h' <> h -> 0 <= h' -> Done (s_current (ps_sync p)) d (s_queues (ps_sync p)) gs h' ->
                Done (s_current (ps_sync p)) d (s_queues (ps_sync p')) gs' h').
Proof.
  intros w d p gs h pi r HQS Hcl Hh Hk Hpend.
  pose proof HQS as [Hw Hd Hmode Hn Hconn Hgos HQ Hlast Hfr Hkinds Hpe].
  set (c := s_current (ps_sync p)) in *. set (L := s_last_confirmed (ps_sync p)) in *.
  pose proof (QsI_length _ _ _ _ HQ) as Hlq.
  destruct Hn as (Hn1 & Hn2 & Hn3 & Hn4).
  assert (Hhl : (Z.to_nat h < length gs)%nat).
  { assert (nth_error (ps_kinds p) (Z.to_nat h) <> None) as A by congruence. apply nth_error_Some in A. lia. }
  destruct (nth_error (s_queues (ps_sync p)) (Z.to_nat h)) as [q|] eqn:Eq;
    [|apply nth_error_None in Eq; lia].
  destruct (nth_error gs (Z.to_nat h)) as [gh|] eqn:Eg; [|apply nth_error_None in Eg; lia].
  pose proof (Forall2_nth _ _ _ _ _ _ HQ Eq Eg) as Hqi. cbv beta in Hqi.
  pose proof (Hkinds _ _ _ _ Hk Eq Eg) as Hki. cbn [KI] in Hki. destruct Hki as (Hdel & Hpn & Hform).
  assert (Hfq : q_first_incorrect q = NULL).
  { unfold all_clean in Hcl. rewrite Forall_forall in Hcl. apply Hcl. eapply nth_error_In. exact Eq. }
  pose proof (Hpe _ _ Hpend) as Hpf. fold c in Hpf.
  cbn [register_go]. rewrite Hpend. unfold add_local_input. rewrite Hpf. fold c. rewrite Z.eqb_refl. cbn [negb].
  assert (((h <? 0) || (Z.of_nat (length (s_queues (ps_sync p))) <=? h)) = false) as -> by lia.
  assert (Hqn : qnth (ps_sync p) h = q).
  { unfold qnth. erewrite nth_error_nth; [reflexivity|exact Eq]. }
  rewrite Hqn.
  destruct gh as [hist low]. cbn [fst snd] in *.
  pose proof (qi_ring _ _ _ _ _ Hqi) as I.
  assert (Hc0 : 0 <= c) by lia.
  destruct Hform as [(Hh0 & Hlu & Hcz)|[(Hhl2 & Hlu & Hc1)|(Hhl3 & Hlu)]].
  - (* first input: d fills then the input *)
    subst hist.
    destruct (add_input_ok q [] low c (pi_val pi) I Hpn ltac:(lia) (or_introl Hlu) Hc0) as [_ Hadd].
    destruct (ri_low _ _ _ I) as (_ & _ & Hlow0). specialize (Hlow0 eq_refl). subst low.
    pose proof QLEN_pos as HQL.
    destruct Hadd as (q' & Ea & I' & D' & U' & R' & F' & P'); [unfold hlen; cbn; lia|unfold hlen; cbn; lia|].
    rewrite Ea. cbn [res_bind]. rewrite Hdel.
    assert ((c + d =? NULL) = false) as -> by (unfold NULL; lia).
    eapply register_tail; try eassumption; fold c; rewrite ?hlen_fill; unfold hlen in *; cbn [length] in *; lia.
  - (* the queue is exactly up to date: the input goes to frame c + d *)
    assert (Hs : q_last_user q = NULL \/ c = q_last_user q + 1) by (right; lia).
    destruct (add_input_ok q hist low c (pi_val pi) I Hpn ltac:(lia) Hs Hc0) as [_ Hadd].
    destruct (qi_low _ _ _ _ _ Hqi) as (Lw1 & Lw2).
    destruct (ri_low _ _ _ I) as (Hl0 & _ & _).
    destruct Hadd as (q' & Ea & I' & D' & U' & R' & F' & P'); [lia|lia|].
    rewrite Ea. cbn [res_bind]. rewrite Hdel.
    assert ((c + d =? NULL) = false) as -> by (unfold NULL; lia).
    eapply register_tail; try eassumption; fold c; rewrite ?hlen_fill; unfold hlen in *; lia.
  - (* the input for this frame was registered by an earlier call that stalled: dropped *)
    unfold add_input. rewrite Hlu.
    assert ((negb (c =? NULL) && negb (c =? c + 1)) = true) as -> by (unfold NULL; lia).
    cbn [res_bind]. rewrite Z.eqb_refl.
    rewrite (updz_same _ _ _ Eq), with_queues_self, with_sync_self.
    exists p, gs. split; [reflexivity|]. split; [exact HQS|]. split; [exact Hcl|]. split; [apply p_rest_refl|].
    split; [reflexivity|]. split; [reflexivity|]. split.
    + intros q0 gh0 B C. rewrite Eq in B. rewrite Eg in C. injection B as <-. injection C as <-. cbn [fst]. split; assumption.
    + intros h' _ _ Hdone. exact Hdone.
Qed.

Lemma register_go_progress : forall hs w d p gs,
  QS w d p gs -> all_clean (s_queues (ps_sync p)) ->
  Forall (fun h => 0 <= h /\ nth_error (ps_kinds p) (Z.to_nat h) = Some KLocal /\
                   exists pi, assoc_get (ps_pending p) h = Some pi) hs ->
  exists p' gs', register_go p hs = Ok p' /\ QS w d p' gs' /\ all_clean (s_queues (ps_sync p')) /\ p_rest p p' /\
    s_current (ps_sync p') = s_current (ps_sync p) /\ s_last_confirmed (ps_sync p') = s_last_confirmed (ps_sync p) /\
    (forall h, 0 <= h -> In h hs \/ Done (s_current (ps_sync p)) d (s_queues (ps_sync p)) gs h ->
               Done (s_current (ps_sync p)) d (s_queues (ps_sync p')) gs' h).
Proof.
  induction hs as [|h r IH]; intros w d p gs HQS Hcl Hall.
  - exists p, gs. cbn [register_go]. split; [reflexivity|]. split; [exact HQS|]. split; [exact Hcl|].
    split; [apply p_rest_refl|]. split; [reflexivity|]. split; [reflexivity|].
    intros h _ [[]|H]. exact H.
  - inversion Hall as [|? ? (Hh & Hk & pi & Hpe) Hall']; subst.
    destruct (register_step w d p gs h pi r HQS Hcl Hh Hk Hpe) as (p1 & gs1 & E1 & HQ1 & Hcl1 & Hr1 & Hc1 & HL1 & Hd1 & Ht1).
    rewrite E1.
    assert (Hall1 : Forall (fun h => 0 <= h /\ nth_error (ps_kinds p1) (Z.to_nat h) = Some KLocal /\
                                     exists pi, assoc_get (ps_pending p1) h = Some pi) r).
    { destruct Hr1 as (_ & _ & _ & _ & _ & Hk1 & _ & _ & _ & Hp1). rewrite Hk1, Hp1. exact Hall'. }
    destruct (IH w d p1 gs1 HQ1 Hcl1 Hall1) as (p' & gs' & E & HQ' & Hcl' & Hr' & Hc' & HL' & Hd').
    exists p', gs'. split; [exact E|]. split; [exact HQ'|]. split; [exact Hcl'|].
    split; [eapply p_rest_trans; eassumption|]. split; [congruence|]. split; [congruence|].
    intros h0 Hh0 Hin. rewrite Hc1 in Hd'.
    destruct (Z.eq_dec h0 h) as [->|Hne].
    + apply Hd'; [exact Hh0|]. right. exact Hd1.
    + apply Hd'; [exact Hh0|]. destruct Hin as [[->|Hin]|Hdone]; [congruence|left; exact Hin|].
      right. apply Ht1; assumption.
Qed.

(* ---------- moving the invariant across a change of the sync layer ---------- *)
Lemma Forall2_hlens : forall (st : list cstat) gs gs',
  Forall2 (fun s g => cs_last s = hlen (fst g) - 1) st gs ->
  map (fun g : ghost => hlen (fst g)) gs' = map (fun g : ghost => hlen (fst g)) gs ->
  Forall2 (fun s g => cs_last s = hlen (fst g) - 1) st gs'.
Proof.
  induction st as [|s st IH]; intros gs gs' H E; inversion H; subst.
  - destruct gs'; [constructor|discriminate].
  - destruct gs' as [|g' gs']; [discriminate|]. cbn [map] in E. injection E as E1 E2.
    constructor; [lia|]. eapply IH; eassumption.
Qed.

Lemma QS_resync : forall w d p gs s' gs',
  QS w d p gs -> s_maxpred s' = s_maxpred (ps_sync p) ->
  QsI (s_current s') (s_last_confirmed s') (s_queues s') gs' ->
  map (fun g : ghost => hlen (fst g)) gs' = map (fun g : ghost => hlen (fst g)) gs ->
  (-1 <= s_last_confirmed s' <= s_current s' /\ 0 <= s_current s' /\ s_current s' <= Z.max 0 (s_last_confirmed s') + w) ->
  (forall h k q' gh', nth_error (ps_kinds p) h = Some k -> nth_error (s_queues s') h = Some q' ->
                      nth_error gs' h = Some gh' -> KI (s_current s') d k q' (fst gh')) ->
  (forall h pi, assoc_get (ps_pending p) h = Some pi -> pi_frame pi = s_current s') ->
  QS w d (with_sync p s') gs'.
Proof.
  intros w d p gs s' gs' [Hw Hd Hmode Hn Hconn Hgos HQ Hlast Hfr Hkinds Hpe] Hmp HQ' Hmap Hfr' Hk' Hp'.
  assert (Hlen : length gs' = length gs).
  { apply (f_equal (@length Z)) in Hmap. rewrite !map_length in Hmap. exact Hmap. }
  constructor; cbn [with_sync ps_maxpred ps_sync ps_running ps_sparse ps_spectators ps_disc_frame ps_nplayers
                    ps_kinds ps_status ps_remotes ps_pending].
  - destruct Hw as (A & B & C). repeat split; congruence.
  - exact Hd.
  - exact Hmode.
  - rewrite Hlen. exact Hn.
  - exact Hconn.
  - exact Hgos.
  - exact HQ'.
  - eapply Forall2_hlens; eassumption.
  - exact Hfr'.
  - exact Hk'.
  - exact Hp'.
Qed.

Lemma KI_transfer : forall c d k q q' hist,
  KI c d k q hist -> q_delay q' = q_delay q -> q_last_user q' = q_last_user q ->
  (pi_frame (q_pred q) = NULL -> pi_frame (q_pred q') = NULL) -> KI c d k q' hist.
Proof.
  intros c d [| |] q q' hist H D U P; cbn [KI] in *; [|rewrite D, U; exact H|exact H].
  destruct H as (A & B & C). rewrite D, U. split; [exact A|]. split; [exact (P B)|exact C].
Qed.

Lemma KI_local_reach : forall c d q hist, 0 <= d -> KI c d KLocal q hist -> c <= hlen hist.
Proof.
  intros c d q hist Hd (A & B & [(C & _ & E)|[(C & _ & E)|(C & _)]]); [subst hist; unfold hlen; cbn; lia|lia|lia].
Qed.
