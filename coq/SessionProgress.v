(* Progress for the session core model: in the space C01 claims (every player connected, honest
   peers that deliver each player's inputs in frame order, no spectators, dense saving) no modelled
   assert fires, whatever the interleaving of API calls and arriving inputs. *)
From GGRS Require Import Base Consts Queue QueueProofs QueueTheorems Sync P2P Session SessionProofs.
From Coq Require Import ZifyBool ZifyNat ZifyN.
Ltac Zify.zify_post_hook ::= Z.div_mod_to_equations.
Open Scope Z_scope.

(* ================= the session invariant for runs without disconnects ================= *)
(* kind-specific facts about a player's queue *)
Definition KI (c d : Z) (k : pkind) (q : queue) (hist : list Z) : Prop :=
  match k with
  | KLocal => q_delay q = d /\ pi_frame (q_pred q) = NULL /\
              ((hist = [] /\ q_last_user q = NULL /\ c = 0) \/
               (hlen hist = c + d /\ q_last_user q = c - 1 /\ 1 <= c) \/
               (hlen hist = c + d + 1 /\ q_last_user q = c))
  | KRemote _ => q_delay q = 0 /\ q_last_user q = hlen hist - 1
  | KSpectator _ => False
  end.

(* what the calls of one advance leave alone *)
Definition p_rest (p p' : p2p) : Prop :=
  ps_nplayers p' = ps_nplayers p /\ ps_maxpred p' = ps_maxpred p /\ ps_sparse p' = ps_sparse p /\
  ps_disc_frame p' = ps_disc_frame p /\ ps_running p' = ps_running p /\ ps_kinds p' = ps_kinds p /\
  ps_spec_handles p' = ps_spec_handles p /\ ps_remotes p' = ps_remotes p /\
  ps_spectators p' = ps_spectators p /\ ps_pending p' = ps_pending p.
Lemma p_rest_refl : forall p, p_rest p p.
Proof. intros p. unfold p_rest. repeat split. Qed.
Lemma p_rest_trans : forall a b c, p_rest a b -> p_rest b c -> p_rest a c.
Proof. unfold p_rest. intros a b c H1 H2. intuition congruence. Qed.

Lemma nth_connected : forall st h, connected st -> cs_disc (nth h st cs_default) = false.
Proof.
  induction st as [|s st IH]; intros [|h] H; cbn; try reflexivity; inversion H; subst; auto.
Qed.

(* nobody is disconnected and no peer reports a disconnect: update_player_disconnects does nothing *)
Lemma update_disconnects_noop : forall p,
  connected (ps_status p) -> Forall (fun e => connected (ev_status e)) (ps_remotes p) ->
  update_player_disconnects p = Ok p.
Proof.
  intros p Hc Hg. unfold update_player_disconnects.
  generalize (zrange_from 0 (Z.to_nat (ps_nplayers p))) as hs.
  induction hs as [|h hs IH]; cbn [fold_left]; [reflexivity|]. cbn [res_bind].
  assert (forallb (fun e => negb (cs_disc (nth (Z.to_nat h) (ev_status e) cs_default))) (filter ev_running (ps_remotes p)) = true) as ->.
  { apply forallb_forall. intros e He. apply filter_In in He. destruct He as [He _].
    rewrite Forall_forall in Hg. rewrite (nth_connected _ _ (Hg e He)). reflexivity. }
  cbn [negb andb]. exact IH.
Qed.

Lemma cf_fold : forall st acc, connected st ->
  let m := fold_left (fun acc c => if cs_disc c then acc else Z.min acc (cs_last c)) st acc in
  m <= acc /\ Forall (fun c => m <= cs_last c) st /\ (m = acc \/ Exists (fun c => m = cs_last c) st).
Proof.
  induction st as [|s st IH]; intros acc Hc; cbn [fold_left].
  - split; [lia|]. split; [constructor|left; reflexivity].
  - inversion Hc as [|? ? Hs Hc']; subst. rewrite Hs.
    destruct (IH (Z.min acc (cs_last s)) Hc') as (A & B & C).
    split; [lia|]. split; [constructor; [lia|exact B]|].
    destruct C as [C|C]; [|right; right; exact C].
    destruct (Z.le_ge_cases acc (cs_last s)); [left; lia|right; left; lia].
Qed.

Lemma confirmed_frame_spec : forall p, connected (ps_status p) -> ps_status p <> [] ->
  Forall (fun c => cs_last c < I32MAX) (ps_status p) ->
  exists cf, confirmed_frame p = Ok cf /\ Forall (fun c => cf <= cs_last c) (ps_status p) /\
             Exists (fun c => cf = cs_last c) (ps_status p).
Proof.
  intros p Hc Hne Hb. unfold confirmed_frame.
  destruct (cf_fold (ps_status p) I32MAX Hc) as (A & B & C).
  set (m := fold_left _ _ _) in *.
  assert (m < I32MAX).
  { destruct (ps_status p) as [|s st]; [congruence|]. inversion B; subst. inversion Hb; subst. lia. }
  assert ((m <? I32MAX) = true) as -> by lia.
  exists m. split; [reflexivity|]. split; [exact B|]. destruct C as [C|C]; [lia|exact C].
Qed.
