(* Progress for the session core model: in the space C01 claims (every player connected, honest
   peers that deliver each player's inputs in frame order, no spectators, dense saving) no modelled
   assert fires, whatever the interleaving of API calls and arriving inputs. *)
From GGRS Require Import Base Consts Queue QueueProofs QueueTheorems Sync P2P Session SessionProofs.
From Coq Require Import ZifyBool ZifyNat ZifyN Sorting.Sorted.
Ltac Zify.zify_post_hook ::= Z.div_mod_to_equations.
Open Scope Z_scope.

(* ================= the session invariant for runs without disconnects ================= *)
(* kind-specific facts about a player's queue *)
Definition KI (c d : Z) (k : pkind) (q : queue) (hist : list Z) : Prop :=
  match k with
  | KLocal => q_delay q = d /\ pi_frame (q_pred q) = NULL /\
              ((hist = [] /\ q_last_user q = NULL /\ c = 0) \/
               (hlen hist = c + d /\ q_last_user q = c - 1 /\ 1 <= c) \/
               (hlen hist = c + d + 1 /\ q_last_user q = c))
  | KRemote _ => q_delay q = 0 /\ q_last_user q = hlen hist - 1
  | KSpectator _ => False
  end.

(* what the calls of one advance leave alone *)
Definition p_rest (p p' : p2p) : Prop :=
  ps_nplayers p' = ps_nplayers p /\ ps_maxpred p' = ps_maxpred p /\ ps_sparse p' = ps_sparse p /\
  ps_disc_frame p' = ps_disc_frame p /\ ps_running p' = ps_running p /\ ps_kinds p' = ps_kinds p /\
  ps_spec_handles p' = ps_spec_handles p /\ ps_remotes p' = ps_remotes p /\
  ps_spectators p' = ps_spectators p /\ ps_pending p' = ps_pending p /\ ps_next_spec p' = ps_next_spec p.
Lemma p_rest_refl : forall p, p_rest p p.
Proof. intros p. unfold p_rest. repeat split. Qed.
Lemma p_rest_trans : forall a b c, p_rest a b -> p_rest b c -> p_rest a c.
Proof. unfold p_rest. intros a b c H1 H2. intuition congruence. Qed.

Lemma nth_connected : forall st h, connected st -> cs_disc (nth h st cs_default) = false.
Proof.
  induction st as [|s st IH]; intros [|h] H; cbn; try reflexivity; inversion H; subst; auto.
Qed.

(* nobody is disconnected and no peer reports a disconnect: update_player_disconnects does nothing *)
Lemma update_disconnects_noop : forall p,
  connected (ps_status p) -> Forall (fun e => connected (ev_status e)) (ps_remotes p) ->
  update_player_disconnects p = Ok p.
Proof.
  intros p Hc Hg. unfold update_player_disconnects.
  generalize (zrange_from 0 (Z.to_nat (ps_nplayers p))) as hs.
  induction hs as [|h hs IH]; cbn [fold_left]; [reflexivity|]. cbn [res_bind].
  assert (forallb (fun e => negb (cs_disc (nth (Z.to_nat h) (ev_status e) cs_default))) (filter ev_running (ps_remotes p)) = true) as ->.
  { apply forallb_forall. intros e He. apply filter_In in He. destruct He as [He _].
    rewrite Forall_forall in Hg. rewrite (nth_connected _ _ (Hg e He)). reflexivity. }
  cbn [negb andb]. exact IH.
Qed.

Lemma cf_fold : forall st acc, connected st ->
  let m := fold_left (fun acc c => if cs_disc c then acc else Z.min acc (cs_last c)) st acc in
  m <= acc /\ Forall (fun c => m <= cs_last c) st /\ (m = acc \/ Exists (fun c => m = cs_last c) st).
Proof.
  induction st as [|s st IH]; intros acc Hc; cbn [fold_left].
  - split; [lia|]. split; [constructor|left; reflexivity].
  - inversion Hc as [|? ? Hs Hc']; subst. rewrite Hs.
    destruct (IH (Z.min acc (cs_last s)) Hc') as (A & B & C).
    split; [lia|]. split; [constructor; [lia|exact B]|].
    destruct C as [C|C]; [|right; right; exact C].
    destruct (Z.le_ge_cases acc (cs_last s)); [left; lia|right; left; lia].
Qed.

Lemma confirmed_frame_spec : forall p, connected (ps_status p) -> ps_status p <> [] ->
  Forall (fun c => cs_last c < I32MAX) (ps_status p) ->
  exists cf, confirmed_frame p = Ok cf /\ Forall (fun c => cf <= cs_last c) (ps_status p) /\
             Exists (fun c => cf = cs_last c) (ps_status p).
Proof.
  intros p Hc Hne Hb. unfold confirmed_frame.
  destruct (cf_fold (ps_status p) I32MAX Hc) as (A & B & C).
  set (m := fold_left _ _ _) in *.
  assert (m < I32MAX).
  { destruct (ps_status p) as [|s st]; [congruence|]. inversion B; subst. inversion Hb; subst. lia. }
  assert ((m <? I32MAX) = true) as -> by lia.
  exists m. split; [reflexivity|]. split; [exact B|]. destruct C as [C|C]; [lia|exact C].
Qed.

Lemma nth_error_some_len {A B} : forall (l1 : list A) (l2 : list B) i b,
  length l1 = length l2 -> nth_error l2 i = Some b -> exists a, nth_error l1 i = Some a.
Proof.
  intros l1 l2 i b Hl Hn. destruct (nth_error l1 i) eqn:E; [eauto|].
  apply nth_error_None in E. assert (nth_error l2 i <> None) as B7 by congruence.
  apply nth_error_Some in B7. lia.
Qed.

Lemma with_sync_self : forall p, with_sync p (ps_sync p) = p.
Proof. destruct p; reflexivity. Qed.
Lemma with_disc_null : forall p, ps_disc_frame p = NULL -> with_disc_frame p NULL = p.
Proof. destruct p; cbn; intros ->; reflexivity. Qed.

Section ProgressA.
Variable predict : Z -> Z.

Lemma resim_go_shape : forall n i p mc o p' o',
  resim_go predict n i p mc o = Ok (p', o') -> p' = with_sync p (ps_sync p').
Proof.
  induction n as [|n IH]; intros i p mc o p' o' E; cbn [resim_go] in E.
  - injection E as <- <-. symmetry. apply with_sync_self.
  - destruct (synchronized_inputs predict (ps_sync p) (ps_status p)) as [[s1 ins]| |]; cbn [res_bind] in E; try discriminate.
    match type of E with res_bind ?X _ = _ => destruct X as [[s2 o2]| |] end; cbn [res_bind] in E; try discriminate.
    apply IH in E. rewrite E. cbn [with_sync ps_sync]. rewrite with_sync_idem. reflexivity.
Qed.

Lemma adjust_shape : forall p fi mc o p' o',
  adjust_gamestate predict p fi mc o = Ok (p', o') -> p' = with_sync p (ps_sync p').
Proof.
  intros p fi mc o p' o' E. unfold adjust_gamestate in E.
  destruct (_ <? _); [discriminate|].
  destruct (load_frame _ _) as [[s1 r]| |]; cbn [res_bind] in E; try discriminate.
  destruct (resim_go _ _ _ _ _ _) as [[p2 o2]| |] eqn:Er; cbn [res_bind] in E; try discriminate.
  destruct (negb _); [discriminate|]. injection E as <- <-.
  apply resim_go_shape in Er. rewrite Er. cbn [with_sync ps_sync]. rewrite with_sync_idem. reflexivity.
Qed.

(* the rollback step of advance_rollback_frame cannot fail in a session whose queues satisfy the
   invariant and whose frames sit inside the window *)
Lemma handle_rollback_progress : forall p gs cf o g w hi,
  ps_sparse p = false -> connected (ps_status p) ->
  length (ps_status p) = length (s_queues (ps_sync p)) -> ps_disc_frame p = NULL ->
  QsI (s_current (ps_sync p)) (s_last_confirmed (ps_sync p)) (s_queues (ps_sync p)) gs ->
  -1 <= s_last_confirmed (ps_sync p) -> 0 <= s_current (ps_sync p) ->
  s_current (ps_sync p) <= Z.max 0 (s_last_confirmed (ps_sync p)) + w ->
  1 <= w -> s_maxpred (ps_sync p) = w -> gframe g = s_current (ps_sync p) ->
  s_current (ps_sync p) - 1 <= hi ->
  CellsI w (Z.max 0 (s_current (ps_sync p) - w)) hi (ps_sync p) g ->
  exists p1 o1, handle_rollback_and_save predict p cf o = Ok (p1, o1) /\
    p1 = with_sync p (ps_sync p1) /\
    QsI (s_current (ps_sync p)) (s_last_confirmed (ps_sync p)) (s_queues (ps_sync p1)) gs /\
    all_clean (s_queues (ps_sync p1)) /\
    same_user (s_queues (ps_sync p)) (s_queues (ps_sync p1)) /\
    s_last_confirmed (ps_sync p1) = s_last_confirmed (ps_sync p) /\
    s_current (ps_sync p1) = s_current (ps_sync p) /\
    (forall h q gh q', nth_error (s_queues (ps_sync p)) h = Some q -> nth_error gs h = Some gh ->
       nth_error (s_queues (ps_sync p1)) h = Some q' -> s_current (ps_sync p) <= hlen (fst gh) ->
       pi_frame (q_pred q) = NULL -> pi_frame (q_pred q') = NULL).
Proof.
  intros p gs cf o g w hi Hsp Hcon Hlen Hdf HQ HL Hc Hwin Hw Hmp Hgf Hhi Hcells.
  unfold handle_rollback_and_save. unfold check_simulation_consistency. rewrite Hdf.
  pose proof (csc_spec predict (s_queues (ps_sync p)) gs _ _ NULL HQ (or_introl eq_refl)) as Hcsc. cbv zeta in Hcsc.
  set (fi := fold_left _ _ NULL) in *.
  destruct Hcsc as [(Hr & _ & Hcl)|Hr].
  - rewrite Hr, Z.eqb_refl. cbn [res_bind]. cbv beta iota. rewrite Hsp.
    unfold save_current_state. assert ((s_current (ps_sync p) <? 0) = false) as -> by lia. cbn [res_bind].
    eexists; eexists. split; [reflexivity|].
    cbn [with_sync ps_sync s_queues s_last_confirmed s_current].
    split; [reflexivity|]. split; [exact HQ|]. split; [exact Hcl|]. split; [apply same_user_refl|].
    split; [reflexivity|]. split; [reflexivity|].
    intros h q gh q' A _ B _ Hn. rewrite A in B. injection B as <-. exact Hn.
  - assert ((fi =? NULL) = false) as -> by (unfold NULL in *; lia).
    destruct (adjust_progress predict p gs (s_last_confirmed (ps_sync p)) fi cf o g w hi Hsp Hcon Hlen HQ)
      as (p2 & o2 & Ea & A1 & A2 & A3 & A4 & A5 & A6 & A7); try lia; try assumption.
    rewrite Ea. cbn [res_bind].
    pose proof (adjust_shape _ _ _ _ _ _ Ea) as Hshape.
    assert (Hd2 : with_disc_frame p2 NULL = p2).
    { apply with_disc_null. rewrite Hshape. cbn. exact Hdf. }
    rewrite Hd2.
    assert (Hsp2 : ps_sparse p2 = false) by (rewrite Hshape; cbn; exact Hsp).
    rewrite Hsp2. unfold save_current_state. rewrite A6.
    assert ((s_current (ps_sync p) <? 0) = false) as -> by lia. cbn [res_bind].
    eexists; eexists. split; [reflexivity|].
    cbn [with_sync ps_sync s_queues s_last_confirmed s_current].
    split; [rewrite Hshape at 1; cbn [with_sync]; reflexivity|].
    split; [exact A1|]. split; [exact A2|]. split; [exact A3|]. split; [exact A4|]. split; [reflexivity|].
    intros h q gh q' _ B C D _. exact (A7 h gh q' B C D).
Qed.

End ProgressA.

(* the host's spectator broadcast: when there are spectators, the next frame to send is past the last
   confirmed frame and not past any player's held inputs *)
Definition spec_ok (p : p2p) (gs : list ghost) : Prop :=
  ps_spectators p <> [] ->
  0 <= ps_next_spec p /\ s_last_confirmed (ps_sync p) + 1 <= ps_next_spec p /\
  Forall (fun g : ghost => ps_next_spec p <= hlen (fst g)) gs.

Lemma spec_ok_grow : forall p gs p' gs',
  spec_ok p gs -> ps_spectators p' = ps_spectators p -> ps_next_spec p' = ps_next_spec p ->
  s_last_confirmed (ps_sync p') = s_last_confirmed (ps_sync p) ->
  (forall h g', nth_error gs' h = Some g' -> exists g, nth_error gs h = Some g /\ hlen (fst g) <= hlen (fst g')) ->
  spec_ok p' gs'.
Proof.
  intros p gs p' gs' H E1 E2 E3 Hg Hne. rewrite E1 in Hne. destruct (H Hne) as (A & B & C).
  rewrite E2, E3. split; [exact A|]. split; [exact B|].
  apply Forall_forall. intros g' Hin. apply In_nth_error in Hin. destruct Hin as (h & Hh).
  destruct (Hg h g' Hh) as (g & Hg1 & Hg2). rewrite Forall_forall in C. pose proof (C g (nth_error_In _ _ Hg1)). lia.
Qed.
Lemma grow_refl : forall (gs : list ghost) h g', nth_error gs h = Some g' -> exists g, nth_error gs h = Some g /\ hlen (fst g) <= hlen (fst g').
Proof. intros gs h g' H. exists g'. split; [exact H|lia]. Qed.

(* ================= the queue-side session invariant ================= *)
(* w = max_prediction, d = the input delay of the local players; gs = per player (history, low) *)
Record QSg (sp : bool) (w d : Z) (p : p2p) (gs : list ghost) : Prop := {
  qs_w : 0 <= w /\ ps_maxpred p = w /\ s_maxpred (ps_sync p) = w;
  qs_d : 0 <= d /\ Z.max 1 w + d + 3 <= QLEN;
  qs_mode : ps_running p = true /\ ps_sparse p = sp /\ ps_disc_frame p = NULL;
  qs_n : Z.of_nat (length gs) = ps_nplayers p /\ 0 < ps_nplayers p /\ length (ps_kinds p) = length gs /\
         length (ps_status p) = length gs;
  qs_conn : connected (ps_status p);
  qs_gossip : Forall (fun e => connected (ev_status e)) (ps_remotes p);
  qs_qs : QsI (s_current (ps_sync p)) (s_last_confirmed (ps_sync p)) (s_queues (ps_sync p)) gs;
  qs_last : Forall2 (fun st g => cs_last st = hlen (fst g) - 1) (ps_status p) gs;
  qs_frames : -1 <= s_last_confirmed (ps_sync p) <= s_current (ps_sync p) /\ 0 <= s_current (ps_sync p) /\
              s_current (ps_sync p) <= Z.max 0 (s_last_confirmed (ps_sync p)) + Z.max 1 w;
  qs_kinds : forall h k q gh, nth_error (ps_kinds p) h = Some k -> nth_error (s_queues (ps_sync p)) h = Some q ->
             nth_error gs h = Some gh -> KI (s_current (ps_sync p)) d k q (fst gh);
  qs_pending : forall h pi, assoc_get (ps_pending p) h = Some pi -> pi_frame pi = s_current (ps_sync p);
  qs_spec : spec_ok p gs;
}.
Arguments qs_w {sp} w d p gs _.
Arguments qs_d {sp} w d p gs _.
Arguments qs_mode {sp} w d p gs _.
Arguments qs_n {sp} w d p gs _.
Arguments qs_conn {sp} w d p gs _.
Arguments qs_gossip {sp} w d p gs _.
Arguments qs_qs {sp} w d p gs _.
Arguments qs_last {sp} w d p gs _.
Arguments qs_frames {sp} w d p gs _.
Arguments qs_kinds {sp} w d p gs _.
Arguments qs_pending {sp} w d p gs _.
Arguments qs_spec {sp} w d p gs _.
(* dense saving (the mode of the unconditional theorems below); sparse saving: SessionSparse2.v *)
Notation QS := (QSg false).


Lemma QS_outgoing : forall sp w d p gs X Y, QSg sp w d p gs -> QSg sp w d (with_outgoing p X Y) gs.
Proof. intros sp w d p gs X Y [A B C D E F G H I J K]. constructor; cbn [with_outgoing ps_maxpred ps_sync ps_running ps_sparse ps_spectators ps_disc_frame ps_nplayers ps_kinds ps_status ps_remotes ps_pending]; assumption. Qed.

Lemma updz_same {A} : forall (l : list A) i x, nth_error l i = Some x -> updz l i x = l.
Proof.
  induction l as [|y l IH]; intros [|i] x H; cbn in *; try discriminate.
  - injection H as ->. reflexivity.
  - rewrite (IH i x H). reflexivity.
Qed.
Lemma nth_error_updz_same {A} : forall (l : list A) i x, (i < length l)%nat -> nth_error (updz l i x) i = Some x.
Proof. induction l as [|y l IH]; intros [|i] x H; cbn in *; try lia; auto. apply IH. lia. Qed.
Lemma nth_error_updz_other {A} : forall (l : list A) i j x, i <> j -> nth_error (updz l i x) j = nth_error l j.
Proof. induction l as [|y l IH]; intros [|i] [|j] x H; cbn; auto; try congruence. Qed.

Lemma grow_updz : forall (gs : list ghost) i hist low hist' low',
  nth_error gs i = Some (hist, low) -> hlen hist <= hlen hist' ->
  forall h g', nth_error (updz gs i (hist', low')) h = Some g' -> exists g, nth_error gs h = Some g /\ hlen (fst g) <= hlen (fst g').
Proof.
  intros gs i hist low hist' low' Hi Hle h g' H.
  assert (Hl : (i < length gs)%nat) by (apply nth_error_Some; congruence).
  destruct (Nat.eq_dec i h) as [<-|Hne].
  - rewrite nth_error_updz_same in H by exact Hl. injection H as <-. exists (hist, low). split; [exact Hi|exact Hle].
  - rewrite nth_error_updz_other in H by exact Hne. exists g'. split; [exact H|lia].
Qed.

Lemma assoc_get_put {A} : forall (l : list (Z * A)) k v k',
  assoc_get (assoc_put l k v) k' = if k =? k' then Some v else assoc_get l k'.
Proof.
  induction l as [|[k0 v0] l IH]; intros k v k'; cbn [assoc_put assoc_get].
  - destruct (Z.eqb_spec k k'); reflexivity.
  - destruct (Z.eqb_spec k k0) as [E0|E0].
    + subst k0. cbn [assoc_get]. destruct (Z.eqb_spec k k'); reflexivity.
    + destruct (Z.ltb_spec k k0).
      * cbn [assoc_get]. destruct (Z.eqb_spec k k'); reflexivity.
      * cbn [assoc_get]. rewrite IH. destruct (Z.eqb_spec k0 k') as [E1|E1]; [|reflexivity].
        destruct (Z.eqb_spec k k'); [congruence|reflexivity].
Qed.

(* ---------- the outgoing-input bookkeeping never fails ---------- *)
Definition out_only (p p' : p2p) : Prop := p' = with_outgoing p (ps_outgoing p') (ps_last_sent_out p').
Lemma out_only_refl : forall p, out_only p p.
Proof. intros p. unfold out_only. destruct p; reflexivity. Qed.
Lemma out_only_trans : forall a b c, out_only a b -> out_only b c -> out_only a c.
Proof. unfold out_only. intros a b c H1 H2. rewrite H2. rewrite H1 at 1. destruct a; reflexivity. Qed.
Lemma out_only_with : forall p X Y, out_only p (with_outgoing p X Y).
Proof. intros. unfold out_only. destruct p; reflexivity. Qed.
Lemma QS_out_only : forall sp w d p p' gs, QSg sp w d p gs -> out_only p p' -> QSg sp w d p' gs.
Proof. intros sp w d p p' gs H E. rewrite E. apply QS_outgoing. exact H. Qed.

Lemma queue_outgoing_ok : forall p h i, pi_frame i <> NULL -> exists p', queue_outgoing p h i = Ok p' /\ out_only p p'.
Proof.
  intros p h i Hn. unfold queue_outgoing. assert ((pi_frame i =? NULL) = false) as -> by lia.
  destruct (ps_remotes p); eexists; (split; [reflexivity|]); [apply out_only_refl|apply out_only_with].
Qed.

Lemma queue_blanks_ok : forall n p h f, 0 <= f -> exists p', queue_blanks n p h f = Ok p' /\ out_only p p'.
Proof.
  induction n as [|n IH]; intros p h f Hf; cbn [queue_blanks].
  - exists p. split; [reflexivity|apply out_only_refl].
  - destruct (queue_outgoing_ok p h (blank f)) as (p1 & E1 & O1); [cbn; unfold NULL; lia|].
    rewrite E1. cbn [res_bind]. destruct (IH p1 h (f + 1) ltac:(lia)) as (p2 & E2 & O2).
    exists p2. split; [exact E2|eapply out_only_trans; eassumption].
Qed.

Lemma find_assoc {A} : forall (l : list (Z * A)) P f m, find P l = Some (f, m) -> exists m', assoc_get l f = Some m'.
Proof.
  induction l as [|[k v] l IH]; intros P f m H; cbn [find assoc_get] in *; [discriminate|].
  destruct (P (k, v)).
  - injection H as -> ->. rewrite Z.eqb_refl. eauto.
  - destruct (Z.eqb_spec k f); [eauto|]. eapply IH. exact H.
Qed.

Lemma send_ready_go_ok : forall n p locals o, exists p' o', send_ready_go n p locals o = Ok (p', o') /\ out_only p p'.
Proof.
  induction n as [|n IH]; intros p locals o; cbn [send_ready_go].
  - exists p, o. split; [reflexivity|apply out_only_refl].
  - destruct (next_complete p locals) as [f|] eqn:En.
    + assert (exists m, assoc_get (ps_outgoing p) f = Some m) as (m & Em).
      { unfold next_complete in En. destruct (ps_last_sent_out p =? NULL).
        - destruct (find _ _) as [[f0 m0]|] eqn:Ef; [|discriminate]. injection En as <-. eapply find_assoc. exact Ef.
        - destruct (assoc_get _ _) as [m0|] eqn:Ea; [|discriminate]. destruct (complete locals m0); [|discriminate].
          injection En as <-. eauto. }
      rewrite Em.
      match goal with |- context [send_ready_go n ?P locals ?O] => destruct (IH P locals O) as (p' & o' & E & Oo) end.
      exists p', o'. split; [exact E|]. eapply out_only_trans; [apply out_only_with|exact Oo].
    + exists p, o. split; [reflexivity|apply out_only_refl].
Qed.

Lemma send_ready_outgoing_ok : forall p o, exists p' o', send_ready_outgoing p o = Ok (p', o') /\ out_only p p'.
Proof.
  intros p o. unfold send_ready_outgoing. destruct (ps_remotes p).
  - exists p, o. split; [reflexivity|apply out_only_refl].
  - destruct (local_handles p).
    + exists p, o. split; [reflexivity|apply out_only_refl].
    + apply send_ready_go_ok.
Qed.

(* ---------- the local handles ---------- *)
Lemma zrange_in : forall n a h, In h (zrange_from a n) <-> a <= h < a + Z.of_nat n.
Proof.
  induction n as [|n IH]; intros a h; cbn [zrange_from In].
  - split; [intros []|lia].
  - rewrite IH. lia.
Qed.

Lemma local_handles_spec : forall p h, ps_nplayers p = Z.of_nat (length (ps_kinds p)) ->
  (In h (local_handles p) <-> 0 <= h < ps_nplayers p /\ nth_error (ps_kinds p) (Z.to_nat h) = Some KLocal).
Proof.
  intros p h Hn. unfold local_handles. rewrite filter_In, zrange_in. unfold kind_at.
  split.
  - intros (Hr & Hk). assert ((h <? 0) = false) as E1 by lia. assert ((h <? ps_nplayers p) = true) as E2 by lia.
    rewrite E1, E2 in Hk. split; [lia|]. destruct (nth_error (ps_kinds p) (Z.to_nat h)) as [[| |]|]; try discriminate. reflexivity.
  - intros (Hr & Hk). split; [lia|]. assert ((h <? 0) = false) as -> by lia. assert ((h <? ps_nplayers p) = true) as -> by lia.
    rewrite Hk. reflexivity.
Qed.

Lemma zrange_nodup : forall n a, NoDup (zrange_from a n).
Proof.
  induction n as [|n IH]; intros a; cbn [zrange_from]; constructor; [|apply IH].
  rewrite zrange_in. lia.
Qed.
Lemma local_handles_nodup : forall p, NoDup (local_handles p).
Proof. intros p. unfold local_handles. apply NoDup_filter. apply zrange_nodup. Qed.


(* ---------- what is queued for the remotes: outgoing_local_inputs as a sorted map ---------- *)
Definition keys_sorted {A} (l : list (Z * A)) : Prop := StronglySorted (fun a b => fst a < fst b) l.

Lemma assoc_get_above {A} : forall (l : list (Z * A)) k, Forall (fun b => k < fst b) l -> assoc_get l k = None.
Proof.
  induction l as [|[k0 v0] l IH]; intros k H; cbn [assoc_get]; [reflexivity|].
  inversion H as [|? ? H1 H2]; subst. cbn [fst] in H1. destruct (Z.eqb_spec k0 k); [lia|]. apply IH. exact H2.
Qed.

Lemma assoc_put_Forall {A} (P : Z * A -> Prop) : forall l k v, Forall P l -> P (k, v) -> Forall P (assoc_put l k v).
Proof.
  induction l as [|[k0 v0] l IH]; intros k v H Hk; cbn [assoc_put].
  - constructor; [exact Hk|constructor].
  - inversion H as [|? ? H1 H2]; subst.
    destruct (k =? k0); [constructor; assumption|].
    destruct (k <? k0); [constructor; [exact Hk|exact H]|].
    constructor; [exact H1|apply IH; assumption].
Qed.

Lemma assoc_put_sorted {A} : forall (l : list (Z * A)) k v, keys_sorted l -> keys_sorted (assoc_put l k v).
Proof.
  unfold keys_sorted. induction l as [|[k0 v0] l IH]; intros k v H; cbn [assoc_put].
  - constructor; constructor.
  - inversion H as [|? ? H1 H2]; subst.
    destruct (Z.eqb_spec k k0) as [->|Hne]; [constructor; assumption|].
    destruct (Z.ltb_spec k k0).
    + constructor; [exact H|]. constructor; [cbn [fst]; lia|].
      eapply Forall_impl; [|exact H2]. intros b Hb. cbn [fst] in *. lia.
    + constructor; [apply IH; exact H1|]. apply assoc_put_Forall; [exact H2|cbn [fst]; lia].
Qed.

Lemma assoc_del_Forall {A} (P : Z * A -> Prop) : forall l k, Forall P l -> Forall P (assoc_del l k).
Proof.
  induction l as [|[k0 v0] l IH]; intros k H; cbn [assoc_del]; [constructor|].
  inversion H as [|? ? H1 H2]; subst. destruct (k0 =? k); [exact H2|]. constructor; [exact H1|apply IH; exact H2].
Qed.

Lemma assoc_del_sorted {A} : forall (l : list (Z * A)) k, keys_sorted l -> keys_sorted (assoc_del l k).
Proof.
  unfold keys_sorted. induction l as [|[k0 v0] l IH]; intros k H; cbn [assoc_del]; [constructor|].
  inversion H as [|? ? H1 H2]; subst. destruct (k0 =? k); [exact H1|].
  constructor; [apply IH; exact H1|apply assoc_del_Forall; exact H2].
Qed.

Lemma assoc_get_del {A} : forall (l : list (Z * A)) k k', keys_sorted l ->
  assoc_get (assoc_del l k) k' = if k =? k' then None else assoc_get l k'.
Proof.
  unfold keys_sorted. induction l as [|[k0 v0] l IH]; intros k k' H; cbn [assoc_del assoc_get].
  - destruct (k =? k'); reflexivity.
  - inversion H as [|? ? H1 H2]; subst.
    destruct (Z.eqb_spec k0 k) as [->|Hne].
    + destruct (Z.eqb_spec k k') as [<-|Hne']; [apply assoc_get_above; exact H2|reflexivity].
    + cbn [assoc_get]. destruct (Z.eqb_spec k0 k') as [->|Hne'].
      * destruct (Z.eqb_spec k k'); [congruence|reflexivity].
      * apply IH. exact H1.
Qed.

Lemma find_first_sorted {A} : forall (l : list (Z * A)) P f m, keys_sorted l -> find P l = Some (f, m) ->
  assoc_get l f = Some m /\ P (f, m) = true /\
  forall f' m', f' < f -> assoc_get l f' = Some m' -> P (f', m') = false.
Proof.
  unfold keys_sorted. induction l as [|[k0 v0] l IH]; intros P f m H Hf; cbn [find assoc_get] in *; [discriminate|].
  inversion H as [|? ? H1 H2]; subst.
  destruct (P (k0, v0)) eqn:EP.
  - injection Hf as -> ->. rewrite Z.eqb_refl. split; [reflexivity|]. split; [exact EP|].
    intros f' m' Hlt Hg. destruct (Z.eqb_spec f f'); [lia|]. rewrite assoc_get_above in Hg; [discriminate|].
    eapply Forall_impl; [|exact H2]. intros b Hb. cbn [fst] in *. lia.
  - destruct (IH P f m H1 Hf) as (G1 & G2 & G3).
    assert (Hk : k0 < f).
    { clear - G1 H2. induction l as [|[k1 v1] l IHl]; cbn [assoc_get] in G1; [discriminate|].
      inversion H2 as [|? ? A0 B0]; subst. cbn [fst] in A0. destruct (Z.eqb_spec k1 f); [lia|]. apply IHl; assumption. }
    destruct (Z.eqb_spec k0 f); [lia|]. split; [exact G1|]. split; [exact G2|].
    intros f' m' Hlt Hg. destruct (Z.eqb_spec k0 f') as [<-|Hne]; [injection Hg as <-; exact EP|].
    eapply G3; eassumption.
Qed.

Definition out_entry (p : p2p) (f h : Z) : option pinput :=
  match assoc_get (ps_outgoing p) f with Some m => assoc_get m h | None => None end.

(* the invariant of outgoing_local_inputs / last_sent_outgoing_input_frame against the input histories:
   for every local player exactly the frames above the last one sent that the player's queue holds are
   queued, each with the value the queue holds for it *)
Record OI (p : p2p) (gs : list ghost) : Prop := {
  oi_sorted : keys_sorted (ps_outgoing p);
  oi_last : NULL <= ps_last_sent_out p;
  oi_keys : forall f m, assoc_get (ps_outgoing p) f = Some m -> ps_last_sent_out p < f;
  oi_local : forall h gh, In h (local_handles p) -> nth_error gs (Z.to_nat h) = Some gh ->
     ps_last_sent_out p < hlen (fst gh) /\
     forall f, ps_last_sent_out p < f ->
       out_entry p f h = if f <? hlen (fst gh) then Some (mkpi f (hval (fst gh) f)) else None;
  oi_below : forall f m, assoc_get (ps_outgoing p) f = Some m ->
     exists h gh, In h (local_handles p) /\ nth_error gs (Z.to_nat h) = Some gh /\ f < hlen (fst gh) }.
Definition OIg (p : p2p) (gs : list ghost) : Prop := ps_remotes p <> [] -> OI p gs.

Lemma OI_same_local : forall p p' gs gs', OI p gs -> ps_outgoing p' = ps_outgoing p ->
  ps_last_sent_out p' = ps_last_sent_out p -> local_handles p' = local_handles p ->
  (forall h, In h (local_handles p) ->
     option_map fst (nth_error gs' (Z.to_nat h)) = option_map fst (nth_error gs (Z.to_nat h))) -> OI p' gs'.
Proof.
  intros p p' gs gs' [A B C D F] E1 E2 E3 E4. unfold ghost in *.
  constructor; unfold out_entry in *; rewrite ?E1, ?E2, ?E3; try assumption.
  - intros h gh' Hin Hg. pose proof (E4 h Hin) as X. unfold ghost in *. rewrite Hg in X. cbn [option_map] in X.
    destruct (nth_error gs (Z.to_nat h)) as [gh|] eqn:G0; [|discriminate]. cbn [option_map] in X.
    injection X as X. rewrite X. exact (D h gh Hin G0).
  - intros f m G. destruct (F f m G) as (h & gh & Hin & Hg & Hlt). pose proof (E4 h Hin) as X. unfold ghost in *. rewrite Hg in X.
    cbn [option_map] in X. destruct (nth_error gs' (Z.to_nat h)) as [gh'|] eqn:G0; [|discriminate]. cbn [option_map] in X.
    injection X as X. exists h, gh'. split; [exact Hin|]. split; [exact G0|]. rewrite X. exact Hlt.
Qed.

Lemma OI_same : forall p p' gs gs', OI p gs -> ps_outgoing p' = ps_outgoing p -> ps_last_sent_out p' = ps_last_sent_out p ->
  local_handles p' = local_handles p -> map fst gs' = map fst gs -> OI p' gs'.
Proof.
  intros p p' gs gs' H E1 E2 E3 E4. apply (OI_same_local p p' gs gs' H E1 E2 E3). intros h _.
  pose proof (f_equal (fun l => nth_error l (Z.to_nat h)) E4) as X. cbv beta in X. unfold ghost in *.
  rewrite !nth_error_map in X. exact X.
Qed.

Lemma zrange_ge : forall n a h, In h (zrange_from a n) -> a <= h.
Proof. induction n as [|n IH]; intros a h H; cbn [zrange_from In] in H; [contradiction|]. destruct H as [<-|H]; [lia|]. apply IH in H. lia. Qed.
Lemma local_handles_ge : forall p h, In h (local_handles p) -> 0 <= h.
Proof. intros p h H. unfold local_handles in H. apply filter_In in H. destruct H as [H _]. apply zrange_ge in H. exact H. Qed.

Lemma queue_outgoing_entry : forall p h i p', ps_remotes p <> [] -> queue_outgoing p h i = Ok p' ->
  out_only p p' /\ ps_last_sent_out p' = ps_last_sent_out p /\
  (keys_sorted (ps_outgoing p) -> keys_sorted (ps_outgoing p')) /\
  (forall f m', assoc_get (ps_outgoing p') f = Some m' -> f = pi_frame i \/ exists m, assoc_get (ps_outgoing p) f = Some m) /\
  forall f' h', out_entry p' f' h' = if (f' =? pi_frame i) && (h' =? h) then Some i else out_entry p f' h'.
Proof.
  intros p h i p' Hr H. unfold queue_outgoing in H. destruct (pi_frame i =? NULL); [discriminate|].
  destruct (ps_remotes p) eqn:Er; [congruence|]. injection H as <-.
  split; [apply out_only_with|]. split; [reflexivity|]. cbn [with_outgoing ps_outgoing].
  split; [apply assoc_put_sorted|]. split.
  - intros f m' G. rewrite assoc_get_put in G. destruct (Z.eqb_spec (pi_frame i) f); [left; congruence|right; eauto].
  - intros f' h'. unfold out_entry. cbn [with_outgoing ps_outgoing]. rewrite assoc_get_put.
    destruct (Z.eqb_spec (pi_frame i) f') as [<-|Hne].
    + rewrite Z.eqb_refl. cbn [andb]. rewrite assoc_get_put. destruct (Z.eqb_spec h h') as [<-|Hh].
      * rewrite Z.eqb_refl. reflexivity.
      * destruct (Z.eqb_spec h' h); [congruence|]. destruct (assoc_get (ps_outgoing p) (pi_frame i)); reflexivity.
    + destruct (Z.eqb_spec f' (pi_frame i)); [congruence|]. reflexivity.
Qed.

Lemma queue_blanks_entry : forall n p h f0 p', ps_remotes p <> [] -> queue_blanks n p h f0 = Ok p' ->
  out_only p p' /\ ps_last_sent_out p' = ps_last_sent_out p /\
  (keys_sorted (ps_outgoing p) -> keys_sorted (ps_outgoing p')) /\
  (forall f m', assoc_get (ps_outgoing p') f = Some m' -> f0 <= f < f0 + Z.of_nat n \/ exists m, assoc_get (ps_outgoing p) f = Some m) /\
  forall f' h', out_entry p' f' h' = if (f0 <=? f') && (f' <? f0 + Z.of_nat n) && (h' =? h) then Some (blank f') else out_entry p f' h'.
Proof.
  induction n as [|n IH]; intros p h f0 p' Hr H; cbn [queue_blanks] in H.
  - injection H as <-. split; [apply out_only_refl|]. split; [reflexivity|]. split; [tauto|]. split; [eauto|].
    intros f' h'. assert ((f0 <=? f') && (f' <? f0 + Z.of_nat 0) = false) as -> by lia. reflexivity.
  - destruct (queue_outgoing p h (blank f0)) as [p1| |] eqn:E1; cbn [res_bind] in H; try discriminate.
    destruct (queue_outgoing_entry p h (blank f0) p1 Hr E1) as (O1 & L1 & S1 & K1 & En1).
    assert (Hr1 : ps_remotes p1 <> []) by (rewrite O1; exact Hr).
    destruct (IH p1 h (f0 + 1) p' Hr1 H) as (O2 & L2 & S2 & K2 & En2).
    split; [eapply out_only_trans; eassumption|]. split; [congruence|]. split; [tauto|]. split.
    + intros f m' G. destruct (K2 f m' G) as [R|(m & G1)]; [left; lia|].
      destruct (K1 f m G1) as [R|R]; [left; cbn [blank pi_frame] in R; lia|right; exact R].
    + intros f' h'. rewrite En2, En1. cbn [blank pi_frame].
      destruct (Z.eqb_spec h' h) as [->|Hh]; rewrite ?andb_false_r, ?andb_true_r; [|reflexivity].
      destruct (Z.eqb_spec f' f0) as [->|Hf].
      * assert ((f0 + 1 <=? f0) = false) as -> by lia. assert ((f0 <=? f0) && (f0 <? f0 + Z.of_nat (S n)) = true) as -> by lia. reflexivity.
      * destruct ((f0 + 1 <=? f') && (f' <? f0 + 1 + Z.of_nat n)) eqn:E.
        -- assert ((f0 <=? f') && (f' <? f0 + Z.of_nat (S n)) = true) as -> by lia. reflexivity.
        -- assert ((f0 <=? f') && (f' <? f0 + Z.of_nat (S n)) = false) as -> by lia. reflexivity.
Qed.

Lemma hval_app_l : forall hist ext f, 0 <= f < hlen hist -> hval (hist ++ ext) f = hval hist f.
Proof. intros hist ext f H. unfold hval, hlen in *. apply app_nth1. lia. Qed.

(* one player's history grows by [ext]; exactly the new frames are queued for it *)
Lemma OI_extend : forall p p' gs h hist low ext,
  OI p gs -> In h (local_handles p) -> nth_error gs (Z.to_nat h) = Some (hist, low) ->
  local_handles p' = local_handles p -> ps_last_sent_out p' = ps_last_sent_out p ->
  keys_sorted (ps_outgoing p') ->
  (forall f m', assoc_get (ps_outgoing p') f = Some m' ->
     hlen hist <= f < hlen hist + hlen ext \/ exists m, assoc_get (ps_outgoing p) f = Some m) ->
  (forall f' h', out_entry p' f' h' =
     if (hlen hist <=? f') && (f' <? hlen hist + hlen ext) && (h' =? h) then Some (mkpi f' (hval (hist ++ ext) f')) else out_entry p f' h') ->
  OI p' (updz gs (Z.to_nat h) (hist ++ ext, low)).
Proof.
  intros p p' gs h hist low ext [A B C D F] Hin Hg El Es Hso Hk He.
  destruct (D h (hist, low) Hin Hg) as (D1 & D2). cbn [fst] in D1, D2.
  pose proof (local_handles_ge _ _ Hin) as Hh0.
  assert (Hhl : (Z.to_nat h < length gs)%nat) by (apply nth_error_Some; congruence).
  constructor.
  - exact Hso.
  - rewrite Es. exact B.
  - intros f m' G. rewrite Es. destruct (Hk f m' G) as [R|(m & R)]; [lia|eapply C; exact R].
  - intros h0 gh Hin0 Hg0. rewrite El in Hin0. rewrite Es. pose proof (local_handles_ge _ _ Hin0) as Hh00.
    destruct (Z.eq_dec h0 h) as [->|Hne].
    + rewrite nth_error_updz_same in Hg0 by exact Hhl. injection Hg0 as <-. cbn [fst].
      assert (Hla : hlen (hist ++ ext) = hlen hist + hlen ext) by (unfold hlen; rewrite app_length; lia).
      assert (0 <= hlen ext) by (unfold hlen; lia).
      split; [lia|]. intros f Hf. rewrite He, Z.eqb_refl, andb_true_r, (D2 f Hf), Hla.
      destruct (Z.ltb_spec f (hlen hist)).
      * assert ((hlen hist <=? f) = false) as -> by lia. cbn [andb].
        assert ((f <? hlen hist + hlen ext) = true) as -> by lia.
        rewrite hval_app_l by (unfold NULL in *; lia). reflexivity.
      * assert ((hlen hist <=? f) = true) as -> by lia. cbn [andb]. destruct (f <? hlen hist + hlen ext); reflexivity.
    + rewrite nth_error_updz_other in Hg0 by lia.
      destruct (D h0 gh Hin0 Hg0) as (E1 & E2). split; [exact E1|]. intros f Hf. rewrite He.
      destruct (Z.eqb_spec h0 h); [congruence|]. rewrite andb_false_r. apply E2. exact Hf.
  - intros f m' G. rewrite El.
    assert (Hla : hlen (hist ++ ext) = hlen hist + hlen ext) by (unfold hlen; rewrite app_length; lia).
    assert (0 <= hlen ext) by (unfold hlen; lia).
    destruct (Hk f m' G) as [R|(m & R)].
    + exists h, (hist ++ ext, low). split; [exact Hin|]. split; [apply nth_error_updz_same; exact Hhl|]. cbn [fst]. lia.
    + destruct (F f m R) as (h0 & gh0 & Hin0 & Hg0 & Hlt0). pose proof (local_handles_ge _ _ Hin0) as Hh00.
      destruct (Z.eq_dec h0 h) as [->|Hne].
      * rewrite Hg in Hg0. injection Hg0 as <-. cbn [fst] in Hlt0.
        exists h, (hist ++ ext, low). split; [exact Hin|]. split; [apply nth_error_updz_same; exact Hhl|]. cbn [fst]. lia.
      * exists h0, gh0. split; [exact Hin0|]. split; [rewrite nth_error_updz_other by lia; exact Hg0|exact Hlt0].
Qed.

Lemma hval_fill : forall kf v f, 0 <= f <= Z.of_nat kf -> hval (repeat 0 kf ++ [v]) f = if f =? Z.of_nat kf then v else 0.
Proof.
  intros kf v f H. unfold hval. destruct (Z.eqb_spec f (Z.of_nat kf)) as [->|Hne].
  - rewrite Nat2Z.id, app_nth2 by (rewrite repeat_length; lia). rewrite repeat_length, Nat.sub_diag. reflexivity.
  - rewrite app_nth1 by (rewrite repeat_length; lia). apply nth_repeat.
Qed.

(* the outgoing bookkeeping of one iteration of register_local_inputs *)
Lemma register_out : forall p1 p2 p4 gs h hist low kf v actual st',
  OI p1 gs -> In h (local_handles p1) -> nth_error gs (Z.to_nat h) = Some (hist, low) ->
  ps_remotes p1 <> [] -> cs_last (stat_at p1 h) = hlen hist - 1 ->
  (if cs_last (stat_at p1 h) =? NULL then queue_blanks (Z.to_nat actual) p1 h 0 else Ok p1) = Ok p2 ->
  queue_outgoing (with_status p2 st') h (mkpi actual v) = Ok p4 ->
  actual = hlen hist + Z.of_nat kf -> (hist = [] \/ kf = 0%nat) ->
  OI p4 (updz gs (Z.to_nat h) (hist ++ repeat 0 kf ++ [v], low)).
Proof.
  intros p1 p2 p4 gs h hist low kf v actual st' HOI Hin Hg Hr Hcs Eb E4 Hact Hcase.
  assert (Hb : out_only p1 p2 /\ ps_last_sent_out p2 = ps_last_sent_out p1 /\
               (keys_sorted (ps_outgoing p1) -> keys_sorted (ps_outgoing p2)) /\
               (forall f m', assoc_get (ps_outgoing p2) f = Some m' -> hlen hist <= f < actual \/ exists m, assoc_get (ps_outgoing p1) f = Some m) /\
               forall f' h', out_entry p2 f' h' = if (hlen hist <=? f') && (f' <? actual) && (h' =? h) then Some (blank f') else out_entry p1 f' h').
  { destruct (Z.eqb_spec (cs_last (stat_at p1 h)) NULL) as [En|En].
    - assert (hlen hist = 0) by (unfold NULL in *; lia).
      destruct (queue_blanks_entry _ _ _ _ _ Hr Eb) as (O & L & S & K & E).
      split; [exact O|]. split; [exact L|]. split; [exact S|]. split.
      + intros f m' G. destruct (K f m' G) as [R|R]; [left; lia|right; exact R].
      + intros f' h'. rewrite E. rewrite Z2Nat.id by lia. replace (0 + actual) with actual by lia. replace (hlen hist) with 0 by lia. reflexivity.
    - injection Eb as <-. split; [apply out_only_refl|]. split; [reflexivity|]. split; [tauto|]. split; [eauto|].
      intros f' h'. destruct Hcase as [-> | ->]; [unfold hlen, NULL in *; cbn [length] in *; lia|].
      assert ((hlen hist <=? f') && (f' <? actual) = false) as -> by lia. reflexivity. }
  destruct Hb as (O2 & L2 & S2 & K2 & En2).
  assert (Hr2 : ps_remotes (with_status p2 st') <> []) by (rewrite O2; exact Hr).
  destruct (queue_outgoing_entry _ _ _ _ Hr2 E4) as (O4 & L4 & S4 & K4 & En4). cbn [pi_frame] in K4, En4.
  assert (Hext : hlen (repeat 0 kf ++ [v]) = Z.of_nat kf + 1) by (unfold hlen; rewrite app_length, repeat_length; cbn [length]; lia).
  apply (OI_extend p1 p4 gs h hist low (repeat 0 kf ++ [v]) HOI Hin Hg).
  - rewrite O4, O2. reflexivity.
  - rewrite L4. cbn [with_status ps_last_sent_out]. exact L2.
  - apply S4. cbn [with_status ps_outgoing]. apply S2. exact (oi_sorted _ _ HOI).
  - intros f m' G. destruct (K4 f m' G) as [->|(m & R)]; [left; lia|]. cbn [with_status ps_outgoing] in R.
    destruct (K2 f m R) as [X|X]; [left; lia|right; exact X].
  - intros f' h'. rewrite En4. change (out_entry (with_status p2 st') f' h') with (out_entry p2 f' h'). rewrite En2, Hext.
    destruct (Z.eqb_spec h' h) as [->|Hh]; rewrite ?andb_false_r, ?andb_true_r; [|reflexivity].
    assert (0 <= hlen hist) by (unfold hlen; lia).
    destruct (Z.eqb_spec f' actual) as [->|Hf].
    + assert ((hlen hist <=? actual) && (actual <? hlen hist + (Z.of_nat kf + 1)) = true) as -> by lia.
      f_equal. f_equal. unfold hval. rewrite app_nth2 by (unfold hlen in *; lia).
      replace (Z.to_nat actual - length hist)%nat with kf by (unfold hlen in *; lia).
      rewrite app_nth2 by (rewrite repeat_length; lia). rewrite repeat_length, Nat.sub_diag. reflexivity.
    + destruct ((hlen hist <=? f') && (f' <? actual)) eqn:E.
      * assert ((hlen hist <=? f') && (f' <? hlen hist + (Z.of_nat kf + 1)) = true) as -> by lia.
        unfold blank. f_equal. f_equal. unfold hval. rewrite app_nth2 by (unfold hlen in *; lia).
        replace (nth (Z.to_nat f' - length hist) (repeat 0 kf ++ [v]) 0) with (hval (repeat 0 kf ++ [v]) (f' - hlen hist))
          by (unfold hval, hlen; f_equal; lia).
        rewrite hval_fill by lia. destruct (Z.eqb_spec (f' - hlen hist) (Z.of_nat kf)); [lia|reflexivity].
      * assert ((hlen hist <=? f') && (f' <? hlen hist + (Z.of_nat kf + 1)) = false) as -> by lia. reflexivity.
Qed.

(* one round of inputs sent to the remotes: a frame f and, for every local player, the value its queue holds for f *)
Definition round_ok (locals : list Z) (gs : list ghost) (f : Z) (m : list (Z * pinput)) : Prop :=
  forall h gh, In h locals -> nth_error gs (Z.to_nat h) = Some gh ->
    f < hlen (fst gh) /\ assoc_get m h = Some (mkpi f (hval (fst gh) f)).
Definition rounds_ok (locals : list Z) (gs : list ghost) (rounds : list (list (Z * pinput))) : Prop :=
  Forall (fun m => exists f, 0 <= f /\ round_ok locals gs f m) rounds.

Lemma complete_spec : forall locals m, complete locals m = true <-> forall h, In h locals -> exists i, assoc_get m h = Some i.
Proof.
  intros locals m. unfold complete. rewrite forallb_forall. split; intros H h Hin; specialize (H h Hin).
  - destruct (assoc_get m h); [eauto|discriminate].
  - destruct H as (i & ->). reflexivity.
Qed.

Lemma next_complete_spec : forall p gs f, OI p gs -> local_handles p <> [] ->
  (forall h, In h (local_handles p) -> exists gh, nth_error gs (Z.to_nat h) = Some gh) ->
  next_complete p (local_handles p) = Some f ->
  f = ps_last_sent_out p + 1 /\ exists m, assoc_get (ps_outgoing p) f = Some m /\ complete (local_handles p) m = true.
Proof.
  intros p gs f [A B C D F0] Hne Hgs En.
  unfold next_complete in En. destruct (Z.eqb_spec (ps_last_sent_out p) NULL) as [E0|E0].
  - destruct (find _ _) as [[f0 m0]|] eqn:Ef; [|discriminate]. injection En as ->.
    destruct (find_first_sorted _ _ _ _ A Ef) as (G1 & G2 & G3). cbn [snd] in G2.
    split; [|eauto]. pose proof (C _ _ G1) as Hlt.
    destruct (Z.eq_dec f 0) as [->|Hnz]; [unfold NULL in *; lia|exfalso].
    assert (exists h0, In h0 (local_handles p)) as (h0 & Hin0) by (destruct (local_handles p); [congruence|eexists; left; reflexivity]).
    (* frame 0 is queued for every local player too *)
    assert (H0 : forall h, In h (local_handles p) -> out_entry p 0 h <> None).
    { intros h Hin. destruct (Hgs h Hin) as (gh & Hg). destruct (D h gh Hin Hg) as (_ & D2).
      rewrite (D2 0) by (unfold NULL in *; lia).
      rewrite complete_spec in G2. destruct (G2 h Hin) as (i & Gi).
      pose proof (D2 f Hlt) as X. unfold out_entry in X. rewrite G1, Gi in X.
      destruct (Z.ltb_spec f (hlen (fst gh))); [|discriminate].
      assert ((0 <? hlen (fst gh)) = true) as -> by (unfold NULL in *; lia). discriminate. }
    pose proof (H0 h0 Hin0) as X. unfold out_entry in X.
    destruct (assoc_get (ps_outgoing p) 0) as [m'|] eqn:G0; [|congruence].
    assert (Hc : complete (local_handles p) (snd (0, m')) = true).
    { cbn [snd]. rewrite complete_spec. intros h Hin. specialize (H0 h Hin). unfold out_entry in H0. rewrite G0 in H0.
      destruct (assoc_get m' h); [eauto|congruence]. }
    rewrite (G3 0 m' ltac:(unfold NULL in *; lia) G0) in Hc. discriminate.
  - destruct (assoc_get (ps_outgoing p) (ps_last_sent_out p + 1)) as [m0|] eqn:G1; [|discriminate].
    destruct (complete (local_handles p) m0) eqn:Ec; [|discriminate]. injection En as <-. split; [reflexivity|eauto].
Qed.

(* one round leaves: the invariant for the state after it, and what the round carries *)
Lemma OI_sent_one : forall p gs f m, OI p gs -> f = ps_last_sent_out p + 1 ->
  assoc_get (ps_outgoing p) f = Some m -> complete (local_handles p) m = true ->
  round_ok (local_handles p) gs f m /\ OI (with_outgoing p (assoc_del (ps_outgoing p) f) f) gs.
Proof.
  intros p gs f m [A B C D F0] Hf Gm Hcm.
  assert (Hround : round_ok (local_handles p) gs f m).
  { intros h gh Hin Hg. destruct (D h gh Hin Hg) as (_ & D2). pose proof (D2 f ltac:(lia)) as X. unfold out_entry in X. rewrite Gm in X.
    rewrite complete_spec in Hcm. destruct (Hcm h Hin) as (i & Gi). rewrite Gi in X.
    destruct (Z.ltb_spec f (hlen (fst gh))); [|discriminate]. split; [assumption|]. rewrite Gi. exact X. }
  split; [exact Hround|].
  constructor; cbn [with_outgoing ps_outgoing ps_last_sent_out].
  - apply assoc_del_sorted. exact A.
  - lia.
  - intros f' m' G. rewrite assoc_get_del in G by exact A. destruct (Z.eqb_spec f f'); [discriminate|]. pose proof (C _ _ G). lia.
  - intros h gh Hin Hg. change (local_handles (with_outgoing p (assoc_del (ps_outgoing p) f) f)) with (local_handles p) in Hin.
    destruct (Hround h gh Hin Hg) as (R1 & _). split; [exact R1|].
    intros f' Hf'. destruct (D h gh Hin Hg) as (_ & D2). rewrite <- (D2 f') by lia.
    unfold out_entry. cbn [with_outgoing ps_outgoing]. rewrite assoc_get_del by exact A.
    destruct (Z.eqb_spec f f'); [lia|reflexivity].
  - intros f' m' G. rewrite assoc_get_del in G by exact A. destruct (Z.eqb_spec f f'); [discriminate|]. exact (F0 _ _ G).
Qed.

Lemma send_ready_go_out : forall n p o p' o' gs,
  send_ready_go n p (local_handles p) o = Ok (p', o') -> OI p gs -> local_handles p <> [] ->
  (forall h, In h (local_handles p) -> exists gh, nth_error gs (Z.to_nat h) = Some gh) ->
  OI p' gs /\ out_only p p' /\ exists rounds, o_remote_sends o' = o_remote_sends o ++ rounds /\ o_requests o' = o_requests o /\
    o_spec_sends o' = o_spec_sends o /\ rounds_ok (local_handles p) gs rounds.
Proof.
  induction n as [|n IH]; intros p o p' o' gs H HOI Hne Hgs; cbn [send_ready_go] in H.
  - injection H as <- <-. split; [exact HOI|]. split; [apply out_only_refl|]. exists []. rewrite app_nil_r. repeat split. constructor.
  - destruct (next_complete p (local_handles p)) as [f|] eqn:En.
    2:{ injection H as <- <-. split; [exact HOI|]. split; [apply out_only_refl|]. exists []. rewrite app_nil_r. repeat split. constructor. }
    destruct (next_complete_spec p gs f HOI Hne Hgs En) as (Hf & m & Gm & Hcm). rewrite Gm in H.
    destruct (OI_sent_one p gs f m HOI Hf Gm Hcm) as (Hround & HOI1).
    set (p1 := with_outgoing p (assoc_del (ps_outgoing p) f) f) in *.
    set (o1 := if existsb ev_running (ps_remotes p) then add_rsend o m else o) in *.
    change (local_handles p) with (local_handles p1) in H.
    destruct (IH p1 o1 p' o' gs H HOI1 Hne Hgs) as (HOI' & Oo & rounds & R1 & R2 & R3 & R4).
    split; [exact HOI'|]. split; [eapply out_only_trans; [apply out_only_with|exact Oo]|].
    subst o1. destruct (existsb ev_running (ps_remotes p)).
    + exists (m :: rounds). cbn [add_rsend o_remote_sends o_requests o_spec_sends] in R1, R2, R3.
      rewrite R1, <- app_assoc. split; [reflexivity|]. split; [exact R2|]. split; [exact R3|].
      constructor; [|exact R4]. exists f. split; [pose proof (oi_last _ _ HOI); unfold NULL in *; lia|exact Hround].
    + exists rounds. split; [exact R1|]. split; [exact R2|]. split; [exact R3|exact R4].
Qed.

Lemma assoc_del_length {A} : forall (l : list (Z * A)) k m, assoc_get l k = Some m -> length l = S (length (assoc_del l k)).
Proof.
  induction l as [|[k0 v0] l IH]; intros k m H; cbn [assoc_get assoc_del] in *; [discriminate|].
  destruct (k0 =? k); [reflexivity|]. cbn [length]. f_equal. eapply IH. exact H.
Qed.
Lemma assoc_get_In {A} : forall (l : list (Z * A)) k m, assoc_get l k = Some m -> In (k, m) l.
Proof.
  induction l as [|[k0 v0] l IH]; intros k m H; cbn [assoc_get] in H; [discriminate|].
  destruct (Z.eqb_spec k0 k) as [->|Hne]; [injection H as ->; left; reflexivity|right; apply IH; exact H].
Qed.

(* with enough fuel, and every local player holding the same number of frames H, the loop sends everything:
   nothing is left queued and the last frame sent is H - 1 *)
Lemma send_ready_go_done : forall n p o p' o' gs H,
  send_ready_go n p (local_handles p) o = Ok (p', o') -> OI p gs -> local_handles p <> [] ->
  (forall h, In h (local_handles p) -> exists gh, nth_error gs (Z.to_nat h) = Some gh) ->
  (length (ps_outgoing p) < n)%nat ->
  (forall h gh, In h (local_handles p) -> nth_error gs (Z.to_nat h) = Some gh -> hlen (fst gh) = H) ->
  ps_outgoing p' = [] /\ ps_last_sent_out p' = H - 1.
Proof.
  induction n as [|n IH]; intros p o p' o' gs H E HOI Hne Hgs Hfuel Hall; [lia|]. cbn [send_ready_go] in E.
  destruct (next_complete p (local_handles p)) as [f|] eqn:En.
  - destruct (next_complete_spec p gs f HOI Hne Hgs En) as (Hf & m & Gm & Hcm). rewrite Gm in E.
    destruct (OI_sent_one p gs f m HOI Hf Gm Hcm) as (_ & HOI1).
    set (p1 := with_outgoing p (assoc_del (ps_outgoing p) f) f) in *.
    change (local_handles p) with (local_handles p1) in E.
    apply (IH p1 _ p' o' gs H E HOI1 Hne Hgs); [|exact Hall].
    subst p1. cbn [with_outgoing ps_outgoing]. rewrite (assoc_del_length _ _ _ Gm) in Hfuel. lia.
  - injection E as <- <-. pose proof HOI as [A B C D F0].
    assert (exists h0, In h0 (local_handles p)) as (h0 & Hin0) by (destruct (local_handles p); [congruence|eexists; left; reflexivity]).
    destruct (Hgs h0 Hin0) as (gh0 & Hg0). destruct (D h0 gh0 Hin0 Hg0) as (Hlt0 & _). rewrite (Hall h0 gh0 Hin0 Hg0) in Hlt0.
    assert (HS : ps_last_sent_out p = H - 1).
    { destruct (Z.eq_dec (ps_last_sent_out p) (H - 1)) as [X|X]; [exact X|exfalso].
      set (f1 := ps_last_sent_out p + 1) in *.
      assert (H1 : forall h, In h (local_handles p) -> out_entry p f1 h <> None).
      { intros h Hin. destruct (Hgs h Hin) as (gh & Hg). destruct (D h gh Hin Hg) as (_ & D2).
        rewrite (D2 f1) by (subst f1; lia). rewrite (Hall h gh Hin Hg).
        assert ((f1 <? H) = true) as -> by (subst f1; lia). discriminate. }
      pose proof (H1 h0 Hin0) as Y. unfold out_entry in Y.
      destruct (assoc_get (ps_outgoing p) f1) as [m1|] eqn:G1; [|congruence].
      assert (Hc : complete (local_handles p) m1 = true).
      { rewrite complete_spec. intros h Hin. specialize (H1 h Hin). unfold out_entry in H1. rewrite G1 in H1.
        destruct (assoc_get m1 h); [eauto|congruence]. }
      unfold next_complete in En. destruct (Z.eqb_spec (ps_last_sent_out p) NULL) as [E0|E0].
      - destruct (find _ _) as [[f0 m0]|] eqn:Ef; [discriminate|].
        pose proof (find_none _ _ Ef (f1, m1) (assoc_get_In _ _ _ G1)) as Z0. cbn [snd] in Z0. congruence.
      - fold f1 in En. rewrite G1, Hc in En. discriminate. }
    split; [|exact HS].
    destruct (ps_outgoing p) as [|[k m] rest] eqn:Eo; [reflexivity|exfalso].
    assert (Gk : assoc_get ((k, m) :: rest) k = Some m) by (cbn [assoc_get]; rewrite Z.eqb_refl; reflexivity).
    pose proof (C _ _ Gk). destruct (F0 _ _ Gk) as (h & gh & Hin & Hg & Hlt). rewrite (Hall h gh Hin Hg) in Hlt. lia.
Qed.

(* ---------- register_local_inputs ---------- *)
Lemma Forall_updz {A} (P : A -> Prop) : forall l i x, Forall P l -> P x -> Forall P (updz l i x).
Proof. induction l as [|y l IH]; intros [|i] x H Hx; inversion H; subst; cbn [updz]; constructor; auto. Qed.

Lemma hlen_fill : forall hist x n v, hlen (hist ++ repeat x n ++ [v]) = hlen hist + Z.of_nat n + 1.
Proof. intros. unfold hlen. rewrite !app_length, repeat_length. cbn. lia. Qed.

Lemma with_queues_self : forall s, with_queues s (s_queues s) = s.
Proof. destruct s; reflexivity. Qed.

(* a local insertion into a queue that is not predicting keeps the per-queue invariant *)
Lemma qi_local_add : forall c L q hist low q' hist',
  QI c L q hist low -> pi_frame (q_pred q) = NULL -> q_first_incorrect q = NULL ->
  RInv q' hist' low -> q_last_requested q' = q_last_requested q ->
  q_first_incorrect q' = q_first_incorrect q -> q_pred q' = q_pred q -> hlen hist <= hlen hist' ->
  QI c L q' hist' low.
Proof.
  intros c L q hist low q' hist' [I P1 P2 P4 Rq Lw Cf] Hp Hf I' R' F' P' Hle.
  constructor; rewrite ?R', ?F', ?P'.
  - exact I'.
  - left. exact Hp.
  - intros A. congruence.
  - intros A. congruence.
  - exact Rq.
  - exact Lw.
  - lia.
Qed.

Definition Done (c d : Z) (qs : list queue) (gs : list ghost) (h : Z) : Prop :=
  forall q gh, nth_error qs (Z.to_nat h) = Some q -> nth_error gs (Z.to_nat h) = Some gh ->
    hlen (fst gh) = c + d + 1 /\ q_last_user q = c.

(* how a queue and its history may change while the local inputs are registered: not at all, or -
   for a queue that is not predicting and already reaches the current frame - by appended inputs *)
Definition grows (c : Z) (q : queue) (hist : list Z) (q' : queue) (hist' : list Z) : Prop :=
  q_first_incorrect q' = q_first_incorrect q /\ (q_pred q' = q_pred q /\ q_last_requested q' = q_last_requested q) /\
  (hist' = hist \/ (c <= hlen hist /\ pi_frame (q_pred q) = NULL /\ q_first_incorrect q = NULL /\
                    exists ext, hist' = hist ++ ext)).
Definition grows_all (c : Z) (qs : list queue) (gs : list ghost) (qs' : list queue) (gs' : list ghost) : Prop :=
  forall h q' gh', nth_error qs' h = Some q' -> nth_error gs' h = Some gh' ->
    exists q gh, nth_error qs h = Some q /\ nth_error gs h = Some gh /\ grows c q (fst gh) q' (fst gh').
Lemma grows_all_refl : forall c qs gs, grows_all c qs gs qs gs.
Proof. intros c qs gs h q gh A B. exists q, gh. split; [exact A|]. split; [exact B|]. split; [reflexivity|]. split; [split; reflexivity|left; reflexivity]. Qed.
Lemma grows_all_trans : forall c a ga b gb e ge, grows_all c a ga b gb -> grows_all c b gb e ge -> grows_all c a ga e ge.
Proof.
  intros c a ga b gb e ge H1 H2 h q' gh' A B.
  destruct (H2 h q' gh' A B) as (q1 & gh1 & A1 & B1 & (F1 & (P1 & R1) & G1)).
  destruct (H1 h q1 gh1 A1 B1) as (q0 & gh0 & A0 & B0 & (F0 & (P0 & R0) & G0)).
  exists q0, gh0. split; [exact A0|]. split; [exact B0|]. split; [congruence|]. split; [split; congruence|].
  destruct G0 as [G0|(X1 & X2 & X3 & ext0 & X4)].
  - rewrite <- G0. destruct G1 as [G1|(Y1 & Y2 & Y3 & Y4)]; [left; exact G1|right]. rewrite <- P0, <- F0. repeat split; assumption.
  - right. split; [exact X1|]. split; [exact X2|]. split; [exact X3|].
    destruct G1 as [G1|(_ & _ & _ & ext1 & Y4)]; [exists ext0; congruence|].
    exists (ext0 ++ ext1). rewrite Y4, X4, app_assoc. reflexivity.
Qed.

(* exactly how the histories change while the local inputs are registered: the history of a handle in
   [touched] may get that handle's pending input appended - after [k] copies of the blank input when
   it is the player's very first input (the input delay) *)
Definition hist_step (d : Z) (pending : list (Z * pinput)) (touched : list Z) (gs gs' : list ghost) : Prop :=
  forall h0 gh', nth_error gs' h0 = Some gh' -> exists gh, nth_error gs h0 = Some gh /\
    (fst gh' = fst gh \/
     (In (Z.of_nat h0) touched /\ exists pi k, assoc_get pending (Z.of_nat h0) = Some pi /\
        fst gh' = fst gh ++ repeat 0 k ++ [pi_val pi] /\ ((fst gh = [] /\ k = Z.to_nat d) \/ k = 0%nat))).
Lemma hist_step_refl : forall d pend t gs, hist_step d pend t gs gs.
Proof. intros d pend t gs h0 gh' H. exists gh'. split; [exact H|left; reflexivity]. Qed.
Lemma hist_step_cons : forall d pend h r gs gs1 gs',
  hist_step d pend [h] gs gs1 -> hist_step d pend r gs1 gs' -> ~ In h r -> hist_step d pend (h :: r) gs gs'.
Proof.
  intros d pend h r gs gs1 gs' H1 H2 Hn h0 gh' A.
  destruct (H2 h0 gh' A) as (gh1 & A1 & B1). destruct (H1 h0 gh1 A1) as (gh & A0 & B0).
  exists gh. split; [exact A0|].
  destruct B1 as [B1|(I1 & pi & k & X1 & X2 & X3)].
  - rewrite B1. destruct B0 as [B0|(I0 & Y)]; [left; exact B0|right; split; [|exact Y]].
    destruct I0 as [<-|[]]. left. reflexivity.
  - destruct B0 as [B0|([I0|[]] & _)].
    + right. split; [right; exact I1|]. exists pi, k. rewrite <- B0. split; [exact X1|]. split; [exact X2|exact X3].
    + exfalso. apply Hn. rewrite I0. exact I1.
Qed.

(* the part of an iteration after the sync layer accepted the input for frame c + d *)
Lemma register_tail : forall sp w d p gs h v r q q' hist hist' low,
  QSg sp w d p gs -> all_clean (s_queues (ps_sync p)) ->
  0 <= h -> nth_error (ps_kinds p) (Z.to_nat h) = Some KLocal ->
  nth_error (s_queues (ps_sync p)) (Z.to_nat h) = Some q -> nth_error gs (Z.to_nat h) = Some (hist, low) ->
  pi_frame (q_pred q) = NULL -> q_first_incorrect q = NULL ->
  RInv q' hist' low -> q_delay q' = q_delay q -> q_last_user q' = s_current (ps_sync p) ->
  q_last_requested q' = q_last_requested q -> q_first_incorrect q' = q_first_incorrect q -> q_pred q' = q_pred q ->
  hlen hist' = s_current (ps_sync p) + d + 1 -> hlen hist <= hlen hist' ->
  s_current (ps_sync p) <= hlen hist ->
  forall (pi : pinput) (kf : nat), assoc_get (ps_pending p) h = Some pi -> v = pi_val pi ->
  hist' = hist ++ repeat 0 kf ++ [v] -> ((hist = [] /\ kf = Z.to_nat d) \/ kf = 0%nat) ->
  let p1 := with_sync p (with_queues (ps_sync p) (updz (s_queues (ps_sync p)) (Z.to_nat h) q')) in
  let actual := s_current (ps_sync p) + d in
  exists p' gs',
    res_bind (if cs_last (stat_at p1 h) =? NULL then queue_blanks (Z.to_nat actual) p1 h 0 else Ok p1)
      (fun p2 => res_bind (queue_outgoing (with_status p2 (set_stat (ps_status p2) h (mkcs (cs_disc (stat_at p2 h)) actual)))
                                          h (mkpi actual v))
                          (fun p4 => register_go p4 r)) = register_go p' r /\
    QSg sp w d p' gs' /\ all_clean (s_queues (ps_sync p')) /\ p_rest p p' /\
    s_current (ps_sync p') = s_current (ps_sync p) /\ s_last_confirmed (ps_sync p') = s_last_confirmed (ps_sync p) /\
    Done (s_current (ps_sync p)) d (s_queues (ps_sync p')) gs' h /\
    (forall h', h' <> h -> 0 <= h' -> Done (s_current (ps_sync p)) d (s_queues (ps_sync p)) gs h' ->
                Done (s_current (ps_sync p)) d (s_queues (ps_sync p')) gs' h') /\
    grows_all (s_current (ps_sync p)) (s_queues (ps_sync p)) gs (s_queues (ps_sync p')) gs' /\
    hist_step d (ps_pending p) [h] gs gs' /\ (OIg p gs -> OIg p' gs').
Proof.
  intros sp w d p gs h v r q q' hist hist' low HQS Hcl Hh Hk Eq Eg Hpn Hfq I' D' U' R' F' P' Hlen' Hle Hreach pi kf Hpi Hv Hext Hkk p1 actual.
  pose proof HQS as [Hw Hd Hmode Hn Hconn Hgos HQ Hlast Hfr Hkinds Hpe Hsok].
  set (c := s_current (ps_sync p)) in *. set (L := s_last_confirmed (ps_sync p)) in *.
  pose proof (QsI_length _ _ _ _ HQ) as Hlq.
  destruct Hn as (Hn1 & Hn2 & Hn3 & Hn4).
  assert (Hhl : (Z.to_nat h < length gs)%nat).
  { assert (nth_error (ps_kinds p) (Z.to_nat h) <> None) as A by congruence. apply nth_error_Some in A. lia. }
  pose proof (Forall2_nth _ _ _ _ _ _ HQ Eq Eg) as Hqi. cbn [fst snd] in Hqi.
  assert (Hact : actual <> NULL) by (subst actual; unfold NULL; lia).
  (* the blanks *)
  assert (Hb : exists p2, (if cs_last (stat_at p1 h) =? NULL then queue_blanks (Z.to_nat actual) p1 h 0 else Ok p1) = Ok p2 /\ out_only p1 p2).
  { destruct (cs_last (stat_at p1 h) =? NULL).
    - apply queue_blanks_ok. lia.
    - exists p1. split; [reflexivity|apply out_only_refl]. }
  destruct Hb as (p2 & Eb & O2). rewrite Eb. cbn [res_bind].
  set (st' := set_stat (ps_status p2) h (mkcs (cs_disc (stat_at p2 h)) actual)).
  destruct (queue_outgoing_ok (with_status p2 st') h (mkpi actual v)) as (p4 & E4 & O4); [exact Hact|].
  rewrite E4. cbn [res_bind].
  set (gs' := updz gs (Z.to_nat h) (hist', low)).
  exists p4, gs'. split; [reflexivity|].
  (* the state before the outgoing bookkeeping *)
  set (stA := set_stat (ps_status p) h (mkcs false actual)).
  set (pA := with_status p1 stA).
  assert (Hst2 : ps_status p2 = ps_status p) by (rewrite O2; reflexivity).
  assert (Hdisc : cs_disc (stat_at p2 h) = false).
  { unfold stat_at. rewrite Hst2. apply nth_connected. exact Hconn. }
  assert (HpA : with_status p2 st' = with_outgoing pA (ps_outgoing p2) (ps_last_sent_out p2)).
  { subst st' pA stA. rewrite Hdisc, Hst2. rewrite O2. subst p1. reflexivity. }
  assert (HQA : QSg sp w d pA gs').
  { subst pA p1 stA gs'. constructor;
      cbn [with_status with_sync with_queues ps_maxpred ps_sync ps_running ps_sparse ps_spectators ps_disc_frame ps_nplayers
           ps_kinds ps_status ps_remotes ps_pending s_maxpred s_current s_last_confirmed s_queues].
    - exact Hw.
    - exact Hd.
    - exact Hmode.
    - rewrite updz_length. unfold set_stat. rewrite updz_length. repeat split; assumption.
    - unfold set_stat. apply Forall_updz; [exact Hconn|reflexivity].
    - exact Hgos.
    - apply Forall2_updz2; [exact HQ|]. cbn [fst snd].
      eapply qi_local_add; eassumption.
    - unfold set_stat. apply Forall2_updz2; [exact Hlast|]. cbn [cs_last fst]. subst actual. lia.
    - exact Hfr.
    - intros h0 k q0 gh0 A B C.
      destruct (Nat.eq_dec (Z.to_nat h) h0) as [Eh|Eh].
      + subst h0. rewrite nth_error_updz_same in B by lia. rewrite nth_error_updz_same in C by lia.
        injection B as <-. injection C as <-. rewrite Hk in A. injection A as <-.
        cbn [KI fst].
        pose proof (Hkinds _ _ _ _ Hk Eq Eg) as Hki. cbn [KI] in Hki. destruct Hki as (Hdel & _ & _).
        split; [congruence|]. split; [congruence|]. right. right. split; [exact Hlen'|exact U'].
      + rewrite nth_error_updz_other in B by exact Eh. rewrite nth_error_updz_other in C by exact Eh.
        exact (Hkinds _ _ _ _ A B C).
    - exact Hpe.
    - eapply spec_ok_grow; [exact Hsok|reflexivity|reflexivity|reflexivity|]. eapply grow_updz; eassumption. }
  assert (HQ4 : QSg sp w d p4 gs').
  { eapply QS_out_only; [|exact O4]. rewrite HpA. apply QS_outgoing. exact HQA. }
  assert (Hs4 : ps_sync p4 = with_queues (ps_sync p) (updz (s_queues (ps_sync p)) (Z.to_nat h) q')).
  { rewrite O4. cbn [with_outgoing ps_sync]. rewrite HpA. reflexivity. }
  split; [exact HQ4|].
  split.
  { rewrite Hs4. cbn [with_queues s_queues]. apply Forall_updz; [exact Hcl|congruence]. }
  split.
  { rewrite O4, HpA. subst pA p1. unfold p_rest. cbn. repeat split. }
  split; [rewrite Hs4; reflexivity|]. split; [rewrite Hs4; reflexivity|].
  split; [|split; [|split; [|split]]].
  - intros q0 gh0 B C. rewrite Hs4 in B. cbn [with_queues s_queues] in B. subst gs'.
    rewrite nth_error_updz_same in B by lia. rewrite nth_error_updz_same in C by lia.
    injection B as <-. injection C as <-. cbn [fst]. split; [exact Hlen'|exact U'].
  - intros h' Hne Hh' Hdone q0 gh0 B C. rewrite Hs4 in B. cbn [with_queues s_queues] in B. subst gs'.
    assert (Z.to_nat h <> Z.to_nat h') by lia.
    rewrite nth_error_updz_other in B by assumption. rewrite nth_error_updz_other in C by assumption.
    exact (Hdone q0 gh0 B C).
  - intros h0 q0 gh0 B C. rewrite Hs4 in B. cbn [with_queues s_queues] in B. subst gs'.
    destruct (Nat.eq_dec (Z.to_nat h) h0) as [Eh|Eh].
    + subst h0. rewrite nth_error_updz_same in B by lia. rewrite nth_error_updz_same in C by lia.
      injection B as <-. injection C as <-. exists q, (hist, low). split; [exact Eq|]. split; [exact Eg|].
      cbn [fst]. split; [exact F'|]. split; [split; [exact P'|exact R']|]. right. split; [exact Hreach|]. split; [exact Hpn|]. split; [exact Hfq|]. eexists. exact Hext.
    + rewrite nth_error_updz_other in B by exact Eh. rewrite nth_error_updz_other in C by exact Eh.
      exists q0, gh0. split; [exact B|]. split; [exact C|]. split; [reflexivity|]. split; [split; reflexivity|left; reflexivity].
  - intros h0 gh0 C. subst gs'.
    destruct (Nat.eq_dec (Z.to_nat h) h0) as [Eh|Eh].
    + subst h0. rewrite nth_error_updz_same in C by lia. injection C as <-. exists (hist, low). split; [exact Eg|].
      right. split; [left; lia|]. exists pi, kf. rewrite Z2Nat.id by lia. cbn [fst]. split; [exact Hpi|]. split; [rewrite <- Hv; exact Hext|exact Hkk].
    + rewrite nth_error_updz_other in C by exact Eh. exists gh0. split; [exact C|left; reflexivity].
  - (* the outgoing bookkeeping *)
    intros HO Hr4.
    assert (Hr : ps_remotes p <> []) by (rewrite O4, HpA in Hr4; exact Hr4).
    specialize (HO Hr). subst gs'. rewrite Hext.
    assert (Hnp : ps_nplayers p = Z.of_nat (length (ps_kinds p))) by lia.
    assert (Hinl : In h (local_handles p)).
    { apply (local_handles_spec p h Hnp). split; [|exact Hk]. lia. }
    destruct (nth_error (ps_status p) (Z.to_nat h)) as [sth|] eqn:Est; [|apply nth_error_None in Est; lia].
    pose proof (Forall2_nth _ _ _ _ _ _ Hlast Est Eg) as Hcl0. cbn [fst] in Hcl0.
    apply (register_out p1 p2 p4 gs h hist low kf v actual st').
    + eapply OI_same; [exact HO|reflexivity|reflexivity|reflexivity|reflexivity].
    + exact Hinl.
    + exact Eg.
    + exact Hr.
    + unfold stat_at. subst p1. cbn [with_sync ps_status]. erewrite nth_error_nth; [|exact Est]. exact Hcl0.
    + exact Eb.
    + exact E4.
    + rewrite Hext, hlen_fill in Hlen'. subst actual. fold c. lia.
    + destruct Hkk as [(-> & _)| ->]; [left; reflexivity|right; reflexivity].
Qed.

(* one iteration of register_local_inputs for a local handle with a pending input *)
Lemma register_step : forall sp w d p gs h pi r,
  QSg sp w d p gs -> all_clean (s_queues (ps_sync p)) ->
  0 <= h -> nth_error (ps_kinds p) (Z.to_nat h) = Some KLocal ->
  assoc_get (ps_pending p) h = Some pi ->
  exists p' gs', register_go p (h :: r) = register_go p' r /\
    QSg sp w d p' gs' /\ all_clean (s_queues (ps_sync p')) /\ p_rest p p' /\
    s_current (ps_sync p') = s_current (ps_sync p) /\ s_last_confirmed (ps_sync p') = s_last_confirmed (ps_sync p) /\
    Done (s_current (ps_sync p)) d (s_queues (ps_sync p')) gs' h /\
    (forall h', h' <> h -> 0 <= h' -> Done (s_current (ps_sync p)) d (s_queues (ps_sync p)) gs h' ->
                Done (s_current (ps_sync p)) d (s_queues (ps_sync p')) gs' h') /\
    grows_all (s_current (ps_sync p)) (s_queues (ps_sync p)) gs (s_queues (ps_sync p')) gs' /\
    hist_step d (ps_pending p) [h] gs gs' /\ (OIg p gs -> OIg p' gs').
Proof.
  intros sp w d p gs h pi r HQS Hcl Hh Hk Hpend.
  pose proof HQS as [Hw Hd Hmode Hn Hconn Hgos HQ Hlast Hfr Hkinds Hpe].
  set (c := s_current (ps_sync p)) in *. set (L := s_last_confirmed (ps_sync p)) in *.
  pose proof (QsI_length _ _ _ _ HQ) as Hlq.
  destruct Hn as (Hn1 & Hn2 & Hn3 & Hn4).
  assert (Hhl : (Z.to_nat h < length gs)%nat).
  { assert (nth_error (ps_kinds p) (Z.to_nat h) <> None) as A by congruence. apply nth_error_Some in A. lia. }
  destruct (nth_error (s_queues (ps_sync p)) (Z.to_nat h)) as [q|] eqn:Eq;
    [|apply nth_error_None in Eq; lia].
  destruct (nth_error gs (Z.to_nat h)) as [gh|] eqn:Eg; [|apply nth_error_None in Eg; lia].
  pose proof (Forall2_nth _ _ _ _ _ _ HQ Eq Eg) as Hqi. cbv beta in Hqi.
  pose proof (Hkinds _ _ _ _ Hk Eq Eg) as Hki. cbn [KI] in Hki. destruct Hki as (Hdel & Hpn & Hform).
  assert (Hfq : q_first_incorrect q = NULL).
  { unfold all_clean in Hcl. rewrite Forall_forall in Hcl. apply Hcl. eapply nth_error_In. exact Eq. }
  pose proof (Hpe _ _ Hpend) as Hpf. fold c in Hpf.
  cbn [register_go]. rewrite Hpend. unfold add_local_input. rewrite Hpf. fold c. rewrite Z.eqb_refl. cbn [negb].
  assert (((h <? 0) || (Z.of_nat (length (s_queues (ps_sync p))) <=? h)) = false) as -> by lia.
  assert (Hqn : qnth (ps_sync p) h = q).
  { unfold qnth. erewrite nth_error_nth; [reflexivity|exact Eq]. }
  rewrite Hqn.
  destruct gh as [hist low]. cbn [fst snd] in *.
  pose proof (qi_ring _ _ _ _ _ Hqi) as I.
  assert (Hc0 : 0 <= c) by lia.
  destruct Hform as [(Hh0 & Hlu & Hcz)|[(Hhl2 & Hlu & Hc1)|(Hhl3 & Hlu)]].
  - (* first input: d fills then the input *)
    subst hist.
    destruct (add_input_ok q [] low c (pi_val pi) I Hpn ltac:(lia) (or_introl Hlu) Hc0) as [_ Hadd].
    destruct (ri_low _ _ _ I) as (_ & _ & Hlow0). specialize (Hlow0 eq_refl). subst low.
    pose proof QLEN_pos as HQL.
    destruct Hadd as (q' & Ea & I' & D' & U' & R' & F' & P'); [unfold hlen; cbn; lia|unfold hlen; cbn; lia|].
    rewrite Ea. cbn [res_bind]. rewrite Hdel.
    assert ((c + d =? NULL) = false) as -> by (unfold NULL; lia).
    assert (Hx : [] ++ repeat (hlast []) (Z.to_nat (c + q_delay q - hlen [])) ++ [pi_val pi] = [] ++ repeat 0 (Z.to_nat d) ++ [pi_val pi]).
    { rewrite Hcz, Hdel. unfold hlen, hlast. cbn [length Z.of_nat last]. replace (0 + d - 0) with d by lia. reflexivity. }
    rewrite Hx in I'.
    apply (register_tail sp w d p gs h (pi_val pi) r q q' [] ([] ++ repeat 0 (Z.to_nat d) ++ [pi_val pi]) 0 HQS Hcl Hh Hk Eq Eg Hpn Hfq I' D'
             ltac:(fold c; exact U') R' F' P'
             ltac:(fold c; rewrite hlen_fill; unfold hlen; cbn [length]; lia)
             ltac:(rewrite hlen_fill; unfold hlen; cbn [length]; lia)
             ltac:(fold c; unfold hlen; cbn [length]; lia)
             pi (Z.to_nat d) Hpend eq_refl eq_refl (or_introl (conj eq_refl eq_refl))).
  - (* the queue is exactly up to date: the input goes to frame c + d *)
    assert (Hs : q_last_user q = NULL \/ c = q_last_user q + 1) by (right; lia).
    destruct (add_input_ok q hist low c (pi_val pi) I Hpn ltac:(lia) Hs Hc0) as [_ Hadd].
    destruct (qi_low _ _ _ _ _ Hqi) as (Lw1 & Lw2).
    destruct (ri_low _ _ _ I) as (Hl0 & _ & _).
    destruct Hadd as (q' & Ea & I' & D' & U' & R' & F' & P'); [lia|lia|].
    rewrite Ea. cbn [res_bind]. rewrite Hdel.
    assert ((c + d =? NULL) = false) as -> by (unfold NULL; lia).
    assert (Hx : hist ++ repeat (hlast hist) (Z.to_nat (c + q_delay q - hlen hist)) ++ [pi_val pi] = hist ++ repeat 0 0 ++ [pi_val pi]).
    { rewrite Hdel, Hhl2. replace (c + d - (c + d)) with 0 by lia. reflexivity. }
    rewrite Hx in I'.
    apply (register_tail sp w d p gs h (pi_val pi) r q q' hist (hist ++ repeat 0 0 ++ [pi_val pi]) low HQS Hcl Hh Hk Eq Eg Hpn Hfq I' D'
             ltac:(fold c; exact U') R' F' P'
             ltac:(fold c; rewrite hlen_fill; cbn [Z.of_nat]; lia)
             ltac:(rewrite hlen_fill; lia)
             ltac:(fold c; lia)
             pi 0%nat Hpend eq_refl eq_refl (or_intror eq_refl)).
  - (* the input for this frame was registered by an earlier call that stalled: dropped *)
    unfold add_input. rewrite Hlu.
    assert ((negb (c =? NULL) && negb (c =? c + 1)) = true) as -> by (unfold NULL; lia).
    cbn [res_bind]. rewrite Z.eqb_refl.
    rewrite (updz_same _ _ _ Eq), with_queues_self, with_sync_self.
    exists p, gs. split; [reflexivity|]. split; [exact HQS|]. split; [exact Hcl|]. split; [apply p_rest_refl|].
    split; [reflexivity|]. split; [reflexivity|]. split; [|split].
    + intros q0 gh0 B C. rewrite Eq in B. rewrite Eg in C. injection B as <-. injection C as <-. cbn [fst]. split; assumption.
    + intros h' _ _ Hdone. exact Hdone.
    + split; [apply grows_all_refl|split; [apply hist_step_refl|tauto]].
Qed.

Lemma register_go_progress : forall sp hs w d p gs,
  QSg sp w d p gs -> all_clean (s_queues (ps_sync p)) -> NoDup hs ->
  Forall (fun h => 0 <= h /\ nth_error (ps_kinds p) (Z.to_nat h) = Some KLocal /\
                   exists pi, assoc_get (ps_pending p) h = Some pi) hs ->
  exists p' gs', register_go p hs = Ok p' /\ QSg sp w d p' gs' /\ all_clean (s_queues (ps_sync p')) /\ p_rest p p' /\
    s_current (ps_sync p') = s_current (ps_sync p) /\ s_last_confirmed (ps_sync p') = s_last_confirmed (ps_sync p) /\
    (forall h, 0 <= h -> In h hs \/ Done (s_current (ps_sync p)) d (s_queues (ps_sync p)) gs h ->
               Done (s_current (ps_sync p)) d (s_queues (ps_sync p')) gs' h) /\
    grows_all (s_current (ps_sync p)) (s_queues (ps_sync p)) gs (s_queues (ps_sync p')) gs' /\
    hist_step d (ps_pending p) hs gs gs' /\ (OIg p gs -> OIg p' gs').
Proof.
  intros sp. induction hs as [|h r IH]; intros w d p gs HQS Hcl Hnd Hall.
  - exists p, gs. cbn [register_go]. split; [reflexivity|]. split; [exact HQS|]. split; [exact Hcl|].
    split; [apply p_rest_refl|]. split; [reflexivity|]. split; [reflexivity|]. split; [|split; [apply grows_all_refl|split; [apply hist_step_refl|tauto]]].
    intros h _ [[]|H]. exact H.
  - inversion Hall as [|? ? (Hh & Hk & pi & Hpe) Hall']; subst. inversion Hnd as [|? ? Hnin Hnd']; subst.
    destruct (register_step sp w d p gs h pi r HQS Hcl Hh Hk Hpe) as (p1 & gs1 & E1 & HQ1 & Hcl1 & Hr1 & Hc1 & HL1 & Hd1 & Ht1 & Hg1 & Hh1 & Ho1).
    rewrite E1.
    assert (Hpend1 : ps_pending p1 = ps_pending p) by (destruct Hr1 as (_ & _ & _ & _ & _ & _ & _ & _ & _ & Hp1 & _); exact Hp1).
    assert (Hall1 : Forall (fun h => 0 <= h /\ nth_error (ps_kinds p1) (Z.to_nat h) = Some KLocal /\
                                     exists pi, assoc_get (ps_pending p1) h = Some pi) r).
    { destruct Hr1 as (_ & _ & _ & _ & _ & Hk1 & _ & _ & _ & Hp1 & _). rewrite Hk1, Hp1. exact Hall'. }
    destruct (IH w d p1 gs1 HQ1 Hcl1 Hnd' Hall1) as (p' & gs' & E & HQ' & Hcl' & Hr' & Hc' & HL' & Hd' & Hg' & Hh' & Ho').
    exists p', gs'. split; [exact E|]. split; [exact HQ'|]. split; [exact Hcl'|].
    split; [eapply p_rest_trans; eassumption|]. split; [congruence|]. split; [congruence|].
    split; [|split; [rewrite Hc1 in Hg'; eapply grows_all_trans; eassumption|]].
    + intros h0 Hh0 Hin. rewrite Hc1 in Hd'.
      destruct (Z.eq_dec h0 h) as [->|Hne].
      * apply Hd'; [exact Hh0|]. right. exact Hd1.
      * apply Hd'; [exact Hh0|]. destruct Hin as [[->|Hin]|Hdone]; [congruence|left; exact Hin|].
        right. apply Ht1; assumption.
    + split; [rewrite Hpend1 in Hh'; eapply hist_step_cons; eassumption|]. intros HO. apply Ho', Ho1, HO.
Qed.

(* ---------- moving the invariant across a change of the sync layer ---------- *)
Lemma Forall2_hlens : forall (st : list cstat) gs gs',
  Forall2 (fun s g => cs_last s = hlen (fst g) - 1) st gs ->
  map (fun g : ghost => hlen (fst g)) gs' = map (fun g : ghost => hlen (fst g)) gs ->
  Forall2 (fun s g => cs_last s = hlen (fst g) - 1) st gs'.
Proof.
  induction st as [|s st IH]; intros gs gs' H E; inversion H; subst.
  - destruct gs'; [constructor|discriminate].
  - destruct gs' as [|g' gs']; [discriminate|]. cbn [map] in E. injection E as E1 E2.
    constructor; [lia|]. eapply IH; eassumption.
Qed.

Lemma QS_resync : forall sp w d p gs s' gs',
  QSg sp w d p gs -> s_maxpred s' = s_maxpred (ps_sync p) ->
  QsI (s_current s') (s_last_confirmed s') (s_queues s') gs' ->
  map (fun g : ghost => hlen (fst g)) gs' = map (fun g : ghost => hlen (fst g)) gs ->
  (-1 <= s_last_confirmed s' <= s_current s' /\ 0 <= s_current s' /\ s_current s' <= Z.max 0 (s_last_confirmed s') + Z.max 1 w) ->
  (forall h k q' gh', nth_error (ps_kinds p) h = Some k -> nth_error (s_queues s') h = Some q' ->
                      nth_error gs' h = Some gh' -> KI (s_current s') d k q' (fst gh')) ->
  (forall h pi, assoc_get (ps_pending p) h = Some pi -> pi_frame pi = s_current s') ->
  spec_ok (with_sync p s') gs' ->
  QSg sp w d (with_sync p s') gs'.
Proof.
  intros sp w d p gs s' gs' [Hw Hd Hmode Hn Hconn Hgos HQ Hlast Hfr Hkinds Hpe Hsok] Hmp HQ' Hmap Hfr' Hk' Hp' Hsok'.
  assert (Hlen : length gs' = length gs).
  { apply (f_equal (@length Z)) in Hmap. rewrite !map_length in Hmap. exact Hmap. }
  constructor; cbn [with_sync ps_maxpred ps_sync ps_running ps_sparse ps_spectators ps_disc_frame ps_nplayers
                    ps_kinds ps_status ps_remotes ps_pending].
  - destruct Hw as (A & B & C). repeat split; congruence.
  - exact Hd.
  - exact Hmode.
  - rewrite Hlen. exact Hn.
  - exact Hconn.
  - exact Hgos.
  - exact HQ'.
  - eapply Forall2_hlens; eassumption.
  - exact Hfr'.
  - exact Hk'.
  - exact Hp'.
  - exact Hsok'.
Qed.

Lemma KI_transfer : forall c d k q q' hist,
  KI c d k q hist -> q_delay q' = q_delay q -> q_last_user q' = q_last_user q ->
  (k = KLocal -> pi_frame (q_pred q) = NULL -> pi_frame (q_pred q') = NULL) -> KI c d k q' hist.
Proof.
  intros c d [| |] q q' hist H D U P; cbn [KI] in *; [|rewrite D, U; exact H|exact H].
  destruct H as (A & B & C). rewrite D, U. split; [exact A|]. split; [exact (P eq_refl B)|exact C].
Qed.

Lemma KI_local_reach : forall c d q hist, 0 <= d -> KI c d KLocal q hist -> c <= hlen hist.
Proof.
  intros c d q hist Hd (A & B & [(C & _ & E)|[(C & _ & E)|(C & _)]]); [subst hist; unfold hlen; cbn; lia|lia|lia].
Qed.

Lemma QS_nplayers : forall sp w d p gs, QSg sp w d p gs -> ps_nplayers p = Z.of_nat (length (ps_kinds p)).
Proof. intros sp w d p gs H. destruct (qs_n _ _ _ _ H) as (A & _ & B & _). lia. Qed.

Lemma map_fst_nth : forall (gs gs' : list ghost) h gh', map fst gs' = map fst gs -> nth_error gs' h = Some gh' ->
  exists gh, nth_error gs h = Some gh /\ fst gh = fst gh'.
Proof.
  induction gs as [|g gs IH]; intros [|g' gs'] h gh' E H; cbn [map] in E; try discriminate.
  - destruct h; discriminate.
  - injection E as E1 E2. destruct h as [|h]; cbn [nth_error] in *.
    + injection H as <-. exists g. split; [reflexivity|congruence].
    + eapply IH; eassumption.
Qed.
Lemma map_fst_hlens : forall (gs gs' : list ghost), map fst gs' = map fst gs ->
  map (fun g : ghost => hlen (fst g)) gs' = map (fun g : ghost => hlen (fst g)) gs.
Proof.
  induction gs as [|g gs IH]; intros [|g' gs'] E; cbn [map] in *; try discriminate; [reflexivity|].
  injection E as E1 E2. rewrite E1, (IH gs' E2). reflexivity.
Qed.

Lemma local_handles_with_sync : forall p s, local_handles (with_sync p s) = local_handles p.
Proof. reflexivity. Qed.
Lemma with_pending_sync : forall p s l, with_pending (with_sync p s) l = with_sync (with_pending p l) s.
Proof. reflexivity. Qed.
Lemma QS_no_pending : forall sp w d p gs, QSg sp w d p gs -> QSg sp w d (with_pending p []) gs.
Proof.
  intros sp w d p gs [A B C D E F G H I J K]. constructor; cbn [with_pending ps_maxpred ps_sync ps_running ps_sparse ps_spectators ps_disc_frame ps_nplayers ps_kinds ps_status ps_remotes ps_pending]; try assumption.
  intros h pi X. discriminate X.
Qed.

Lemma cf_ge_conf : forall (st : list cstat) gs qs c L cf,
  QsI c L qs gs -> Forall2 (fun s g => cs_last s = hlen (fst g) - 1) st gs ->
  Exists (fun s => cf = cs_last s) st -> L <= cf.
Proof.
  induction st as [|s st IH]; intros gs qs c L cf HQ Hl He; [inversion He|].
  inversion Hl as [|? g0 ? gs0 H1 H2]; subst. inversion HQ as [|q ? qs0 ? Hq HQ']; subst.
  inversion He as [? ? E|? ? E]; subst.
  - pose proof (qi_conf _ _ _ _ _ Hq). lia.
  - eapply IH; eassumption.
Qed.
Lemma cf_le_all : forall (st : list cstat) (gs : list ghost) cf,
  Forall2 (fun s g => cs_last s = hlen (fst g) - 1) st gs -> Forall (fun s => cf <= cs_last s) st ->
  Forall (fun g0 : ghost => cf <= hlen (fst g0) - 1) gs.
Proof.
  intros st gs cf H. induction H as [|s g0 st gs0 H1 H2 IH]; intros Hf; [constructor|].
  inversion Hf; subst. constructor; [lia|]. apply IH. assumption.
Qed.

(* ---------- the broadcast of confirmed inputs to the spectators ---------- *)
(* the inputs held for frame f, one per player *)
Definition held_at (gs : list ghost) (f : Z) : list pinput := map (fun g : ghost => mkpi f (hval (fst g) f)) gs.

Lemma confirmed_inputs_held : forall st qs gs c L f,
  QsI c L qs gs -> connected st -> length st = length qs ->
  Forall (fun g : ghost => snd g <= f < hlen (fst g)) gs ->
  confirmed_inputs_go f qs st = Ok (held_at gs f).
Proof.
  induction st as [|s st IH]; intros qs gs c L f HQ Hcon Hlen Hin.
  - destruct qs; [|discriminate]. inversion HQ; subst. reflexivity.
  - destruct qs as [|q qs]; [discriminate|]. inversion HQ as [|? g ? gs' Hq HQ']; subst.
    inversion Hcon as [|? ? Hs Hcon']; subst. inversion Hin as [|? ? Hg Hin']; subst.
    cbn [confirmed_inputs_go]. rewrite Hs. cbn [andb].
    unfold confirmed_input. rewrite (ri_slots _ _ _ (qi_ring _ _ _ _ _ Hq) f Hg). cbn [pi_frame]. rewrite Z.eqb_refl. cbn [res_bind].
    rewrite (IH qs gs' c L f HQ' Hcon' ltac:(cbn in Hlen; lia) Hin'). reflexivity.
Qed.

Lemma with_next_spec_self : forall p, with_next_spec p (ps_next_spec p) = p.
Proof. destruct p; reflexivity. Qed.
Lemma with_next_spec_idem : forall p a b, with_next_spec (with_next_spec p a) b = with_next_spec p b.
Proof. reflexivity. Qed.

Lemma spec_send_progress : forall n p cf o gs c L,
  QsI c L (s_queues (ps_sync p)) gs -> connected (ps_status p) ->
  length (ps_status p) = length (s_queues (ps_sync p)) -> Z.of_nat (length gs) = ps_nplayers p ->
  Forall (fun g : ghost => snd g <= ps_next_spec p /\ cf < hlen (fst g)) gs ->
  n = Z.to_nat (cf - ps_next_spec p + 1) ->
  exists p' o', spec_send_go n p cf o = Ok (p', o') /\
    p' = with_next_spec p (Z.max (ps_next_spec p) (cf + 1)) /\
    o_requests o' = o_requests o /\ o_remote_sends o' = o_remote_sends o /\
    o_spec_sends o' = o_spec_sends o ++
      (if existsb (fun b => b) (ps_spectators p)
       then map (fun f => (f, held_at gs f)) (zrange_from (ps_next_spec p) n) else []).
Proof.
  induction n as [|n IH]; intros p cf o gs c L HQ Hcon Hlen Hng Hin Hn.
  - cbn [spec_send_go zrange_from map]. exists p, o. split; [reflexivity|].
    replace (Z.max (ps_next_spec p) (cf + 1)) with (ps_next_spec p) by lia.
    split; [symmetry; apply with_next_spec_self|]. split; [reflexivity|]. split; [reflexivity|].
    destruct (existsb _ _); rewrite app_nil_r; reflexivity.
  - cbn [spec_send_go]. assert ((cf <? ps_next_spec p) = false) as -> by lia.
    unfold confirmed_inputs.
    rewrite (confirmed_inputs_held (ps_status p) _ gs c L (ps_next_spec p) HQ Hcon Hlen).
    2:{ eapply Forall_impl; [|exact Hin]. cbv beta. intros g (A & B). lia. }
    cbn [res_bind]. unfold held_at at 1 2. rewrite map_length.
    assert ((Z.of_nat (length gs) =? ps_nplayers p) = true) as -> by lia. cbn [negb].
    assert (forallb (fun i => (pi_frame i =? NULL) || (pi_frame i =? ps_next_spec p)) (map (fun g : ghost => mkpi (ps_next_spec p) (hval (fst g) (ps_next_spec p))) gs) = true) as ->.
    { apply forallb_forall. intros i Hi. apply in_map_iff in Hi. destruct Hi as (g & <- & _). cbn [pi_frame]. rewrite Z.eqb_refl. apply orb_true_r. }
    cbn [negb].
    set (o1 := if existsb (fun b => b) (ps_spectators p) then add_ssend o (ps_next_spec p) (map (fun g : ghost => mkpi (ps_next_spec p) (hval (fst g) (ps_next_spec p))) gs) else o).
    destruct (IH (with_next_spec p (ps_next_spec p + 1)) cf o1 gs c L) as (p' & o' & E & Hp' & R1 & R2 & R3).
    + exact HQ.
    + exact Hcon.
    + exact Hlen.
    + exact Hng.
    + cbn [with_next_spec ps_next_spec]. eapply Forall_impl; [|exact Hin]. cbv beta. intros g (A & B). lia.
    + cbn [with_next_spec ps_next_spec]. lia.
    + exists p', o'. split; [exact E|]. cbn [with_next_spec ps_next_spec ps_spectators] in Hp', R3.
      split; [rewrite Hp', with_next_spec_idem; replace (Z.max (ps_next_spec p + 1) (cf + 1)) with (Z.max (ps_next_spec p) (cf + 1)) by lia; reflexivity|].
      subst o1. destruct (existsb (fun b => b) (ps_spectators p)); cbn [add_ssend o_requests o_remote_sends o_spec_sends] in *.
      * split; [exact R1|]. split; [exact R2|]. rewrite R3. cbn [zrange_from map]. rewrite <- app_assoc. reflexivity.
      * split; [exact R1|]. split; [exact R2|]. rewrite R3. reflexivity.
Qed.

Section ProgressB.
Variable predict : Z -> Z.

Lemma QS_next_spec : forall sp w d p gs ns, QSg sp w d p gs -> spec_ok (with_next_spec p ns) gs -> QSg sp w d (with_next_spec p ns) gs.
Proof.
  intros sp w d p gs ns [A B C D E F G H I J K L] Hs.
  constructor; cbn [with_next_spec ps_maxpred ps_sync ps_running ps_sparse ps_spectators ps_disc_frame ps_nplayers ps_kinds ps_status ps_remotes ps_pending]; assumption.
Qed.

(* what the broadcast step appends for the spectators: the frames from the old next_spec up to the
   confirmed frame, each with the inputs held for it *)
Definition spec_sent (p : p2p) (gs : list ghost) (cf : Z) : list (Z * list pinput) :=
  match ps_spectators p with
  | [] => []
  | _ => if existsb (fun b => b) (ps_spectators p)
         then map (fun f => (f, held_at gs f)) (zrange_from (ps_next_spec p) (Z.to_nat (cf - ps_next_spec p + 1))) else []
  end.
Definition next_spec_after (p : p2p) (cf : Z) : Z :=
  match ps_spectators p with [] => ps_next_spec p | _ => Z.max (ps_next_spec p) (cf + 1) end.

(* what the rollback step must deliver for the rest of advance_rollback_frame (the same in both saving modes) *)
Definition HRpost (p : p2p) (gs : list ghost) (cf : Z) (o : pout) (p1 : p2p) (o1 : pout) : Prop :=
  handle_rollback_and_save predict p cf o = Ok (p1, o1) /\ p1 = with_sync p (ps_sync p1) /\
  QsI (s_current (ps_sync p)) (s_last_confirmed (ps_sync p)) (s_queues (ps_sync p1)) gs /\
  all_clean (s_queues (ps_sync p1)) /\ same_user (s_queues (ps_sync p)) (s_queues (ps_sync p1)) /\
  s_last_confirmed (ps_sync p1) = s_last_confirmed (ps_sync p) /\
  s_current (ps_sync p1) = s_current (ps_sync p) /\
  (forall h q gh q', nth_error (s_queues (ps_sync p)) h = Some q -> nth_error gs h = Some gh ->
     nth_error (s_queues (ps_sync p1)) h = Some q' -> s_current (ps_sync p) <= hlen (fst gh) ->
     pi_frame (q_pred q) = NULL -> pi_frame (q_pred q') = NULL) /\
  s_maxpred (ps_sync p1) = s_maxpred (ps_sync p) /\
  (ps_sparse p = true -> s_last_confirmed (ps_sync p) <= s_last_saved (ps_sync p1)).

(* the first half of advance_rollback_frame: rollback, save, broadcast to the spectators, new confirmed frame *)
Lemma rollback_confirm_gen : forall sp p gs w d o,
  QSg sp w d p gs -> Forall (fun c => cs_last c < I32MAX) (ps_status p) ->
  (forall cf, confirmed_frame p = Ok cf -> s_last_confirmed (ps_sync p) <= cf ->
     Forall (fun g : ghost => cf <= hlen (fst g) - 1) gs -> exists p1 o1, HRpost p gs cf o p1 o1) ->
  exists cf p1 o1 p2 o2 s3 gs3,
    confirmed_frame p = Ok cf /\
    handle_rollback_and_save predict p cf o = Ok (p1, o1) /\ p1 = with_sync p (ps_sync p1) /\
    send_confirmed_inputs_to_spectators p1 cf o1 = Ok (p2, o2) /\
    p2 = with_next_spec p1 (next_spec_after p cf) /\ o_requests o2 = o_requests o1 /\
    o_spec_sends o2 = o_spec_sends o1 ++ spec_sent p gs cf /\
    set_last_confirmed_frame (ps_sync p1) cf sp = Ok s3 /\
    QSg sp w d (with_sync p2 s3) gs3 /\ all_clean (s_queues s3) /\ map fst gs3 = map fst gs /\
    s_current s3 = s_current (ps_sync p) /\
    Forall2 (fun q q' => q_pred q' = q_pred q /\ q_first_incorrect q' = q_first_incorrect q) (s_queues (ps_sync p1)) (s_queues s3) /\
    s_current (ps_sync p1) = s_current (ps_sync p) /\
    s_last_saved s3 = s_last_saved (ps_sync p1) /\
    s_last_confirmed s3 = Z.min (if sp then Z.min cf (s_last_saved (ps_sync p1)) else cf) (s_current (ps_sync p)) /\
    s_last_confirmed (ps_sync p) <= cf /\ Forall (fun g : ghost => cf <= hlen (fst g) - 1) gs.
Proof.
  intros sp p gs w d o HQS Hbnd Hroll.
  pose proof HQS as [Hw Hd Hmode Hn Hconn Hgos HQ Hlast Hfr Hkinds Hpe Hsok].
  destruct Hw as (Hw1 & Hw2 & Hw3). destruct Hmode as (Hrun & Hsp & Hdf).
  destruct Hn as (Hn1 & Hn2 & Hn3 & Hn4). destruct Hfr as (HfL & Hfc & Hfw).
  set (c := s_current (ps_sync p)) in *. set (L := s_last_confirmed (ps_sync p)) in *.
  pose proof (QsI_length _ _ _ _ HQ) as Hlq.
  (* the confirmed frame *)
  destruct (confirmed_frame_spec p Hconn) as (cf & Ecf & Hcf1 & Hcf2); [|exact Hbnd|].
  { intro E. rewrite E in Hn4. cbn in Hn4. lia. }
  pose proof (cf_le_all _ _ _ Hlast Hcf1) as Hcfg.
  pose proof (cf_ge_conf _ _ _ _ _ _ HQ Hlast Hcf2) as HLcf.
  (* rollback and save *)
  destruct (Hroll cf Ecf HLcf Hcfg) as (p1 & o1 & Er & Hshape & HQ1 & Hcl1 & Hsu1 & HL1 & Hc1 & Hidle1 & Hmp1 & HS1).
  fold c in HQ1, Hc1, Hidle1. fold L in HQ1, HL1, HS1.
  (* the broadcast *)
  assert (Hf1 : ps_spectators p1 = ps_spectators p /\ ps_next_spec p1 = ps_next_spec p /\ ps_status p1 = ps_status p /\ ps_nplayers p1 = ps_nplayers p)
    by (rewrite Hshape; repeat split).
  destruct Hf1 as (Hsp1 & Hns1 & Hst1 & Hnp1).
  assert (Hsend : exists p2 o2, send_confirmed_inputs_to_spectators p1 cf o1 = Ok (p2, o2) /\
            p2 = with_next_spec p1 (next_spec_after p cf) /\ o_requests o2 = o_requests o1 /\
            o_spec_sends o2 = o_spec_sends o1 ++ spec_sent p gs cf /\
            spec_ok (with_next_spec p (next_spec_after p cf)) gs /\
            (ps_spectators p <> [] -> cf + 1 <= next_spec_after p cf)).
  { unfold send_confirmed_inputs_to_spectators, spec_sent, next_spec_after. rewrite Hsp1.
    destruct (ps_spectators p) as [|b bs] eqn:Esp.
    - exists p1, o1. split; [reflexivity|]. split; [rewrite <- Hns1; symmetry; apply with_next_spec_self|].
      split; [reflexivity|]. split; [rewrite app_nil_r; reflexivity|]. split; [|intros X; congruence].
      intros X. cbn [with_next_spec ps_spectators] in X. congruence.
    - destruct (Hsok ltac:(rewrite Esp; discriminate)) as (S1 & S2 & S3). fold L in S2.
      destruct (spec_send_progress (Z.to_nat (cf - ps_next_spec p1 + 1)) p1 cf o1 gs c L HQ1) as (p2 & o2 & E2 & Hp2 & R1 & R2 & R3).
      + rewrite Hst1. exact Hconn.
      + rewrite Hst1. pose proof (QsI_length _ _ _ _ HQ1). lia.
      + rewrite Hnp1. exact Hn1.
      + rewrite Hns1. apply Forall_forall. intros g0 Hg0.
        rewrite Forall_forall in Hcfg. pose proof (Hcfg g0 Hg0) as Hc0.
        apply In_nth_error in Hg0. destruct Hg0 as (h & Hh).
        destruct (nth_error_some_len (s_queues (ps_sync p1)) gs h g0 (QsI_length _ _ _ _ HQ1) Hh) as (q1 & Hq1).
        pose proof (Forall2_nth _ _ _ _ _ _ HQ1 Hq1 Hh) as Hqi. cbv beta in Hqi.
        destruct (qi_low _ _ _ _ _ Hqi) as (Lw1 & _). split; lia.
      + reflexivity.
      + rewrite Hns1 in *. rewrite Hsp1 in R3.
        exists p2, o2. split; [exact E2|]. split; [exact Hp2|]. split; [exact R1|]. split; [exact R3|].
        split; [|intros _; lia].
        intros _. cbn [with_next_spec ps_next_spec ps_sync]. fold L. split; [lia|]. split; [lia|].
        apply Forall_forall. intros g0 Hg0. rewrite Forall_forall in S3, Hcfg. pose proof (S3 g0 Hg0). pose proof (Hcfg g0 Hg0). lia. }
  destruct Hsend as (p2 & o2 & Es & Hp2 & Ho2 & Hsent & Hsok2 & Hns2).
  (* the new confirmed frame *)
  pose proof (confirm_progress_gen predict (ps_sync p1) gs cf sp) as Hcp. cbv zeta in Hcp.
  set (fr := if sp then Z.min cf (s_last_saved (ps_sync p1)) else cf) in *.
  assert (HLfr : L <= fr <= cf).
  { subst fr. destruct sp; [specialize (HS1 Hsp)|]; lia. }
  destruct Hcp as (s3 & E3 & Hsv3 & HL3 & Hsf3 & (gs3 & HQ3 & Hmap3) & Hcl3 & Hsu3 & Hpr3).
  { rewrite Hc1, HL1. exact HQ1. }
  { exact Hcl1. }
  { rewrite Hc1, HL1. lia. }
  { rewrite Hc1. eapply Forall_impl; [|exact Hcfg]. cbv beta. intros a Ha. lia. }
  rewrite Hc1 in HL3, HQ3.
  destruct Hsf3 as ((Hmp3 & _) & Hc3). rewrite Hc1 in Hc3.
  exists cf, p1, o1, p2, o2, s3, gs3.
  split; [exact Ecf|]. split; [exact Er|]. split; [exact Hshape|]. split; [exact Es|]. split; [exact Hp2|]. split; [exact Ho2|].
  split; [exact Hsent|]. split; [exact E3|].
  split; [|split; [exact Hcl3|split; [exact Hmap3|split; [exact Hc3|split; [|split; [exact Hc1|split; [exact Hsv3|split; [exact HL3|split; [exact HLcf|exact Hcfg]]]]]]]]].
  2:{ clear - Hpr3 Hcl1 Hcl3. unfold all_clean in *. revert Hcl1 Hcl3.
      induction Hpr3 as [|q q' l l' H1 H2 IH]; intros A B; [constructor|].
      inversion A; inversion B; subst. constructor; [split; [exact H1|congruence]|apply IH; assumption]. }
  assert (Hbase : with_sync p2 s3 = with_sync (with_next_spec p (next_spec_after p cf)) s3).
  { rewrite Hp2, Hshape. reflexivity. }
  rewrite Hbase.
  apply (QS_resync _ w d (with_next_spec p (next_spec_after p cf)) gs s3 gs3 (QS_next_spec _ _ _ _ _ _ HQS Hsok2)).
  - cbn [with_next_spec ps_sync]. rewrite Hmp3. exact Hmp1.
  - rewrite Hc3, HL3. exact HQ3.
  - apply map_fst_hlens. exact Hmap3.
  - rewrite Hc3, HL3. lia.
  - cbn [with_next_spec ps_kinds]. intros h k q3 gh3 A B C. rewrite Hc3.
    destruct (map_fst_nth gs gs3 h gh3 Hmap3 C) as (gh & Cg & Efst). rewrite <- Efst.
    pose proof (QsI_length _ _ _ _ HQ1) as Hlq1.
    destruct (nth_error_some_len (s_queues (ps_sync p)) gs h gh ltac:(lia) Cg) as (q & Bq).
    destruct (nth_error_some_len (s_queues (ps_sync p1)) gs h gh ltac:(lia) Cg) as (q1 & Bq1).
    pose proof (Hkinds h k q gh A Bq Cg) as HK.
    destruct (Forall2_nth _ _ _ _ _ _ Hsu1 Bq Bq1) as (D1 & U1).
    destruct (Forall2_nth _ _ _ _ _ _ Hsu3 Bq1 B) as (D3 & U3).
    pose proof (Forall2_nth _ _ _ _ _ _ Hpr3 Bq1 B) as P3. cbv beta in P3.
    apply (KI_transfer c d k q1 q3); [|exact D3|exact U3|intros _ X; rewrite P3; exact X].
    apply (KI_transfer c d k q q1); [exact HK|exact D1|exact U1|].
    intros -> X. apply (Hidle1 h q gh q1 Bq Cg Bq1); [|exact X].
    eapply KI_local_reach; [|exact HK]. lia.
  - cbn [with_next_spec ps_pending]. intros h pi X. rewrite Hc3. exact (Hpe h pi X).
  - intros Hne. cbn [with_sync with_next_spec ps_spectators ps_next_spec ps_sync] in Hne |- *. rewrite HL3.
    destruct (Hsok2 Hne) as (S1 & S2 & S3). cbn [with_next_spec ps_next_spec ps_sync] in S1, S2, S3. specialize (Hns2 Hne).
    split; [exact S1|]. split; [lia|].
    apply Forall_forall. intros g3 Hg3. apply In_nth_error in Hg3. destruct Hg3 as (h & Hh).
    destruct (map_fst_nth gs gs3 h g3 Hmap3 Hh) as (gh & Cg & Efst). rewrite <- Efst.
    rewrite Forall_forall in S3. exact (S3 gh (nth_error_In _ _ Cg)).
Qed.


(* dense saving: the rollback step is handle_rollback_progress *)
Lemma dense_rollback : forall p gs g w d o cf,
  QS w d p gs -> JI w p g -> 1 <= w -> s_last_confirmed (ps_sync p) <= cf -> exists p1 o1, HRpost p gs cf o p1 o1.
Proof.
  intros p gs g w d o cf HQS HJI Hw1p HLcf.
  pose proof HQS as [Hw Hd Hmode Hn Hconn Hgos HQ Hlast Hfr Hkinds Hpe Hsok].
  destruct Hw as (Hw1 & Hw2 & Hw3). destruct Hmode as (Hrun & Hsp & Hdf).
  destruct Hn as (Hn1 & Hn2 & Hn3 & Hn4). destruct Hfr as (HfL & Hfc & Hfw). rewrite (Z.max_r 1 w) in Hfw by lia.
  pose proof (QsI_length _ _ _ _ HQ) as Hlq.
  destruct HJI as [Jw Jmp Jfr Jcur Jroll]. destruct (Jroll ltac:(lia)) as (_ & Jm & Jcells).
  destruct (handle_rollback_progress predict p gs cf o g w (s_current (ps_sync p) - 1) Hsp Hconn ltac:(lia) Hdf HQ ltac:(lia) Hfc Hfw
              ltac:(lia) Jm Jfr ltac:(lia) Jcells)
    as (p1 & o1 & Er & Hshape & HQ1 & Hcl1 & Hsu1 & HL1 & Hc1 & Hidle1).
  destruct (handle_rollback_exec predict p cf o p1 o1 g w (s_current (ps_sync p) - 1) Er Hsp ltac:(lia) Jm Jfr Hfc ltac:(lia) Jcells)
    as (_ & _ & _ & _ & _ & _ & _ & _ & _ & _ & _ & Hmp1 & _).
  exists p1, o1. split; [exact Er|]. split; [exact Hshape|]. split; [exact HQ1|]. split; [exact Hcl1|]. split; [exact Hsu1|].
  split; [exact HL1|]. split; [exact Hc1|]. split; [exact Hidle1|]. split; [congruence|]. intros X. congruence.
Qed.

Lemma rollback_confirm_progress : forall p gs g w d o,
  QS w d p gs -> JI w p g -> 1 <= w -> Forall (fun c => cs_last c < I32MAX) (ps_status p) ->
  exists cf p1 o1 p2 o2 s3 gs3,
    confirmed_frame p = Ok cf /\
    handle_rollback_and_save predict p cf o = Ok (p1, o1) /\ p1 = with_sync p (ps_sync p1) /\
    send_confirmed_inputs_to_spectators p1 cf o1 = Ok (p2, o2) /\
    p2 = with_next_spec p1 (next_spec_after p cf) /\ o_requests o2 = o_requests o1 /\
    o_spec_sends o2 = o_spec_sends o1 ++ spec_sent p gs cf /\
    set_last_confirmed_frame (ps_sync p1) cf false = Ok s3 /\
    QS w d (with_sync p2 s3) gs3 /\ all_clean (s_queues s3) /\ map fst gs3 = map fst gs /\
    s_current s3 = s_current (ps_sync p) /\
    Forall2 (fun q q' => q_pred q' = q_pred q /\ q_first_incorrect q' = q_first_incorrect q) (s_queues (ps_sync p1)) (s_queues s3) /\
    s_current (ps_sync p1) = s_current (ps_sync p).
Proof.
  intros p gs g w d o HQS HJI Hw1p Hbnd.
  destruct (rollback_confirm_gen false p gs w d o HQS Hbnd) as (cf & p1 & o1 & p2 & o2 & s3 & gs3 & A1 & A2 & A3 & A4 & A5 & A6 & A7 & A8 & A9 & A10 & A11 & A12 & A13 & A14 & _).
  - intros cf _ HLcf _. exact (dense_rollback p gs g w d o cf HQS HJI Hw1p HLcf).
  - exists cf, p1, o1, p2, o2, s3, gs3. repeat (split; [assumption|]). assumption.
Qed.

(* all local players are registered for the current frame *)
Definition locals_done (d : Z) (p : p2p) (gs : list ghost) : Prop :=
  forall h, In h (local_handles p) -> Done (s_current (ps_sync p)) d (s_queues (ps_sync p)) gs h.

Definition hlens_grow (gs gs' : list ghost) : Prop :=
  forall h g', nth_error gs' h = Some g' -> exists g, nth_error gs h = Some g /\ hlen (fst g) <= hlen (fst g').

Lemma hist_step_hlens : forall d pend t gs gs', hist_step d pend t gs gs' -> hlens_grow gs gs'.
Proof.
  intros d pend t gs gs' H h g' A. destruct (H h g' A) as (g & B & C). exists g. split; [exact B|].
  destruct C as [->|(_ & pi & k & _ & -> & _)]; [lia|]. rewrite hlen_fill. lia.
Qed.

Lemma advance_rollback_gen : forall sp p gs w d o,
  QSg sp w d p gs -> Forall (fun c => cs_last c < I32MAX) (ps_status p) ->
  (forall h, In h (local_handles p) -> exists pi, assoc_get (ps_pending p) h = Some pi) ->
  (forall cf, confirmed_frame p = Ok cf -> s_last_confirmed (ps_sync p) <= cf ->
     Forall (fun g : ghost => cf <= hlen (fst g) - 1) gs -> exists p1 o1, HRpost p gs cf o p1 o1) ->
  exists cf p1 o1 p' o' gs',
    confirmed_frame p = Ok cf /\ handle_rollback_and_save predict p cf o = Ok (p1, o1) /\
    s_last_confirmed (ps_sync p) <= cf /\ Forall (fun g : ghost => cf <= hlen (fst g) - 1) gs /\
    advance_rollback_frame predict p o = Ok (p', o') /\ QSg sp w d p' gs' /\
    all_clean (s_queues (ps_sync p')) /\ s_last_saved (ps_sync p') = s_last_saved (ps_sync p1) /\
    hlens_grow gs gs' /\
    s_last_confirmed (ps_sync p') = Z.min (if sp then Z.min cf (s_last_saved (ps_sync p1)) else cf) (s_current (ps_sync p)) /\
    (s_current (ps_sync p') = s_current (ps_sync p) \/ s_current (ps_sync p') = s_current (ps_sync p) + 1).
Proof.
  intros sp p gs w d o HQS Hbnd Hpend Hroll.
  destruct (rollback_confirm_gen sp p gs w d o HQS Hbnd Hroll)
    as (cf & p1 & o1 & p2 & o2 & s3 & gs3 & Ecf & Er & Hshape & Es & Hp2 & _ & _ & E3 & HQS3 & Hcl3 & Hmap3 & Hc3 & _ & _ & Hsv3 & HL3 & HLcf & Hcfg).
  unfold advance_rollback_frame. rewrite Ecf. cbn [res_bind]. rewrite Er. cbn [res_bind]. rewrite Es. cbn [res_bind].
  assert (Hf2 : ps_sparse p2 = sp /\ ps_sync p2 = ps_sync p1 /\ local_handles (with_sync p2 s3) = local_handles p /\
                ps_pending (with_sync p2 s3) = ps_pending p).
  { rewrite Hp2, Hshape. destruct (qs_mode _ _ _ _ HQS) as (_ & X & _). repeat split. exact X. }
  destruct Hf2 as (Hsp2 & Hsy2 & Hlh3 & Hpe3).
  rewrite Hsp2, Hsy2, E3. cbn [res_bind].
  set (p3 := with_sync p2 s3) in *.
  assert (Hpend3 : forall h, In h (local_handles p3) -> exists pi, assoc_get (ps_pending p3) h = Some pi).
  { intros h Hin. rewrite Hpe3. apply Hpend. rewrite <- Hlh3. exact Hin. }
  (* register the local inputs *)
  pose proof (QS_nplayers _ _ _ _ _ HQS3) as Hnp3.
  assert (Hall : Forall (fun h => 0 <= h /\ nth_error (ps_kinds p3) (Z.to_nat h) = Some KLocal /\
                                   exists pi, assoc_get (ps_pending p3) h = Some pi) (local_handles p3)).
  { apply Forall_forall. intros h Hin. pose proof Hin as Hin2. apply (local_handles_spec p3 h Hnp3) in Hin2.
    destruct Hin2 as (Hr & Hk). split; [lia|]. split; [exact Hk|]. apply Hpend3. exact Hin. }
  destruct (register_go_progress sp (local_handles p3) w d p3 gs3 HQS3 Hcl3 (local_handles_nodup p3) Hall)
    as (p4 & gs4 & E4 & HQS4 & Hcl4 & Hrest4 & Hc4 & HL4 & Hdone4 & _ & Hhs4 & _).
  pose proof (register_go_frame _ _ _ E4) as (_ & _ & ((_ & _ & Hsv4) & _)).
  assert (Hgrow : hlens_grow gs gs4).
  { intros h g4 A. destruct (hist_step_hlens _ _ _ _ _ Hhs4 h g4 A) as (g3 & B & C).
    destruct (map_fst_nth gs gs3 h g3 Hmap3 B) as (g0 & D & Ef). exists g0. split; [exact D|]. rewrite Ef. exact C. }
  assert (Hc34 : s_current (ps_sync p4) = s_current (ps_sync p)) by (rewrite Hc4; subst p3; cbn [with_sync ps_sync]; exact Hc3).
  assert (HL34 : s_last_confirmed (ps_sync p4) = Z.min (if sp then Z.min cf (s_last_saved (ps_sync p1)) else cf) (s_current (ps_sync p))) by (rewrite HL4; subst p3; cbn [with_sync ps_sync]; exact HL3).
  assert (Hsv34 : s_last_saved (ps_sync p4) = s_last_saved (ps_sync p1)) by (rewrite Hsv4; subst p3; cbn [with_sync ps_sync]; exact Hsv3).
  unfold register_local_inputs. rewrite E4. cbn [res_bind].
  destruct (send_ready_outgoing_ok p4 o2) as (p5 & o5 & E5 & O5). rewrite E5. cbn [res_bind].
  pose proof (QS_out_only _ _ _ _ _ _ HQS4 O5) as HQS5.
  assert (Hs5 : ps_sync p5 = ps_sync p4) by (rewrite O5; reflexivity).
  assert (Hst5 : ps_status p5 = ps_status p4) by (rewrite O5; reflexivity).
  assert (Hk5 : ps_kinds p5 = ps_kinds p3).
  { rewrite O5. cbn [with_outgoing ps_kinds]. destruct Hrest4 as (_ & _ & _ & _ & _ & X & _). exact X. }
  assert (Hmp5 : ps_maxpred p5 = w) by (destruct (qs_w _ _ _ _ HQS5) as (_ & X & _); exact X).
  rewrite Hmp5, Hs5.
  set (s4 := ps_sync p4) in *.
  set (c := s_current s4) in *. set (L4 := s_last_confirmed s4) in *.
  set (fa := if L4 =? NULL then c else c - L4).
  destruct (fa <? w) eqn:Eg.
  2:{ exists cf, p1, o1, p5, o5, gs4. split; [first [exact Ecf|reflexivity]|]. split; [first [exact Er|reflexivity]|]. split; [exact HLcf|]. split; [exact Hcfg|]. split; [reflexivity|]. split; [exact HQS5|].
      rewrite Hs5. split; [exact Hcl4|]. split; [exact Hsv34|]. split; [exact Hgrow|]. split; [exact HL34|left; exact Hc34]. }
  pose proof HQS5 as [Hw5 Hd5 Hmode5 Hn5 Hconn5 Hgos5 HQ5 Hlast5 Hfr5 Hkinds5 Hpe5].
  rewrite Hs5 in HQ5, Hfr5, Hkinds5. fold s4 c L4 in HQ5, Hfr5, Hkinds5.
  destruct Hn5 as (Hn51 & Hn52 & Hn53 & Hn54). destruct Hfr5 as (HfL & Hfc & Hfw).
  pose proof (QsI_length _ _ _ _ HQ5) as Hlq5.
  destruct (sync_inputs_go_ok predict (ps_status p5) (s_queues s4) gs4 c L4 HQ5 Hcl4 ltac:(lia) Hconn5 Hfc ltac:(lia))
    as (qs' & ins & E & HQ' & Hcl' & Hl' & Hst' & Hsu & Hkn).
  unfold synchronized_inputs. fold c. rewrite E. cbn [res_bind].
  exists cf, p1, o1. eexists; eexists; exists gs4. split; [first [exact Ecf|reflexivity]|]. split; [first [exact Er|reflexivity]|]. split; [exact HLcf|]. split; [exact Hcfg|]. split; [reflexivity|].
  rewrite with_pending_sync.
  split; [|cbn [with_sync ps_sync advance_frame with_current with_queues s_queues s_last_saved s_last_confirmed s_current];
           split; [exact Hcl'|split; [exact Hsv34|split; [exact Hgrow|split; [exact HL34|right; fold c; subst c; rewrite Hc34; reflexivity]]]]].
  apply (QS_resync _ w d (with_pending p5 []) gs4 _ gs4 (QS_no_pending _ _ _ _ _ HQS5)).
  - cbn. rewrite Hs5. reflexivity.
  - cbn [advance_frame with_current with_queues s_current s_last_confirmed s_queues]. fold c L4. exact HQ'.
  - reflexivity.
  - cbn [advance_frame with_current with_queues s_current s_last_confirmed]. fold c L4.
    subst fa. destruct (Z.eqb_spec L4 NULL); unfold NULL in *; lia.
  - cbn [advance_frame with_current with_queues s_current s_queues with_pending ps_kinds]. fold c.
    intros h k q' gh A B C.
    destruct (nth_error_some_len (s_queues s4) gs4 h gh ltac:(lia) C) as (q & Bq).
    pose proof (Hkinds5 h k q gh A Bq C) as HK.
    destruct (Forall2_nth _ _ _ _ _ _ Hsu Bq B) as (D1 & U1).
    destruct k as [|e|e]; cbn [KI] in HK |- *.
    + destruct HK as (Hdel & Hpn & _).
      assert (Hin : In (Z.of_nat h) (local_handles p3)).
      { apply (local_handles_spec p3 _ Hnp3). rewrite Nat2Z.id. rewrite <- Hk5. split; [|exact A].
        assert (nth_error (ps_kinds p5) h <> None) as X by congruence. apply nth_error_Some in X.
        rewrite Hk5 in X. lia. }
      pose proof (Hdone4 (Z.of_nat h) ltac:(lia) (or_introl Hin)) as Hdn. unfold Done in Hdn.
      rewrite Nat2Z.id in Hdn. fold s4 in Hdn. rewrite <- Hc4 in Hdn. fold c in Hdn.
      destruct (Hdn q gh Bq C) as (Hh & Hu).
      split; [congruence|]. split.
      * apply (Hkn h q gh q' Bq C B); [lia|exact Hpn].
      * right. left. split; [lia|]. split; [lia|lia].
    + rewrite D1, U1. exact HK.
    + exact HK.
  - intros h pi X. discriminate X.
  - eapply spec_ok_grow; [exact (qs_spec _ _ _ _ HQS5)|reflexivity|reflexivity|cbn; rewrite Hs5; reflexivity|apply grow_refl].
Qed.

Lemma advance_rollback_progress : forall p gs g w d o,
  QS w d p gs -> JI w p g -> 1 <= w -> Forall (fun c => cs_last c < I32MAX) (ps_status p) ->
  (forall h, In h (local_handles p) -> exists pi, assoc_get (ps_pending p) h = Some pi) ->
  exists p' o' gs', advance_rollback_frame predict p o = Ok (p', o') /\ QS w d p' gs'.
Proof.
  intros p gs g w d o HQS HJI Hw1p Hbnd Hpend.
  destruct (advance_rollback_gen false p gs w d o HQS Hbnd Hpend) as (cf & p1 & o1 & p' & o' & gs' & _ & _ & _ & _ & A & B & _).
  - intros cf _ HLcf _. exact (dense_rollback p gs g w d o cf HQS HJI Hw1p HLcf).
  - exists p', o', gs'. split; [exact A|exact B].
Qed.
End ProgressB.

Section ProgressC.
Variable predict : Z -> Z.

Lemma QS_same_queues : forall sp w d p gs s',
  QSg sp w d p gs -> s_maxpred s' = s_maxpred (ps_sync p) -> s_queues s' = s_queues (ps_sync p) ->
  s_current s' = s_current (ps_sync p) -> s_last_confirmed s' = s_last_confirmed (ps_sync p) ->
  QSg sp w d (with_sync p s') gs.
Proof.
  intros sp w d p gs s' HQS Hm Hq Hc HL. pose proof HQS as [A B C D E F G H I J K Ls].
  apply (QS_resync _ w d p gs s' gs HQS Hm).
  - rewrite Hq, Hc, HL. exact G.
  - reflexivity.
  - rewrite Hc, HL. exact I.
  - rewrite Hq, Hc. exact J.
  - rewrite Hc. exact K.
  - eapply spec_ok_grow; [exact Ls|reflexivity|reflexivity|exact HL|apply grow_refl].
Qed.

(* one advance_frame call of a session in C01's space never fails, and re-establishes the invariant *)
Lemma advance_progress : forall p gs g w d,
  QS w d p gs -> JI w p g -> 1 <= w -> Forall (fun c => cs_last c < I32MAX) (ps_status p) ->
  exists p' o r gs' g', advance predict p = Ok (p', o, r) /\ QS w d p' gs' /\
    exec w g (o_requests o) = Some g' /\ JI w p' g'.
Proof.
  intros p gs g w d HQS HJI Hw1p Hbnd.
  assert (Hgoal : exists p' o r gs', advance predict p = Ok (p', o, r) /\ QS w d p' gs').
  { pose proof HQS as [Hw Hd Hmode Hn Hconn Hgos HQ Hlast Hfr Hkinds Hpe].
    destruct Hw as (Hw1 & Hw2 & Hw3). destruct Hmode as (Hrun & Hsp & Hdf).
    unfold advance. rewrite Hrun. cbn [negb].
    destruct (forallb _ (local_handles p)) eqn:Efa; cbn [negb].
    2:{ exists p, out0, AInvalidRequest, gs. split; [reflexivity|exact HQS]. }
    assert (Hpend : forall h, In h (local_handles p) -> exists pi, assoc_get (ps_pending p) h = Some pi).
    { intros h Hin. rewrite forallb_forall in Efa. specialize (Efa h Hin).
      destruct (assoc_get (ps_pending p) h); [eauto|discriminate]. }
    assert ((ps_maxpred p =? 0) = false) as -> by lia. cbn [negb].
    assert (Hfirst : exists p1 o1, (if (s_current (ps_sync p) =? 0) && true
                       then res_bind (save_current_state (ps_sync p)) (fun '(s1, r) => Ok (with_sync p s1, add_req out0 r))
                       else Ok (p, out0)) = Ok (p1, o1) /\ QS w d p1 gs /\ JI w p1 g /\ ps_status p1 = ps_status p /\
                       local_handles p1 = local_handles p /\ ps_pending p1 = ps_pending p /\ ps_remotes p1 = ps_remotes p).
    { destruct (Z.eqb_spec (s_current (ps_sync p)) 0) as [Ec|Ec]; cbn [andb].
      - unfold save_current_state. rewrite Ec. cbn [Z.ltb Z.compare res_bind].
        eexists; eexists. split; [reflexivity|]. split; [|split; [|repeat split]].
        + apply (QS_same_queues false); [exact HQS|first [reflexivity|cbn; lia]..].
        + destruct HJI as [Jw Jmp Jfr Jcur Jroll]. constructor; cbn [with_sync ps_maxpred ps_sync ps_sparse s_current s_maxpred]; try assumption.
          * rewrite <- Ec. exact Jfr.
          * lia.
          * intros Hw'. destruct (Jroll Hw') as (J1 & J2 & J3). split; [exact J1|]. split; [exact J2|].
            destruct J3 as (K1 & K2 & K3 & K4). split; [exact K1|]. split; [|split; [exact K3|]].
            -- cbn [s_cells]. rewrite updz_length. exact K2.
            -- intros f Hf. lia.
      - exists p, out0. split; [reflexivity|]. split; [exact HQS|]. split; [exact HJI|]. repeat split. }
    destruct Hfirst as (p1 & o1 & E1 & HQS1 & HJI1 & Hst1 & Hlh1 & Hpe1 & Hrm1). rewrite E1. cbn [res_bind].
    rewrite (update_disconnects_noop p1); [|rewrite Hst1; exact Hconn|rewrite Hrm1; exact Hgos]. cbn [res_bind].
    destruct (advance_rollback_progress predict p1 gs g w d o1 HQS1 HJI1 Hw1p) as (p3 & o3 & gs3 & E3 & HQS3).
    { rewrite Hst1. exact Hbnd. }
    { intros h Hin. rewrite Hpe1. apply Hpend. rewrite <- Hlh1. exact Hin. }
    rewrite E3. cbn [res_bind]. exists p3, o3, AOk, gs3. split; [reflexivity|exact HQS3]. }
  destruct Hgoal as (p' & o & r & gs' & E & HQS').
  destruct (advance_exec predict p p' o r g w E HJI) as (g' & Ex & HJI' & _).
  exists p', o, r, gs', g'. split; [exact E|]. split; [exact HQS'|]. split; [exact Ex|exact HJI'].
Qed.

End ProgressC.

(* ---------- the other operations of C01's space ---------- *)
(* an input of a remote player arrives for the next frame of that player, while the ring has room *)
Lemma remote_progress : forall sp w d p gs pl f v e,
  QSg sp w d p gs -> 0 <= pl < ps_nplayers p -> nth_error (ps_kinds p) (Z.to_nat pl) = Some (KRemote e) ->
  f = q_last_added (qnth (ps_sync p) pl) + 1 -> q_length (qnth (ps_sync p) pl) < QLEN ->
  exists p' gs', ev_input p pl f v = Ok p' /\ QSg sp w d p' gs' /\
    exists q hist low q', nth_error (s_queues (ps_sync p)) (Z.to_nat pl) = Some q /\
      nth_error gs (Z.to_nat pl) = Some (hist, low) /\ gs' = updz gs (Z.to_nat pl) (hist ++ [v], low) /\
      s_queues (ps_sync p') = updz (s_queues (ps_sync p)) (Z.to_nat pl) q' /\
      q_first_incorrect q' = fi_after q v (hlen hist) /\ q_pred q' = pred_after q v (hlen hist) /\
      s_current (ps_sync p') = s_current (ps_sync p) /\
      s_last_confirmed (ps_sync p') = s_last_confirmed (ps_sync p) /\ s_last_saved (ps_sync p') = s_last_saved (ps_sync p) /\
      q_last_requested q' = q_last_requested q.
Proof.
  intros sp w d p gs pl f v e HQS Hpl Hk Hf Hcap.
  pose proof HQS as [Hw Hd Hmode Hn Hconn Hgos HQ Hlast Hfr Hkinds Hpe Hsok].
  destruct Hn as (Hn1 & Hn2 & Hn3 & Hn4).
  pose proof (QsI_length _ _ _ _ HQ) as Hlq.
  assert (Hhl : (Z.to_nat pl < length gs)%nat) by lia.
  destruct (nth_error (s_queues (ps_sync p)) (Z.to_nat pl)) as [q|] eqn:Eq; [|apply nth_error_None in Eq; lia].
  destruct (nth_error gs (Z.to_nat pl)) as [[hist low]|] eqn:Eg; [|apply nth_error_None in Eg; lia].
  destruct (nth_error (ps_status p) (Z.to_nat pl)) as [st|] eqn:Es; [|apply nth_error_None in Es; lia].
  pose proof (Forall2_nth _ _ _ _ _ _ HQ Eq Eg) as Hqi. cbn [fst snd] in Hqi.
  pose proof (Forall2_nth _ _ _ _ _ _ Hlast Es Eg) as Hls. cbn [fst] in Hls.
  pose proof (Hkinds _ _ _ _ Hk Eq Eg) as HK. cbn [KI fst] in HK. destruct HK as (Hdel & Hlu).
  assert (Hqn : qnth (ps_sync p) pl = q) by (unfold qnth; erewrite nth_error_nth; [reflexivity|exact Eq]).
  assert (Hsn : stat_at p pl = st) by (unfold stat_at; erewrite nth_error_nth; [reflexivity|exact Es]).
  rewrite Hqn in Hf, Hcap.
  pose proof (qi_ring _ _ _ _ _ Hqi) as I. pose proof (hlen_nonneg hist) as Hnn.
  rewrite (ri_last _ _ _ I) in Hf. rewrite (ri_length _ _ _ I) in Hcap.
  assert (Hf' : f = hlen hist) by lia.
  unfold ev_input. assert (negb (pl <? ps_nplayers p) = false) as -> by lia.
  rewrite Hsn. assert (cs_disc st = false) as ->.
  { unfold connected in Hconn. rewrite Forall_forall in Hconn. apply Hconn. eapply nth_error_In. exact Es. }
  assert (negb ((cs_last st =? NULL) || (cs_last st + 1 =? f)) = false) as -> by lia.
  unfold add_remote_input.
  assert (((pl <? 0) || (Z.of_nat (length (s_queues (ps_sync p))) <=? pl)) = false) as -> by lia.
  rewrite Hqn.
  destruct (add_input_nofill q hist low f v I ltac:(lia) ltac:(lia)) as (q' & Ea & I' & D' & U' & R' & F' & P').
  { destruct (Z.eq_dec (q_last_user q) NULL); [left; assumption|right; lia]. }
  { lia. }
  { exact (qi_p1 _ _ _ _ _ Hqi). }
  { lia. }
  rewrite Ea. cbn [res_bind].
  pose proof (qi_after_add _ _ _ _ _ v q' Hqi I' R' F' P') as Hqi'.
  eexists. exists (updz gs (Z.to_nat pl) (hist ++ [v], low)). split; [reflexivity|].
  split; [|exists q, hist, low, q'; cbn [with_status with_sync with_queues ps_sync s_queues s_current s_last_confirmed s_last_saved]; repeat split; first [assumption|reflexivity]].
  constructor; cbn [with_status with_sync with_queues ps_maxpred ps_sync ps_running ps_sparse ps_spectators ps_disc_frame
                    ps_nplayers ps_kinds ps_status ps_remotes ps_pending s_maxpred s_current s_last_confirmed s_queues].
  - exact Hw.
  - exact Hd.
  - exact Hmode.
  - rewrite updz_length. unfold set_stat. rewrite updz_length. repeat split; assumption.
  - unfold set_stat. apply Forall_updz; [exact Hconn|reflexivity].
  - exact Hgos.
  - apply Forall2_updz2; [exact HQ|exact Hqi'].
  - unfold set_stat. apply Forall2_updz2; [exact Hlast|]. cbn [cs_last fst]. rewrite hlen_app. lia.
  - exact Hfr.
  - intros h0 k q0 gh0 A B C.
    destruct (Nat.eq_dec (Z.to_nat pl) h0) as [Eh|Eh].
    + subst h0. rewrite nth_error_updz_same in B by lia. rewrite nth_error_updz_same in C by lia.
      injection B as <-. injection C as <-. rewrite Hk in A. injection A as <-.
      cbn [KI fst]. rewrite hlen_app. split; [congruence|lia].
    + rewrite nth_error_updz_other in B by exact Eh. rewrite nth_error_updz_other in C by exact Eh.
      exact (Hkinds _ _ _ _ A B C).
  - exact Hpe.
  - eapply spec_ok_grow; [exact Hsok|reflexivity|reflexivity|reflexivity|]. eapply grow_updz; [exact Eg|rewrite hlen_app; lia].
Qed.

Lemma local_progress : forall sp w d p gs h v,
  QSg sp w d p gs -> QSg sp w d (fst (api_add_local_input p h v)) gs /\ ps_sync (fst (api_add_local_input p h v)) = ps_sync p /\
                 ps_sparse (fst (api_add_local_input p h v)) = ps_sparse p /\ ps_maxpred (fst (api_add_local_input p h v)) = ps_maxpred p.
Proof.
  intros sp w d p gs h v HQS. unfold api_add_local_input.
  destruct (kind_at p h) as [[| |]|]; cbn [fst]; try (split; [exact HQS|repeat split]).
  split; [|repeat split].
  destruct HQS as [A B C D E F G H I J K].
  constructor; cbn [with_pending ps_maxpred ps_sync ps_running ps_sparse ps_spectators ps_disc_frame ps_nplayers ps_kinds ps_status ps_remotes ps_pending]; try assumption.
  intros h0 pi X. rewrite assoc_get_put in X. destruct (h =? h0); [injection X as <-; reflexivity|exact (K h0 pi X)].
Qed.

Lemma merged_connected : forall a b, connected a -> connected b ->
  connected (map (fun '(x, y) => mkcs (cs_disc y || cs_disc x) (Z.max (cs_last x) (cs_last y))) (combine a b)).
Proof.
  induction a as [|x a IH]; intros [|y b] Ha Hb; cbn [combine map]; try constructor.
  - inversion Ha; inversion Hb; subst. cbn [cs_disc]. unfold connected in *.
    match goal with H1 : cs_disc x = false, H2 : cs_disc y = false |- _ => rewrite H1, H2 end. reflexivity.
  - inversion Ha; inversion Hb; subst. apply IH; assumption.
Qed.

Lemma gossip_progress : forall sp w d p gs ep st, QSg sp w d p gs -> connected st -> QSg sp w d (gossip p ep st) gs.
Proof.
  intros sp w d p gs ep st HQS Hst. unfold gossip.
  destruct (nth_error (ps_remotes p) (Z.to_nat ep)) as [e|] eqn:Ee; [|exact HQS].
  destruct HQS as [A B C D E F G H I J K].
  constructor; cbn [with_remotes ps_maxpred ps_sync ps_running ps_sparse ps_spectators ps_disc_frame ps_nplayers ps_kinds ps_status ps_remotes ps_pending]; try assumption.
  apply Forall_updz; [exact F|]. cbn [ev_status]. apply merged_connected; [|exact Hst].
  rewrite Forall_forall in F. apply F. eapply nth_error_In. exact Ee.
Qed.

(* ---------- the start state ---------- *)
Lemma nth_error_start_queues : forall (f : Z * queue -> queue) m a h q,
  nth_error (map f (combine (zrange_from a m) (repeat q_new m))) h = Some q -> q = f (a + Z.of_nat h, q_new).
Proof.
  induction m as [|m IH]; intros a h q H; cbn [zrange_from repeat combine map] in H.
  - destruct h; discriminate.
  - destruct h as [|h]; cbn [nth_error] in H.
    + injection H as <-. f_equal. f_equal. lia.
    + rewrite (IH (a + 1) h q H). f_equal. f_equal. lia.
Qed.

Lemma Forall2_start_queues : forall (R : queue -> ghost -> Prop) (f : Z * queue -> queue) g m a,
  (forall h, R (f (h, q_new)) g) ->
  Forall2 R (map f (combine (zrange_from a m) (repeat q_new m))) (repeat g m).
Proof.
  induction m as [|m IH]; intros a H; cbn [zrange_from repeat combine map]; constructor; auto.
Qed.

Lemma QI_new : forall q, RInv q [] 0 -> pi_frame (q_pred q) = NULL -> q_first_incorrect q = NULL ->
  q_last_requested q = NULL -> QI 0 (-1) q [] 0.
Proof.
  intros q I P F R. constructor.
  - exact I.
  - left. exact P.
  - intros A. congruence.
  - intros A. congruence.
  - left. exact R.
  - lia.
  - unfold hlen. cbn. lia.
Qed.

Definition players_only (kinds : list pkind) : Prop :=
  Forall (fun k => match k with KSpectator _ => False | _ => True end) kinds.

Lemma QS_start_gen : forall sp n w d kinds eps nspec,
  1 <= w -> 0 <= d -> w + d + 3 <= QLEN -> 0 < n -> Z.of_nat (length kinds) = n -> players_only kinds ->
  QSg sp w d (session_start n w sp d kinds eps nspec) (repeat ([], 0) (Z.to_nat n)).
Proof.
  intros sp n w d kinds eps nspec Hw Hd Hcap Hn Hlen Hpl.
  unfold session_start, p2p_new, sync_new.
  constructor; cbn [with_running with_queues ps_maxpred ps_sync ps_running ps_sparse ps_spectators ps_disc_frame ps_nplayers
                    ps_kinds ps_status ps_remotes ps_pending s_maxpred s_current s_last_confirmed s_queues].
  - split; [lia|split; reflexivity].
  - split; [assumption|lia].
  - assert (((w =? 0) && sp) = false) as -> by (assert ((w =? 0) = false) as -> by lia; reflexivity). repeat split.
  - rewrite !repeat_length. repeat split; lia.
  - apply Forall_forall. intros s Hs. apply repeat_spec in Hs. subst s. reflexivity.
  - apply Forall_forall. intros e He. apply in_map_iff in He. destruct He as (hs & <- & _). cbn [ev_status].
    apply Forall_forall. intros s Hs. apply repeat_spec in Hs. subst s. reflexivity.
  - apply Forall2_start_queues. intros h. cbn [fst snd].
    destruct (nth_error kinds (Z.to_nat h)) as [[| |]|]; apply QI_new; try reflexivity; try exact RInv_new.
    eapply RInv_ext; [exact RInv_new|reflexivity..].
  - clear. induction (Z.to_nat n) as [|m IH]; cbn [repeat]; constructor; [reflexivity|exact IH].
  - unfold NULL. lia.
  - intros h k q gh A B C. apply nth_error_start_queues in B. cbn [Z.add] in B.
    apply nth_error_In, repeat_spec in C. subst gh. cbn [fst].
    rewrite Nat2Z.id, A in B. subst q.
    destruct k as [|e|e]; cbn [KI with_delay q_new q_delay q_pred q_last_user pi_frame blank].
    + split; [reflexivity|]. split; [reflexivity|]. left. repeat split.
    + split; [reflexivity|]. unfold hlen. cbn. reflexivity.
    + unfold players_only in Hpl. rewrite Forall_forall in Hpl. exact (Hpl _ (nth_error_In _ _ A)).
  - intros h pi X. discriminate X.
  - intros _. cbn [with_running ps_next_spec ps_sync with_queues s_last_confirmed]. split; [lia|]. split; [unfold NULL; lia|].
    apply Forall_forall. intros g Hg. pose proof (hlen_nonneg (fst g)). lia.
Qed.
Lemma QS_start : forall n w d kinds eps nspec,
  1 <= w -> 0 <= d -> w + d + 3 <= QLEN -> 0 < n -> Z.of_nat (length kinds) = n -> players_only kinds ->
  QS w d (session_start n w false d kinds eps nspec) (repeat ([], 0) (Z.to_nat n)).
Proof. exact (QS_start_gen false). Qed.

(* ================= runs inside C01's space ================= *)
(* which operations the theorem covers, decided on the current state:
   - add_local_input with any handle and value, advance_frame at any time (as long as no frame
     counter is about to reach i32::MAX),
   - the next input of a remote player while that player's ring has room (honest peers deliver each
     player's inputs in frame order; the window protocol keeps the ring from filling up),
   - gossip that reports nobody as disconnected.
   Disconnects, delay changes, spectators and sparse saving are outside this theorem. *)
Definition op_ok (p : p2p) (o : sop) : bool :=
  match o with
  | SLocal _ _ => true
  | SAdvance => forallb (fun st => cs_last st + 1 <? I32MAX) (ps_status p)
  | SRemote pl f _ =>
      (0 <=? pl) && (pl <? ps_nplayers p) &&
      (match nth_error (ps_kinds p) (Z.to_nat pl) with Some (KRemote _) => true | _ => false end) &&
      (f =? q_last_added (qnth (ps_sync p) pl) + 1) && (q_length (qnth (ps_sync p) pl) <? QLEN)
  | SGossip _ st => forallb (fun s => negb (cs_disc s)) st
  | _ => false
  end.

Section Run.
Variable predict : Z -> Z.

(* srun, except that an operation outside the space ends the run with Err *)
Fixpoint srun_in (p : p2p) (ops : list sop) : res (p2p * list (pout * apires)) :=
  match ops with
  | [] => Ok (p, [])
  | o :: r =>
    if op_ok p o then
      res_bind (sstep predict p o) (fun s =>
        res_bind (srun_in (sr_state s) r) (fun '(p', outs) => Ok (p', (sr_out s, sr_api s) :: outs)))
    else Err
  end.

Lemma step_in_space : forall p gs g w d o,
  QS w d p gs -> JI w p g -> 1 <= w -> op_ok p o = true ->
  exists s gs' g', sstep predict p o = Ok s /\ QS w d (sr_state s) gs' /\
    exec w g (o_requests (sr_out s)) = Some g' /\ JI w (sr_state s) g'.
Proof.
  intros p gs g w d o HQS HJI Hw1p Hok. destruct o as [h v|pl f v|ep st|hs|h|h dd|]; cbn [op_ok] in Hok; try discriminate.
  - (* add_local_input *)
    destruct (local_progress _ w d p gs h v HQS) as (HQ' & Hs & Hsp & Hmp).
    cbn [sstep]. destruct (api_add_local_input p h v) as [p' r] eqn:E. cbn [fst] in *.
    exists (mksr p' out0 r), gs, g. split; [reflexivity|]. cbn [sr_state sr_out out0 o_requests exec].
    split; [exact HQ'|]. split; [reflexivity|].
    eapply JI_frame; [exact HJI|]. unfold p_frame. rewrite Hs. split; [exact Hsp|]. split; [exact Hmp|apply sync_frame_refl].
  - (* an arriving remote input *)
    apply andb_prop in Hok. destruct Hok as [Hok H5]. apply andb_prop in Hok. destruct Hok as [Hok H4].
    apply andb_prop in Hok. destruct Hok as [Hok H3]. apply andb_prop in Hok. destruct Hok as [H1 H2].
    destruct (nth_error (ps_kinds p) (Z.to_nat pl)) as [[|e|e]|] eqn:Ek; try discriminate.
    destruct (remote_progress _ w d p gs pl f v e HQS ltac:(lia) Ek ltac:(lia) ltac:(lia)) as (p' & gs' & E & HQ' & _).
    cbn [sstep]. rewrite E. cbn [res_bind].
    exists (mksr p' out0 AOk), gs', g. split; [reflexivity|]. cbn [sr_state sr_out out0 o_requests exec].
    split; [exact HQ'|]. split; [reflexivity|].
    eapply JI_frame; [exact HJI|]. eapply ev_input_frame. exact E.
  - (* gossip *)
    cbn [sstep]. exists (mksr (gossip p ep st) out0 AOk), gs, g. split; [reflexivity|].
    cbn [sr_state sr_out out0 o_requests exec].
    split.
    + apply gossip_progress; [exact HQS|]. apply Forall_forall. intros s Hs. rewrite forallb_forall in Hok.
      specialize (Hok s Hs). destruct (cs_disc s); [discriminate|reflexivity].
    + split; [reflexivity|]. eapply JI_frame; [exact HJI|]. unfold gossip.
      destruct (nth_error (ps_remotes p) (Z.to_nat ep)); [|apply p_frame_refl].
      unfold p_frame. cbn. split; [reflexivity|]. split; [reflexivity|apply sync_frame_refl].
  - (* advance_frame *)
    destruct (advance_progress predict p gs g w d HQS HJI Hw1p) as (p' & o & r & gs' & g' & E & HQ' & Ex & HJ').
    { apply Forall_forall. intros s Hs. rewrite forallb_forall in Hok. specialize (Hok s Hs). lia. }
    cbn [sstep]. rewrite E. cbn [res_bind].
    exists (mksr p' o r), gs', g'. split; [reflexivity|]. cbn [sr_state sr_out]. split; [exact HQ'|]. split; [exact Ex|exact HJ'].
Qed.

(* no modelled assert fires on any run inside the space, and the request lists of the whole run are
   executable by the game, one after the other *)
Theorem run_in_space : forall ops p gs g w d,
  QS w d p gs -> JI w p g -> 1 <= w ->
  srun_in p ops = Err \/
  exists p' outs gs' g', srun_in p ops = Ok (p', outs) /\ srun predict p ops = Ok (p', outs) /\
    exec_outs w g outs = Some g' /\ QS w d p' gs' /\ JI w p' g'.
Proof.
  induction ops as [|o ops IH]; intros p gs g w d HQS HJI Hw1p.
  - right. exists p, [], gs, g. cbn [srun_in srun exec_outs]. split; [reflexivity|]. split; [reflexivity|]. split; [reflexivity|]. split; assumption.
  - cbn [srun_in srun]. destruct (op_ok p o) eqn:Hok; [|left; reflexivity].
    destruct (step_in_space p gs g w d o HQS HJI Hw1p Hok) as (s & gs1 & g1 & Es & HQ1 & Ex1 & HJ1).
    rewrite Es. cbn [res_bind].
    destruct (IH (sr_state s) gs1 g1 w d HQ1 HJ1 Hw1p) as [Herr|(p' & outs & gs' & g' & E1 & E2 & Ex & HQ' & HJ')].
    + left. rewrite Herr. reflexivity.
    + right. rewrite E1, E2. cbn [res_bind].
      exists p', ((sr_out s, sr_api s) :: outs), gs', g'. split; [reflexivity|]. split; [reflexivity|].
      split; [cbn [exec_outs]; rewrite Ex1; exact Ex|]. split; [exact HQ'|exact HJ'].
Qed.

End Run.
