(* Faithful model of src/input_queue.rs (InputQueue): a ring of QLEN slots, frame f at slot f mod QLEN.
   Inputs are Z (default 0); the predictor is a parameter.  Every assert!/panic! of the code is an
   explicit Panic outcome.  set_frame_delay is the repaired version (F3); the original one is kept as
   set_frame_delay_old for the refutation witness. *)
From GGRS Require Import Base Consts.
Open Scope Z_scope.

Definition QLEN : Z := INPUT_QUEUE_LENGTH.

Record pinput := mkpi { pi_frame : Z; pi_val : Z }.
Definition blank (f : Z) : pinput := mkpi f 0.

Inductive istatus := Confirmed | Predicted | Disconnected.

Record queue := mkq {
  q_head : Z; q_tail : Z; q_length : Z; q_first : bool;
  q_last_added : Z; q_last_user : Z; q_first_incorrect : Z; q_last_requested : Z;
  q_delay : Z;
  q_inputs : list pinput;
  q_pred : pinput }.

Definition slot (l : list pinput) (i : Z) : pinput := nth (Z.to_nat i) l (blank NULL).
Fixpoint upd (l : list pinput) (i : nat) (x : pinput) : list pinput :=
  match l, i with
  | [], _ => []
  | _ :: r, O => x :: r
  | y :: r, S k => y :: upd r k x
  end.

Definition prev_pos (head : Z) : Z := if head =? 0 then QLEN - 1 else head - 1.

Definition q_new : queue :=
  mkq 0 0 0 true NULL NULL NULL NULL 0 (repeat (blank NULL) (Z.to_nat QLEN)) (blank NULL).

Definition set_q_inputs q l := mkq (q_head q) (q_tail q) (q_length q) (q_first q) (q_last_added q)
  (q_last_user q) (q_first_incorrect q) (q_last_requested q) (q_delay q) l (q_pred q).

Definition reset_prediction (q : queue) : queue :=
  mkq (q_head q) (q_tail q) (q_length q) (q_first q) (q_last_added q) (q_last_user q)
      NULL NULL (q_delay q) (q_inputs q) (mkpi NULL (pi_val (q_pred q))).

Definition confirmed_input (q : queue) (f : Z) : res pinput :=
  let off := f mod QLEN in
  if pi_frame (slot (q_inputs q) off) =? f then Ok (slot (q_inputs q) off) else Panic.

Definition discard_confirmed_frames (q : queue) (frame0 : Z) : queue :=
  let frame := if q_last_requested q =? NULL then frame0 else Z.min frame0 (q_last_requested q) in
  let tailf := pi_frame (slot (q_inputs q) (q_tail q)) in
  if q_last_added q <=? frame then
    mkq (q_head q) (q_head q) 1 (q_first q) (q_last_added q) (q_last_user q) (q_first_incorrect q)
        (q_last_requested q) (q_delay q) (q_inputs q) (q_pred q)
  else if frame <=? tailf then q
  else
    let offset := frame - tailf in
    (* `self.length -= offset` on usize: underflow panics in the dev profile; modelled as Z, the
       invariant proofs show it never goes negative for queues a session reads *)
    mkq (q_head q) ((q_tail q + offset) mod QLEN) (q_length q - offset) (q_first q) (q_last_added q)
        (q_last_user q) (q_first_incorrect q) (q_last_requested q) (q_delay q) (q_inputs q) (q_pred q).

Section WithPredictor.
Variable predict : Z -> Z.

Definition input (q : queue) (f : Z) : res (queue * (Z * istatus)) :=
  if negb (q_first_incorrect q =? NULL) then Panic else
  let tailf := pi_frame (slot (q_inputs q) (q_tail q)) in
  if f <? tailf then Panic else
  let q1 := mkq (q_head q) (q_tail q) (q_length q) (q_first q) (q_last_added q) (q_last_user q)
                (q_first_incorrect q) f (q_delay q) (q_inputs q) (q_pred q) in
  if pi_frame (q_pred q) <? 0 then
    let offset := f - tailf in
    if offset <? q_length q then
      let off := (offset + q_tail q) mod QLEN in
      if pi_frame (slot (q_inputs q) off) =? f then Ok (q1, (pi_val (slot (q_inputs q) off), Confirmed))
      else Panic
    else
      let prevo := if (f =? 0) || (q_last_added q =? NULL) then None
                   else Some (slot (q_inputs q) (prev_pos (q_head q))) in
      let p := match prevo with
               | Some pi => mkpi (pi_frame pi + 1) (predict (pi_val pi))
               | None => mkpi (pi_frame (q_pred q) + 1) 0
               end in
      if pi_frame p =? NULL then Panic else
      Ok (mkq (q_head q) (q_tail q) (q_length q) (q_first q) (q_last_added q) (q_last_user q)
              (q_first_incorrect q) f (q_delay q) (q_inputs q) p, (pi_val p, Predicted))
  else
    if pi_frame (q_pred q) =? NULL then Panic else Ok (q1, (pi_val (q_pred q), Predicted)).

End WithPredictor.

Definition add_input_by_frame (q : queue) (v : Z) (fn : Z) : res queue :=
  let pp := prev_pos (q_head q) in
  if negb ((q_last_added q =? NULL) || (fn =? q_last_added q + 1)) then Panic else
  if negb ((fn =? 0) || (pi_frame (slot (q_inputs q) pp) =? fn - 1)) then Panic else
  let inputs' := upd (q_inputs q) (Z.to_nat (q_head q)) (mkpi fn v) in
  let head' := (q_head q + 1) mod QLEN in
  let length' := q_length q + 1 in
  if QLEN <? length' then Panic else
  if negb (pi_frame (q_pred q) =? NULL) then
    if negb (fn =? pi_frame (q_pred q)) then Panic else
    let fi := if (q_first_incorrect q =? NULL) && negb (pi_val (q_pred q) =? v) then fn
              else q_first_incorrect q in
    let pred' := if (pi_frame (q_pred q) =? q_last_requested q) && (fi =? NULL)
                 then mkpi NULL (pi_val (q_pred q))
                 else mkpi (pi_frame (q_pred q) + 1) (pi_val (q_pred q)) in
    Ok (mkq head' (q_tail q) length' false fn (q_last_user q) fi (q_last_requested q) (q_delay q) inputs' pred')
  else
    Ok (mkq head' (q_tail q) length' false fn (q_last_user q) (q_first_incorrect q)
            (q_last_requested q) (q_delay q) inputs' (q_pred q)).

(* `while expected_frame < input_frame { add_input_by_frame(inputs[previous_position], expected) }`
   previous_position is computed once before the loop, so the replicated value is fixed *)
Fixpoint fill_to (fuel : nat) (q : queue) (v : Z) (expected target : Z) : res queue :=
  if target <=? expected then Ok q else
  match fuel with
  | O => Panic   (* out of fuel: excluded by callers, which pass target - expected *)
  | S k => res_bind (add_input_by_frame q v expected) (fun q' => fill_to k q' v (expected + 1) target)
  end.

Definition advance_queue_head (q : queue) (frame : Z) : res (queue * Z) :=
  let pp := prev_pos (q_head q) in
  let expected := if q_first q then 0 else pi_frame (slot (q_inputs q) pp) + 1 in
  let input_frame := frame + q_delay q in
  if input_frame <? expected then Ok (q, NULL) else
  res_bind (fill_to (Z.to_nat (input_frame - expected)) q (pi_val (slot (q_inputs q) pp)) expected input_frame)
    (fun q' =>
       if negb ((input_frame =? 0) || (input_frame =? pi_frame (slot (q_inputs q') (prev_pos (q_head q'))) + 1))
       then Panic else Ok (q', input_frame)).

Definition add_input (q : queue) (frame v : Z) : res (queue * Z) :=
  if negb (q_last_user q =? NULL) && negb (frame =? q_last_user q + 1) then Ok (q, NULL) else
  let q1 := mkq (q_head q) (q_tail q) (q_length q) (q_first q) (q_last_added q) frame
                (q_first_incorrect q) (q_last_requested q) (q_delay q) (q_inputs q) (q_pred q) in
  res_bind (advance_queue_head q1 frame) (fun '(q2, nf) =>
    if nf =? NULL then Ok (q2, NULL)
    else res_bind (add_input_by_frame q2 v nf) (fun q3 => Ok (q3, nf))).

Definition with_delay (q : queue) (d : Z) : queue :=
  mkq (q_head q) (q_tail q) (q_length q) (q_first q) (q_last_added q) (q_last_user q)
      (q_first_incorrect q) (q_last_requested q) d (q_inputs q) (q_pred q).

(* fills: the frames inserted by a delay increase, as (frame, value) *)
Fixpoint fill_list (v : Z) (from : Z) (n : nat) : list pinput :=
  match n with O => [] | S k => mkpi from v :: fill_list v (from + 1) k end.

(* repaired set_frame_delay: inserts the frames last_added+1 ..= last_user+delay and returns them *)
Definition set_frame_delay (q : queue) (d : Z) : res (queue * list pinput) :=
  let q1 := with_delay q d in
  if (q_last_added q =? NULL) || (q_last_user q =? NULL) then Ok (q1, []) else
  let target := q_last_user q + d in
  let from := q_last_added q + 1 in
  if target <? from then Ok (q1, []) else
  let v := pi_val (slot (q_inputs q) (prev_pos (q_head q))) in
  let n := Z.to_nat (target + 1 - from) in
  res_bind (fill_to n q1 v from (target + 1)) (fun q2 => Ok (q2, fill_list v from n)).

(* the original code: computes delay - old_delay fills from last_added+1 and inserts nothing *)
Definition set_frame_delay_old (q : queue) (d : Z) : queue * list pinput :=
  let q1 := with_delay q d in
  if (d <=? q_delay q) || (q_last_added q =? NULL) then (q1, []) else
  (q1, fill_list (pi_val (slot (q_inputs q) (prev_pos (q_head q)))) (q_last_added q + 1) (Z.to_nat (d - q_delay q))).
