(* Invariants of the session core model (rollback and lockstep advance, no disconnects):
   the request lists are executable and frame-consistent (C02), speculation and rollbacks stay
   inside the prediction window (C04), no modelled assert fires. *)
From GGRS Require Import Base Consts Queue QueueProofs QueueTheorems Sync P2P Session.
From Coq Require Import ZifyBool ZifyNat ZifyN.
Ltac Zify.zify_post_hook ::= Z.div_mod_to_equations.
Open Scope Z_scope.

(* ================= one queue inside a session ================= *)
(* c = the sync layer's current frame, L = its last confirmed frame *)
Record QI (c L : Z) (q : queue) (hist : list Z) (low : Z) : Prop := {
  qi_ring : RInv q hist low;
  qi_p1 : pi_frame (q_pred q) = NULL \/ pi_frame (q_pred q) = hlen hist;
  qi_p2 : pi_frame (q_pred q) <> NULL -> q_first_incorrect q = NULL -> hlen hist <= q_last_requested q;
  qi_p4 : q_first_incorrect q <> NULL ->
          pi_frame (q_pred q) <> NULL /\ L < q_first_incorrect q < hlen hist /\ q_first_incorrect q <= c - 1;
  qi_req : q_last_requested q = NULL \/ q_last_requested q = c - 1;
  qi_low : low <= Z.max 0 L /\ (0 < L -> L - 1 <= low);
  qi_conf : L <= hlen hist - 1;
}.

Lemma qi_reset : forall c c' L q hist low, QI c L q hist low -> QI c' L (reset_prediction q) hist low.
Proof.
  intros c c' L q hist low [I P1 P2 P4 Rq Lw Cf].
  constructor; cbn [reset_prediction q_pred q_first_incorrect q_last_requested pi_frame].
  - apply reset_ok. exact I.
  - left. reflexivity.
  - intros A. congruence.
  - intros A. congruence.
  - left. reflexivity.
  - exact Lw.
  - exact Cf.
Qed.

(* moving the last confirmed frame up to L' and discarding below L' - 1 *)
Lemma qi_confirm : forall c L L' q hist low,
  QI c L q hist low -> q_first_incorrect q = NULL -> L <= L' -> L' <= hlen hist - 1 -> L' <= c ->
  exists low', QI c L' (if 0 <? L' then discard_confirmed_frames q (L' - 1) else q) hist low' /\
    q_first_incorrect (if 0 <? L' then discard_confirmed_frames q (L' - 1) else q) = NULL /\
    q_delay (if 0 <? L' then discard_confirmed_frames q (L' - 1) else q) = q_delay q /\
    q_last_user (if 0 <? L' then discard_confirmed_frames q (L' - 1) else q) = q_last_user q /\
    q_pred (if 0 <? L' then discard_confirmed_frames q (L' - 1) else q) = q_pred q.
Proof.
  intros c L L' q hist low [I P1 P2 P4 Rq [Lw1 Lw2] Cf] Hfi HL HL' HLc.
  destruct (Z.ltb_spec 0 L') as [Hpos|Hnp].
  - destruct (discard_ok q hist low (L' - 1) I ltac:(lia)) as (I' & D' & U' & R' & F' & P').
    exists (discard_low q low (L' - 1)). split; [|repeat split; congruence].
    constructor; rewrite ?P', ?F', ?R'.
    + exact I'.
    + exact P1.
    + exact P2.
    + intro A. congruence.
    + exact Rq.
    + unfold discard_low. split.
      * destruct (q_last_requested q =? NULL); lia.
      * intros _. destruct Rq as [Rq|Rq]; rewrite Rq.
        -- cbn. lia.
        -- destruct (Z.eqb_spec (c - 1) NULL); lia.
    + exact HL'.
  - exists low. split; [|split; [exact Hfi|repeat split; reflexivity]].
    constructor.
    + exact I.
    + exact P1.
    + exact P2.
    + intro A. congruence.
    + exact Rq.
    + split; [lia|]. intros A. lia.
    + exact HL'.
Qed.

Section WithPredictor.
Variable predict : Z -> Z.

(* reading the current frame of a queue without a pending misprediction *)
Lemma qi_input : forall c L q hist low,
  QI c L q hist low -> q_first_incorrect q = NULL -> 0 <= c -> L <= c ->
  exists q' v st, input predict q c = Ok (q', (v, st)) /\ QI (c + 1) L q' hist low /\
                  q_first_incorrect q' = NULL /\ (st = Confirmed \/ st = Predicted) /\
                  (st = Confirmed -> c < hlen hist /\ v = hval hist c) /\
                  (st = Predicted -> hlen hist <= c) /\
                  q_delay q' = q_delay q /\ q_last_user q' = q_last_user q /\
                  (c < hlen hist -> pi_frame (q_pred q) = NULL -> pi_frame (q_pred q') = NULL).
Proof.
  intros c L q hist low [I P1 P2 P4 Rq [Lw1 Lw2] Cf] Hfi Hc HL.
  destruct (ri_low _ _ _ I) as (L0 & L1 & L2). pose proof (hlen_nonneg hist) as Hnn.
  destruct P1 as [P1|P1].
  - destruct (Z.lt_ge_cases c (hlen hist)) as [Hlt|Hge].
    + assert (Hf : low <= c < hlen hist) by lia.
      rewrite (input_confirmed predict q hist low c I Hfi P1 Hf).
      eexists; eexists; eexists. split; [reflexivity|].
      split; [|repeat split; auto; try discriminate; try (intros; discriminate); try (intros; cbn [set_requested_pred set_last_requested q_pred pi_frame] in *; unfold NULL in *; lia)].
      constructor; cbn [set_last_requested q_pred q_first_incorrect q_last_requested].
      * eapply RInv_ext; [exact I|reflexivity..].
      * left. exact P1.
      * intros A. congruence.
      * intros A. congruence.
      * right. lia.
      * split; assumption.
      * exact Cf.
    + rewrite (input_predict_start predict q hist low c I Hfi P1 Hge Hc).
      eexists; eexists; eexists. split; [reflexivity|].
      split; [|repeat split; auto; try discriminate; try (intros; discriminate); try (intros; cbn [set_requested_pred set_last_requested q_pred pi_frame] in *; unfold NULL in *; lia)].
      constructor; cbn [set_requested_pred q_pred q_first_incorrect q_last_requested pi_frame pi_val].
      * eapply RInv_ext; [exact I|reflexivity..].
      * right. reflexivity.
      * intros _ _. exact Hge.
      * intros A. congruence.
      * right. lia.
      * split; assumption.
      * exact Cf.
  - assert (Hact : pi_frame (q_pred q) <> NULL) by (unfold NULL; lia).
    pose proof (P2 Hact Hfi) as Pl.
    assert (Htl : (if hlen hist =? 0 then NULL else low) <= c) by (destruct (hlen hist =? 0); unfold NULL; lia).
    rewrite (input_predicting predict q hist low c I Hfi P1 Htl).
    eexists; eexists; eexists. split; [reflexivity|].
    assert (Hge : hlen hist <= c) by (destruct Rq as [Rq|Rq]; unfold NULL in *; lia).
    split; [|repeat split; auto; try discriminate; try (intros; discriminate); try (intros; cbn [set_requested_pred set_last_requested q_pred pi_frame] in *; unfold NULL in *; lia)].
    constructor; cbn [set_last_requested q_pred q_first_incorrect q_last_requested].
    + eapply RInv_ext; [exact I|reflexivity..].
    + right. exact P1.
    + intros _ _. exact Hge.
    + intros A. congruence.
    + right. lia.
    + split; assumption.
    + exact Cf.
Qed.


(* ================= all queues of a sync layer ================= *)
Definition ghost := (list Z * Z)%type.
Definition QsI (c L : Z) (qs : list queue) (gs : list ghost) : Prop :=
  Forall2 (fun q g => QI c L q (fst g) (snd g)) qs gs.
Definition all_clean (qs : list queue) : Prop := Forall (fun q => q_first_incorrect q = NULL) qs.
Definition same_user (qs qs' : list queue) : Prop :=
  Forall2 (fun q q' => q_delay q' = q_delay q /\ q_last_user q' = q_last_user q) qs qs'.
Definition connected (st : list cstat) : Prop := Forall (fun s => cs_disc s = false) st.
(* a queue whose read stays inside its history keeps an idle prediction slot *)
Definition keeps_null (c : Z) (qs : list queue) (gs : list ghost) (qs' : list queue) : Prop :=
  forall h q gh q', nth_error qs h = Some q -> nth_error gs h = Some gh -> nth_error qs' h = Some q' ->
    c < hlen (fst gh) -> pi_frame (q_pred q) = NULL -> pi_frame (q_pred q') = NULL.

Lemma sync_inputs_go_ok : forall st qs gs c L,
  QsI c L qs gs -> all_clean qs -> length st = length qs -> connected st -> 0 <= c -> L <= c ->
  exists qs' ins, sync_inputs_go predict c qs st = Ok (qs', ins) /\ QsI (c + 1) L qs' gs /\
    all_clean qs' /\ length ins = length qs /\
    Forall (fun i => snd i = Confirmed \/ snd i = Predicted) ins /\ same_user qs qs' /\ keeps_null c qs gs qs'.
Proof.
  induction st as [|s st IH]; intros qs gs c L HQ Hcl Hlen Hcon Hc HL.
  - destruct qs; [|discriminate]. inversion HQ; subst.
    exists [], []. cbn. repeat split; try constructor. intros [|h] ? ? ? A; discriminate A.
  - destruct qs as [|q qs]; [discriminate|]. inversion HQ as [|? g ? gs' Hq HQ']; subst.
    inversion Hcl as [|? ? Hq0 Hcl']; subst. inversion Hcon as [|? ? Hs Hcon']; subst.
    cbn [sync_inputs_go]. rewrite Hs. cbn [andb].
    destruct (qi_input c L q (fst g) (snd g) Hq Hq0 Hc HL) as (q' & v & stt & E & HQ1 & Hfi1 & Hst & _ & _ & Hd & Hu & Hkn).
    rewrite E. cbn [res_bind].
    destruct (IH qs gs' c L HQ' Hcl' ltac:(cbn in Hlen; lia) Hcon' Hc HL) as (qs' & ins & E' & HQ2 & Hcl2 & Hl2 & Hst2 & Hsu & Hkn2).
    rewrite E'. cbn [res_bind].
    exists (q' :: qs'), ((v, stt) :: ins). split; [reflexivity|].
    repeat split.
    + constructor; assumption.
    + constructor; assumption.
    + cbn. lia.
    + constructor; [exact Hst|exact Hst2].
    + constructor; [split; assumption|exact Hsu].
    + intros [|h] q0 gh q0' A B C; cbn [nth_error] in A, B, C.
      * injection A as <-. injection B as <-. injection C as <-. exact Hkn.
      * exact (Hkn2 h q0 gh q0' A B C).
Qed.

End WithPredictor.

(* ================= the user's game, executing request lists (C02) ================= *)
(* The free game: its state after n frames is the list of the n input vectors it was advanced with.
   A cell holds (frame, state) of the save that wrote it.  Executing a request list fails when a
   Save names another frame than the game's, or a Load names a frame that is not earlier, or whose
   cell does not hold the state saved for that frame on the current timeline. *)
Definition frame_inputs := list (Z * istatus).
Definition ghist := list frame_inputs.
Record game := mkg { g_hist : ghist; g_cells : list (Z * ghist) }.

Definition status_eqb (a b : istatus) : bool :=
  match a, b with Confirmed, Confirmed | Predicted, Predicted | Disconnected, Disconnected => true | _, _ => false end.
Fixpoint fi_eqb (a b : frame_inputs) : bool :=
  match a, b with
  | [], [] => true
  | (v, s) :: a', (v', s') :: b' => (v =? v') && status_eqb s s' && fi_eqb a' b'
  | _, _ => false
  end.
Fixpoint gh_eqb (a b : ghist) : bool :=
  match a, b with
  | [], [] => true
  | x :: a', y :: b' => fi_eqb x y && gh_eqb a' b'
  | _, _ => false
  end.

Definition gframe (g : game) : Z := Z.of_nat (length (g_hist g)).

Definition exec_req (w : Z) (g : game) (r : request) : option game :=
  match r with
  | RSave f =>
      if f =? gframe g then Some (mkg (g_hist g) (updz (g_cells g) (Z.to_nat (f mod (w + 1))) (f, g_hist g))) else None
  | RLoad f =>
      let '(cf, ch) := nth (Z.to_nat (f mod (w + 1))) (g_cells g) (NULL, []) in
      if (0 <=? f) && (f <? gframe g) && (cf =? f) && gh_eqb ch (firstn (Z.to_nat f) (g_hist g))
      then Some (mkg ch (g_cells g)) else None
  | RAdvance ins => Some (mkg (g_hist g ++ [ins]) (g_cells g))
  end.

Fixpoint exec (w : Z) (g : game) (rs : list request) : option game :=
  match rs with
  | [] => Some g
  | r :: rest => match exec_req w g r with Some g' => exec w g' rest | None => None end
  end.

Definition game0 (w : Z) : game := mkg [] (repeat (NULL, []) (Z.to_nat (w + 1))).

Lemma status_eqb_refl : forall s, status_eqb s s = true.
Proof. destruct s; reflexivity. Qed.
Lemma fi_eqb_refl : forall a, fi_eqb a a = true.
Proof. induction a as [|[v s] a IH]; cbn; [reflexivity|]. rewrite Z.eqb_refl, status_eqb_refl, IH. reflexivity. Qed.
Lemma gh_eqb_refl : forall a, gh_eqb a a = true.
Proof. induction a as [|x a IH]; cbn; [reflexivity|]. rewrite fi_eqb_refl, IH. reflexivity. Qed.

Lemma exec_app : forall w rs1 rs2 g, exec w g (rs1 ++ rs2) = match exec w g rs1 with Some g' => exec w g' rs2 | None => None end.
Proof.
  induction rs1 as [|r rs1 IH]; intros rs2 g; cbn [app exec]; [reflexivity|].
  destruct (exec_req w g r); [apply IH|reflexivity].
Qed.

(* ================= saved-state cells: the sync layer's view and the game's view ================= *)
(* for every frame f in [lo, hi]: the sync layer believes the cell of f holds f, and the game's cell
   of f holds exactly the state the game has for frame f on its current timeline *)
Definition CellsI (w lo hi : Z) (s : sync) (g : game) : Prop :=
  s_maxpred s = w /\ Z.of_nat (length (s_cells s)) = w + 1 /\ Z.of_nat (length (g_cells g)) = w + 1 /\
  forall f, lo <= f <= hi ->
    cell_frame s f = f /\ nth (Z.to_nat (f mod (w + 1))) (g_cells g) (NULL, []) = (f, firstn (Z.to_nat f) (g_hist g)).

Lemma nth_updz_same {A} : forall (l : list A) i x d, (i < length l)%nat -> nth i (updz l i x) d = x.
Proof. induction l as [|y r IH]; intros [|k] x d H; cbn in *; try lia; auto. apply IH; lia. Qed.
Lemma nth_updz_other {A} : forall (l : list A) i j x d, i <> j -> nth j (updz l i x) d = nth j l d.
Proof. induction l as [|y r IH]; intros [|k] [|j] x d H; cbn; auto; try congruence. Qed.
Lemma updz_length {A} : forall (l : list A) i x, length (updz l i x) = length l.
Proof. induction l as [|y r IH]; intros [|k] x; cbn; auto. Qed.

Lemma mod_window_inj_w : forall w f g, 0 <= w -> g - w <= f <= g -> f mod (w + 1) = g mod (w + 1) -> f = g.
Proof.
  intros w f g Hw Hf H.
  pose proof (Z.div_mod f (w + 1) ltac:(lia)) as Df. pose proof (Z.div_mod g (w + 1) ltac:(lia)) as Dg.
  assert (E : g - f = (w + 1) * (g / (w + 1) - f / (w + 1))) by lia.
  assert (g / (w + 1) - f / (w + 1) = 0) by nia. lia.
Qed.

Lemma firstn_app_le {A} : forall (l : list A) x n, (n <= length l)%nat -> firstn n (l ++ x) = firstn n l.
Proof. intros l x n H. rewrite firstn_app. replace (n - length l)%nat with 0%nat by lia. cbn. apply app_nil_r. Qed.

(* SaveGameState for the current frame *)
Lemma save_ok : forall w lo hi s g,
  CellsI w lo hi s g -> 0 <= w -> 0 <= s_current s -> gframe g = s_current s ->
  s_current s - 1 <= hi <= s_current s -> s_current s - w <= lo ->
  exists s' g', save_current_state s = Ok (s', RSave (s_current s)) /\
    exec_req w g (RSave (s_current s)) = Some g' /\
    CellsI w lo (s_current s) s' g' /\ g_hist g' = g_hist g /\
    s_current s' = s_current s /\ s_last_confirmed s' = s_last_confirmed s /\ s_queues s' = s_queues s /\
    s_last_saved s' = s_current s.
Proof.
  intros w lo hi s g (Hmp & Hls & Hlg & Hc) Hw Hcur Hgf Hhi Hlo.
  unfold save_current_state. assert ((s_current s <? 0) = false) as -> by lia.
  set (c := s_current s) in *.
  eexists; eexists. split; [reflexivity|].
  unfold exec_req. rewrite Hgf, Z.eqb_refl. split; [reflexivity|].
  assert (Hpos : 0 <= c mod (w + 1) < w + 1) by (apply Z.mod_pos_bound; lia).
  split; [|cbn; repeat split; reflexivity].
  unfold CellsI. cbn [s_maxpred s_cells g_cells g_hist].
  rewrite !updz_length. repeat split; try assumption.
  - destruct (Z.eq_dec f c) as [->|Hne].
    + unfold cell_frame, cell_pos. cbn [s_maxpred s_cells]. rewrite Hmp.
      apply nth_updz_same. lia.
    + destruct (Hc f ltac:(lia)) as [A _].
      unfold cell_frame, cell_pos in *. cbn [s_maxpred s_cells]. rewrite Hmp in *.
      rewrite nth_updz_other; [exact A|].
      intro E. apply Hne. apply (mod_window_inj_w w f c Hw); [lia|].
      assert (0 <= f mod (w + 1) < w + 1) by (apply Z.mod_pos_bound; lia). lia.
  - destruct (Z.eq_dec f c) as [->|Hne].
    + rewrite nth_updz_same by lia. f_equal.
      unfold gframe in Hgf. rewrite <- Hgf, Nat2Z.id. symmetry. apply firstn_all.
    + destruct (Hc f ltac:(lia)) as [_ B].
      rewrite nth_updz_other; [exact B|].
      intro E. apply Hne. apply (mod_window_inj_w w f c Hw); [lia|].
      assert (0 <= f mod (w + 1) < w + 1) by (apply Z.mod_pos_bound; lia). lia.
Qed.

(* AdvanceFrame *)
Lemma advance_cells : forall w lo hi s g ins,
  CellsI w lo hi s g -> hi <= gframe g ->
  CellsI w lo hi (advance_frame s) (mkg (g_hist g ++ [ins]) (g_cells g)).
Proof.
  intros w lo hi s g ins (Hmp & Hls & Hlg & Hc) Hhi.
  unfold CellsI. cbn [advance_frame with_current s_maxpred s_cells g_cells g_hist].
  repeat split; try assumption.
  - destruct (Hc f H) as [A _]. exact A.
  - destruct (Hc f H) as [A B]. rewrite B. f_equal.
    symmetry. apply firstn_app_le. unfold gframe in Hhi. lia.
Qed.

(* LoadGameState of a frame whose cell is valid *)
Lemma load_ok : forall w lo hi s g f,
  CellsI w lo hi s g -> 0 <= w -> gframe g = s_current s ->
  lo <= f <= hi -> 0 <= f -> f < s_current s -> s_current s - w <= f ->
  exists s' g', load_frame s f = Ok (s', RLoad f) /\ exec_req w g (RLoad f) = Some g' /\
    s' = with_current s f /\ g_hist g' = firstn (Z.to_nat f) (g_hist g) /\ gframe g' = f /\
    CellsI w lo f s' g'.
Proof.
  intros w lo hi s g f (Hmp & Hls & Hlg & Hc) Hw Hgf Hf H0 Hlt Hwin.
  destruct (Hc f Hf) as [A B].
  unfold load_frame. rewrite Hmp.
  assert ((f =? NULL) = false) as -> by (unfold NULL; lia).
  assert ((f <? s_current s) = true) as -> by lia. cbn [negb].
  assert ((f <? s_current s - w) = false) as -> by lia.
  assert ((f <? 0) = false) as -> by lia.
  rewrite A, Z.eqb_refl. cbn [negb].
  eexists; eexists. split; [reflexivity|].
  unfold exec_req. rewrite B.
  assert ((0 <=? f) = true) as -> by lia. rewrite Hgf.
  assert ((f <? s_current s) = true) as -> by lia. rewrite Z.eqb_refl, gh_eqb_refl. cbn [andb].
  split; [reflexivity|]. split; [reflexivity|]. split; [reflexivity|].
  assert (Hlen : (Z.to_nat f <= length (g_hist g))%nat) by (unfold gframe in Hgf; lia).
  split.
  - unfold gframe. cbn [g_hist]. rewrite firstn_length. lia.
  - unfold CellsI. cbn [with_current s_maxpred s_cells g_cells g_hist].
    repeat split; try assumption.
    + destruct (Hc f0 ltac:(lia)) as [A0 _]. exact A0.
    + destruct (Hc f0 ltac:(lia)) as [_ B0]. rewrite B0. f_equal.
      rewrite firstn_firstn. f_equal. lia.
Qed.

(* ================= re-simulation after a rollback (non-sparse) ================= *)
Lemma with_sync_idem : forall p s s', with_sync (with_sync p s) s' = with_sync p s'.
Proof. reflexivity. Qed.

Lemma same_user_refl : forall qs, same_user qs qs.
Proof. induction qs; constructor; auto. Qed.
Lemma same_user_trans : forall a b c, same_user a b -> same_user b c -> same_user a c.
Proof.
  induction a as [|x a IH]; intros b c H1 H2; inversion H1; subst; inversion H2; subst; constructor.
  - destruct H3, H4. split; congruence.
  - eapply IH; eassumption.
Qed.


Lemma res_bind_ok {A B} : forall (r : res A) (f : A -> res B) x,
  res_bind r f = Ok x -> exists a, r = Ok a /\ f a = Ok x.
Proof. intros r f x H. destruct r; cbn in H; try discriminate. eauto. Qed.

(* ================= C02 / C04: what a successful advance_frame hands out =================
   These statements hold for EVERY state of the session model and every operation sequence
   (disconnects, gossip, delay changes, spectators included): they only depend on how requests
   are generated and on the bookkeeping of the saved-state cells.  That no assert fires on the way
   (advance = Ok) is the subject of the no-panic theorems further down. *)

(* the part of the session state the game-side contract depends on *)
Record JI (w : Z) (p : p2p) (g : game) : Prop := {
  ji_w : 0 <= w;
  ji_mp : ps_maxpred p = w;
  ji_frame : gframe g = s_current (ps_sync p);
  ji_cur : 0 <= s_current (ps_sync p);
  ji_roll : 1 <= w ->
            ps_sparse p = false /\ s_maxpred (ps_sync p) = w /\
            CellsI w (Z.max 0 (s_current (ps_sync p) - w)) (s_current (ps_sync p) - 1) (ps_sync p) g;
}.

Definition cells_same (s s' : sync) : Prop := s_maxpred s' = s_maxpred s /\ s_cells s' = s_cells s /\ s_last_saved s' = s_last_saved s.

Lemma CellsI_same : forall w lo hi s s' g, CellsI w lo hi s g -> cells_same s s' -> CellsI w lo hi s' g.
Proof.
  intros w lo hi s s' g (A & B & C & D) (E & F & _). unfold CellsI. rewrite E, F. repeat split; try assumption.
  - destruct (D f H) as [X _]. unfold cell_frame, cell_pos in *. rewrite E, F. exact X.
  - destruct (D f H) as [_ Y]. exact Y.
Qed.

Lemma CellsI_narrow : forall w lo hi lo' hi' s g, CellsI w lo hi s g -> lo <= lo' -> hi' <= hi -> CellsI w lo' hi' s g.
Proof. intros w lo hi lo' hi' s g (A & B & C & D) H1 H2. repeat split; try assumption; apply D; lia. Qed.

Section Exec.
Variable predict : Z -> Z.

Lemma synchronized_inputs_sync : forall s st s1 ins,
  synchronized_inputs predict s st = Ok (s1, ins) ->
  cells_same s s1 /\ s_current s1 = s_current s /\ s_last_confirmed s1 = s_last_confirmed s /\ s_last_saved s1 = s_last_saved s.
Proof.
  intros s st s1 ins H. unfold synchronized_inputs in H.
  apply res_bind_ok in H. destruct H as ([qs ins'] & _ & E). inversion E; subst.
  repeat split; reflexivity.
Qed.

Lemma save_current_state_inv : forall s s' r, save_current_state s = Ok (s', r) ->
  0 <= s_current s /\ r = RSave (s_current s) /\ s_current s' = s_current s /\ s_queues s' = s_queues s /\
  s_last_confirmed s' = s_last_confirmed s /\ s_maxpred s' = s_maxpred s /\ s_last_saved s' = s_current s.
Proof.
  intros s s' r H. unfold save_current_state in H.
  destruct (Z.ltb_spec (s_current s) 0); [discriminate|]. inversion H; subst. cbn. repeat split; auto.
Qed.

(* re-simulation: every step is [Save cur]? ; Advance *)
Lemma resim_exec : forall n i p mc o p' o' g lo w,
  resim_go predict n i p mc o = Ok (p', o') -> ps_sparse p = false ->
  0 <= w -> 0 <= i -> 0 <= s_current (ps_sync p) ->
  gframe g = s_current (ps_sync p) ->
  CellsI w lo (if 0 <? i then s_current (ps_sync p) - 1 else s_current (ps_sync p)) (ps_sync p) g ->
  s_current (ps_sync p) + Z.of_nat n - 1 - w <= lo ->
  exists R g',
    o_requests o' = o_requests o ++ R /\ o_remote_sends o' = o_remote_sends o /\ o_spec_sends o' = o_spec_sends o /\
    exec w g R = Some g' /\
    gframe g' = s_current (ps_sync p') /\ s_current (ps_sync p') = s_current (ps_sync p) + Z.of_nat n /\
    CellsI w lo (if (0 <? i) || (0 <? Z.of_nat n) then s_current (ps_sync p') - 1 else s_current (ps_sync p')) (ps_sync p') g' /\
    p' = with_sync p (ps_sync p') /\
    (forall r, In r R -> match r with RLoad _ => False | _ => True end).
Proof.
  induction n as [|n IH]; intros i p mc o p' o' g lo w H Hsp Hw Hi Hc Hgf Hcells Hlo.
  - cbn [resim_go] in H. inversion H; subst. exists [], g. rewrite app_nil_r.
    cbn [Z.of_nat]. rewrite Z.add_0_r. replace (0 <? 0) with false by reflexivity. rewrite orb_false_r.
    split; [reflexivity|]. split; [reflexivity|]. split; [reflexivity|]. split; [reflexivity|].
    split; [exact Hgf|]. split; [reflexivity|]. split; [exact Hcells|]. split; [destruct p'; reflexivity|]. intros r [].
  - cbn [resim_go] in H.
    apply res_bind_ok in H. destruct H as ([s1 ins] & E1 & H).
    destruct (synchronized_inputs_sync _ _ _ _ E1) as (Hcs & Hc1 & HL1 & HS1).
    rewrite Hsp in H.
    apply res_bind_ok in H. destruct H as ([s2 o2] & E2 & H).
    set (cur := s_current (ps_sync p)) in *.
    assert (Hcells1 : CellsI w lo (if 0 <? i then cur - 1 else cur) s1 g) by (eapply CellsI_same; eassumption).
    (* the optional save of this step *)
    assert (Hstep : exists Rs g2, o_requests o2 = o_requests o ++ Rs /\ o_remote_sends o2 = o_remote_sends o /\ o_spec_sends o2 = o_spec_sends o /\
              exec w g Rs = Some g2 /\
              g_hist g2 = g_hist g /\ s_current s2 = cur /\ CellsI w lo cur s2 g2 /\
              (forall r, In r Rs -> match r with RLoad _ => False | _ => True end)).
    { destruct (Z.ltb_spec 0 i) as [Hpos|Hz].
      - apply res_bind_ok in E2. destruct E2 as ([s2' r] & Es & E2). inversion E2; subst s2' o2. clear E2.
        destruct (save_ok w lo (cur - 1) s1 g Hcells1 Hw ltac:(lia) ltac:(lia) ltac:(lia) ltac:(lia))
          as (s2'' & g2 & Es' & Ex & Hcl & Hh & Hcc & _ & _ & _).
        rewrite Hc1 in Es'. rewrite Es in Es'. inversion Es'; subst s2'' r.
        exists [RSave cur], g2. cbn [add_req o_requests o_remote_sends o_spec_sends exec].
        rewrite Hc1 in Ex. rewrite Ex.
        split; [reflexivity|]. split; [reflexivity|]. split; [reflexivity|]. split; [reflexivity|].
        split; [exact Hh|]. split; [lia|]. split; [rewrite Hc1 in Hcl; exact Hcl|].
        intros r [<-|[]]. exact I.
      - inversion E2; subst s2 o2. exists [], g. rewrite app_nil_r. cbn [exec].
        split; [reflexivity|]. split; [reflexivity|]. split; [reflexivity|]. split; [reflexivity|].
        split; [reflexivity|]. split; [exact Hc1|]. split; [exact Hcells1|]. intros r []. }
    destruct Hstep as (Rs & g2 & Ho2 & Hr2 & Hs2 & Ex2 & Hh2 & Hc2 & Hcl2 & Hnl2).
    (* the advance, then the rest *)
    set (p1 := with_sync p (advance_frame s2)) in *.
    set (g3 := mkg (g_hist g2 ++ [ins]) (g_cells g2)).
    assert (Hcl3 : CellsI w lo cur (advance_frame s2) g3).
    { apply advance_cells; [exact Hcl2|]. unfold gframe. rewrite Hh2. unfold gframe in Hgf. lia. }
    destruct (IH (i + 1) p1 mc (add_req o2 (RAdvance ins)) p' o' g3 lo w H) as (R & g' & A1 & A2 & A3 & A4 & A5 & A6 & A7 & A8 & A9).
    + exact Hsp.
    + exact Hw.
    + lia.
    + subst p1. cbn [with_sync ps_sync advance_frame with_current s_current]. lia.
    + subst p1 g3. cbn [with_sync ps_sync advance_frame with_current s_current]. unfold gframe. cbn [g_hist].
      rewrite app_length, Hh2. cbn [length]. unfold gframe in Hgf. lia.
    + subst p1. cbn [with_sync ps_sync]. assert ((0 <? i + 1) = true) as -> by lia.
      cbn [advance_frame with_current s_current]. replace (s_current s2 + 1 - 1) with cur by lia. exact Hcl3.
    + subst p1. cbn [with_sync ps_sync advance_frame with_current s_current]. lia.
    + exists (Rs ++ [RAdvance ins] ++ R), g'.
      cbn [add_req o_requests o_remote_sends o_spec_sends] in A1, A2, A3.
      subst p1. cbn [with_sync ps_sync advance_frame with_current s_current] in A6.
      split; [rewrite A1, Ho2; rewrite <- !app_assoc; reflexivity|].
      split; [congruence|]. split; [congruence|].
      split; [rewrite exec_app, Ex2; cbn [app exec exec_req]; fold g3; exact A4|].
      split; [exact A5|]. split; [lia|].
      split.
      { assert ((0 <? i + 1) = true) as Hi1 by lia. rewrite Hi1 in A7. cbn [orb] in A7.
        assert ((0 <? Z.of_nat (S n)) = true) as -> by lia. rewrite orb_true_r. exact A7. }
      split; [rewrite A8; reflexivity|].
      * intros r Hin. apply in_app_or in Hin. destruct Hin as [Hin|Hin]; [apply Hnl2; exact Hin|].
        cbn [app] in Hin. destruct Hin as [<-|Hin]; [exact I|apply A9; exact Hin].
Qed.

End Exec.

Lemma load_frame_inv : forall s f s' r, load_frame s f = Ok (s', r) ->
  0 <= f /\ f < s_current s /\ s_current s - s_maxpred s <= f /\ cell_frame s f = f /\ s' = with_current s f /\ r = RLoad f.
Proof.
  intros s f s' r H. unfold load_frame in H.
  destruct (f =? NULL) eqn:E1; [discriminate|].
  destruct (f <? s_current s) eqn:E2; cbn [negb] in H; [|discriminate].
  destruct (f <? s_current s - s_maxpred s) eqn:E3; [discriminate|].
  destruct (f <? 0) eqn:E4; [discriminate|].
  destruct (cell_frame s f =? f) eqn:E5; cbn [negb] in H; [|discriminate].
  inversion H; subst. repeat split; auto; lia.
Qed.

Section Exec2.
Variable predict : Z -> Z.

(* a rollback: Load f, then the re-simulation back to the current frame *)
Lemma adjust_exec : forall p fi mc o p' o' g w hi,
  adjust_gamestate predict p fi mc o = Ok (p', o') -> ps_sparse p = false ->
  0 <= w -> s_maxpred (ps_sync p) = w ->
  gframe g = s_current (ps_sync p) ->
  s_current (ps_sync p) - 1 <= hi ->
  CellsI w (Z.max 0 (s_current (ps_sync p) - w)) hi (ps_sync p) g ->
  exists R g',
    o_requests o' = o_requests o ++ R /\ o_remote_sends o' = o_remote_sends o /\ o_spec_sends o' = o_spec_sends o /\
    exec w g R = Some g' /\ gframe g' = s_current (ps_sync p) /\
    s_current (ps_sync p') = s_current (ps_sync p) /\
    CellsI w (Z.max 0 (s_current (ps_sync p) - w)) (s_current (ps_sync p) - 1) (ps_sync p') g' /\
    p' = with_sync p (ps_sync p') /\
    (forall r, In r R -> match r with RLoad f => s_current (ps_sync p) - w <= f < s_current (ps_sync p) | _ => True end).
Proof.
  intros p fi mc o p' o' g w hi H Hsp Hw Hmp Hgf Hhi Hcells.
  unfold adjust_gamestate in H. rewrite Hsp in H.
  set (c := s_current (ps_sync p)) in *.
  destruct (fi <? fi) eqn:Eff; [lia|].
  apply res_bind_ok in H. destruct H as ([s1 r] & El & H).
  destruct (load_frame_inv _ _ _ _ El) as (F0 & F1 & F2 & F3 & -> & ->). fold c in F1, F2. rewrite Hmp in F2.
  apply res_bind_ok in H. destruct H as ([p2 o2] & Er & H).
  destruct (s_current (ps_sync p2) =? c) eqn:Ecur; cbn [negb] in H; [|discriminate].
  inversion H; subst p2 o2. clear H.
  assert (Hcn : CellsI w (Z.max 0 (c - w)) (c - 1) (ps_sync p) g) by (eapply CellsI_narrow; [exact Hcells|lia|lia]).
  destruct (load_ok w (Z.max 0 (c - w)) (c - 1) (ps_sync p) g fi Hcn Hw Hgf ltac:(lia) F0 F1 F2)
    as (s1' & g1 & El' & Ex1 & Es1 & Hh1 & Hg1 & Hc1).
  rewrite El in El'. inversion El'; subst s1'. clear El'.
  set (p1 := with_sync p (reset_all (with_current (ps_sync p) fi))) in *.
  assert (Hcs : cells_same (with_current (ps_sync p) fi) (ps_sync p1)) by (subst p1; repeat split; reflexivity).
  destruct (resim_exec predict (Z.to_nat (c - fi)) 0 p1 mc (add_req o (RLoad fi)) p' o' g1 (Z.max 0 (c - w)) w Er)
    as (R & g' & A1 & A2 & A3 & A4 & A5 & A6 & A7 & A8 & A9).
  - subst p1. exact Hsp.
  - exact Hw.
  - lia.
  - subst p1. cbn. exact F0.
  - subst p1. cbn [with_sync ps_sync reset_all with_queues s_current with_current]. exact Hg1.
  - replace (0 <? 0) with false by reflexivity.
    subst p1. cbn [with_sync ps_sync reset_all with_queues s_current with_current].
    eapply CellsI_same; [exact Hc1|]. repeat split; reflexivity.
  - subst p1. cbn [with_sync ps_sync reset_all with_queues s_current with_current]. lia.
  - subst p1. cbn [with_sync ps_sync reset_all with_queues s_current with_current] in A6, A8.
    cbn [add_req o_requests o_remote_sends o_spec_sends] in A1, A2, A3.
    assert (Hn : (0 <? Z.of_nat (Z.to_nat (c - fi))) = true) by lia.
    rewrite Hn in A7. replace ((0 <? 0) || true) with true in A7 by reflexivity.
    assert (Hcp : s_current (ps_sync p') = c) by lia.
    exists (RLoad fi :: R), g'.
    split; [rewrite A1, <- app_assoc; reflexivity|]. split; [exact A2|]. split; [exact A3|].
    split; [cbn [exec]; rewrite Ex1; exact A4|].
    split; [rewrite A5; exact Hcp|]. split; [exact Hcp|].
    split; [rewrite Hcp in A7; exact A7|].
    split; [rewrite A8; reflexivity|].
    intros r0 [<-|Hin]; [lia|]. specialize (A9 r0 Hin). destruct r0; auto. contradiction.
Qed.

End Exec2.

(* ================= what the bookkeeping functions leave alone ================= *)
Definition sync_frame (s s' : sync) : Prop := cells_same s s' /\ s_current s' = s_current s.
Definition p_frame (p p' : p2p) : Prop :=
  ps_sparse p' = ps_sparse p /\ ps_maxpred p' = ps_maxpred p /\ sync_frame (ps_sync p) (ps_sync p').

Lemma sync_frame_refl : forall s, sync_frame s s.
Proof. intro s. repeat split. Qed.
Lemma sync_frame_trans : forall a b c, sync_frame a b -> sync_frame b c -> sync_frame a c.
Proof. intros a b c [(A1 & A2 & A4) A3] [(B1 & B2 & B4) B3]. repeat split; congruence. Qed.
Lemma p_frame_refl : forall p, p_frame p p.
Proof. intro p. repeat split. Qed.
Lemma p_frame_trans : forall a b c, p_frame a b -> p_frame b c -> p_frame a c.
Proof.
  intros a b c (A1 & A2 & A3) (B1 & B2 & B3). split; [congruence|]. split; [congruence|].
  eapply sync_frame_trans; eassumption.
Qed.

Lemma queue_outgoing_frame : forall p h i p', queue_outgoing p h i = Ok p' -> p_frame p p' /\ ps_sync p' = ps_sync p.
Proof.
  intros p h i p' H. unfold queue_outgoing in H.
  destruct (pi_frame i =? NULL); [discriminate|].
  destruct (ps_remotes p); inversion H; subst.
  - split; [apply p_frame_refl|reflexivity].
  - split; [repeat split|reflexivity].
Qed.

Lemma queue_blanks_frame : forall n p h f p', queue_blanks n p h f = Ok p' -> p_frame p p' /\ ps_sync p' = ps_sync p.
Proof.
  induction n as [|k IH]; intros p h f p' H; cbn [queue_blanks] in H.
  - inversion H; subst. split; [apply p_frame_refl|reflexivity].
  - apply res_bind_ok in H. destruct H as (p1 & E1 & H).
    destruct (queue_outgoing_frame _ _ _ _ E1) as [F1 S1].
    destruct (IH _ _ _ _ H) as [F2 S2]. split; [eapply p_frame_trans; eassumption|congruence].
Qed.

Lemma send_ready_go_frame : forall n p locals o p' o',
  send_ready_go n p locals o = Ok (p', o') ->
  p_frame p p' /\ ps_sync p' = ps_sync p /\ o_requests o' = o_requests o /\ o_spec_sends o' = o_spec_sends o.
Proof.
  induction n as [|k IH]; intros p locals o p' o' H; cbn [send_ready_go] in H.
  - inversion H; subst. repeat split.
  - destruct (next_complete p locals) as [f|]; [|inversion H; subst; repeat split].
    destruct (assoc_get (ps_outgoing p) f) as [m|]; [|discriminate].
    apply IH in H. destruct H as (F & S & R1 & R2).
    cbn [with_outgoing ps_sync] in *.
    split; [|split; [exact S|]].
    + destruct F as (A & B & C). repeat split; cbn in *; try congruence; destruct C as [(C1 & C2 & C4) C3]; congruence.
    + destruct (existsb ev_running (ps_remotes p)); cbn [add_rsend o_requests o_spec_sends] in *; split; congruence.
Qed.

Lemma send_ready_outgoing_frame : forall p o p' o',
  send_ready_outgoing p o = Ok (p', o') ->
  p_frame p p' /\ ps_sync p' = ps_sync p /\ o_requests o' = o_requests o /\ o_spec_sends o' = o_spec_sends o.
Proof.
  intros p o p' o' H. unfold send_ready_outgoing in H.
  destruct (ps_remotes p); [inversion H; subst; repeat split|].
  destruct (local_handles p); [inversion H; subst; repeat split|].
  eapply send_ready_go_frame; eassumption.
Qed.

Lemma add_local_input_frame : forall s h f v s' r, add_local_input s h f v = Ok (s', r) -> sync_frame s s' /\ f = s_current s.
Proof.
  intros s h f v s' r H. unfold add_local_input in H.
  destruct (Z.eqb_spec f (s_current s)) as [E|E]; cbn [negb] in H; [|discriminate].
  destruct ((h <? 0) || _); [discriminate|].
  apply res_bind_ok in H. destruct H as ([q' r'] & _ & H). inversion H; subst. repeat split.
Qed.

Lemma register_go_frame : forall hs p p', register_go p hs = Ok p' -> p_frame p p'.
Proof.
  induction hs as [|h r IH]; intros p p' H; cbn [register_go] in H.
  - inversion H; subst. apply p_frame_refl.
  - destruct (assoc_get (ps_pending p) h) as [pi|]; [|discriminate].
    apply res_bind_ok in H. destruct H as ([s' actual] & E1 & H).
    destruct (add_local_input_frame _ _ _ _ _ _ E1) as [F1 _].
    assert (P1 : p_frame p (with_sync p s')) by (repeat split; cbn; try apply F1; destruct F1 as [(A & B & B') C]; auto).
    destruct (actual =? NULL).
    + eapply p_frame_trans; [exact P1|]. apply IH. exact H.
    + apply res_bind_ok in H. destruct H as (p2 & E2 & H).
      apply res_bind_ok in H. destruct H as (p4 & E4 & H).
      assert (P2 : p_frame (with_sync p s') p2).
      { destruct (cs_last (stat_at (with_sync p s') h) =? NULL).
        - apply queue_blanks_frame in E2. apply E2.
        - inversion E2; subst. apply p_frame_refl. }
      destruct (queue_outgoing_frame _ _ _ _ E4) as [P4 _].
      eapply p_frame_trans; [exact P1|]. eapply p_frame_trans; [exact P2|].
      eapply p_frame_trans; [|apply IH; exact H].
      eapply p_frame_trans; [|exact P4]. repeat split; reflexivity.
Qed.

Lemma register_local_inputs_frame : forall p o p' o',
  register_local_inputs p o = Ok (p', o') ->
  p_frame p p' /\ o_requests o' = o_requests o /\ o_spec_sends o' = o_spec_sends o.
Proof.
  intros p o p' o' H. unfold register_local_inputs in H.
  apply res_bind_ok in H. destruct H as (p1 & E1 & H).
  apply register_go_frame in E1. apply send_ready_outgoing_frame in H. destruct H as (F & _ & R1 & R2).
  split; [eapply p_frame_trans; eassumption|split; assumption].
Qed.

Lemma disconnect_at_frame_frame : forall p h lf p', disconnect_player_at_frame p h lf = Ok p' ->
  p_frame p p' /\ ps_sync p' = ps_sync p.
Proof.
  intros p h lf p' H. unfold disconnect_player_at_frame in H.
  destruct (kind_at p h) as [[|ep|ep]|]; try discriminate.
  - inversion H; subst. split; [apply p_frame_refl|reflexivity].
  - destruct (nth_error (ps_remotes p) (Z.to_nat ep)); [|discriminate].
    inversion H; subst. destruct (lf + 1 <? s_current (ps_sync p)); split; repeat split.
  - destruct (nth_error (ps_spectators p) (Z.to_nat ep)); [|discriminate].
    inversion H; subst. split; repeat split.
Qed.

Lemma update_player_disconnects_frame : forall p p', update_player_disconnects p = Ok p' ->
  p_frame p p' /\ ps_sync p' = ps_sync p.
Proof.
  intros p p'. unfold update_player_disconnects.
  generalize (zrange_from 0 (Z.to_nat (ps_nplayers p))) as hs.
  assert (G : forall hs (rp : res p2p) p0,
             (forall q, rp = Ok q -> p_frame p0 q /\ ps_sync q = ps_sync p0) ->
             forall p', fold_left (fun rp h => res_bind rp (fun p =>
               let running := filter ev_running (ps_remotes p) in
               let queue_connected := forallb (fun e => negb (cs_disc (nth (Z.to_nat h) (ev_status e) cs_default))) running in
               let qmin0 := fold_left (fun acc e => Z.min acc (cs_last (nth (Z.to_nat h) (ev_status e) cs_default))) running I32MAX in
               let lc := negb (cs_disc (stat_at p h)) in
               let lmin := cs_last (stat_at p h) in
               let qmin := if lc then Z.min qmin0 lmin else qmin0 in
               if negb queue_connected && (lc || (qmin <? lmin)) then disconnect_player_at_frame p h qmin else Ok p)) hs rp = Ok p' ->
             p_frame p0 p' /\ ps_sync p' = ps_sync p0).
  { induction hs as [|h r IH]; intros rp p0 Hrp p'' H; cbn [fold_left] in H.
    - apply Hrp. exact H.
    - eapply IH; [|exact H]. intros q Hq.
      apply res_bind_ok in Hq. destruct Hq as (p1 & E1 & Hq). destruct (Hrp p1 E1) as [F1 S1].
      cbv zeta in Hq.
      match type of Hq with (if ?c then _ else _) = _ => destruct c end.
      + destruct (disconnect_at_frame_frame _ _ _ _ Hq) as [F2 S2].
        split; [eapply p_frame_trans; eassumption|congruence].
      + inversion Hq; subst. split; assumption. }
  intros hs H. eapply (G hs (Ok p) p); [|exact H].
  intros q Hq. inversion Hq; subst. split; [apply p_frame_refl|reflexivity].
Qed.

Lemma spec_send_go_frame : forall n p cf o p' o',
  spec_send_go n p cf o = Ok (p', o') ->
  p_frame p p' /\ ps_sync p' = ps_sync p /\ o_requests o' = o_requests o.
Proof.
  induction n as [|k IH]; intros p cf o p' o' H; cbn [spec_send_go] in H.
  - inversion H; subst. repeat split.
  - destruct (cf <? ps_next_spec p); [inversion H; subst; repeat split|].
    apply res_bind_ok in H. destruct H as (ins & _ & H).
    destruct (negb _); [discriminate|]. destruct (negb _); [discriminate|].
    apply IH in H. destruct H as (F & S & R). cbn [with_next_spec ps_sync] in *.
    split; [|split; [exact S|]].
    + destruct F as (A & B & C). repeat split; cbn in *; try congruence; destruct C as [(C1 & C2 & C4) C3]; congruence.
    + destruct (existsb _ _); cbn [add_ssend o_requests] in R; exact R.
Qed.

Lemma send_spectators_frame : forall p cf o p' o',
  send_confirmed_inputs_to_spectators p cf o = Ok (p', o') ->
  p_frame p p' /\ ps_sync p' = ps_sync p /\ o_requests o' = o_requests o.
Proof.
  intros p cf o p' o' H. unfold send_confirmed_inputs_to_spectators in H.
  destruct (ps_spectators p); [inversion H; subst; repeat split|].
  eapply spec_send_go_frame; eassumption.
Qed.

Lemma set_last_confirmed_frame_frame : forall s f sp s', set_last_confirmed_frame s f sp = Ok s' -> sync_frame s s'.
Proof.
  intros s f sp s' H. unfold set_last_confirmed_frame in H.
  destruct (negb _); [discriminate|]. inversion H; subst. repeat split.
Qed.

Section Exec3.
Variable predict : Z -> Z.

Definition loads_in_window (w c : Z) (R : list request) : Prop :=
  forall r, In r R -> match r with RLoad f => c - w <= f < c | _ => True end.

Lemma handle_rollback_exec : forall p cf o p' o' g w hi,
  handle_rollback_and_save predict p cf o = Ok (p', o') -> ps_sparse p = false ->
  0 <= w -> s_maxpred (ps_sync p) = w -> gframe g = s_current (ps_sync p) -> 0 <= s_current (ps_sync p) ->
  s_current (ps_sync p) - 1 <= hi <= s_current (ps_sync p) ->
  CellsI w (Z.max 0 (s_current (ps_sync p) - w)) hi (ps_sync p) g ->
  exists R g',
    o_requests o' = o_requests o ++ R /\ o_remote_sends o' = o_remote_sends o /\ o_spec_sends o' = o_spec_sends o /\
    exec w g R = Some g' /\ gframe g' = s_current (ps_sync p) /\
    s_current (ps_sync p') = s_current (ps_sync p) /\
    CellsI w (Z.max 0 (s_current (ps_sync p) - w)) (s_current (ps_sync p)) (ps_sync p') g' /\
    ps_sparse p' = false /\ ps_maxpred p' = ps_maxpred p /\ s_maxpred (ps_sync p') = w /\
    loads_in_window w (s_current (ps_sync p)) R.
Proof.
  intros p cf o p' o' g w hi H Hsp Hw Hmp Hgf Hc0 Hhi Hcells.
  unfold handle_rollback_and_save in H.
  set (c := s_current (ps_sync p)) in *.
  apply res_bind_ok in H. destruct H as ([p1 o1] & E1 & H).
  (* the optional rollback *)
  assert (Hrb : exists R1 g1,
     o_requests o1 = o_requests o ++ R1 /\ o_remote_sends o1 = o_remote_sends o /\ o_spec_sends o1 = o_spec_sends o /\
     exec w g R1 = Some g1 /\ gframe g1 = c /\ s_current (ps_sync p1) = c /\
     (exists hi1, c - 1 <= hi1 <= c /\ CellsI w (Z.max 0 (c - w)) hi1 (ps_sync p1) g1) /\
     ps_sparse p1 = false /\ ps_maxpred p1 = ps_maxpred p /\ s_maxpred (ps_sync p1) = w /\
     loads_in_window w c R1).
  { destruct (check_simulation_consistency (ps_sync p) (ps_disc_frame p) =? NULL).
    - inversion E1; subst p1 o1. exists [], g. rewrite app_nil_r. cbn [exec].
      split; [reflexivity|]. split; [reflexivity|]. split; [reflexivity|]. split; [reflexivity|].
      split; [exact Hgf|]. split; [reflexivity|]. split; [exists hi; split; [exact Hhi|exact Hcells]|].
      split; [exact Hsp|]. split; [reflexivity|]. split; [exact Hmp|]. intros r [].
    - apply res_bind_ok in E1. destruct E1 as ([p2 o2] & Ea & E1). inversion E1; subst p1 o1. clear E1.
      destruct (adjust_exec predict p _ cf o p2 o2 g w hi Ea Hsp Hw Hmp Hgf ltac:(lia) Hcells)
        as (R & g' & A1 & A2 & A3 & A4 & A5 & A6 & A7 & A8 & A9).
      exists R, g'. cbn [with_disc_frame ps_sync ps_sparse ps_maxpred].
      split; [exact A1|]. split; [exact A2|]. split; [exact A3|]. split; [exact A4|]. split; [exact A5|]. split; [exact A6|].
      split; [exists (c - 1); split; [lia|exact A7]|].
      rewrite A8. cbn [with_sync ps_sparse ps_maxpred ps_sync].
      split; [exact Hsp|]. split; [reflexivity|].
      split; [destruct A7 as (M & _); exact M|]. exact A9. }
  destruct Hrb as (R1 & g1 & B1 & B2 & B3 & B4 & B5 & B6 & (hi1 & Hhi1 & B7) & B8 & B9 & B10 & B11).
  rewrite B8 in H.
  apply res_bind_ok in H. destruct H as ([s2 r] & Es & H). inversion H; subst p' o'. clear H.
  destruct (save_ok w (Z.max 0 (c - w)) hi1 (ps_sync p1) g1 B7 Hw ltac:(lia) ltac:(lia) ltac:(lia) ltac:(lia))
    as (s2' & g2 & Es' & Ex & Hcl & Hh & Hcc & HLc & Hqs & Hls).
  rewrite Es in Es'. inversion Es'; subst s2' r. clear Es'.
  exists (R1 ++ [RSave c]), g2. cbn [add_req o_requests o_remote_sends o_spec_sends with_sync ps_sync ps_sparse ps_maxpred].
  split; [rewrite B1, app_assoc, B6; reflexivity|]. split; [exact B2|]. split; [exact B3|].
  split; [rewrite exec_app, B4; cbn [exec]; rewrite B6 in Ex; rewrite Ex; reflexivity|].
  split; [unfold gframe; rewrite Hh; exact B5|]. split; [lia|].
  split; [rewrite B6 in Hcl; exact Hcl|]. split; [exact B8|]. split; [exact B9|].
  split; [destruct Hcl as (M & _); exact M|].
  intros r0 Hin. apply in_app_or in Hin. destruct Hin as [Hin|[<-|[]]]; [apply B11; exact Hin|exact I].
Qed.

End Exec3.

Section Exec4.
Variable predict : Z -> Z.

Lemma set_last_confirmed_value : forall s f s', set_last_confirmed_frame s f false = Ok s' ->
  s_last_confirmed s' = Z.min f (s_current s).
Proof.
  intros s f s' H. unfold set_last_confirmed_frame in H.
  destruct (negb _); [discriminate|]. inversion H; subst. reflexivity.
Qed.

(* one advance_frame call in rollback mode without sparse saving *)
Lemma advance_rollback_exec : forall p o p' o' g w hi,
  advance_rollback_frame predict p o = Ok (p', o') -> ps_sparse p = false ->
  1 <= w -> ps_maxpred p = w -> s_maxpred (ps_sync p) = w ->
  gframe g = s_current (ps_sync p) -> 0 <= s_current (ps_sync p) ->
  s_current (ps_sync p) - 1 <= hi <= s_current (ps_sync p) ->
  CellsI w (Z.max 0 (s_current (ps_sync p) - w)) hi (ps_sync p) g ->
  exists R g' cf,
    confirmed_frame p = Ok cf /\
    o_requests o' = o_requests o ++ R /\ exec w g R = Some g' /\
    gframe g' = s_current (ps_sync p') /\
    (s_current (ps_sync p') = s_current (ps_sync p) \/ s_current (ps_sync p') = s_current (ps_sync p) + 1) /\
    CellsI w (Z.max 0 (s_current (ps_sync p') - w)) (s_current (ps_sync p') - 1) (ps_sync p') g' /\
    ps_sparse p' = false /\ ps_maxpred p' = w /\ s_maxpred (ps_sync p') = w /\
    loads_in_window w (s_current (ps_sync p)) R /\
    (* the gate: a new frame is only simulated within the window of what is confirmed *)
    (s_current (ps_sync p') = s_current (ps_sync p) + 1 ->
       (exists ins R0, R = R0 ++ [RAdvance ins]) /\
       (if cf <? 0 then s_current (ps_sync p) < w else s_current (ps_sync p) - cf < w)).
Proof.
  intros p o p' o' g w hi H Hsp Hw Hmpp Hmp Hgf Hc0 Hhi Hcells.
  unfold advance_rollback_frame in H.
  set (c := s_current (ps_sync p)) in *.
  apply res_bind_ok in H. destruct H as (cf & Ecf & H).
  apply res_bind_ok in H. destruct H as ([p1 o1] & E1 & H).
  destruct (handle_rollback_exec predict p cf o p1 o1 g w hi E1 Hsp ltac:(lia) Hmp Hgf Hc0 Hhi Hcells)
    as (R1 & g1 & A1 & A2 & A3 & A4 & A5 & A6 & A7 & A8 & A9 & A10 & A11). fold c in A5, A6, A7, A11.
  apply res_bind_ok in H. destruct H as ([p2 o2] & E2 & H).
  destruct (send_spectators_frame _ _ _ _ _ E2) as ((F2a & F2b & F2c) & S2 & R2).
  apply res_bind_ok in H. destruct H as (s3 & E3 & H).
  assert (Hsp2 : ps_sparse p2 = false) by congruence. rewrite Hsp2 in E3.
  pose proof (set_last_confirmed_frame_frame _ _ _ _ E3) as F3.
  pose proof (set_last_confirmed_value _ _ _ E3) as V3.
  apply res_bind_ok in H. destruct H as ([p4 o4] & E4 & H).
  destruct (register_local_inputs_frame _ _ _ _ E4) as ((F4a & F4b & F4c) & R4 & _).
  cbn [with_sync ps_sparse ps_maxpred ps_sync] in F4a, F4b, F4c.
  (* the sync layer after the bookkeeping still has the cells and the current frame of p1 *)
  assert (Hfr : sync_frame (ps_sync p1) (ps_sync p4)).
  { eapply sync_frame_trans; [|exact F4c]. rewrite <- S2. exact F3. }
  destruct Hfr as [Hcs4 Hcur4].
  assert (Hcells4 : CellsI w (Z.max 0 (c - w)) c (ps_sync p4) g1) by (eapply CellsI_same; eassumption).
  assert (Hc4 : s_current (ps_sync p4) = c) by congruence.
  assert (Hmp4 : s_maxpred (ps_sync p4) = w) by (destruct Hcs4 as [M _]; congruence).
  assert (Hsp4 : ps_sparse p4 = false) by congruence.
  assert (Hmpp4 : ps_maxpred p4 = w) by congruence.
  (* last confirmed frame of p4: queues may have changed in register, but not last_confirmed *)
  assert (HL4 : s_last_confirmed (ps_sync p4) = Z.min cf c).
  { (* register_local_inputs only replaces queues *)
    clear - E4 V3 S2 A6. revert E4. unfold register_local_inputs. intro E4.
    apply res_bind_ok in E4. destruct E4 as (pa & Ea & E4).
    assert (G : forall hs q q', register_go q hs = Ok q' -> s_last_confirmed (ps_sync q') = s_last_confirmed (ps_sync q)).
    { induction hs as [|h r IH]; intros q q' Hq; cbn [register_go] in Hq.
      - inversion Hq; reflexivity.
      - destruct (assoc_get (ps_pending q) h); [|discriminate].
        apply res_bind_ok in Hq. destruct Hq as ([s' a] & Ex & Hq).
        assert (s_last_confirmed s' = s_last_confirmed (ps_sync q)).
        { unfold add_local_input in Ex. destruct (negb _); [discriminate|]. destruct (_ || _); [discriminate|].
          apply res_bind_ok in Ex. destruct Ex as ([q1 r1] & _ & Ex). inversion Ex; reflexivity. }
        destruct (a =? NULL).
        + rewrite (IH _ _ Hq). cbn. exact H.
        + apply res_bind_ok in Hq. destruct Hq as (p2' & E2' & Hq).
          apply res_bind_ok in Hq. destruct Hq as (p4' & E4' & Hq).
          rewrite (IH _ _ Hq).
          destruct (queue_outgoing_frame _ _ _ _ E4') as [_ S4']. rewrite S4'. cbn [with_status ps_sync].
          assert (ps_sync p2' = s').
          { destruct (cs_last _ =? NULL).
            - apply queue_blanks_frame in E2'. destruct E2' as [_ X]. exact X.
            - inversion E2'; reflexivity. }
          rewrite H0. exact H. } 
    apply send_ready_outgoing_frame in E4. destruct E4 as (_ & S & _).
    rewrite S, (G _ _ _ Ea). cbn [with_sync ps_sync]. rewrite V3, S2, A6. reflexivity. }
  rewrite HL4, Hc4, Hmpp4 in H.
  destruct (Z.ltb_spec (if Z.min cf c =? NULL then c else c - Z.min cf c) w) as [Hgate|Hgate].
  - (* the new frame is simulated *)
    apply res_bind_ok in H. destruct H as ([s5 ins] & E5 & H). inversion H; subst p' o'. clear H.
    destruct (synchronized_inputs_sync _ _ _ _ _ E5) as (Hcs5 & Hc5 & _ & _).
    set (g2 := mkg (g_hist g1 ++ [ins]) (g_cells g1)).
    exists (R1 ++ [RAdvance ins]), g2, cf.
    cbn [add_req o_requests with_pending with_sync ps_sync ps_sparse ps_maxpred advance_frame with_current s_current s_maxpred].
    split; [exact Ecf|].
    split; [rewrite R4, R2, A1, app_assoc; reflexivity|].
    split; [rewrite exec_app, A4; reflexivity|].
    split; [unfold gframe, g2; cbn [g_hist]; rewrite app_length; cbn [length]; unfold gframe in A5; lia|].
    split; [right; lia|].
    split.
    { replace (s_current s5 + 1 - 1) with c by lia.
      assert (Hc' : CellsI w (Z.max 0 (c - w)) c (advance_frame s5) g2).
      { apply advance_cells; [eapply CellsI_same; eassumption|lia]. }
      eapply CellsI_narrow; [exact Hc'|lia|lia]. }
    split; [exact Hsp4|]. split; [exact Hmpp4|].
    split; [destruct Hcs5 as [M _]; congruence|].
    split.
    { intros r0 Hin. apply in_app_or in Hin. destruct Hin as [Hin|[<-|[]]]; [apply A11; exact Hin|exact I]. }
    intros _. split; [exists ins, R1; reflexivity|].
    destruct (Z.ltb_spec cf 0) as [Hn|Hn].
    + destruct (Z.eqb_spec (Z.min cf c) NULL) as [E|E]; unfold NULL in *; lia.
    + destruct (Z.eqb_spec (Z.min cf c) NULL) as [E|E]; unfold NULL in *; lia.
  - (* stalled at the prediction limit *)
    inversion H; subst p' o'. clear H.
    exists R1, g1, cf.
    split; [exact Ecf|].
    split; [rewrite R4, R2, A1; reflexivity|].
    split; [exact A4|]. split; [rewrite A5, Hc4; reflexivity|]. split; [left; exact Hc4|].
    split; [rewrite Hc4; eapply CellsI_narrow; [exact Hcells4|lia|lia]|].
    split; [exact Hsp4|]. split; [exact Hmpp4|]. split; [exact Hmp4|]. split; [exact A11|].
    intro Hs; exfalso; lia.
Qed.

End Exec4.

(* ================= lockstep (max_prediction = 0) ================= *)
Lemma confirmed_inputs_go_len : forall st f qs r, confirmed_inputs_go f qs st = Ok r -> length r = length st.
Proof.
  induction st as [|c st IH]; intros f qs r H.
  - destruct qs; cbn in H; inversion H; subst; reflexivity.
  - destruct qs as [|q qs]; cbn [confirmed_inputs_go] in H; [discriminate|].
    destruct (cs_disc c && (cs_last c <? f)).
    + apply res_bind_ok in H. destruct H as (r' & E & H). inversion H; subst. cbn. f_equal. eapply IH; eassumption.
    + apply res_bind_ok in H. destruct H as (pi & _ & H). apply res_bind_ok in H. destruct H as (r' & E & H).
      inversion H; subst. cbn. f_equal. eapply IH; eassumption.
Qed.

Lemma spec_send_go_status : forall n q c oo q' oo', spec_send_go n q c oo = Ok (q', oo') -> ps_status q' = ps_status q.
Proof.
  induction n as [|k IH]; intros q c oo q' oo' H; cbn [spec_send_go] in H; [inversion H; reflexivity|].
  destruct (c <? ps_next_spec q); [inversion H; reflexivity|].
  apply res_bind_ok in H. destruct H as (ins & _ & H). destruct (negb _); [discriminate|]. destruct (negb _); [discriminate|].
  apply IH in H. exact H.
Qed.
Lemma send_spectators_status : forall p cf o p' o',
  send_confirmed_inputs_to_spectators p cf o = Ok (p', o') -> ps_status p' = ps_status p.
Proof.
  intros p cf o p' o' H. unfold send_confirmed_inputs_to_spectators in H.
  destruct (ps_spectators p); [inversion H; reflexivity|]. eapply spec_send_go_status; eassumption.
Qed.

Lemma advance_lockstep_shape : forall p o p' o',
  advance_lockstep_frame p o = Ok (p', o') ->
  ps_maxpred p' = ps_maxpred p /\ ps_sparse p' = ps_sparse p /\
  exists R, o_requests o' = o_requests o ++ R /\
    ((R = [] /\ s_current (ps_sync p') = s_current (ps_sync p)) \/
     (exists ins p1 cf, R = [RAdvance ins] /\ s_current (ps_sync p') = s_current (ps_sync p) + 1 /\
        Forall (fun i => snd i = Confirmed \/ snd i = Disconnected) ins /\
        (* the frame that was simulated is at or below the confirmed frame (after this tick's
           local inputs were registered) *)
        confirmed_frame p1 = Ok cf /\ ps_status p1 = ps_status p' /\ s_current (ps_sync p) <= cf)).
Proof.
  intros p o p' o' H. unfold advance_lockstep_frame in H.
  apply res_bind_ok in H. destruct H as ([p1 o1] & E1 & H).
  destruct (register_local_inputs_frame _ _ _ _ E1) as ((F1a & F1b & (F1c & F1d)) & R1 & _).
  apply res_bind_ok in H. destruct H as (cf & Ecf & H).
  apply res_bind_ok in H. destruct H as ([p2 o2] & E2 & H).
  apply res_bind_ok in H. destruct H as (cf2 & Ecf2 & H).
  apply res_bind_ok in H. destruct H as ([p3 o3] & E3 & H).
  destruct (send_spectators_frame _ _ _ _ _ E3) as ((F3a & F3b & F3c) & S3 & R3).
  apply res_bind_ok in H. destruct H as (s4 & E4 & H). inversion H; subst p' o'. clear H.
  pose proof (set_last_confirmed_frame_frame _ _ _ _ E4) as [_ F4].
  cbn [with_sync ps_maxpred ps_sparse ps_sync ps_status].
  destruct (Z.leb_spec (s_current (ps_sync p1)) cf) as [Hle|Hgt].
  - apply res_bind_ok in E2. destruct E2 as (pis & Epis & E2). inversion E2; subst p2 o2. clear E2.
    cbn [with_pending with_sync ps_maxpred ps_sparse ps_sync advance_frame with_current s_current ps_status] in *.
    split; [congruence|]. split; [congruence|].
    eexists. split; [rewrite R3; cbn [add_req o_requests]; rewrite R1; reflexivity|].
    right. eexists; exists p1, cf. split; [reflexivity|].
    split; [rewrite F4, S3; cbn; lia|].
    split.
    + apply Forall_forall. intros i Hin. apply in_map_iff in Hin. destruct Hin as (pi & <- & _).
      destruct (pi_frame pi =? NULL); cbn; auto.
    + split; [exact Ecf|]. split; [|lia].
      rewrite (send_spectators_status _ _ _ _ _ E3). reflexivity.
  - inversion E2; subst p2 o2. clear E2.
    split; [congruence|]. split; [congruence|].
    exists []. rewrite app_nil_r. split; [rewrite R3, R1; reflexivity|].
    left. split; [reflexivity|]. rewrite F4, S3. exact F1d.
Qed.

(* ================= one advance_frame call ================= *)
Section Exec5.
Variable predict : Z -> Z.

Definition no_save_load (R : list request) : Prop :=
  forall r, In r R -> match r with RAdvance ins => Forall (fun i => snd i = Confirmed \/ snd i = Disconnected) ins | _ => False end.

Lemma advance_exec : forall p p' o r g w,
  advance predict p = Ok (p', o, r) -> JI w p g ->
  exists g', exec w g (o_requests o) = Some g' /\ JI w p' g' /\
    (s_current (ps_sync p') = s_current (ps_sync p) \/ s_current (ps_sync p') = s_current (ps_sync p) + 1) /\
    loads_in_window w (s_current (ps_sync p)) (o_requests o) /\
    (r <> AOk -> o_requests o = [] /\ p' = p) /\
    (w = 0 -> no_save_load (o_requests o)) /\
    (* rollback mode: the very first call starts with the save of frame 0 *)
    (1 <= w -> r = AOk -> s_current (ps_sync p) = 0 -> exists R, o_requests o = RSave 0 :: R) /\
    (* a new frame is simulated only as the last request, and only inside the window of what is
       confirmed: cf = the newest frame for which every connected player's input is held *)
    (s_current (ps_sync p') = s_current (ps_sync p) + 1 ->
       (exists ins R0, o_requests o = R0 ++ [RAdvance ins]) /\
       exists cf, (if w =? 0 then s_current (ps_sync p) <= cf
                   else if cf <? 0 then s_current (ps_sync p) < w else s_current (ps_sync p) - cf < w) /\
                  (exists q, confirmed_frame q = Ok cf /\
                             (w = 0 -> ps_status q = ps_status p'))).
Proof.
  intros p p' o r g w H [Hw Hmpp Hgf Hc0 Hroll].
  unfold advance in H.
  destruct (negb (ps_running p)).
  { inversion H; subst p' o r. exists g. cbn [out0 o_requests exec].
    split; [reflexivity|]. split; [constructor; assumption|]. split; [left; reflexivity|].
    split; [intros r0 []|]. split; [intros _; split; reflexivity|]. split; [intros _ r0 []|].
    split; [intros _ A; discriminate|]. intro A; exfalso; lia. }
  destruct (negb (forallb _ _)).
  { inversion H; subst p' o r. exists g. cbn [out0 o_requests exec].
    split; [reflexivity|]. split; [constructor; assumption|]. split; [left; reflexivity|].
    split; [intros r0 []|]. split; [intros _; split; reflexivity|]. split; [intros _ r0 []|].
    split; [intros _ A; discriminate|]. intro A; exfalso; lia. }
  set (c := s_current (ps_sync p)) in *.
  apply res_bind_ok in H. destruct H as ([p1 o1] & E1 & H).
  apply res_bind_ok in H. destruct H as (p2 & E2 & H).
  apply res_bind_ok in H. destruct H as ([p3 o3] & E3 & H). inversion H; subst p' o r. clear H.
  destruct (update_player_disconnects_frame _ _ E2) as ((F2a & F2b & F2c) & S2).
  rewrite Hmpp in *.
  destruct (Z.eqb_spec w 0) as [Hw0|Hw0].
  - (* lockstep *)
    cbn [negb] in E1. rewrite andb_false_r in E1. inversion E1; subst p1 o1. clear E1.
    destruct (advance_lockstep_shape _ _ _ _ E3) as (M1 & M2 & R & HR & Hcase).
    cbn [out0 o_requests app] in HR.
    assert (Hc2 : s_current (ps_sync p2) = c) by (rewrite S2; reflexivity).
    destruct Hcase as [[-> Hcur]|(ins & pa & cf & -> & Hcur & Hst & Hcf & Hsta & Hle)].
    + exists g. rewrite HR. cbn [exec].
      split; [reflexivity|]. split.
      { constructor; try assumption; try congruence. intro; lia. }
      split; [left; congruence|]. split; [intros r0 []|]. split; [intro A; congruence|]. split; [intros _ r0 []|].
      split; [intro A; lia|]. intro A; exfalso; lia.
    + exists (mkg (g_hist g ++ [ins]) (g_cells g)). rewrite HR. cbn [exec exec_req].
      split; [reflexivity|]. split.
      { constructor; try assumption; try congruence.
        - unfold gframe. cbn [g_hist]. rewrite app_length. cbn [length]. unfold gframe in Hgf. lia.
        - lia.
        - intro; lia. }
      split; [right; congruence|]. split; [intros r0 [<-|[]]; exact I|]. split; [intro A; congruence|].
      split; [intros _ r0 [<-|[]]; exact Hst|]. split; [intro A; lia|].
      intros _. split; [exists ins, []; reflexivity|].
      exists cf. split; [rewrite Hc2 in Hle; exact Hle|].
      exists pa. split; [exact Hcf|]. intros _. exact Hsta.
  - (* rollback *)
    assert (Hw1 : 1 <= w) by lia. destruct (Hroll Hw1) as (Hsp & Hmp & Hcells).
    cbn [negb] in E1. rewrite andb_true_r in E1.
    (* the save of the very first frame *)
    assert (Hfirst : exists R0 g0 hi,
              o_requests o1 = R0 /\ exec w g R0 = Some g0 /\ gframe g0 = c /\ c - 1 <= hi <= c /\
              s_current (ps_sync p1) = c /\ CellsI w (Z.max 0 (c - w)) hi (ps_sync p1) g0 /\
              ps_sparse p1 = false /\ ps_maxpred p1 = w /\ s_maxpred (ps_sync p1) = w /\
              (forall r0, In r0 R0 -> r0 = RSave c)).
    { destruct (Z.eqb_spec c 0) as [Hz|Hnz].
      - apply res_bind_ok in E1. destruct E1 as ([s1 r1] & Es & E1). inversion E1; subst p1 o1. clear E1.
        destruct (save_ok w (Z.max 0 (c - w)) (c - 1) (ps_sync p) g Hcells Hw ltac:(lia) Hgf ltac:(lia) ltac:(lia))
          as (s1' & g1 & Es' & Ex & Hcl & Hh & Hcc & _ & _ & _). fold c in Es', Ex, Hcl.
        rewrite Es in Es'. inversion Es'; subst s1' r1.
        exists [RSave c], g1, c. cbn [add_req out0 o_requests app exec with_sync ps_sync ps_sparse ps_maxpred].
        rewrite Ex. split; [reflexivity|]. split; [reflexivity|].
        split; [unfold gframe; rewrite Hh; exact Hgf|]. split; [lia|]. split; [exact Hcc|].
        split; [exact Hcl|]. split; [exact Hsp|]. split; [exact Hmpp|].
        split; [destruct Hcl as (M & _); exact M|]. intros r0 [<-|[]]. reflexivity.
      - inversion E1; subst p1 o1. exists [], g, (c - 1). cbn [out0 o_requests exec].
        split; [reflexivity|]. split; [reflexivity|]. split; [exact Hgf|]. split; [lia|]. split; [reflexivity|].
        split; [exact Hcells|]. split; [exact Hsp|]. split; [exact Hmpp|]. split; [exact Hmp|]. intros r0 []. }
    destruct Hfirst as (R0 & g0 & hi & HR0 & Ex0 & Hg0 & Hhi & Hc1 & Hcl1 & Hsp1 & Hmpp1 & Hmp1 & HR0s).
    assert (Hc2 : s_current (ps_sync p2) = c) by (rewrite S2; exact Hc1).
    assert (Hcl2 : CellsI w (Z.max 0 (s_current (ps_sync p2) - w)) hi (ps_sync p2) g0) by (rewrite S2, Hc1; exact Hcl1).
    destruct (advance_rollback_exec predict p2 o1 p3 o3 g0 w hi E3 ltac:(congruence) Hw1 ltac:(congruence)
                ltac:(rewrite S2; exact Hmp1) ltac:(rewrite Hc2; exact Hg0) ltac:(lia) ltac:(lia) Hcl2)
      as (R & g' & cf & Acf & A2 & A3 & A4 & A5 & A6 & A7 & A8 & A9 & A10 & A11).
    exists g'. rewrite A2, HR0, exec_app, Ex0.
    split; [exact A3|]. split.
    { constructor; try assumption; try congruence.
      - destruct A5 as [A5|A5]; lia.
      - intros _. split; [exact A7|]. split; [exact A9|]. exact A6. }
    split; [rewrite Hc2 in A5; exact A5|].
    split.
    { intros r0 Hin. apply in_app_or in Hin. destruct Hin as [Hin|Hin].
      - rewrite (HR0s r0 Hin). exact I.
      - rewrite Hc2 in A10. apply A10. exact Hin. }
    split; [intro A; congruence|]. split; [intro; lia|].
    split.
    { intros _ _ Hz. fold c in Hz.
      destruct R0 as [|r0 R0'].
      - exfalso. assert (Hz' : (c =? 0) = true) by lia.
        rewrite Hz' in E1.
        apply res_bind_ok in E1. destruct E1 as ([s1 r1] & _ & E1). inversion E1; subst p1 o1.
        cbn [add_req out0 o_requests app] in HR0. discriminate.
      - rewrite (HR0s r0 (or_introl eq_refl)). rewrite Hz. eexists. cbn [app]. reflexivity. }
    intros Hadv. rewrite Hc2 in A11. destruct (A11 Hadv) as ((ins & Rr & ->) & Hgate).
    split; [exists ins, (R0 ++ Rr); rewrite app_assoc; reflexivity|].
    exists cf. split; [exact Hgate|].
    exists p2. split; [exact Acf|]. intro; lia.
Qed.

End Exec5.

(* ================= every operation preserves the game-side invariant ================= *)
Lemma JI_frame : forall w p p' g, JI w p g -> p_frame p p' -> JI w p' g.
Proof.
  intros w p p' g [A B C D E] (F1 & F2 & (F3 & F4)).
  constructor; try congruence; try lia.
  intro H1. destruct (E H1) as (E1 & E2 & E3). destruct F3 as [F3a F3b].
  split; [congruence|]. split; [congruence|]. rewrite F4. eapply CellsI_same; [exact E3|split; assumption].
Qed.

Lemma add_remote_input_frame : forall s h f v s', add_remote_input s h f v = Ok s' -> sync_frame s s'.
Proof.
  intros s h f v s' H. unfold add_remote_input in H. destruct (_ || _); [discriminate|].
  apply res_bind_ok in H. destruct H as ([q' r] & _ & H). inversion H; subst. repeat split.
Qed.

Lemma ev_input_frame : forall p pl f v p', ev_input p pl f v = Ok p' -> p_frame p p'.
Proof.
  intros p pl f v p' H. unfold ev_input in H.
  destruct (negb _); [discriminate|]. destruct (cs_disc _); [inversion H; subst; apply p_frame_refl|].
  destruct (negb _); [discriminate|].
  apply res_bind_ok in H. destruct H as (s' & E & H). inversion H; subst.
  apply add_remote_input_frame in E. repeat split; cbn; apply E.
Qed.

Lemma ev_disconnected_frame : forall hs p p', ev_disconnected p hs = Ok p' -> p_frame p p'.
Proof.
  intros hs p p'. unfold ev_disconnected.
  assert (G : forall hs (rp : res p2p) p0, (forall q, rp = Ok q -> p_frame p0 q) ->
            forall p', fold_left (fun rp h => res_bind rp (fun p => disconnect_player_at_frame p h
                        (if h <? ps_nplayers p then cs_last (stat_at p h) else NULL))) hs rp = Ok p' -> p_frame p0 p').
  { induction hs0 as [|h r IH]; intros rp p0 Hrp p'' H; cbn [fold_left] in H; [apply Hrp; exact H|].
    eapply IH; [|exact H]. intros q Hq. apply res_bind_ok in Hq. destruct Hq as (p1 & E1 & Hq).
    apply disconnect_at_frame_frame in Hq. eapply p_frame_trans; [apply Hrp; exact E1|apply Hq]. }
  intro H. eapply (G hs (Ok p) p); [|exact H]. intros q Hq. inversion Hq; subst. apply p_frame_refl.
Qed.

Lemma api_disconnect_frame : forall p h p' r, api_disconnect_player p h = Ok (p', r) -> p_frame p p'.
Proof.
  intros p h p' r H. unfold api_disconnect_player in H.
  destruct (h <? 0); [inversion H; subst; apply p_frame_refl|].
  destruct (kind_at p h) as [[| |]|]; try (inversion H; subst; apply p_frame_refl).
  - destruct (cs_disc _); [inversion H; subst; apply p_frame_refl|].
    apply res_bind_ok in H. destruct H as (q & E & H). inversion H; subst. apply disconnect_at_frame_frame in E. apply E.
  - apply res_bind_ok in H. destruct H as (q & E & H). inversion H; subst. apply disconnect_at_frame_frame in E. apply E.
Qed.

Lemma set_queue_delay_frame : forall s h d s' fills, set_queue_delay s h d = Ok (s', fills) -> sync_frame s s'.
Proof.
  intros s h d s' fills H. unfold set_queue_delay in H. destruct (_ || _); [discriminate|].
  apply res_bind_ok in H. destruct H as ([q' f] & _ & H). inversion H; subst. repeat split.
Qed.

Lemma api_set_input_delay_frame : forall p h d p' o r, api_set_input_delay p h d = Ok (p', o, r) ->
  p_frame p p' /\ o_requests o = [].
Proof.
  intros p h d p' o r H. unfold api_set_input_delay in H.
  destruct (h <? 0); [inversion H; subst; split; [apply p_frame_refl|reflexivity]|].
  destruct (kind_at p h) as [[| |]|]; try (inversion H; subst; split; [apply p_frame_refl|reflexivity]).
  apply res_bind_ok in H. destruct H as ([s1 fills] & E1 & H).
  apply res_bind_ok in H. destruct H as (p2 & E2 & H).
  apply res_bind_ok in H. destruct H as ([p3 o3] & E3 & H). inversion H; subst p' o r. clear H.
  apply set_queue_delay_frame in E1.
  apply send_ready_outgoing_frame in E3. destruct E3 as (F3 & _ & R3 & _).
  assert (F2 : p_frame (with_sync p s1) p2).
  { clear - E2. revert E2. generalize (with_sync p s1) as q0. intros q0.
    assert (G : forall fills (rp : res p2p), (forall q, rp = Ok q -> p_frame q0 q) ->
              forall p2, fold_left (fun rp f => res_bind rp (fun p =>
                 if pi_frame f =? NULL then Ok p else
                 queue_outgoing (with_status p (set_stat (ps_status p) h (mkcs (cs_disc (stat_at p h)) (pi_frame f)))) h f)) fills rp = Ok p2 ->
              p_frame q0 p2).
    { induction fills0 as [|f r IH]; intros rp Hrp p2' H; cbn [fold_left] in H; [apply Hrp; exact H|].
      eapply IH; [|exact H]. intros q Hq. apply res_bind_ok in Hq. destruct Hq as (p1 & E1 & Hq).
      destruct (pi_frame f =? NULL).
      - injection Hq as <-. apply Hrp. exact E1.
      - apply queue_outgoing_frame in Hq. destruct Hq as [Fq _].
        eapply p_frame_trans; [apply Hrp; exact E1|]. eapply p_frame_trans; [|exact Fq]. repeat split. }
    intro H. eapply (G fills (Ok q0)); [|exact H]. intros q Hq. inversion Hq; subst. apply p_frame_refl. }
  split; [|rewrite R3; reflexivity].
  eapply p_frame_trans; [|exact F3]. eapply p_frame_trans; [|exact F2].
  repeat split; cbn; apply E1.
Qed.

Section Run.
Variable predict : Z -> Z.

Fixpoint exec_outs (w : Z) (g : game) (outs : list (pout * apires)) : option game :=
  match outs with
  | [] => Some g
  | (o, _) :: r => match exec w g (o_requests o) with Some g' => exec_outs w g' r | None => None end
  end.

Lemma sstep_exec : forall p op sr g w,
  sstep predict p op = Ok sr -> JI w p g ->
  exists g', exec w g (o_requests (sr_out sr)) = Some g' /\ JI w (sr_state sr) g' /\
    (s_current (ps_sync (sr_state sr)) = s_current (ps_sync p) \/
     (op = SAdvance /\ s_current (ps_sync (sr_state sr)) = s_current (ps_sync p) + 1)) /\
    loads_in_window w (s_current (ps_sync p)) (o_requests (sr_out sr)) /\
    (w = 0 -> no_save_load (o_requests (sr_out sr))).
Proof.
  intros p op sr g w H J.
  destruct op as [h v|pl f v|ep st|hs|h|h d|]; cbn [sstep] in H.
  - destruct (api_add_local_input p h v) as [p' r] eqn:E. inversion H; subst sr. cbn [sr_out sr_state out0 o_requests exec].
    assert (p_frame p p').
    { unfold api_add_local_input in E. destruct (kind_at p h) as [[| |]|]; inversion E; subst; repeat split. }
    exists g. split; [reflexivity|]. split; [eapply JI_frame; eassumption|].
    split; [left; destruct H0 as (_ & _ & (_ & X)); exact X|]. split; [intros r0 []|intros _ r0 []].
  - apply res_bind_ok in H. destruct H as (p' & E & H). inversion H; subst sr. cbn [sr_out sr_state out0 o_requests exec].
    pose proof (ev_input_frame _ _ _ _ _ E) as F.
    exists g. split; [reflexivity|]. split; [eapply JI_frame; eassumption|].
    split; [left; destruct F as (_ & _ & (_ & X)); exact X|]. split; [intros r0 []|intros _ r0 []].
  - inversion H; subst sr. cbn [sr_out sr_state out0 o_requests exec].
    assert (F : p_frame p (gossip p ep st)).
    { unfold gossip. destruct (nth_error _ _); repeat split. }
    exists g. split; [reflexivity|]. split; [eapply JI_frame; eassumption|].
    split; [left; destruct F as (_ & _ & (_ & X)); exact X|]. split; [intros r0 []|intros _ r0 []].
  - apply res_bind_ok in H. destruct H as (p' & E & H). inversion H; subst sr. cbn [sr_out sr_state out0 o_requests exec].
    pose proof (ev_disconnected_frame _ _ _ E) as F.
    exists g. split; [reflexivity|]. split; [eapply JI_frame; eassumption|].
    split; [left; destruct F as (_ & _ & (_ & X)); exact X|]. split; [intros r0 []|intros _ r0 []].
  - apply res_bind_ok in H. destruct H as ([p' r] & E & H). inversion H; subst sr. cbn [sr_out sr_state out0 o_requests exec].
    pose proof (api_disconnect_frame _ _ _ _ E) as F.
    exists g. split; [reflexivity|]. split; [eapply JI_frame; eassumption|].
    split; [left; destruct F as (_ & _ & (_ & X)); exact X|]. split; [intros r0 []|intros _ r0 []].
  - apply res_bind_ok in H. destruct H as ([[p' o] r] & E & H). inversion H; subst sr. cbn [sr_out sr_state].
    destruct (api_set_input_delay_frame _ _ _ _ _ _ E) as [F R]. rewrite R. cbn [exec].
    exists g. split; [reflexivity|]. split; [eapply JI_frame; eassumption|].
    split; [left; destruct F as (_ & _ & (_ & X)); exact X|]. split; [intros r0 []|intros _ r0 []].
  - apply res_bind_ok in H. destruct H as ([[p' o] r] & E & H). inversion H; subst sr. cbn [sr_out sr_state].
    destruct (advance_exec predict _ _ _ _ _ _ E J) as (g' & A1 & A2 & A3 & A4 & _ & A6 & _).
    exists g'. split; [exact A1|]. split; [exact A2|].
    split; [destruct A3 as [A3|A3]; [left; exact A3|right; split; [reflexivity|exact A3]]|].
    split; [exact A4|exact A6].
Qed.

(* C02 (for every operation sequence, as long as no assert fires): executing the request lists of
   all calls, in order, on the free game is always well defined, and the game-side invariant -
   game frame = current_frame(), every cell inside the prediction window holds the state of its
   frame on the current timeline - holds again afterwards *)
Theorem requests_executable : forall ops p0 g0 w p outs,
  JI w p0 g0 -> srun predict p0 ops = Ok (p, outs) ->
  exists g, exec_outs w g0 outs = Some g /\ JI w p g.
Proof.
  induction ops as [|op ops IH]; intros p0 g0 w p outs J H; cbn [srun] in H.
  - inversion H; subst. exists g0. split; [reflexivity|exact J].
  - apply res_bind_ok in H. destruct H as (sr & E & H).
    apply res_bind_ok in H. destruct H as ([p' outs'] & E' & H). inversion H; subst p outs. clear H.
    destruct (sstep_exec _ _ _ _ _ E J) as (g1 & A1 & A2 & _).
    destruct (IH _ _ _ _ _ A2 E') as (g2 & B1 & B2).
    exists g2. cbn [exec_outs]. rewrite A1. split; assumption.
Qed.

End Run.

(* the start state of a session (any kinds, endpoints, spectators, delay) satisfies the invariant *)
Lemma JI_start : forall n w d kinds eps nspec, 0 <= w ->
  JI w (session_start n w false d kinds eps nspec) (game0 w).
Proof.
  intros n w d kinds eps nspec Hw.
  constructor; unfold session_start, p2p_new, sync_new, game0, gframe;
    cbn [with_running ps_maxpred ps_sync ps_sparse with_queues s_current s_maxpred s_cells g_hist g_cells length Z.of_nat].
  - exact Hw.
  - reflexivity.
  - reflexivity.
  - lia.
  - intros H1. assert (((w =? 0) && false) = false) as -> by apply andb_false_r.
    split; [reflexivity|]. split; [reflexivity|].
    unfold CellsI, cell_frame, cell_pos.
    cbn [with_running ps_sync with_queues s_maxpred s_cells g_cells s_current].
    rewrite !repeat_length.
    split; [reflexivity|]. split; [lia|]. split; [lia|]. intros f Hf. lia.
Qed.

(* ================================================================================================
   No assert fires: progress lemmas under the queue invariants (rollback mode, no sparse saving,
   no disconnects).  These discharge the premise `= Ok` of the theorems above for C01's space.
   ================================================================================================ *)
Section Progress.
Variable predict : Z -> Z.

Lemma all_clean_reset : forall qs, all_clean (map reset_prediction qs).
Proof. induction qs; constructor; auto. Qed.

Lemma QsI_reset : forall c c' L qs gs, QsI c L qs gs -> QsI c' L (map reset_prediction qs) gs.
Proof.
  intros c c' L qs gs H. induction H as [|q g qs gs Hq HQ IH]; constructor; [eapply qi_reset; exact Hq|exact IH].
Qed.

Lemma same_user_reset : forall qs, same_user qs (map reset_prediction qs).
Proof. induction qs as [|q qs IH]; constructor; [split; reflexivity|exact IH]. Qed.

Lemma QsI_length : forall c L qs gs, QsI c L qs gs -> length qs = length gs.
Proof. intros c L qs gs H. induction H; cbn; auto. Qed.

(* re-simulation never panics *)
Lemma resim_progress : forall n i p gs L mc o,
  connected (ps_status p) ->
  length (ps_status p) = length (s_queues (ps_sync p)) ->
  QsI (s_current (ps_sync p)) L (s_queues (ps_sync p)) gs -> all_clean (s_queues (ps_sync p)) ->
  0 <= s_current (ps_sync p) -> L <= s_current (ps_sync p) ->
  exists p' o', resim_go predict n i p mc o = Ok (p', o') /\
    QsI (s_current (ps_sync p')) L (s_queues (ps_sync p')) gs /\ all_clean (s_queues (ps_sync p')) /\
    same_user (s_queues (ps_sync p)) (s_queues (ps_sync p')) /\
    s_last_confirmed (ps_sync p') = s_last_confirmed (ps_sync p) /\
    ps_status p' = ps_status p /\
    s_current (ps_sync p') = s_current (ps_sync p) + Z.of_nat n /\
    (forall h q gh q', nth_error (s_queues (ps_sync p)) h = Some q -> nth_error gs h = Some gh ->
       nth_error (s_queues (ps_sync p')) h = Some q' -> s_current (ps_sync p') <= hlen (fst gh) ->
       pi_frame (q_pred q) = NULL -> pi_frame (q_pred q') = NULL).
Proof.
  induction n as [|n IH]; intros i p gs L mc o Hcon Hlen HQ Hcl Hc HL.
  - cbn [resim_go]. exists p, o. split; [reflexivity|]. split; [exact HQ|]. split; [exact Hcl|].
    split; [apply same_user_refl|]. split; [reflexivity|]. split; [reflexivity|]. split; [cbn; lia|].
    intros h q gh q' A _ B _ Hn. rewrite A in B. injection B as <-. exact Hn.
  - cbn [resim_go]. unfold synchronized_inputs.
    destruct (sync_inputs_go_ok predict (ps_status p) (s_queues (ps_sync p)) gs (s_current (ps_sync p)) L HQ Hcl Hlen Hcon Hc HL)
      as (qs' & ins & E & HQ' & Hcl' & Hl' & _ & Hsu & Hkn).
    rewrite E. cbn [res_bind].
    set (s1 := with_queues (ps_sync p) qs').
    assert (Hsave : exists s2 o2,
               (if ps_sparse p then
                  (if s_current s1 =? mc then res_bind (save_current_state s1) (fun '(s2, r) => Ok (s2, add_req o r)) else Ok (s1, o))
                else
                  (if 0 <? i then res_bind (save_current_state s1) (fun '(s2, r) => Ok (s2, add_req o r)) else Ok (s1, o))) = Ok (s2, o2) /\
                     s_queues s2 = qs' /\ s_current s2 = s_current (ps_sync p) /\ s_last_confirmed s2 = s_last_confirmed (ps_sync p)).
    { assert (Hsv : exists s2 o2, res_bind (save_current_state s1) (fun '(s2, r) => Ok (s2, add_req o r)) = Ok (s2, o2) /\
                     s_queues s2 = qs' /\ s_current s2 = s_current (ps_sync p) /\ s_last_confirmed s2 = s_last_confirmed (ps_sync p)).
      { unfold save_current_state. subst s1. cbn [with_queues s_current].
        assert ((s_current (ps_sync p) <? 0) = false) as -> by lia. cbn [res_bind].
        eexists; eexists. split; [reflexivity|]. repeat split. }
      assert (Hns : exists s2 o2, Ok (s1, o) = Ok (s2, o2) /\
                     s_queues s2 = qs' /\ s_current s2 = s_current (ps_sync p) /\ s_last_confirmed s2 = s_last_confirmed (ps_sync p)).
      { exists s1, o. split; [reflexivity|]. repeat split. }
      destruct (ps_sparse p); [destruct (s_current s1 =? mc)|destruct (0 <? i)]; assumption. }
    destruct Hsave as (s2 & o2 & Es & Hq2 & Hc2 & HL2). rewrite Es. cbn [res_bind].
    set (p1 := with_sync p (advance_frame s2)).
    destruct (IH (i + 1) p1 gs L mc (add_req o2 (RAdvance ins))) as (p' & o' & E' & A1 & A2 & A3 & A4 & A5 & A6 & A7).
    + exact Hcon.
    + subst p1. cbn [with_sync ps_status ps_sync advance_frame with_current s_queues]. rewrite Hq2.
      pose proof (QsI_length _ _ _ _ HQ'). pose proof (QsI_length _ _ _ _ HQ). lia.
    + subst p1. cbn [with_sync ps_sync advance_frame with_current s_queues s_current]. rewrite Hq2, Hc2. exact HQ'.
    + subst p1. cbn [with_sync ps_sync advance_frame with_current s_queues]. rewrite Hq2. exact Hcl'.
    + subst p1. cbn [with_sync ps_sync advance_frame with_current s_current]. lia.
    + subst p1. cbn [with_sync ps_sync advance_frame with_current s_current]. lia.
    + exists p', o'. split; [exact E'|].
      subst p1. cbn [with_sync ps_sync ps_status advance_frame with_current s_queues s_last_confirmed s_current] in A3, A4, A5, A6, A7.
      split; [exact A1|]. split; [exact A2|].
      split; [eapply same_user_trans; [exact Hsu|rewrite Hq2 in A3; exact A3]|].
      split; [rewrite A4; exact HL2|]. split; [exact A5|]. split; [lia|].
      intros h q gh q' B1 B2 B3 B4 B5. rewrite Hq2 in A7.
      assert (exists q1, nth_error qs' h = Some q1) as (q1 & B6).
      { destruct (nth_error qs' h) eqn:E1; [eauto|]. apply nth_error_None in E1.
        pose proof (QsI_length _ _ _ _ HQ'). assert (nth_error gs h <> None) as B7 by congruence.
        apply nth_error_Some in B7. lia. }
      apply (A7 h q1 gh q' B6 B2 B3 B4). apply (Hkn h q gh q1 B1 B2 B6); [lia|exact B5].
Qed.

End Progress.

Section Progress2.
Variable predict : Z -> Z.

Lemma resim_current : forall n i p mc o p' o',
  resim_go predict n i p mc o = Ok (p', o') ->
  s_current (ps_sync p') = s_current (ps_sync p) + Z.of_nat n.
Proof.
  induction n as [|n IH]; intros i p mc o p' o' H; cbn [resim_go] in H.
  - inversion H; subst. cbn. lia.
  - apply res_bind_ok in H. destruct H as ([s1 ins] & E1 & H).
    destruct (synchronized_inputs_sync _ _ _ _ _ E1) as (_ & Hc1 & _ & _).
    apply res_bind_ok in H. destruct H as ([s2 o2] & E2 & H).
    assert (Hc2 : s_current s2 = s_current s1).
    { destruct (ps_sparse p).
      - destruct (s_current s1 =? mc); [|inversion E2; reflexivity].
        apply res_bind_ok in E2. destruct E2 as ([s2' r] & Es & E2). inversion E2; subst.
        apply save_current_state_inv in Es. apply Es.
      - destruct (0 <? i); [|inversion E2; reflexivity].
        apply res_bind_ok in E2. destruct E2 as ([s2' r] & Es & E2). inversion E2; subst.
        apply save_current_state_inv in Es. apply Es. }
    apply IH in H. cbn [with_sync ps_sync advance_frame with_current s_current] in H. lia.
Qed.

Lemma adjust_progress : forall p gs L fi mc o g w hi,
  ps_sparse p = false -> connected (ps_status p) ->
  length (ps_status p) = length (s_queues (ps_sync p)) ->
  QsI (s_current (ps_sync p)) L (s_queues (ps_sync p)) gs ->
  L < fi -> fi < s_current (ps_sync p) -> -1 <= L -> s_current (ps_sync p) - w <= fi ->
  0 <= w -> s_maxpred (ps_sync p) = w -> gframe g = s_current (ps_sync p) ->
  s_current (ps_sync p) - 1 <= hi ->
  CellsI w (Z.max 0 (s_current (ps_sync p) - w)) hi (ps_sync p) g ->
  exists p' o', adjust_gamestate predict p fi mc o = Ok (p', o') /\
    QsI (s_current (ps_sync p)) L (s_queues (ps_sync p')) gs /\ all_clean (s_queues (ps_sync p')) /\
    same_user (s_queues (ps_sync p)) (s_queues (ps_sync p')) /\
    s_last_confirmed (ps_sync p') = s_last_confirmed (ps_sync p) /\ ps_status p' = ps_status p /\
    s_current (ps_sync p') = s_current (ps_sync p) /\
    (forall h gh q', nth_error gs h = Some gh -> nth_error (s_queues (ps_sync p')) h = Some q' ->
       s_current (ps_sync p) <= hlen (fst gh) -> pi_frame (q_pred q') = NULL).
Proof.
  intros p gs L fi mc o g w hi Hsp Hcon Hlen HQ HLfi Hfic HL Hwin Hw Hmp Hgf Hhi Hcells.
  set (c := s_current (ps_sync p)) in *.
  assert (Hcn : CellsI w (Z.max 0 (c - w)) (c - 1) (ps_sync p) g) by (eapply CellsI_narrow; [exact Hcells|lia|lia]).
  destruct (load_ok w (Z.max 0 (c - w)) (c - 1) (ps_sync p) g fi Hcn Hw Hgf ltac:(lia) ltac:(lia) Hfic Hwin)
    as (s1 & g1 & El & _ & Hs1 & _ & _ & _).
  set (p1 := with_sync p (reset_all s1)).
  destruct (resim_progress predict (Z.to_nat (c - fi)) 0 p1 gs L mc (add_req o (RLoad fi))) as (p2 & o2 & Er & A1 & A2 & A3 & A4 & A5 & _ & A7).
  - exact Hcon.
  - subst p1. rewrite Hs1. cbn [with_sync ps_status ps_sync reset_all with_queues s_queues with_current]. rewrite map_length. exact Hlen.
  - subst p1. rewrite Hs1. cbn [with_sync ps_sync reset_all with_queues s_queues s_current with_current].
    eapply QsI_reset. exact HQ.
  - subst p1. rewrite Hs1. cbn [with_sync ps_sync reset_all with_queues s_queues with_current]. apply all_clean_reset.
  - subst p1. rewrite Hs1. cbn. lia.
  - subst p1. rewrite Hs1. cbn. lia.
  - pose proof (resim_current _ _ _ _ _ _ _ Er) as Hcur2.
    assert (Hc2 : s_current (ps_sync p2) = c).
    { rewrite Hcur2. subst p1. rewrite Hs1. cbn [with_sync ps_sync reset_all with_queues s_current with_current]. lia. }
    exists p2, o2. unfold adjust_gamestate. rewrite Hsp. fold c.
    assert ((fi <? fi) = false) as -> by lia. rewrite El. cbn [res_bind]. fold p1. rewrite Er. cbn [res_bind].
    rewrite Hc2, Z.eqb_refl. cbn [negb]. split; [reflexivity|].
    subst p1. rewrite Hs1 in A3, A4, A5, A7. cbn [with_sync ps_sync ps_status reset_all with_queues s_queues s_last_confirmed with_current] in A3, A4, A5, A7.
    rewrite Hc2 in A1.
    split; [exact A1|]. split; [exact A2|].
    split; [eapply same_user_trans; [apply same_user_reset|exact A3]|].
    split; [exact A4|]. split; [exact A5|]. split; [first [exact Hc2|reflexivity]|].
    intros h gh q' B1 B2 B3.
    assert (exists q, nth_error (s_queues (ps_sync p)) h = Some q) as (q & B4).
    { destruct (nth_error (s_queues (ps_sync p)) h) eqn:E1; [eauto|]. apply nth_error_None in E1.
      pose proof (QsI_length _ _ _ _ HQ). assert (nth_error gs h <> None) as B7 by congruence.
      apply nth_error_Some in B7. lia. }
    apply (A7 h (reset_prediction q) gh q'); [rewrite nth_error_map, B4; reflexivity|exact B1|exact B2|rewrite Hc2; exact B3|reflexivity].

Qed.

End Progress2.

Section Progress3.
Variable predict : Z -> Z.

Lemma csc_spec : forall qs gs c L acc,
  QsI c L qs gs -> (acc = NULL \/ (L < acc <= c - 1)) ->
  let r := fold_left (fun acc q => let inc := q_first_incorrect q in
                        if negb (inc =? NULL) && ((acc =? NULL) || (inc <? acc)) then inc else acc) qs acc in
  (r = NULL /\ acc = NULL /\ all_clean qs) \/ (L < r <= c - 1).
Proof.
  intros qs gs c L acc H. revert acc. induction H as [|q g qs gs Hq HQ IH]; intros acc Hacc; cbn [fold_left].
  - destruct Hacc as [->|Hacc]; [left; repeat split; constructor|right; exact Hacc].
  - cbv zeta.
    destruct (Z.eqb_spec (q_first_incorrect q) NULL) as [En|En]; cbn [negb andb].
    + destruct (IH acc Hacc) as [(A & B & C)|A]; [left|right; exact A].
      split; [exact A|]. split; [exact B|]. constructor; assumption.
    + destruct (qi_p4 _ _ _ _ _ Hq En) as (_ & (P1 & P2) & P3).
      destruct ((acc =? NULL) || (q_first_incorrect q <? acc)) eqn:Ec.
      * destruct (IH (q_first_incorrect q) (or_intror (conj P1 P3))) as [(A & B & C)|A]; [congruence|right; exact A].
      * destruct Hacc as [->|Hacc]; [cbn in Ec; discriminate|].
        destruct (IH acc (or_intror Hacc)) as [(A & B & C)|A]; [unfold NULL in *; lia|right; exact A].
Qed.

Lemma max_fi_clean : forall qs, all_clean qs -> max_first_incorrect qs = NULL.
Proof.
  intros qs H. unfold max_first_incorrect.
  assert (G : forall acc, acc = NULL -> fold_left (fun acc q => Z.max acc (q_first_incorrect q)) qs acc = NULL).
  { induction H as [|q qs Hq Hcl IH]; intros acc Hacc; cbn [fold_left]; [exact Hacc|].
    apply IH. rewrite Hq, Hacc. reflexivity. }
  apply G. reflexivity.
Qed.

(* raising the last confirmed frame *)
Lemma confirm_progress_gen : forall (s : sync) (gs : list ghost) (cf0 : Z) (sp : bool), let cf := (if sp then Z.min cf0 (s_last_saved s) else cf0) in
  QsI (s_current s) (s_last_confirmed s) (s_queues s) gs -> all_clean (s_queues s) ->
  s_last_confirmed s <= Z.min cf (s_current s) ->
  Forall (fun g => Z.min cf (s_current s) <= hlen (fst g) - 1) gs ->
  exists s', set_last_confirmed_frame s cf0 sp = Ok s' /\ s_last_saved s' = s_last_saved s /\
    s_last_confirmed s' = Z.min cf (s_current s) /\ sync_frame s s' /\
    (exists gs', QsI (s_current s) (Z.min cf (s_current s)) (s_queues s') gs' /\ map fst gs' = map fst gs) /\
    all_clean (s_queues s') /\ same_user (s_queues s) (s_queues s') /\
    Forall2 (fun q q' => q_pred q' = q_pred q) (s_queues s) (s_queues s').
Proof.
  intros s gs cf0 sp cf HQ Hcl HL Hcf. unfold set_last_confirmed_frame. fold cf.
  rewrite (max_fi_clean _ Hcl). cbn [Z.eqb NULL orb negb].
  set (L' := Z.min cf (s_current s)) in *.
  eexists. split; [reflexivity|]. cbn [s_last_confirmed s_queues s_last_saved].
  split; [reflexivity|]. split; [reflexivity|]. split; [repeat split|].
  assert (G : forall qs gs, QsI (s_current s) (s_last_confirmed s) qs gs -> all_clean qs ->
              Forall (fun g => L' <= hlen (fst g) - 1) gs ->
              let qs' := if 0 <? L' then map (fun q => discard_confirmed_frames q (L' - 1)) qs else qs in
              (exists gs', QsI (s_current s) L' qs' gs' /\ map fst gs' = map fst gs) /\ all_clean qs' /\ same_user qs qs' /\
              Forall2 (fun q q' => q_pred q' = q_pred q) qs qs').
  { intros qs0 gs0 H. induction H as [|q g qs1 gs1 Hq HQ1 IH]; intros Hc0 Hf0; cbv zeta.
    - destruct (0 <? L'); (split; [exists []; split; [constructor|reflexivity]|]; split; [constructor|]; split; constructor).
    - inversion Hc0 as [|? ? Hq0 Hc1]; subst. inversion Hf0 as [|? ? Hg0 Hf1]; subst.
      destruct (IH Hc1 Hf1) as ((gs' & A1 & A1') & A2 & A3 & A4). cbv zeta in A1, A2, A3, A4.
      destruct (qi_confirm (s_current s) (s_last_confirmed s) L' q (fst g) (snd g) Hq Hq0 HL Hg0 ltac:(subst L'; lia))
        as (low' & B1 & B2 & B3 & B4 & B5).
      destruct (0 <? L') eqn:E0; cbn [map].
      + split; [exists ((fst g, low') :: gs'); split; [constructor; [exact B1|exact A1]|cbn; f_equal; exact A1']|].
        split; [constructor; [exact B2|exact A2]|]. split; [constructor; [split; assumption|exact A3]|].
        constructor; [exact B5|exact A4].
      + split; [exists ((fst g, low') :: gs'); split; [constructor; [exact B1|exact A1]|cbn; f_equal; exact A1']|].
        split; [constructor; [exact B2|exact A2]|]. split; [constructor; [split; assumption|exact A3]|].
        constructor; [exact B5|exact A4]. }
  exact (G _ _ HQ Hcl Hcf).
Qed.

Lemma confirm_progress : forall s gs cf,
  QsI (s_current s) (s_last_confirmed s) (s_queues s) gs -> all_clean (s_queues s) ->
  s_last_confirmed s <= Z.min cf (s_current s) ->
  Forall (fun g => Z.min cf (s_current s) <= hlen (fst g) - 1) gs ->
  exists s', set_last_confirmed_frame s cf false = Ok s' /\
    s_last_confirmed s' = Z.min cf (s_current s) /\ sync_frame s s' /\
    (exists gs', QsI (s_current s) (Z.min cf (s_current s)) (s_queues s') gs' /\ map fst gs' = map fst gs) /\
    all_clean (s_queues s') /\ same_user (s_queues s) (s_queues s') /\
    Forall2 (fun q q' => q_pred q' = q_pred q) (s_queues s) (s_queues s').
Proof.
  intros s gs cf HQ Hcl HL Hcf.
  destruct (confirm_progress_gen s gs cf false HQ Hcl HL Hcf) as (s' & A & _ & B). exists s'. split; [exact A|exact B].
Qed.

End Progress3.

(* ================= adding inputs: remote arrivals and local registration ================= *)
Lemma add_input_nofill : forall q hist low uf v,
  RInv q hist low -> 0 <= q_delay q -> uf + q_delay q = hlen hist ->
  (q_last_user q = NULL \/ uf = q_last_user q + 1) -> 0 <= uf ->
  pred_ok q (hlen hist) -> hlen hist + 1 - low <= QLEN ->
  exists q', add_input q uf v = Ok (q', hlen hist) /\ RInv q' (hist ++ [v]) low /\
     q_delay q' = q_delay q /\ q_last_user q' = uf /\ q_last_requested q' = q_last_requested q /\
     q_first_incorrect q' = fi_after q v (hlen hist) /\ q_pred q' = pred_after q v (hlen hist).
Proof.
  intros q hist low uf v I Hd Ht Hs Hu Hp Hcap. pose proof (hlen_nonneg hist) as Hnn.
  rewrite (add_input_seq q uf v Hs Hu).
  assert (I0 : RInv (set_last_user q uf) hist low) by (eapply RInv_ext; [exact I|reflexivity..]).
  unfold advance_queue_head. rewrite (expected_frame _ _ _ I0). cbn [set_last_user q_delay]. rewrite Ht.
  rewrite Z.ltb_irrefl, Z.sub_diag. cbn [Z.to_nat fill_to]. rewrite Z.leb_refl. cbn [res_bind].
  assert (A : (hlen hist =? 0) || (hlen hist =? pi_frame (slot (q_inputs (set_last_user q uf)) (prev_pos (q_head (set_last_user q uf)))) + 1) = true).
  { rewrite (prev_slot _ _ _ I0). destruct (Z.eqb_spec (hlen hist) 0); cbn; lia. }
  rewrite A. cbn [negb res_bind]. cbv beta iota.
  assert ((hlen hist =? NULL) = false) as -> by (unfold NULL; lia).
  assert (Hp0 : pred_ok (set_last_user q uf) (hlen hist)) by exact Hp.
  destruct (add_by_frame_ok _ hist low v I0 ltac:(lia) Hp0) as (q2 & E2 & I2 & D2 & U2 & R2 & F2 & P2 & _).
  rewrite E2. cbn [res_bind]. exists q2. split; [reflexivity|]. refine (conj I2 _).
  split; [rewrite D2; reflexivity|]. split; [rewrite U2; reflexivity|]. split; [rewrite R2; reflexivity|].
  split; [rewrite F2; reflexivity|rewrite P2; reflexivity].
Qed.

(* the per-queue session invariant survives an insertion at the next frame *)
Lemma qi_after_add : forall c L q hist low v q',
  QI c L q hist low -> RInv q' (hist ++ [v]) low ->
  q_last_requested q' = q_last_requested q ->
  q_first_incorrect q' = fi_after q v (hlen hist) -> q_pred q' = pred_after q v (hlen hist) ->
  QI c L q' (hist ++ [v]) low.
Proof.
  intros c L q hist low v q' [I P1 P2 P4 Rq Lw Cf] I' R' F' P'.
  pose proof (hlen_nonneg hist) as Hnn.
  constructor; rewrite ?hlen_app, ?R'.
  - exact I'.
  - rewrite P'. unfold pred_after. destruct (Z.eqb_spec (pi_frame (q_pred q)) NULL) as [En|En]; [left; exact En|].
    destruct P1 as [P1|P1]; [congruence|]. rewrite P1.
    destruct ((hlen hist =? q_last_requested q) && _); cbn [pi_frame]; [left|right]; reflexivity.
  - intros Hact Hfi0. rewrite P' in Hact. rewrite F' in Hfi0.
    destruct P1 as [P1|P1].
    { exfalso. apply Hact. unfold pred_after. rewrite P1. cbn. exact P1. }
    assert (En : (pi_frame (q_pred q) =? NULL) = false) by (unfold NULL; lia).
    assert (Hact0 : pi_frame (q_pred q) <> NULL) by (unfold NULL; lia).
    unfold pred_after in Hact. unfold fi_after in Hfi0, Hact. rewrite En in Hfi0, Hact.
    destruct (Z.eqb_spec (q_first_incorrect q) NULL) as [Ef|Ef]; cbn [andb] in Hfi0, Hact; [|congruence].
    destruct (Z.eqb_spec (pi_val (q_pred q)) v) as [Ev|Ev]; cbn [negb] in Hfi0, Hact; [|unfold NULL in *; lia].
    pose proof (P2 Hact0 Ef) as Pl.
    rewrite Ef in Hact. cbn [Z.eqb NULL] in Hact. rewrite andb_true_r in Hact. rewrite P1 in Hact.
    destruct (Z.eqb_spec (hlen hist) (q_last_requested q)) as [El|El]; cbn [pi_frame] in Hact.
    + exfalso. apply Hact. reflexivity.
    + lia.
  - intros Hfi'. rewrite F' in Hfi' |- *. rewrite P'. unfold fi_after in Hfi' |- *. unfold pred_after, fi_after.
    destruct (Z.eqb_spec (pi_frame (q_pred q)) NULL) as [En|En].
    + destruct (P4 Hfi') as (A & B & C). congruence.
    + destruct P1 as [P1|P1]; [congruence|].
      destruct (Z.eqb_spec (q_first_incorrect q) NULL) as [Ef|Ef]; cbn [andb] in Hfi' |- *.
      * destruct (negb (pi_val (q_pred q) =? v)); [|congruence].
        assert (Hact0 : pi_frame (q_pred q) <> NULL) by exact En.
        pose proof (P2 Hact0 Ef) as Pl.
        assert ((hlen hist =? NULL) = false) as Hn by (unfold NULL; lia).
        rewrite Hn, andb_false_r. cbn [pi_frame]. split; [unfold NULL; lia|]. split; [lia|].
        destruct Rq as [Rq|Rq]; rewrite Rq in Pl; unfold NULL in *; lia.
      * destruct (P4 Ef) as (A & B & C). assert ((q_first_incorrect q =? NULL) = false) as Hn by lia.
        rewrite Hn, andb_false_r. cbn [pi_frame]. split; [unfold NULL; lia|]. split; lia.
  - exact Rq.
  - exact Lw.
  - lia.
Qed.

Lemma Forall2_updz {A B} (R : A -> B -> Prop) : forall l1 l2 i x,
  Forall2 R l1 l2 -> (forall a, nth_error l1 i = Some a -> forall b, nth_error l2 i = Some b -> R x b) ->
  Forall2 R (updz l1 i x) l2.
Proof.
  induction l1 as [|a l1 IH]; intros l2 i x H Hx; inversion H; subst; cbn [updz]; [constructor|].
  destruct i as [|k].
  - constructor; [apply (Hx a eq_refl y eq_refl)|assumption].
  - constructor; [assumption|]. apply IH; [assumption|]. intros a' Ha b Hb. apply (Hx a' Ha b Hb).
Qed.

Lemma Forall2_updz2 {A B} (R : A -> B -> Prop) : forall l1 l2 i x y,
  Forall2 R l1 l2 -> R x y -> Forall2 R (updz l1 i x) (updz l2 i y).
Proof.
  induction l1 as [|a l1 IH]; intros l2 i x y H Hxy; inversion H; subst; cbn [updz]; [constructor|].
  destruct i as [|k]; constructor; auto.
Qed.

Lemma Forall2_nth {A B} (R : A -> B -> Prop) : forall l1 l2 i a b,
  Forall2 R l1 l2 -> nth_error l1 i = Some a -> nth_error l2 i = Some b -> R a b.
Proof.
  induction l1 as [|x l1 IH]; intros l2 i a b H Ha Hb; inversion H; subst; destruct i; cbn in *; try discriminate.
  - inversion Ha; inversion Hb; subst. assumption.
  - eapply IH; eassumption.
Qed.

Lemma nth_error_nth' {A} : forall (l : list A) i d, (i < length l)%nat -> nth_error l i = Some (nth i l d).
Proof. induction l as [|x l IH]; intros [|i] d H; cbn in *; try lia; auto. apply IH. lia. Qed.

(* ================= the session invariant for runs without disconnects ================= *)
(* kind-specific facts about a player's queue *)
