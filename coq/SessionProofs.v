(* Invariants of the session core model (rollback and lockstep advance, no disconnects):
   the request lists are executable and frame-consistent (C02), speculation and rollbacks stay
   inside the prediction window (C04), no modelled assert fires. *)
From GGRS Require Import Base Consts Queue QueueProofs QueueTheorems Sync P2P Session.
From Coq Require Import ZifyBool ZifyNat ZifyN.
Ltac Zify.zify_post_hook ::= Z.div_mod_to_equations.
Open Scope Z_scope.

(* ================= one queue inside a session ================= *)
(* c = the sync layer's current frame, L = its last confirmed frame *)
Record QI (c L : Z) (q : queue) (hist : list Z) (low : Z) : Prop := {
  qi_ring : RInv q hist low;
  qi_p1 : pi_frame (q_pred q) = NULL \/ pi_frame (q_pred q) = hlen hist;
  qi_p2 : pi_frame (q_pred q) <> NULL -> q_first_incorrect q = NULL -> hlen hist <= q_last_requested q;
  qi_p4 : q_first_incorrect q <> NULL ->
          pi_frame (q_pred q) <> NULL /\ L < q_first_incorrect q < hlen hist /\ q_first_incorrect q <= c - 1;
  qi_req : q_last_requested q = NULL \/ q_last_requested q = c - 1;
  qi_low : low <= Z.max 0 L /\ (0 < L -> L - 1 <= low);
  qi_conf : L <= hlen hist - 1;
}.

Lemma qi_reset : forall c c' L q hist low, QI c L q hist low -> QI c' L (reset_prediction q) hist low.
Proof.
  intros c c' L q hist low [I P1 P2 P4 Rq Lw Cf].
  constructor; cbn [reset_prediction q_pred q_first_incorrect q_last_requested pi_frame].
  - apply reset_ok. exact I.
  - left. reflexivity.
  - intros A. congruence.
  - intros A. congruence.
  - left. reflexivity.
  - exact Lw.
  - exact Cf.
Qed.

(* moving the last confirmed frame up to L' and discarding below L' - 1 *)
Lemma qi_confirm : forall c L L' q hist low,
  QI c L q hist low -> q_first_incorrect q = NULL -> L <= L' -> L' <= hlen hist - 1 -> L' <= c ->
  exists low', QI c L' (if 0 <? L' then discard_confirmed_frames q (L' - 1) else q) hist low' /\
    q_first_incorrect (if 0 <? L' then discard_confirmed_frames q (L' - 1) else q) = NULL /\
    q_delay (if 0 <? L' then discard_confirmed_frames q (L' - 1) else q) = q_delay q /\
    q_last_user (if 0 <? L' then discard_confirmed_frames q (L' - 1) else q) = q_last_user q /\
    q_pred (if 0 <? L' then discard_confirmed_frames q (L' - 1) else q) = q_pred q.
Proof.
  intros c L L' q hist low [I P1 P2 P4 Rq [Lw1 Lw2] Cf] Hfi HL HL' HLc.
  destruct (Z.ltb_spec 0 L') as [Hpos|Hnp].
  - destruct (discard_ok q hist low (L' - 1) I ltac:(lia)) as (I' & D' & U' & R' & F' & P').
    exists (discard_low q low (L' - 1)). split; [|repeat split; congruence].
    constructor; rewrite ?P', ?F', ?R'.
    + exact I'.
    + exact P1.
    + exact P2.
    + intro A. congruence.
    + exact Rq.
    + unfold discard_low. split.
      * destruct (q_last_requested q =? NULL); lia.
      * intros _. destruct Rq as [Rq|Rq]; rewrite Rq.
        -- cbn. lia.
        -- destruct (Z.eqb_spec (c - 1) NULL); lia.
    + exact HL'.
  - exists low. split; [|split; [exact Hfi|repeat split; reflexivity]].
    constructor.
    + exact I.
    + exact P1.
    + exact P2.
    + intro A. congruence.
    + exact Rq.
    + split; [lia|]. intros A. lia.
    + exact HL'.
Qed.

Section WithPredictor.
Variable predict : Z -> Z.

(* reading the current frame of a queue without a pending misprediction *)
Lemma qi_input : forall c L q hist low,
  QI c L q hist low -> q_first_incorrect q = NULL -> 0 <= c -> L <= c ->
  exists q' v st, input predict q c = Ok (q', (v, st)) /\ QI (c + 1) L q' hist low /\
                  q_first_incorrect q' = NULL /\ (st = Confirmed \/ st = Predicted) /\
                  (st = Confirmed -> c < hlen hist /\ v = hval hist c) /\
                  (st = Predicted -> hlen hist <= c) /\
                  q_delay q' = q_delay q /\ q_last_user q' = q_last_user q.
Proof.
  intros c L q hist low [I P1 P2 P4 Rq [Lw1 Lw2] Cf] Hfi Hc HL.
  destruct (ri_low _ _ _ I) as (L0 & L1 & L2). pose proof (hlen_nonneg hist) as Hnn.
  destruct P1 as [P1|P1].
  - destruct (Z.lt_ge_cases c (hlen hist)) as [Hlt|Hge].
    + assert (Hf : low <= c < hlen hist) by lia.
      rewrite (input_confirmed predict q hist low c I Hfi P1 Hf).
      eexists; eexists; eexists. split; [reflexivity|].
      split; [|repeat split; auto; try discriminate; try (intros; discriminate)].
      constructor; cbn [set_last_requested q_pred q_first_incorrect q_last_requested].
      * eapply RInv_ext; [exact I|reflexivity..].
      * left. exact P1.
      * intros A. congruence.
      * intros A. congruence.
      * right. lia.
      * split; assumption.
      * exact Cf.
    + rewrite (input_predict_start predict q hist low c I Hfi P1 Hge Hc).
      eexists; eexists; eexists. split; [reflexivity|].
      split; [|repeat split; auto; try discriminate; try (intros; discriminate)].
      constructor; cbn [set_requested_pred q_pred q_first_incorrect q_last_requested pi_frame pi_val].
      * eapply RInv_ext; [exact I|reflexivity..].
      * right. reflexivity.
      * intros _ _. exact Hge.
      * intros A. congruence.
      * right. lia.
      * split; assumption.
      * exact Cf.
  - assert (Hact : pi_frame (q_pred q) <> NULL) by (unfold NULL; lia).
    pose proof (P2 Hact Hfi) as Pl.
    assert (Htl : (if hlen hist =? 0 then NULL else low) <= c) by (destruct (hlen hist =? 0); unfold NULL; lia).
    rewrite (input_predicting predict q hist low c I Hfi P1 Htl).
    eexists; eexists; eexists. split; [reflexivity|].
    assert (Hge : hlen hist <= c) by (destruct Rq as [Rq|Rq]; unfold NULL in *; lia).
    split; [|repeat split; auto; try discriminate; try (intros; discriminate)].
    constructor; cbn [set_last_requested q_pred q_first_incorrect q_last_requested].
    + eapply RInv_ext; [exact I|reflexivity..].
    + right. exact P1.
    + intros _ _. exact Hge.
    + intros A. congruence.
    + right. lia.
    + split; assumption.
    + exact Cf.
Qed.


(* ================= all queues of a sync layer ================= *)
Definition ghost := (list Z * Z)%type.
Definition QsI (c L : Z) (qs : list queue) (gs : list ghost) : Prop :=
  Forall2 (fun q g => QI c L q (fst g) (snd g)) qs gs.
Definition all_clean (qs : list queue) : Prop := Forall (fun q => q_first_incorrect q = NULL) qs.
Definition same_user (qs qs' : list queue) : Prop :=
  Forall2 (fun q q' => q_delay q' = q_delay q /\ q_last_user q' = q_last_user q) qs qs'.
Definition connected (st : list cstat) : Prop := Forall (fun s => cs_disc s = false) st.

Lemma sync_inputs_go_ok : forall st qs gs c L,
  QsI c L qs gs -> all_clean qs -> length st = length qs -> connected st -> 0 <= c -> L <= c ->
  exists qs' ins, sync_inputs_go predict c qs st = Ok (qs', ins) /\ QsI (c + 1) L qs' gs /\
    all_clean qs' /\ length ins = length qs /\
    Forall (fun i => snd i = Confirmed \/ snd i = Predicted) ins /\ same_user qs qs'.
Proof.
  induction st as [|s st IH]; intros qs gs c L HQ Hcl Hlen Hcon Hc HL.
  - destruct qs; [|discriminate]. inversion HQ; subst.
    exists [], []. cbn. repeat split; constructor.
  - destruct qs as [|q qs]; [discriminate|]. inversion HQ as [|? g ? gs' Hq HQ']; subst.
    inversion Hcl as [|? ? Hq0 Hcl']; subst. inversion Hcon as [|? ? Hs Hcon']; subst.
    cbn [sync_inputs_go]. rewrite Hs. cbn [andb].
    destruct (qi_input c L q (fst g) (snd g) Hq Hq0 Hc HL) as (q' & v & stt & E & HQ1 & Hfi1 & Hst & _ & _ & Hd & Hu).
    rewrite E. cbn [res_bind].
    destruct (IH qs gs' c L HQ' Hcl' ltac:(cbn in Hlen; lia) Hcon' Hc HL) as (qs' & ins & E' & HQ2 & Hcl2 & Hl2 & Hst2 & Hsu).
    rewrite E'. cbn [res_bind].
    exists (q' :: qs'), ((v, stt) :: ins). split; [reflexivity|].
    repeat split.
    + constructor; assumption.
    + constructor; assumption.
    + cbn. lia.
    + constructor; [exact Hst|exact Hst2].
    + constructor; [split; assumption|exact Hsu].
Qed.

End WithPredictor.

(* ================= the user's game, executing request lists (C02) ================= *)
(* The free game: its state after n frames is the list of the n input vectors it was advanced with.
   A cell holds (frame, state) of the save that wrote it.  Executing a request list fails when a
   Save names another frame than the game's, or a Load names a frame that is not earlier, or whose
   cell does not hold the state saved for that frame on the current timeline. *)
Definition frame_inputs := list (Z * istatus).
Definition ghist := list frame_inputs.
Record game := mkg { g_hist : ghist; g_cells : list (Z * ghist) }.

Definition status_eqb (a b : istatus) : bool :=
  match a, b with Confirmed, Confirmed | Predicted, Predicted | Disconnected, Disconnected => true | _, _ => false end.
Fixpoint fi_eqb (a b : frame_inputs) : bool :=
  match a, b with
  | [], [] => true
  | (v, s) :: a', (v', s') :: b' => (v =? v') && status_eqb s s' && fi_eqb a' b'
  | _, _ => false
  end.
Fixpoint gh_eqb (a b : ghist) : bool :=
  match a, b with
  | [], [] => true
  | x :: a', y :: b' => fi_eqb x y && gh_eqb a' b'
  | _, _ => false
  end.

Definition gframe (g : game) : Z := Z.of_nat (length (g_hist g)).

Definition exec_req (w : Z) (g : game) (r : request) : option game :=
  match r with
  | RSave f =>
      if f =? gframe g then Some (mkg (g_hist g) (updz (g_cells g) (Z.to_nat (f mod (w + 1))) (f, g_hist g))) else None
  | RLoad f =>
      let '(cf, ch) := nth (Z.to_nat (f mod (w + 1))) (g_cells g) (NULL, []) in
      if (0 <=? f) && (f <? gframe g) && (cf =? f) && gh_eqb ch (firstn (Z.to_nat f) (g_hist g))
      then Some (mkg ch (g_cells g)) else None
  | RAdvance ins => Some (mkg (g_hist g ++ [ins]) (g_cells g))
  end.

Fixpoint exec (w : Z) (g : game) (rs : list request) : option game :=
  match rs with
  | [] => Some g
  | r :: rest => match exec_req w g r with Some g' => exec w g' rest | None => None end
  end.

Definition game0 (w : Z) : game := mkg [] (repeat (NULL, []) (Z.to_nat (w + 1))).

Lemma status_eqb_refl : forall s, status_eqb s s = true.
Proof. destruct s; reflexivity. Qed.
Lemma fi_eqb_refl : forall a, fi_eqb a a = true.
Proof. induction a as [|[v s] a IH]; cbn; [reflexivity|]. rewrite Z.eqb_refl, status_eqb_refl, IH. reflexivity. Qed.
Lemma gh_eqb_refl : forall a, gh_eqb a a = true.
Proof. induction a as [|x a IH]; cbn; [reflexivity|]. rewrite fi_eqb_refl, IH. reflexivity. Qed.

Lemma exec_app : forall w rs1 rs2 g, exec w g (rs1 ++ rs2) = match exec w g rs1 with Some g' => exec w g' rs2 | None => None end.
Proof.
  induction rs1 as [|r rs1 IH]; intros rs2 g; cbn [app exec]; [reflexivity|].
  destruct (exec_req w g r); [apply IH|reflexivity].
Qed.

(* ================= saved-state cells: the sync layer's view and the game's view ================= *)
(* for every frame f in [lo, hi]: the sync layer believes the cell of f holds f, and the game's cell
   of f holds exactly the state the game has for frame f on its current timeline *)
Definition CellsI (w lo hi : Z) (s : sync) (g : game) : Prop :=
  s_maxpred s = w /\ Z.of_nat (length (s_cells s)) = w + 1 /\ Z.of_nat (length (g_cells g)) = w + 1 /\
  forall f, lo <= f <= hi ->
    cell_frame s f = f /\ nth (Z.to_nat (f mod (w + 1))) (g_cells g) (NULL, []) = (f, firstn (Z.to_nat f) (g_hist g)).

Lemma nth_updz_same {A} : forall (l : list A) i x d, (i < length l)%nat -> nth i (updz l i x) d = x.
Proof. induction l as [|y r IH]; intros [|k] x d H; cbn in *; try lia; auto. apply IH; lia. Qed.
Lemma nth_updz_other {A} : forall (l : list A) i j x d, i <> j -> nth j (updz l i x) d = nth j l d.
Proof. induction l as [|y r IH]; intros [|k] [|j] x d H; cbn; auto; try congruence. Qed.
Lemma updz_length {A} : forall (l : list A) i x, length (updz l i x) = length l.
Proof. induction l as [|y r IH]; intros [|k] x; cbn; auto. Qed.

Lemma mod_window_inj_w : forall w f g, 0 <= w -> g - w <= f <= g -> f mod (w + 1) = g mod (w + 1) -> f = g.
Proof.
  intros w f g Hw Hf H.
  pose proof (Z.div_mod f (w + 1) ltac:(lia)) as Df. pose proof (Z.div_mod g (w + 1) ltac:(lia)) as Dg.
  assert (E : g - f = (w + 1) * (g / (w + 1) - f / (w + 1))) by lia.
  assert (g / (w + 1) - f / (w + 1) = 0) by nia. lia.
Qed.

Lemma firstn_app_le {A} : forall (l : list A) x n, (n <= length l)%nat -> firstn n (l ++ x) = firstn n l.
Proof. intros l x n H. rewrite firstn_app. replace (n - length l)%nat with 0%nat by lia. cbn. apply app_nil_r. Qed.

(* SaveGameState for the current frame *)
Lemma save_ok : forall w lo hi s g,
  CellsI w lo hi s g -> 0 <= w -> 0 <= s_current s -> gframe g = s_current s ->
  s_current s - 1 <= hi <= s_current s -> s_current s - w <= lo ->
  exists s' g', save_current_state s = Ok (s', RSave (s_current s)) /\
    exec_req w g (RSave (s_current s)) = Some g' /\
    CellsI w lo (s_current s) s' g' /\ g_hist g' = g_hist g /\
    s_current s' = s_current s /\ s_last_confirmed s' = s_last_confirmed s /\ s_queues s' = s_queues s /\
    s_last_saved s' = s_current s.
Proof.
  intros w lo hi s g (Hmp & Hls & Hlg & Hc) Hw Hcur Hgf Hhi Hlo.
  unfold save_current_state. assert ((s_current s <? 0) = false) as -> by lia.
  set (c := s_current s) in *.
  eexists; eexists. split; [reflexivity|].
  unfold exec_req. rewrite Hgf, Z.eqb_refl. split; [reflexivity|].
  assert (Hpos : 0 <= c mod (w + 1) < w + 1) by (apply Z.mod_pos_bound; lia).
  split; [|cbn; repeat split; reflexivity].
  unfold CellsI. cbn [s_maxpred s_cells g_cells g_hist].
  rewrite !updz_length. repeat split; try assumption.
  - destruct (Z.eq_dec f c) as [->|Hne].
    + unfold cell_frame, cell_pos. cbn [s_maxpred s_cells]. rewrite Hmp.
      apply nth_updz_same. lia.
    + destruct (Hc f ltac:(lia)) as [A _].
      unfold cell_frame, cell_pos in *. cbn [s_maxpred s_cells]. rewrite Hmp in *.
      rewrite nth_updz_other; [exact A|].
      intro E. apply Hne. apply (mod_window_inj_w w f c Hw); [lia|].
      assert (0 <= f mod (w + 1) < w + 1) by (apply Z.mod_pos_bound; lia). lia.
  - destruct (Z.eq_dec f c) as [->|Hne].
    + rewrite nth_updz_same by lia. f_equal.
      unfold gframe in Hgf. rewrite <- Hgf, Nat2Z.id. symmetry. apply firstn_all.
    + destruct (Hc f ltac:(lia)) as [_ B].
      rewrite nth_updz_other; [exact B|].
      intro E. apply Hne. apply (mod_window_inj_w w f c Hw); [lia|].
      assert (0 <= f mod (w + 1) < w + 1) by (apply Z.mod_pos_bound; lia). lia.
Qed.

(* AdvanceFrame *)
Lemma advance_cells : forall w lo hi s g ins,
  CellsI w lo hi s g -> hi <= gframe g ->
  CellsI w lo hi (advance_frame s) (mkg (g_hist g ++ [ins]) (g_cells g)).
Proof.
  intros w lo hi s g ins (Hmp & Hls & Hlg & Hc) Hhi.
  unfold CellsI. cbn [advance_frame with_current s_maxpred s_cells g_cells g_hist].
  repeat split; try assumption.
  - destruct (Hc f H) as [A _]. exact A.
  - destruct (Hc f H) as [A B]. rewrite B. f_equal.
    symmetry. apply firstn_app_le. unfold gframe in Hhi. lia.
Qed.

(* LoadGameState of a frame whose cell is valid *)
Lemma load_ok : forall w lo hi s g f,
  CellsI w lo hi s g -> 0 <= w -> gframe g = s_current s ->
  lo <= f <= hi -> 0 <= f -> f < s_current s -> s_current s - w <= f ->
  exists s' g', load_frame s f = Ok (s', RLoad f) /\ exec_req w g (RLoad f) = Some g' /\
    s' = with_current s f /\ g_hist g' = firstn (Z.to_nat f) (g_hist g) /\ gframe g' = f /\
    CellsI w lo f s' g'.
Proof.
  intros w lo hi s g f (Hmp & Hls & Hlg & Hc) Hw Hgf Hf H0 Hlt Hwin.
  destruct (Hc f Hf) as [A B].
  unfold load_frame. rewrite Hmp.
  assert ((f =? NULL) = false) as -> by (unfold NULL; lia).
  assert ((f <? s_current s) = true) as -> by lia. cbn [negb].
  assert ((f <? s_current s - w) = false) as -> by lia.
  assert ((f <? 0) = false) as -> by lia.
  rewrite A, Z.eqb_refl. cbn [negb].
  eexists; eexists. split; [reflexivity|].
  unfold exec_req. rewrite B.
  assert ((0 <=? f) = true) as -> by lia. rewrite Hgf.
  assert ((f <? s_current s) = true) as -> by lia. rewrite Z.eqb_refl, gh_eqb_refl. cbn [andb].
  split; [reflexivity|]. split; [reflexivity|]. split; [reflexivity|].
  assert (Hlen : (Z.to_nat f <= length (g_hist g))%nat) by (unfold gframe in Hgf; lia).
  split.
  - unfold gframe. cbn [g_hist]. rewrite firstn_length. lia.
  - unfold CellsI. cbn [with_current s_maxpred s_cells g_cells g_hist].
    repeat split; try assumption.
    + destruct (Hc f0 ltac:(lia)) as [A0 _]. exact A0.
    + destruct (Hc f0 ltac:(lia)) as [_ B0]. rewrite B0. f_equal.
      rewrite firstn_firstn. f_equal. lia.
Qed.

(* ================= re-simulation after a rollback (non-sparse) ================= *)
Lemma with_sync_idem : forall p s s', with_sync (with_sync p s) s' = with_sync p s'.
Proof. reflexivity. Qed.

Lemma same_user_refl : forall qs, same_user qs qs.
Proof. induction qs; constructor; auto. Qed.
Lemma same_user_trans : forall a b c, same_user a b -> same_user b c -> same_user a c.
Proof.
  induction a as [|x a IH]; intros b c H1 H2; inversion H1; subst; inversion H2; subst; constructor.
  - destruct H3, H4. split; congruence.
  - eapply IH; eassumption.
Qed.


Lemma res_bind_ok {A B} : forall (r : res A) (f : A -> res B) x,
  res_bind r f = Ok x -> exists a, r = Ok a /\ f a = Ok x.
Proof. intros r f x H. destruct r; cbn in H; try discriminate. eauto. Qed.

(* ================= C02 / C04: what a successful advance_frame hands out =================
   These statements hold for EVERY state of the session model and every operation sequence
   (disconnects, gossip, delay changes, spectators included): they only depend on how requests
   are generated and on the bookkeeping of the saved-state cells.  That no assert fires on the way
   (advance = Ok) is the subject of the no-panic theorems further down. *)

(* the part of the session state the game-side contract depends on *)
Record JI (w : Z) (p : p2p) (g : game) : Prop := {
  ji_w : 1 <= w;
  ji_mp : ps_maxpred p = w;
  ji_sparse : ps_sparse p = false;
  ji_frame : gframe g = s_current (ps_sync p);
  ji_cur : 0 <= s_current (ps_sync p);
  ji_cells : CellsI w (Z.max 0 (s_current (ps_sync p) - w)) (s_current (ps_sync p) - 1) (ps_sync p) g;
}.

Definition cells_same (s s' : sync) : Prop := s_maxpred s' = s_maxpred s /\ s_cells s' = s_cells s.

Lemma CellsI_same : forall w lo hi s s' g, CellsI w lo hi s g -> cells_same s s' -> CellsI w lo hi s' g.
Proof.
  intros w lo hi s s' g (A & B & C & D) [E F]. unfold CellsI. rewrite E, F. repeat split; try assumption.
  - destruct (D f H) as [X _]. unfold cell_frame, cell_pos in *. rewrite E, F. exact X.
  - destruct (D f H) as [_ Y]. exact Y.
Qed.

Lemma CellsI_narrow : forall w lo hi lo' hi' s g, CellsI w lo hi s g -> lo <= lo' -> hi' <= hi -> CellsI w lo' hi' s g.
Proof. intros w lo hi lo' hi' s g (A & B & C & D) H1 H2. repeat split; try assumption; apply D; lia. Qed.

Section Exec.
Variable predict : Z -> Z.

Lemma synchronized_inputs_sync : forall s st s1 ins,
  synchronized_inputs predict s st = Ok (s1, ins) ->
  cells_same s s1 /\ s_current s1 = s_current s /\ s_last_confirmed s1 = s_last_confirmed s /\ s_last_saved s1 = s_last_saved s.
Proof.
  intros s st s1 ins H. unfold synchronized_inputs in H.
  apply res_bind_ok in H. destruct H as ([qs ins'] & _ & E). inversion E; subst.
  repeat split; reflexivity.
Qed.

Lemma save_current_state_inv : forall s s' r, save_current_state s = Ok (s', r) ->
  0 <= s_current s /\ r = RSave (s_current s) /\ s_current s' = s_current s /\ s_queues s' = s_queues s /\
  s_last_confirmed s' = s_last_confirmed s /\ s_maxpred s' = s_maxpred s /\ s_last_saved s' = s_current s.
Proof.
  intros s s' r H. unfold save_current_state in H.
  destruct (Z.ltb_spec (s_current s) 0); [discriminate|]. inversion H; subst. cbn. repeat split; auto.
Qed.

(* re-simulation: every step is [Save cur]? ; Advance *)
Lemma resim_exec : forall n i p mc o p' o' g lo w,
  resim_go predict n i p mc o = Ok (p', o') -> ps_sparse p = false ->
  0 <= w -> 0 <= i -> 0 <= s_current (ps_sync p) ->
  gframe g = s_current (ps_sync p) ->
  CellsI w lo (if 0 <? i then s_current (ps_sync p) - 1 else s_current (ps_sync p)) (ps_sync p) g ->
  s_current (ps_sync p) + Z.of_nat n - 1 - w <= lo ->
  exists R g',
    o_requests o' = o_requests o ++ R /\ o_remote_sends o' = o_remote_sends o /\ o_spec_sends o' = o_spec_sends o /\
    exec w g R = Some g' /\
    gframe g' = s_current (ps_sync p') /\ s_current (ps_sync p') = s_current (ps_sync p) + Z.of_nat n /\
    CellsI w lo (if (0 <? i) || (0 <? Z.of_nat n) then s_current (ps_sync p') - 1 else s_current (ps_sync p')) (ps_sync p') g' /\
    p' = with_sync p (ps_sync p') /\
    (forall r, In r R -> match r with RLoad _ => False | _ => True end).
Proof.
  induction n as [|n IH]; intros i p mc o p' o' g lo w H Hsp Hw Hi Hc Hgf Hcells Hlo.
  - cbn [resim_go] in H. inversion H; subst. exists [], g. rewrite app_nil_r.
    cbn [Z.of_nat]. rewrite Z.add_0_r. replace (0 <? 0) with false by reflexivity. rewrite orb_false_r.
    split; [reflexivity|]. split; [reflexivity|]. split; [reflexivity|]. split; [reflexivity|].
    split; [exact Hgf|]. split; [reflexivity|]. split; [exact Hcells|]. split; [destruct p'; reflexivity|]. intros r [].
  - cbn [resim_go] in H.
    apply res_bind_ok in H. destruct H as ([s1 ins] & E1 & H).
    destruct (synchronized_inputs_sync _ _ _ _ E1) as (Hcs & Hc1 & HL1 & HS1).
    rewrite Hsp in H.
    apply res_bind_ok in H. destruct H as ([s2 o2] & E2 & H).
    set (cur := s_current (ps_sync p)) in *.
    assert (Hcells1 : CellsI w lo (if 0 <? i then cur - 1 else cur) s1 g) by (eapply CellsI_same; eassumption).
    (* the optional save of this step *)
    assert (Hstep : exists Rs g2, o_requests o2 = o_requests o ++ Rs /\ o_remote_sends o2 = o_remote_sends o /\ o_spec_sends o2 = o_spec_sends o /\
              exec w g Rs = Some g2 /\
              g_hist g2 = g_hist g /\ s_current s2 = cur /\ CellsI w lo cur s2 g2 /\
              (forall r, In r Rs -> match r with RLoad _ => False | _ => True end)).
    { destruct (Z.ltb_spec 0 i) as [Hpos|Hz].
      - apply res_bind_ok in E2. destruct E2 as ([s2' r] & Es & E2). inversion E2; subst s2' o2. clear E2.
        destruct (save_ok w lo (cur - 1) s1 g Hcells1 Hw ltac:(lia) ltac:(lia) ltac:(lia) ltac:(lia))
          as (s2'' & g2 & Es' & Ex & Hcl & Hh & Hcc & _ & _ & _).
        rewrite Hc1 in Es'. rewrite Es in Es'. inversion Es'; subst s2'' r.
        exists [RSave cur], g2. cbn [add_req o_requests o_remote_sends o_spec_sends exec].
        rewrite Hc1 in Ex. rewrite Ex.
        split; [reflexivity|]. split; [reflexivity|]. split; [reflexivity|]. split; [reflexivity|].
        split; [exact Hh|]. split; [lia|]. split; [rewrite Hc1 in Hcl; exact Hcl|].
        intros r [<-|[]]. exact I.
      - inversion E2; subst s2 o2. exists [], g. rewrite app_nil_r. cbn [exec].
        split; [reflexivity|]. split; [reflexivity|]. split; [reflexivity|]. split; [reflexivity|].
        split; [reflexivity|]. split; [exact Hc1|]. split; [exact Hcells1|]. intros r []. }
    destruct Hstep as (Rs & g2 & Ho2 & Hr2 & Hs2 & Ex2 & Hh2 & Hc2 & Hcl2 & Hnl2).
    (* the advance, then the rest *)
    set (p1 := with_sync p (advance_frame s2)) in *.
    set (g3 := mkg (g_hist g2 ++ [ins]) (g_cells g2)).
    assert (Hcl3 : CellsI w lo cur (advance_frame s2) g3).
    { apply advance_cells; [exact Hcl2|]. unfold gframe. rewrite Hh2. unfold gframe in Hgf. lia. }
    destruct (IH (i + 1) p1 mc (add_req o2 (RAdvance ins)) p' o' g3 lo w H) as (R & g' & A1 & A2 & A3 & A4 & A5 & A6 & A7 & A8 & A9).
    + exact Hsp.
    + exact Hw.
    + lia.
    + subst p1. cbn [with_sync ps_sync advance_frame with_current s_current]. lia.
    + subst p1 g3. cbn [with_sync ps_sync advance_frame with_current s_current]. unfold gframe. cbn [g_hist].
      rewrite app_length, Hh2. cbn [length]. unfold gframe in Hgf. lia.
    + subst p1. cbn [with_sync ps_sync]. assert ((0 <? i + 1) = true) as -> by lia.
      cbn [advance_frame with_current s_current]. replace (s_current s2 + 1 - 1) with cur by lia. exact Hcl3.
    + subst p1. cbn [with_sync ps_sync advance_frame with_current s_current]. lia.
    + exists (Rs ++ [RAdvance ins] ++ R), g'.
      cbn [add_req o_requests o_remote_sends o_spec_sends] in A1, A2, A3.
      subst p1. cbn [with_sync ps_sync advance_frame with_current s_current] in A6.
      split; [rewrite A1, Ho2; rewrite <- !app_assoc; reflexivity|].
      split; [congruence|]. split; [congruence|].
      split; [rewrite exec_app, Ex2; cbn [app exec exec_req]; fold g3; exact A4|].
      split; [exact A5|]. split; [lia|].
      split.
      { assert ((0 <? i + 1) = true) as Hi1 by lia. rewrite Hi1 in A7. cbn [orb] in A7.
        assert ((0 <? Z.of_nat (S n)) = true) as -> by lia. rewrite orb_true_r. exact A7. }
      split; [rewrite A8; reflexivity|].
      * intros r Hin. apply in_app_or in Hin. destruct Hin as [Hin|Hin]; [apply Hnl2; exact Hin|].
        cbn [app] in Hin. destruct Hin as [<-|Hin]; [exact I|apply A9; exact Hin].
Qed.

End Exec.

Lemma load_frame_inv : forall s f s' r, load_frame s f = Ok (s', r) ->
  0 <= f /\ f < s_current s /\ s_current s - s_maxpred s <= f /\ cell_frame s f = f /\ s' = with_current s f /\ r = RLoad f.
Proof.
  intros s f s' r H. unfold load_frame in H.
  destruct (f =? NULL) eqn:E1; [discriminate|].
  destruct (f <? s_current s) eqn:E2; cbn [negb] in H; [|discriminate].
  destruct (f <? s_current s - s_maxpred s) eqn:E3; [discriminate|].
  destruct (f <? 0) eqn:E4; [discriminate|].
  destruct (cell_frame s f =? f) eqn:E5; cbn [negb] in H; [|discriminate].
  inversion H; subst. repeat split; auto; lia.
Qed.

Section Exec2.
Variable predict : Z -> Z.

(* a rollback: Load f, then the re-simulation back to the current frame *)
Lemma adjust_exec : forall p fi mc o p' o' g w hi,
  adjust_gamestate predict p fi mc o = Ok (p', o') -> ps_sparse p = false ->
  0 <= w -> s_maxpred (ps_sync p) = w ->
  gframe g = s_current (ps_sync p) ->
  s_current (ps_sync p) - 1 <= hi ->
  CellsI w (Z.max 0 (s_current (ps_sync p) - w)) hi (ps_sync p) g ->
  exists R g',
    o_requests o' = o_requests o ++ R /\ o_remote_sends o' = o_remote_sends o /\ o_spec_sends o' = o_spec_sends o /\
    exec w g R = Some g' /\ gframe g' = s_current (ps_sync p) /\
    s_current (ps_sync p') = s_current (ps_sync p) /\
    CellsI w (Z.max 0 (s_current (ps_sync p) - w)) (s_current (ps_sync p) - 1) (ps_sync p') g' /\
    p' = with_sync p (ps_sync p') /\
    (forall r, In r R -> match r with RLoad f => s_current (ps_sync p) - w <= f < s_current (ps_sync p) | _ => True end).
Proof.
  intros p fi mc o p' o' g w hi H Hsp Hw Hmp Hgf Hhi Hcells.
  unfold adjust_gamestate in H. rewrite Hsp in H.
  set (c := s_current (ps_sync p)) in *.
  destruct (fi <? fi) eqn:Eff; [lia|].
  apply res_bind_ok in H. destruct H as ([s1 r] & El & H).
  destruct (load_frame_inv _ _ _ _ El) as (F0 & F1 & F2 & F3 & -> & ->). fold c in F1, F2. rewrite Hmp in F2.
  apply res_bind_ok in H. destruct H as ([p2 o2] & Er & H).
  destruct (s_current (ps_sync p2) =? c) eqn:Ecur; cbn [negb] in H; [|discriminate].
  inversion H; subst p2 o2. clear H.
  assert (Hcn : CellsI w (Z.max 0 (c - w)) (c - 1) (ps_sync p) g) by (eapply CellsI_narrow; [exact Hcells|lia|lia]).
  destruct (load_ok w (Z.max 0 (c - w)) (c - 1) (ps_sync p) g fi Hcn Hw Hgf ltac:(lia) F0 F1 F2)
    as (s1' & g1 & El' & Ex1 & Es1 & Hh1 & Hg1 & Hc1).
  rewrite El in El'. inversion El'; subst s1'. clear El'.
  set (p1 := with_sync p (reset_all (with_current (ps_sync p) fi))) in *.
  assert (Hcs : cells_same (with_current (ps_sync p) fi) (ps_sync p1)) by (subst p1; split; reflexivity).
  destruct (resim_exec predict (Z.to_nat (c - fi)) 0 p1 mc (add_req o (RLoad fi)) p' o' g1 (Z.max 0 (c - w)) w Er)
    as (R & g' & A1 & A2 & A3 & A4 & A5 & A6 & A7 & A8 & A9).
  - subst p1. exact Hsp.
  - exact Hw.
  - lia.
  - subst p1. cbn. exact F0.
  - subst p1. cbn [with_sync ps_sync reset_all with_queues s_current with_current]. exact Hg1.
  - replace (0 <? 0) with false by reflexivity.
    subst p1. cbn [with_sync ps_sync reset_all with_queues s_current with_current].
    eapply CellsI_same; [exact Hc1|]. split; reflexivity.
  - subst p1. cbn [with_sync ps_sync reset_all with_queues s_current with_current]. lia.
  - subst p1. cbn [with_sync ps_sync reset_all with_queues s_current with_current] in A6, A8.
    cbn [add_req o_requests o_remote_sends o_spec_sends] in A1, A2, A3.
    assert (Hn : (0 <? Z.of_nat (Z.to_nat (c - fi))) = true) by lia.
    rewrite Hn in A7. replace ((0 <? 0) || true) with true in A7 by reflexivity.
    assert (Hcp : s_current (ps_sync p') = c) by lia.
    exists (RLoad fi :: R), g'.
    split; [rewrite A1, <- app_assoc; reflexivity|]. split; [exact A2|]. split; [exact A3|].
    split; [cbn [exec]; rewrite Ex1; exact A4|].
    split; [rewrite A5; exact Hcp|]. split; [exact Hcp|].
    split; [rewrite Hcp in A7; exact A7|].
    split; [rewrite A8; reflexivity|].
    intros r0 [<-|Hin]; [lia|]. specialize (A9 r0 Hin). destruct r0; auto. contradiction.
Qed.

End Exec2.
