(* Model of the varinteger crate (1.0.6): encode / decode_with_offset.
   Bytes are N; a byte list stands for the slice from the current offset. *)
From GGRS Require Import Base.
Open Scope N_scope.

(* varinteger::encode: little-endian base-128, high bit = continuation.  u64 needs <= 10 bytes,
   so 9 continuation steps are always enough (fuel is only there to make the recursion structural). *)
Fixpoint venc_fuel (fuel : nat) (n : N) : list N :=
  match fuel with
  | O => [n]
  | S k => if n <=? 127 then [n] else (n mod 128 + 128) :: venc_fuel k (n / 128)
  end.
Definition venc (n : N) : list N := venc_fuel 9 n.

(* Idealised decoder (no overflow, None when the buffer ends inside a varint). *)
Fixpoint vdec_go (buf : list N) (val fac : N) (cnt : nat) : option (N * nat) :=
  match buf with
  | [] => None
  | b :: rest =>
      let val' := val + fac * (b mod 128) in
      if b <? 128 then Some (val', S cnt) else vdec_go rest val' (fac * 128) (S cnt)
  end.
Definition vdec (buf : list N) : option (N * nat) := vdec_go buf 0 1 O.

(* Faithful decoder: varinteger::decode_with_offset on u64 arithmetic.
   [dbg = true]: overflow checks on (dev profile): `fac * x` and `val + ..` panic on overflow;
   [dbg = false]: release profile, wrapping arithmetic.  `fac <<= 7` never panics, it drops bits.
   Reading past the end of the slice is an index panic in both profiles. *)
Definition U64 : N := 18446744073709551616.

Fixpoint vdecF_go (dbg : bool) (buf : list N) (val fac : N) (cnt : nat) : res (N * nat) :=
  match buf with
  | [] => Panic
  | b :: rest =>
      let prod := fac * (b mod 128) in
      if dbg && (U64 <=? prod) then Panic else
      let sum := val + prod mod U64 in
      if dbg && (U64 <=? sum) then Panic else
      let val' := sum mod U64 in
      if b <? 128 then Ok (val', S cnt) else vdecF_go dbg rest val' ((fac * 128) mod U64) (S cnt)
  end.
Definition vdecF (dbg : bool) (buf : list N) : res (N * nat) := vdecF_go dbg buf 0 1 O.

(* Bounded decoder used by the validating pre-pass of compression::decode (the F1 repair):
   at most 9 bytes (value < 2^63), None when truncated or longer. *)
Fixpoint vdecB_go (fuel : nat) (buf : list N) (val fac : N) (cnt : nat) : option (N * nat) :=
  match fuel with
  | O => None
  | S k =>
    match buf with
    | [] => None
    | b :: rest =>
        let val' := val + fac * (b mod 128) in
        if b <? 128 then Some (val', S cnt) else vdecB_go k rest val' (fac * 128) (S cnt)
    end
  end.
Definition vdecB (buf : list N) : option (N * nat) := vdecB_go 9 buf 0 1 O.
