(* Model of src/network/protocol.rs (UdpProtocol): one endpoint of the rollback network protocol.

   Time is an explicit argument [now] (milliseconds) of every operation: the code reads
   Instant::now() / millis_since_epoch(), which the harness drives with one virtual clock.
   Random numbers are explicit arguments: [magic] at [ep_new] (the first non-zero u16 drawn) and one
   u32 [nonce] for every operation that may call send_sync_request (at most one per operation).
   Bytes are [list N]; the input codec is [Codec.encode] / [Codec.decode dbg] (C14).
   The input type is the harness's serde newtype over u32: bincode writes 4 little-endian bytes
   ([INPUT_SIZE]); bincode::deserialize takes the first 4 bytes of a slice and ignores the rest
   (the free function allows trailing bytes), and fails on fewer than 4.
   [dbg = true] is the dev profile (overflow checks and debug assertions on), false the release
   profile.  Every assert!/expect/index/overflow-check on a modelled path is [Panic].

   Widths.  Frames, advantages and the checksum-history arithmetic are i32 and use
   [ts_i32_arith dbg] where the code can overflow on adversarial packets
   (start_frame + i, frame - 31 * interval, last_recv_frame - 2 * max_prediction,
   update_local_frame_advantage).  Left unmodelled (plain Z): `last_acked_input.frame + 1`
   (needs a frame of i32::MAX), Instant + Duration (u64 seconds), the u128 `ping`/`pong`/rtt range,
   `len() as u16` in the codec is modelled in Codec.v, usize lengths. *)
From Coq Require Import ZArith List Bool.
From GGRS Require Import Base Consts Varint Rle Codec TimeSync.
Open Scope Z_scope.

(* size of one bincode-serialised input of the harness configuration (u32 newtype) *)
Definition INPUT_SIZE : Z := 4.

Inductive pstate : Set := PInitializing | PSynchronizing | PRunning | PDisconnected | PShutdown.

Definition pstate_eqb (a b : pstate) : bool :=
  match a, b with
  | PInitializing, PInitializing | PSynchronizing, PSynchronizing | PRunning, PRunning
  | PDisconnected, PDisconnected | PShutdown, PShutdown => true
  | _, _ => false
  end.

(* ConnectionStatus { disconnected, last_frame } *)
Definition status : Set := (bool * Z)%type.
(* InputBytes { frame, bytes } *)
Definition ibytes : Set := (Z * list N)%type.

Inductive body : Set :=
| SyncRequest (random_request : Z)
| SyncReply (random_reply : Z)
| Input (peer_connect_status : list status) (disconnect_requested : bool) (start_frame ack_frame : Z)
        (bytes : list N)
| InputAck (ack_frame : Z)
| QualityReport (frame_advantage : Z) (ping : Z)
| QualityReply (pong : Z)
| ChecksumReport (checksum : Z) (frame : Z)
| KeepAlive.

Record message : Set := mkMsg { m_magic : Z; m_body : body }.

Inductive event : Set :=
| EvSynchronizing (total count : Z)
| EvSynchronized
| EvInput (frame value player : Z)
| EvDisconnected
| EvNetworkInterrupted (disconnect_timeout : Z)
| EvNetworkResumed.

Record ep : Type := mkEp {
  u_num_players : Z;
  u_handles : list Z;
  u_send_queue : list message;
  u_event_queue : list event;
  u_state : pstate;
  u_sync_remaining : Z;
  u_sync_requests : list Z;
  u_last_quality_report : Z;
  u_last_input_recv : Z;
  u_notify_sent : bool;
  u_event_sent : bool;
  u_timeout : Z;
  u_notify_start : Z;
  u_shutdown_timeout : Z;
  u_fps : Z;
  u_magic : Z;
  u_remote_magic : Z;
  u_peer_status : list status;
  u_pending_output : list ibytes;
  u_last_acked : ibytes;
  u_max_prediction : Z;
  u_recv_inputs : list ibytes;
  u_time_sync : time_sync;
  u_local_adv : Z;
  u_remote_adv : Z;
  u_stats_start : Z;
  u_rtt : Z;
  u_last_send_time : Z;
  u_last_sync_request_time : Z;
  u_last_recv_time : Z;
  u_pending_checksums : list (Z * Z);
  u_desync : option Z
}.

Definition set_send_queue (v : list message) (s : ep) : ep :=
  {| u_num_players := u_num_players s; u_handles := u_handles s; u_send_queue := v; u_event_queue := u_event_queue s; u_state := u_state s; u_sync_remaining := u_sync_remaining s; u_sync_requests := u_sync_requests s; u_last_quality_report := u_last_quality_report s; u_last_input_recv := u_last_input_recv s; u_notify_sent := u_notify_sent s; u_event_sent := u_event_sent s; u_timeout := u_timeout s; u_notify_start := u_notify_start s; u_shutdown_timeout := u_shutdown_timeout s; u_fps := u_fps s; u_magic := u_magic s; u_remote_magic := u_remote_magic s; u_peer_status := u_peer_status s; u_pending_output := u_pending_output s; u_last_acked := u_last_acked s; u_max_prediction := u_max_prediction s; u_recv_inputs := u_recv_inputs s; u_time_sync := u_time_sync s; u_local_adv := u_local_adv s; u_remote_adv := u_remote_adv s; u_stats_start := u_stats_start s; u_rtt := u_rtt s; u_last_send_time := u_last_send_time s; u_last_sync_request_time := u_last_sync_request_time s; u_last_recv_time := u_last_recv_time s; u_pending_checksums := u_pending_checksums s; u_desync := u_desync s |}.
Definition set_event_queue (v : list event) (s : ep) : ep :=
  {| u_num_players := u_num_players s; u_handles := u_handles s; u_send_queue := u_send_queue s; u_event_queue := v; u_state := u_state s; u_sync_remaining := u_sync_remaining s; u_sync_requests := u_sync_requests s; u_last_quality_report := u_last_quality_report s; u_last_input_recv := u_last_input_recv s; u_notify_sent := u_notify_sent s; u_event_sent := u_event_sent s; u_timeout := u_timeout s; u_notify_start := u_notify_start s; u_shutdown_timeout := u_shutdown_timeout s; u_fps := u_fps s; u_magic := u_magic s; u_remote_magic := u_remote_magic s; u_peer_status := u_peer_status s; u_pending_output := u_pending_output s; u_last_acked := u_last_acked s; u_max_prediction := u_max_prediction s; u_recv_inputs := u_recv_inputs s; u_time_sync := u_time_sync s; u_local_adv := u_local_adv s; u_remote_adv := u_remote_adv s; u_stats_start := u_stats_start s; u_rtt := u_rtt s; u_last_send_time := u_last_send_time s; u_last_sync_request_time := u_last_sync_request_time s; u_last_recv_time := u_last_recv_time s; u_pending_checksums := u_pending_checksums s; u_desync := u_desync s |}.
Definition set_state (v : pstate) (s : ep) : ep :=
  {| u_num_players := u_num_players s; u_handles := u_handles s; u_send_queue := u_send_queue s; u_event_queue := u_event_queue s; u_state := v; u_sync_remaining := u_sync_remaining s; u_sync_requests := u_sync_requests s; u_last_quality_report := u_last_quality_report s; u_last_input_recv := u_last_input_recv s; u_notify_sent := u_notify_sent s; u_event_sent := u_event_sent s; u_timeout := u_timeout s; u_notify_start := u_notify_start s; u_shutdown_timeout := u_shutdown_timeout s; u_fps := u_fps s; u_magic := u_magic s; u_remote_magic := u_remote_magic s; u_peer_status := u_peer_status s; u_pending_output := u_pending_output s; u_last_acked := u_last_acked s; u_max_prediction := u_max_prediction s; u_recv_inputs := u_recv_inputs s; u_time_sync := u_time_sync s; u_local_adv := u_local_adv s; u_remote_adv := u_remote_adv s; u_stats_start := u_stats_start s; u_rtt := u_rtt s; u_last_send_time := u_last_send_time s; u_last_sync_request_time := u_last_sync_request_time s; u_last_recv_time := u_last_recv_time s; u_pending_checksums := u_pending_checksums s; u_desync := u_desync s |}.
Definition set_sync_remaining (v : Z) (s : ep) : ep :=
  {| u_num_players := u_num_players s; u_handles := u_handles s; u_send_queue := u_send_queue s; u_event_queue := u_event_queue s; u_state := u_state s; u_sync_remaining := v; u_sync_requests := u_sync_requests s; u_last_quality_report := u_last_quality_report s; u_last_input_recv := u_last_input_recv s; u_notify_sent := u_notify_sent s; u_event_sent := u_event_sent s; u_timeout := u_timeout s; u_notify_start := u_notify_start s; u_shutdown_timeout := u_shutdown_timeout s; u_fps := u_fps s; u_magic := u_magic s; u_remote_magic := u_remote_magic s; u_peer_status := u_peer_status s; u_pending_output := u_pending_output s; u_last_acked := u_last_acked s; u_max_prediction := u_max_prediction s; u_recv_inputs := u_recv_inputs s; u_time_sync := u_time_sync s; u_local_adv := u_local_adv s; u_remote_adv := u_remote_adv s; u_stats_start := u_stats_start s; u_rtt := u_rtt s; u_last_send_time := u_last_send_time s; u_last_sync_request_time := u_last_sync_request_time s; u_last_recv_time := u_last_recv_time s; u_pending_checksums := u_pending_checksums s; u_desync := u_desync s |}.
Definition set_sync_requests (v : list Z) (s : ep) : ep :=
  {| u_num_players := u_num_players s; u_handles := u_handles s; u_send_queue := u_send_queue s; u_event_queue := u_event_queue s; u_state := u_state s; u_sync_remaining := u_sync_remaining s; u_sync_requests := v; u_last_quality_report := u_last_quality_report s; u_last_input_recv := u_last_input_recv s; u_notify_sent := u_notify_sent s; u_event_sent := u_event_sent s; u_timeout := u_timeout s; u_notify_start := u_notify_start s; u_shutdown_timeout := u_shutdown_timeout s; u_fps := u_fps s; u_magic := u_magic s; u_remote_magic := u_remote_magic s; u_peer_status := u_peer_status s; u_pending_output := u_pending_output s; u_last_acked := u_last_acked s; u_max_prediction := u_max_prediction s; u_recv_inputs := u_recv_inputs s; u_time_sync := u_time_sync s; u_local_adv := u_local_adv s; u_remote_adv := u_remote_adv s; u_stats_start := u_stats_start s; u_rtt := u_rtt s; u_last_send_time := u_last_send_time s; u_last_sync_request_time := u_last_sync_request_time s; u_last_recv_time := u_last_recv_time s; u_pending_checksums := u_pending_checksums s; u_desync := u_desync s |}.
Definition set_last_quality_report (v : Z) (s : ep) : ep :=
  {| u_num_players := u_num_players s; u_handles := u_handles s; u_send_queue := u_send_queue s; u_event_queue := u_event_queue s; u_state := u_state s; u_sync_remaining := u_sync_remaining s; u_sync_requests := u_sync_requests s; u_last_quality_report := v; u_last_input_recv := u_last_input_recv s; u_notify_sent := u_notify_sent s; u_event_sent := u_event_sent s; u_timeout := u_timeout s; u_notify_start := u_notify_start s; u_shutdown_timeout := u_shutdown_timeout s; u_fps := u_fps s; u_magic := u_magic s; u_remote_magic := u_remote_magic s; u_peer_status := u_peer_status s; u_pending_output := u_pending_output s; u_last_acked := u_last_acked s; u_max_prediction := u_max_prediction s; u_recv_inputs := u_recv_inputs s; u_time_sync := u_time_sync s; u_local_adv := u_local_adv s; u_remote_adv := u_remote_adv s; u_stats_start := u_stats_start s; u_rtt := u_rtt s; u_last_send_time := u_last_send_time s; u_last_sync_request_time := u_last_sync_request_time s; u_last_recv_time := u_last_recv_time s; u_pending_checksums := u_pending_checksums s; u_desync := u_desync s |}.
Definition set_last_input_recv (v : Z) (s : ep) : ep :=
  {| u_num_players := u_num_players s; u_handles := u_handles s; u_send_queue := u_send_queue s; u_event_queue := u_event_queue s; u_state := u_state s; u_sync_remaining := u_sync_remaining s; u_sync_requests := u_sync_requests s; u_last_quality_report := u_last_quality_report s; u_last_input_recv := v; u_notify_sent := u_notify_sent s; u_event_sent := u_event_sent s; u_timeout := u_timeout s; u_notify_start := u_notify_start s; u_shutdown_timeout := u_shutdown_timeout s; u_fps := u_fps s; u_magic := u_magic s; u_remote_magic := u_remote_magic s; u_peer_status := u_peer_status s; u_pending_output := u_pending_output s; u_last_acked := u_last_acked s; u_max_prediction := u_max_prediction s; u_recv_inputs := u_recv_inputs s; u_time_sync := u_time_sync s; u_local_adv := u_local_adv s; u_remote_adv := u_remote_adv s; u_stats_start := u_stats_start s; u_rtt := u_rtt s; u_last_send_time := u_last_send_time s; u_last_sync_request_time := u_last_sync_request_time s; u_last_recv_time := u_last_recv_time s; u_pending_checksums := u_pending_checksums s; u_desync := u_desync s |}.
Definition set_notify_sent (v : bool) (s : ep) : ep :=
  {| u_num_players := u_num_players s; u_handles := u_handles s; u_send_queue := u_send_queue s; u_event_queue := u_event_queue s; u_state := u_state s; u_sync_remaining := u_sync_remaining s; u_sync_requests := u_sync_requests s; u_last_quality_report := u_last_quality_report s; u_last_input_recv := u_last_input_recv s; u_notify_sent := v; u_event_sent := u_event_sent s; u_timeout := u_timeout s; u_notify_start := u_notify_start s; u_shutdown_timeout := u_shutdown_timeout s; u_fps := u_fps s; u_magic := u_magic s; u_remote_magic := u_remote_magic s; u_peer_status := u_peer_status s; u_pending_output := u_pending_output s; u_last_acked := u_last_acked s; u_max_prediction := u_max_prediction s; u_recv_inputs := u_recv_inputs s; u_time_sync := u_time_sync s; u_local_adv := u_local_adv s; u_remote_adv := u_remote_adv s; u_stats_start := u_stats_start s; u_rtt := u_rtt s; u_last_send_time := u_last_send_time s; u_last_sync_request_time := u_last_sync_request_time s; u_last_recv_time := u_last_recv_time s; u_pending_checksums := u_pending_checksums s; u_desync := u_desync s |}.
Definition set_event_sent (v : bool) (s : ep) : ep :=
  {| u_num_players := u_num_players s; u_handles := u_handles s; u_send_queue := u_send_queue s; u_event_queue := u_event_queue s; u_state := u_state s; u_sync_remaining := u_sync_remaining s; u_sync_requests := u_sync_requests s; u_last_quality_report := u_last_quality_report s; u_last_input_recv := u_last_input_recv s; u_notify_sent := u_notify_sent s; u_event_sent := v; u_timeout := u_timeout s; u_notify_start := u_notify_start s; u_shutdown_timeout := u_shutdown_timeout s; u_fps := u_fps s; u_magic := u_magic s; u_remote_magic := u_remote_magic s; u_peer_status := u_peer_status s; u_pending_output := u_pending_output s; u_last_acked := u_last_acked s; u_max_prediction := u_max_prediction s; u_recv_inputs := u_recv_inputs s; u_time_sync := u_time_sync s; u_local_adv := u_local_adv s; u_remote_adv := u_remote_adv s; u_stats_start := u_stats_start s; u_rtt := u_rtt s; u_last_send_time := u_last_send_time s; u_last_sync_request_time := u_last_sync_request_time s; u_last_recv_time := u_last_recv_time s; u_pending_checksums := u_pending_checksums s; u_desync := u_desync s |}.
Definition set_shutdown_timeout (v : Z) (s : ep) : ep :=
  {| u_num_players := u_num_players s; u_handles := u_handles s; u_send_queue := u_send_queue s; u_event_queue := u_event_queue s; u_state := u_state s; u_sync_remaining := u_sync_remaining s; u_sync_requests := u_sync_requests s; u_last_quality_report := u_last_quality_report s; u_last_input_recv := u_last_input_recv s; u_notify_sent := u_notify_sent s; u_event_sent := u_event_sent s; u_timeout := u_timeout s; u_notify_start := u_notify_start s; u_shutdown_timeout := v; u_fps := u_fps s; u_magic := u_magic s; u_remote_magic := u_remote_magic s; u_peer_status := u_peer_status s; u_pending_output := u_pending_output s; u_last_acked := u_last_acked s; u_max_prediction := u_max_prediction s; u_recv_inputs := u_recv_inputs s; u_time_sync := u_time_sync s; u_local_adv := u_local_adv s; u_remote_adv := u_remote_adv s; u_stats_start := u_stats_start s; u_rtt := u_rtt s; u_last_send_time := u_last_send_time s; u_last_sync_request_time := u_last_sync_request_time s; u_last_recv_time := u_last_recv_time s; u_pending_checksums := u_pending_checksums s; u_desync := u_desync s |}.
Definition set_remote_magic (v : Z) (s : ep) : ep :=
  {| u_num_players := u_num_players s; u_handles := u_handles s; u_send_queue := u_send_queue s; u_event_queue := u_event_queue s; u_state := u_state s; u_sync_remaining := u_sync_remaining s; u_sync_requests := u_sync_requests s; u_last_quality_report := u_last_quality_report s; u_last_input_recv := u_last_input_recv s; u_notify_sent := u_notify_sent s; u_event_sent := u_event_sent s; u_timeout := u_timeout s; u_notify_start := u_notify_start s; u_shutdown_timeout := u_shutdown_timeout s; u_fps := u_fps s; u_magic := u_magic s; u_remote_magic := v; u_peer_status := u_peer_status s; u_pending_output := u_pending_output s; u_last_acked := u_last_acked s; u_max_prediction := u_max_prediction s; u_recv_inputs := u_recv_inputs s; u_time_sync := u_time_sync s; u_local_adv := u_local_adv s; u_remote_adv := u_remote_adv s; u_stats_start := u_stats_start s; u_rtt := u_rtt s; u_last_send_time := u_last_send_time s; u_last_sync_request_time := u_last_sync_request_time s; u_last_recv_time := u_last_recv_time s; u_pending_checksums := u_pending_checksums s; u_desync := u_desync s |}.
Definition set_peer_status (v : list status) (s : ep) : ep :=
  {| u_num_players := u_num_players s; u_handles := u_handles s; u_send_queue := u_send_queue s; u_event_queue := u_event_queue s; u_state := u_state s; u_sync_remaining := u_sync_remaining s; u_sync_requests := u_sync_requests s; u_last_quality_report := u_last_quality_report s; u_last_input_recv := u_last_input_recv s; u_notify_sent := u_notify_sent s; u_event_sent := u_event_sent s; u_timeout := u_timeout s; u_notify_start := u_notify_start s; u_shutdown_timeout := u_shutdown_timeout s; u_fps := u_fps s; u_magic := u_magic s; u_remote_magic := u_remote_magic s; u_peer_status := v; u_pending_output := u_pending_output s; u_last_acked := u_last_acked s; u_max_prediction := u_max_prediction s; u_recv_inputs := u_recv_inputs s; u_time_sync := u_time_sync s; u_local_adv := u_local_adv s; u_remote_adv := u_remote_adv s; u_stats_start := u_stats_start s; u_rtt := u_rtt s; u_last_send_time := u_last_send_time s; u_last_sync_request_time := u_last_sync_request_time s; u_last_recv_time := u_last_recv_time s; u_pending_checksums := u_pending_checksums s; u_desync := u_desync s |}.
Definition set_pending_output (v : list ibytes) (s : ep) : ep :=
  {| u_num_players := u_num_players s; u_handles := u_handles s; u_send_queue := u_send_queue s; u_event_queue := u_event_queue s; u_state := u_state s; u_sync_remaining := u_sync_remaining s; u_sync_requests := u_sync_requests s; u_last_quality_report := u_last_quality_report s; u_last_input_recv := u_last_input_recv s; u_notify_sent := u_notify_sent s; u_event_sent := u_event_sent s; u_timeout := u_timeout s; u_notify_start := u_notify_start s; u_shutdown_timeout := u_shutdown_timeout s; u_fps := u_fps s; u_magic := u_magic s; u_remote_magic := u_remote_magic s; u_peer_status := u_peer_status s; u_pending_output := v; u_last_acked := u_last_acked s; u_max_prediction := u_max_prediction s; u_recv_inputs := u_recv_inputs s; u_time_sync := u_time_sync s; u_local_adv := u_local_adv s; u_remote_adv := u_remote_adv s; u_stats_start := u_stats_start s; u_rtt := u_rtt s; u_last_send_time := u_last_send_time s; u_last_sync_request_time := u_last_sync_request_time s; u_last_recv_time := u_last_recv_time s; u_pending_checksums := u_pending_checksums s; u_desync := u_desync s |}.
Definition set_last_acked (v : ibytes) (s : ep) : ep :=
  {| u_num_players := u_num_players s; u_handles := u_handles s; u_send_queue := u_send_queue s; u_event_queue := u_event_queue s; u_state := u_state s; u_sync_remaining := u_sync_remaining s; u_sync_requests := u_sync_requests s; u_last_quality_report := u_last_quality_report s; u_last_input_recv := u_last_input_recv s; u_notify_sent := u_notify_sent s; u_event_sent := u_event_sent s; u_timeout := u_timeout s; u_notify_start := u_notify_start s; u_shutdown_timeout := u_shutdown_timeout s; u_fps := u_fps s; u_magic := u_magic s; u_remote_magic := u_remote_magic s; u_peer_status := u_peer_status s; u_pending_output := u_pending_output s; u_last_acked := v; u_max_prediction := u_max_prediction s; u_recv_inputs := u_recv_inputs s; u_time_sync := u_time_sync s; u_local_adv := u_local_adv s; u_remote_adv := u_remote_adv s; u_stats_start := u_stats_start s; u_rtt := u_rtt s; u_last_send_time := u_last_send_time s; u_last_sync_request_time := u_last_sync_request_time s; u_last_recv_time := u_last_recv_time s; u_pending_checksums := u_pending_checksums s; u_desync := u_desync s |}.
Definition set_recv_inputs (v : list ibytes) (s : ep) : ep :=
  {| u_num_players := u_num_players s; u_handles := u_handles s; u_send_queue := u_send_queue s; u_event_queue := u_event_queue s; u_state := u_state s; u_sync_remaining := u_sync_remaining s; u_sync_requests := u_sync_requests s; u_last_quality_report := u_last_quality_report s; u_last_input_recv := u_last_input_recv s; u_notify_sent := u_notify_sent s; u_event_sent := u_event_sent s; u_timeout := u_timeout s; u_notify_start := u_notify_start s; u_shutdown_timeout := u_shutdown_timeout s; u_fps := u_fps s; u_magic := u_magic s; u_remote_magic := u_remote_magic s; u_peer_status := u_peer_status s; u_pending_output := u_pending_output s; u_last_acked := u_last_acked s; u_max_prediction := u_max_prediction s; u_recv_inputs := v; u_time_sync := u_time_sync s; u_local_adv := u_local_adv s; u_remote_adv := u_remote_adv s; u_stats_start := u_stats_start s; u_rtt := u_rtt s; u_last_send_time := u_last_send_time s; u_last_sync_request_time := u_last_sync_request_time s; u_last_recv_time := u_last_recv_time s; u_pending_checksums := u_pending_checksums s; u_desync := u_desync s |}.
Definition set_time_sync (v : time_sync) (s : ep) : ep :=
  {| u_num_players := u_num_players s; u_handles := u_handles s; u_send_queue := u_send_queue s; u_event_queue := u_event_queue s; u_state := u_state s; u_sync_remaining := u_sync_remaining s; u_sync_requests := u_sync_requests s; u_last_quality_report := u_last_quality_report s; u_last_input_recv := u_last_input_recv s; u_notify_sent := u_notify_sent s; u_event_sent := u_event_sent s; u_timeout := u_timeout s; u_notify_start := u_notify_start s; u_shutdown_timeout := u_shutdown_timeout s; u_fps := u_fps s; u_magic := u_magic s; u_remote_magic := u_remote_magic s; u_peer_status := u_peer_status s; u_pending_output := u_pending_output s; u_last_acked := u_last_acked s; u_max_prediction := u_max_prediction s; u_recv_inputs := u_recv_inputs s; u_time_sync := v; u_local_adv := u_local_adv s; u_remote_adv := u_remote_adv s; u_stats_start := u_stats_start s; u_rtt := u_rtt s; u_last_send_time := u_last_send_time s; u_last_sync_request_time := u_last_sync_request_time s; u_last_recv_time := u_last_recv_time s; u_pending_checksums := u_pending_checksums s; u_desync := u_desync s |}.
Definition set_local_adv (v : Z) (s : ep) : ep :=
  {| u_num_players := u_num_players s; u_handles := u_handles s; u_send_queue := u_send_queue s; u_event_queue := u_event_queue s; u_state := u_state s; u_sync_remaining := u_sync_remaining s; u_sync_requests := u_sync_requests s; u_last_quality_report := u_last_quality_report s; u_last_input_recv := u_last_input_recv s; u_notify_sent := u_notify_sent s; u_event_sent := u_event_sent s; u_timeout := u_timeout s; u_notify_start := u_notify_start s; u_shutdown_timeout := u_shutdown_timeout s; u_fps := u_fps s; u_magic := u_magic s; u_remote_magic := u_remote_magic s; u_peer_status := u_peer_status s; u_pending_output := u_pending_output s; u_last_acked := u_last_acked s; u_max_prediction := u_max_prediction s; u_recv_inputs := u_recv_inputs s; u_time_sync := u_time_sync s; u_local_adv := v; u_remote_adv := u_remote_adv s; u_stats_start := u_stats_start s; u_rtt := u_rtt s; u_last_send_time := u_last_send_time s; u_last_sync_request_time := u_last_sync_request_time s; u_last_recv_time := u_last_recv_time s; u_pending_checksums := u_pending_checksums s; u_desync := u_desync s |}.
Definition set_remote_adv (v : Z) (s : ep) : ep :=
  {| u_num_players := u_num_players s; u_handles := u_handles s; u_send_queue := u_send_queue s; u_event_queue := u_event_queue s; u_state := u_state s; u_sync_remaining := u_sync_remaining s; u_sync_requests := u_sync_requests s; u_last_quality_report := u_last_quality_report s; u_last_input_recv := u_last_input_recv s; u_notify_sent := u_notify_sent s; u_event_sent := u_event_sent s; u_timeout := u_timeout s; u_notify_start := u_notify_start s; u_shutdown_timeout := u_shutdown_timeout s; u_fps := u_fps s; u_magic := u_magic s; u_remote_magic := u_remote_magic s; u_peer_status := u_peer_status s; u_pending_output := u_pending_output s; u_last_acked := u_last_acked s; u_max_prediction := u_max_prediction s; u_recv_inputs := u_recv_inputs s; u_time_sync := u_time_sync s; u_local_adv := u_local_adv s; u_remote_adv := v; u_stats_start := u_stats_start s; u_rtt := u_rtt s; u_last_send_time := u_last_send_time s; u_last_sync_request_time := u_last_sync_request_time s; u_last_recv_time := u_last_recv_time s; u_pending_checksums := u_pending_checksums s; u_desync := u_desync s |}.
Definition set_stats_start (v : Z) (s : ep) : ep :=
  {| u_num_players := u_num_players s; u_handles := u_handles s; u_send_queue := u_send_queue s; u_event_queue := u_event_queue s; u_state := u_state s; u_sync_remaining := u_sync_remaining s; u_sync_requests := u_sync_requests s; u_last_quality_report := u_last_quality_report s; u_last_input_recv := u_last_input_recv s; u_notify_sent := u_notify_sent s; u_event_sent := u_event_sent s; u_timeout := u_timeout s; u_notify_start := u_notify_start s; u_shutdown_timeout := u_shutdown_timeout s; u_fps := u_fps s; u_magic := u_magic s; u_remote_magic := u_remote_magic s; u_peer_status := u_peer_status s; u_pending_output := u_pending_output s; u_last_acked := u_last_acked s; u_max_prediction := u_max_prediction s; u_recv_inputs := u_recv_inputs s; u_time_sync := u_time_sync s; u_local_adv := u_local_adv s; u_remote_adv := u_remote_adv s; u_stats_start := v; u_rtt := u_rtt s; u_last_send_time := u_last_send_time s; u_last_sync_request_time := u_last_sync_request_time s; u_last_recv_time := u_last_recv_time s; u_pending_checksums := u_pending_checksums s; u_desync := u_desync s |}.
Definition set_rtt (v : Z) (s : ep) : ep :=
  {| u_num_players := u_num_players s; u_handles := u_handles s; u_send_queue := u_send_queue s; u_event_queue := u_event_queue s; u_state := u_state s; u_sync_remaining := u_sync_remaining s; u_sync_requests := u_sync_requests s; u_last_quality_report := u_last_quality_report s; u_last_input_recv := u_last_input_recv s; u_notify_sent := u_notify_sent s; u_event_sent := u_event_sent s; u_timeout := u_timeout s; u_notify_start := u_notify_start s; u_shutdown_timeout := u_shutdown_timeout s; u_fps := u_fps s; u_magic := u_magic s; u_remote_magic := u_remote_magic s; u_peer_status := u_peer_status s; u_pending_output := u_pending_output s; u_last_acked := u_last_acked s; u_max_prediction := u_max_prediction s; u_recv_inputs := u_recv_inputs s; u_time_sync := u_time_sync s; u_local_adv := u_local_adv s; u_remote_adv := u_remote_adv s; u_stats_start := u_stats_start s; u_rtt := v; u_last_send_time := u_last_send_time s; u_last_sync_request_time := u_last_sync_request_time s; u_last_recv_time := u_last_recv_time s; u_pending_checksums := u_pending_checksums s; u_desync := u_desync s |}.
Definition set_last_send_time (v : Z) (s : ep) : ep :=
  {| u_num_players := u_num_players s; u_handles := u_handles s; u_send_queue := u_send_queue s; u_event_queue := u_event_queue s; u_state := u_state s; u_sync_remaining := u_sync_remaining s; u_sync_requests := u_sync_requests s; u_last_quality_report := u_last_quality_report s; u_last_input_recv := u_last_input_recv s; u_notify_sent := u_notify_sent s; u_event_sent := u_event_sent s; u_timeout := u_timeout s; u_notify_start := u_notify_start s; u_shutdown_timeout := u_shutdown_timeout s; u_fps := u_fps s; u_magic := u_magic s; u_remote_magic := u_remote_magic s; u_peer_status := u_peer_status s; u_pending_output := u_pending_output s; u_last_acked := u_last_acked s; u_max_prediction := u_max_prediction s; u_recv_inputs := u_recv_inputs s; u_time_sync := u_time_sync s; u_local_adv := u_local_adv s; u_remote_adv := u_remote_adv s; u_stats_start := u_stats_start s; u_rtt := u_rtt s; u_last_send_time := v; u_last_sync_request_time := u_last_sync_request_time s; u_last_recv_time := u_last_recv_time s; u_pending_checksums := u_pending_checksums s; u_desync := u_desync s |}.
Definition set_last_sync_request_time (v : Z) (s : ep) : ep :=
  {| u_num_players := u_num_players s; u_handles := u_handles s; u_send_queue := u_send_queue s; u_event_queue := u_event_queue s; u_state := u_state s; u_sync_remaining := u_sync_remaining s; u_sync_requests := u_sync_requests s; u_last_quality_report := u_last_quality_report s; u_last_input_recv := u_last_input_recv s; u_notify_sent := u_notify_sent s; u_event_sent := u_event_sent s; u_timeout := u_timeout s; u_notify_start := u_notify_start s; u_shutdown_timeout := u_shutdown_timeout s; u_fps := u_fps s; u_magic := u_magic s; u_remote_magic := u_remote_magic s; u_peer_status := u_peer_status s; u_pending_output := u_pending_output s; u_last_acked := u_last_acked s; u_max_prediction := u_max_prediction s; u_recv_inputs := u_recv_inputs s; u_time_sync := u_time_sync s; u_local_adv := u_local_adv s; u_remote_adv := u_remote_adv s; u_stats_start := u_stats_start s; u_rtt := u_rtt s; u_last_send_time := u_last_send_time s; u_last_sync_request_time := v; u_last_recv_time := u_last_recv_time s; u_pending_checksums := u_pending_checksums s; u_desync := u_desync s |}.
Definition set_last_recv_time (v : Z) (s : ep) : ep :=
  {| u_num_players := u_num_players s; u_handles := u_handles s; u_send_queue := u_send_queue s; u_event_queue := u_event_queue s; u_state := u_state s; u_sync_remaining := u_sync_remaining s; u_sync_requests := u_sync_requests s; u_last_quality_report := u_last_quality_report s; u_last_input_recv := u_last_input_recv s; u_notify_sent := u_notify_sent s; u_event_sent := u_event_sent s; u_timeout := u_timeout s; u_notify_start := u_notify_start s; u_shutdown_timeout := u_shutdown_timeout s; u_fps := u_fps s; u_magic := u_magic s; u_remote_magic := u_remote_magic s; u_peer_status := u_peer_status s; u_pending_output := u_pending_output s; u_last_acked := u_last_acked s; u_max_prediction := u_max_prediction s; u_recv_inputs := u_recv_inputs s; u_time_sync := u_time_sync s; u_local_adv := u_local_adv s; u_remote_adv := u_remote_adv s; u_stats_start := u_stats_start s; u_rtt := u_rtt s; u_last_send_time := u_last_send_time s; u_last_sync_request_time := u_last_sync_request_time s; u_last_recv_time := v; u_pending_checksums := u_pending_checksums s; u_desync := u_desync s |}.
Definition set_pending_checksums (v : list (Z * Z)) (s : ep) : ep :=
  {| u_num_players := u_num_players s; u_handles := u_handles s; u_send_queue := u_send_queue s; u_event_queue := u_event_queue s; u_state := u_state s; u_sync_remaining := u_sync_remaining s; u_sync_requests := u_sync_requests s; u_last_quality_report := u_last_quality_report s; u_last_input_recv := u_last_input_recv s; u_notify_sent := u_notify_sent s; u_event_sent := u_event_sent s; u_timeout := u_timeout s; u_notify_start := u_notify_start s; u_shutdown_timeout := u_shutdown_timeout s; u_fps := u_fps s; u_magic := u_magic s; u_remote_magic := u_remote_magic s; u_peer_status := u_peer_status s; u_pending_output := u_pending_output s; u_last_acked := u_last_acked s; u_max_prediction := u_max_prediction s; u_recv_inputs := u_recv_inputs s; u_time_sync := u_time_sync s; u_local_adv := u_local_adv s; u_remote_adv := u_remote_adv s; u_stats_start := u_stats_start s; u_rtt := u_rtt s; u_last_send_time := u_last_send_time s; u_last_sync_request_time := u_last_sync_request_time s; u_last_recv_time := u_last_recv_time s; u_pending_checksums := v; u_desync := u_desync s |}.

(* ---------- small helpers ---------- *)
Fixpoint zmem (x : Z) (l : list Z) : bool :=
  match l with [] => false | y :: r => (x =? y) || zmem x r end.
Fixpoint zremove (x : Z) (l : list Z) : list Z :=
  match l with [] => [] | y :: r => if x =? y then zremove x r else y :: zremove x r end.
(* HashSet::insert *)
Definition zinsert (x : Z) (l : list Z) : list Z := if zmem x l then l else x :: l.

Fixpoint insert_sorted (x : Z) (l : list Z) : list Z :=
  match l with [] => [x] | y :: r => if x <=? y then x :: l else y :: insert_sorted x r end.
(* handles.sort_unstable() *)
Definition zsort (l : list Z) : list Z := fold_right insert_sorted [] l.

(* HashMap<Frame, _> as an association list with unique keys *)
Fixpoint alookup {A : Type} (k : Z) (l : list (Z * A)) : option A :=
  match l with [] => None | (k', v) :: r => if k =? k' then Some v else alookup k r end.
Definition aremove {A : Type} (k : Z) (l : list (Z * A)) : list (Z * A) :=
  filter (fun kv => negb (fst kv =? k)) l.
Definition ainsert {A : Type} (k : Z) (v : A) (l : list (Z * A)) : list (Z * A) := (k, v) :: aremove k l.
(* retain(|&k, _| k >= lo) *)
Definition aretain_ge {A : Type} (lo : Z) (l : list (Z * A)) : list (Z * A) :=
  filter (fun kv => lo <=? fst kv) l.

Definition zeroed (n : Z) : ibytes := (NULL, repeat 0%N (Z.to_nat (INPUT_SIZE * n))).

(* bincode of a u32: 4 little-endian bytes *)
Definition le_bytes (v : Z) : list N :=
  [Z.to_N (v mod 256); Z.to_N ((v / 256) mod 256); Z.to_N ((v / 65536) mod 256); Z.to_N ((v / 16777216) mod 256)].
(* bincode::deserialize::<u32>: the first 4 bytes, trailing bytes allowed, fewer is an error *)
Definition le_value (bs : list N) : option Z :=
  match bs with
  | b0 :: b1 :: b2 :: b3 :: _ =>
      Some (Z.of_N b0 + 256 * Z.of_N b1 + 65536 * Z.of_N b2 + 16777216 * Z.of_N b3)
  | _ => None
  end.

(* ---------- InputBytes ---------- *)
(* from_inputs: [inputs] is the HashMap handle -> (frame, value) (keys unique) *)
Fixpoint from_inputs_go (hs : list Z) (inputs : list (Z * (Z * Z))) (frame : Z) (acc : list N) : res ibytes :=
  match hs with
  | [] => Ok (frame, acc)
  | h :: r =>
    match alookup h inputs with
    | None => from_inputs_go r inputs frame acc
    | Some (f, v) =>
      if (frame =? NULL) || (f =? NULL) || (frame =? f)
      then from_inputs_go r inputs (if f =? NULL then frame else f) (acc ++ le_bytes v)
      else Panic
    end
  end.
Definition from_inputs (num_players : Z) (inputs : list (Z * (Z * Z))) : res ibytes :=
  from_inputs_go (map Z.of_nat (seq 0 (Z.to_nat num_players))) inputs NULL [].

(* to_player_inputs: None = the Err branch *)
Fixpoint player_values (n : nat) (size : nat) (bs : list N) : option (list Z) :=
  match n with
  | O => Some []
  | S k => match le_value (firstn size bs) with
           | None => None
           | Some v => match player_values k size (skipn size bs) with
                       | None => None
                       | Some t => Some (v :: t)
                       end
           end
  end.
Definition to_player_inputs (num_players : nat) (bs : list N) : option (list Z) :=
  match num_players with
  | O => None
  | S _ =>
    if (Z.of_nat (length bs) mod Z.of_nat num_players =? 0)
    then player_values num_players (Z.to_nat (Z.of_nat (length bs) / Z.of_nat num_players)) bs
    else None
  end.

(* ---------- construction ---------- *)
Definition ep_new (now magic : Z) (handles : list Z) (num_players local_players max_prediction
                   disconnect_timeout disconnect_notify_start fps : Z) (desync : option Z) : ep :=
  let hs := zsort handles in
  {| u_num_players := num_players; u_handles := hs; u_send_queue := []; u_event_queue := [];
     u_state := PInitializing; u_sync_remaining := NUM_SYNC_PACKETS; u_sync_requests := [];
     u_last_quality_report := now; u_last_input_recv := now;
     u_notify_sent := false; u_event_sent := false;
     u_timeout := disconnect_timeout; u_notify_start := disconnect_notify_start;
     u_shutdown_timeout := now; u_fps := fps; u_magic := magic; u_remote_magic := 0;
     u_peer_status := repeat (false, NULL) (Z.to_nat num_players);
     u_pending_output := []; u_last_acked := zeroed local_players; u_max_prediction := max_prediction;
     u_recv_inputs := [zeroed (Z.of_nat (length hs))];
     u_time_sync := ts_new; u_local_adv := 0; u_remote_adv := 0;
     u_stats_start := 0; u_rtt := 0; u_last_send_time := now; u_last_sync_request_time := now;
     u_last_recv_time := now; u_pending_checksums := []; u_desync := desync |}.

(* ---------- accessors ---------- *)
(* last_recv_frame: the largest key of recv_inputs *)
Definition last_recv_frame (s : ep) : Z :=
  match u_recv_inputs s with
  | [] => NULL
  | (k, _) :: r => fold_left Z.max (map fst r) k
  end.

Definition is_synchronized (s : ep) : bool :=
  match u_state s with PRunning | PDisconnected | PShutdown => true | _ => false end.
Definition is_running (s : ep) : bool := pstate_eqb (u_state s) PRunning.

Definition push_event (e : event) (s : ep) : ep := set_event_queue (u_event_queue s ++ [e]) s.

(* ---------- sending ---------- *)
Definition queue_message (now : Z) (b : body) (s : ep) : ep :=
  set_send_queue (u_send_queue s ++ [mkMsg (u_magic s) b]) (set_last_send_time now s).

Definition send_sync_request (now nonce : Z) (s : ep) : ep :=
  queue_message now (SyncRequest nonce)
    (set_sync_requests (zinsert nonce (u_sync_requests s)) (set_last_sync_request_time now s)).

Definition send_pending_output (now : Z) (connect_status : list status) (s : ep) : res ep :=
  match u_pending_output s with
  | [] => Ok s
  | (f, _) :: _ =>
    let la := u_last_acked s in
    if (fst la =? NULL) || (fst la + 1 =? f) then
      Ok (queue_message now
            (Input connect_status (pstate_eqb (u_state s) PDisconnected) f (last_recv_frame s)
                   (Codec.encode (snd la) (map snd (u_pending_output s)))) s)
    else Panic
  end.

Definition send_input_ack (now : Z) (s : ep) : ep := queue_message now (InputAck (last_recv_frame s)) s.
Definition send_keep_alive (now : Z) (s : ep) : ep := queue_message now KeepAlive s.

Definition send_quality_report (now : Z) (s : ep) : res ep :=
  let s1 := set_last_quality_report now s in
  match ts_report_frame_advantage (u_local_adv s1) with
  | Ok adv => Ok (queue_message now (QualityReport adv now) s1)
  | Err => Err
  | Panic => Panic
  end.

Definition send_checksum_report (now frame checksum : Z) (s : ep) : ep :=
  queue_message now (ChecksumReport checksum frame) s.

(* send_all_messages: what reaches the socket, and the endpoint afterwards *)
Definition drain (s : ep) : list message * ep :=
  (if pstate_eqb (u_state s) PShutdown then [] else u_send_queue s, set_send_queue [] s).

(* ---------- plain operations ---------- *)
Definition synchronize (now nonce : Z) (s : ep) : res ep :=
  if pstate_eqb (u_state s) PInitializing then
    Ok (send_sync_request now nonce
          (set_stats_start now (set_sync_remaining NUM_SYNC_PACKETS (set_state PSynchronizing s))))
  else Panic.

Definition disconnect (now : Z) (s : ep) : ep :=
  if pstate_eqb (u_state s) PShutdown then s
  else set_shutdown_timeout (now + UDP_SHUTDOWN_TIMER) (set_state PDisconnected s).

Definition update_local_frame_advantage (dbg : bool) (local_frame : Z) (s : ep) : res ep :=
  match ts_update_local_frame_advantage dbg (u_rtt s) (u_fps s) (last_recv_frame s) local_frame (u_local_adv s) with
  | Ok a => Ok (set_local_adv a s)
  | Err => Err
  | Panic => Panic
  end.

Inductive stats_result : Set :=
| StatsNotSynchronized
| StatsNotEnoughData
| Stats (ping send_queue_len local_frames_behind remote_frames_behind : Z).

(* `now - stats_start_time` is a u128 subtraction *)
Definition network_stats (dbg : bool) (now : Z) (s : ep) : res stats_result :=
  match u_state s with
  | PSynchronizing => Ok StatsNotEnoughData      (* e8d2ee9: no data before the connection is established *)
  | PRunning =>
    if (Z.max 0 (now - u_stats_start s)) / 1000 =? 0 then Ok StatsNotEnoughData   (* saturating_sub *)
    else Ok (Stats (u_rtt s) (Z.of_nat (length (u_pending_output s))) (u_local_adv s) (u_remote_adv s))
  | _ => Ok StatsNotSynchronized
  end.

(* ---------- code versions ----------
   The model follows the current code; the two repairs made to the endpoint during this verification
   can be switched off to obtain the earlier behaviour (used only by the refutation witnesses):
   [fix_send_guard]  7ec8d35: send_input raises Disconnected once, under disconnect_event_sent;
   [fix_quiet_dead]  25d3021: no NetworkResumed / NetworkInterrupted once disconnect_event_sent is set. *)
Record fixes : Set := mkFixes { fix_send_guard : bool; fix_quiet_dead : bool }.
Definition current_code : fixes := mkFixes true true.
Definition before_25d3021 : fixes := mkFixes true false.
Definition before_7ec8d35 : fixes := mkFixes false false.

(* ---------- receiving ---------- *)
Fixpoint pop_pending (ack : Z) (po : list ibytes) (la : ibytes) : list ibytes * ibytes :=
  match po with
  | [] => ([], la)
  | x :: r => if fst x <=? ack then pop_pending ack r x else (po, la)
  end.
Definition pop_pending_output (ack : Z) (s : ep) : ep :=
  let (po, la) := pop_pending ack (u_pending_output s) (u_last_acked s) in
  set_last_acked la (set_pending_output po s).

(* u32 `-= 1` and `NUM_SYNC_PACKETS - remaining` *)
Definition on_sync_reply (dbg : bool) (now nonce magic n : Z) (s : ep) : res ep :=
  if negb (pstate_eqb (u_state s) PSynchronizing) then Ok s
  else if negb (zmem n (u_sync_requests s)) then Ok s
  else
    let s1 := set_sync_requests (zremove n (u_sync_requests s)) s in
    if (u_sync_remaining s1 <=? 0) && dbg then Panic else
    let rem := (u_sync_remaining s1 - 1) mod 4294967296 in
    let s2 := set_sync_remaining rem s1 in
    if 0 <? rem then
      if (NUM_SYNC_PACKETS <? rem) && dbg then Panic else
      Ok (send_sync_request now nonce
            (push_event (EvSynchronizing NUM_SYNC_PACKETS ((NUM_SYNC_PACKETS - rem) mod 4294967296)) s2))
    else
      Ok (set_remote_magic magic (push_event EvSynchronized (set_stats_start now (set_state PRunning s2)))).

(* the loop `for i in 0..self.peer_connect_status.len()` indexes the packet's vector *)
Fixpoint merge_status (mine theirs : list status) : res (list status) :=
  match mine with
  | [] => Ok []
  | (d, f) :: ms =>
    match theirs with
    | [] => Panic
    | (d', f') :: ts =>
      match merge_status ms ts with
      | Ok r => Ok ((d' || d, Z.max f f') :: r)
      | Err => Err
      | Panic => Panic
      end
    end
  end.

Fixpoint input_events (frame : Z) (values : list Z) (handles : list Z) : res (list event) :=
  match values with
  | [] => Ok []
  | v :: vs =>
    match handles with
    | [] => Panic
    | h :: hs => match input_events frame vs hs with
                 | Ok r => Ok (EvInput frame v h :: r)
                 | Err => Err
                 | Panic => Panic
                 end
    end
  end.

(* the skip/accept loop; the boolean is false when the loop left on_input through `return` *)
Fixpoint accept_inputs (dbg : bool) (start : Z) (i : Z) (inputs : list (list N)) (s : ep) : res (bool * ep) :=
  match inputs with
  | [] => Ok (true, s)
  | inp :: rest =>
    match ts_i32_arith dbg (start + i) with
    | Ok inp_frame =>
      if inp_frame <=? last_recv_frame s then accept_inputs dbg start (i + 1) rest s
      else
        match to_player_inputs (length (u_handles s)) inp with
        | None => Ok (false, s)
        | Some values =>
          match input_events inp_frame values (u_handles s) with
          | Ok evs =>
            accept_inputs dbg start (i + 1) rest
              (set_event_queue (u_event_queue s ++ evs)
                 (set_recv_inputs (ainsert inp_frame inp (u_recv_inputs s)) s))
          | Err => Err
          | Panic => Panic
          end
        end
    | Err => Err
    | Panic => Panic
    end
  end.

Definition on_input (dbg : bool) (now : Z) (st : list status) (disc_req : bool) (start ack : Z)
                    (bytes : list N) (s : ep) : res ep :=
  if negb disc_req && negb (Z.of_nat (length st) =? u_num_players s) then Ok s
  else if start <? 0 then Ok s
  else
    let s1 := pop_pending_output ack s in
    let s2r :=
      if disc_req then
        Ok (if negb (pstate_eqb (u_state s1) PDisconnected) && negb (u_event_sent s1)
            then set_event_sent true (push_event EvDisconnected s1) else s1)
      else
        match merge_status (u_peer_status s1) st with
        | Ok ps => Ok (set_peer_status ps s1)
        | Err => Err
        | Panic => Panic
        end in
    match s2r with
    | Ok s2 =>
      let decode_frame := if last_recv_frame s2 =? NULL then NULL else start - 1 in
      match alookup decode_frame (u_recv_inputs s2) with
      | Some ref =>
        let s3 := set_last_input_recv now s2 in
        match Codec.decode dbg ref bytes with
        | Ok inputs =>
          match accept_inputs dbg start 0 inputs s3 with
          | Ok (true, s4) =>
            let s5 := send_input_ack now s4 in
            let lrf := last_recv_frame s5 in
            match ts_i32_arith dbg (2 * ts_wrap_i32 (u_max_prediction s5)) with
            | Ok w =>
              match ts_i32_arith dbg (lrf - w) with
              | Ok lo => Ok (set_recv_inputs (aretain_ge (Z.min lo (start - 1)) (u_recv_inputs s5)) s5)
              | Err => Err
              | Panic => Panic
              end
            | Err => Err
            | Panic => Panic
            end
          | Ok (false, s4) => Ok s4
          | Err => Err
          | Panic => Panic
          end
        | Err => Ok s3
        | Panic => Panic
        end
      | None =>
        if start <=? last_recv_frame s2 then Ok (send_input_ack now s2) else Ok s2
      end
    | Err => Err
    | Panic => Panic
    end.

(* `interval as i32`, `(MAX_CHECKSUM_HISTORY_SIZE as i32 - 1) * ..`, `body.frame - ..` are i32 operations;
   with desync detection off the debug_assert!(false) fires in the dev profile *)
Definition on_checksum_report (dbg : bool) (checksum frame : Z) (s : ep) : res ep :=
  let ir := match u_desync s with
            | Some i => Ok i
            | None => if dbg then Panic else Ok 1
            end in
  match ir with
  | Ok interval =>
    let ins pc := Ok (set_pending_checksums (ainsert frame checksum pc) s) in
    if MAX_CHECKSUM_HISTORY_SIZE <=? Z.of_nat (length (u_pending_checksums s)) then
      match ts_i32_arith dbg ((MAX_CHECKSUM_HISTORY_SIZE - 1) * ts_wrap_i32 interval) with
      | Ok span =>
        match ts_i32_arith dbg (frame - span) with
        | Ok lo => ins (aretain_ge lo (u_pending_checksums s))
        | Err => Err
        | Panic => Panic
        end
      | Err => Err
      | Panic => Panic
      end
    else ins (u_pending_checksums s)
  | Err => Err
  | Panic => Panic
  end.

Definition is_handshake (b : body) : bool :=
  match b with SyncRequest _ | SyncReply _ => true | _ => false end.

(* the three filters at the head of handle_message *)
Definition passes_filters (s : ep) (m : message) : bool :=
  negb (pstate_eqb (u_state s) PShutdown)
  && negb (negb (u_remote_magic s =? 0) && negb (m_magic m =? u_remote_magic s))
  && negb ((pstate_eqb (u_state s) PInitializing || pstate_eqb (u_state s) PSynchronizing)
           && negb (is_handshake (m_body m))).

Definition handle_message_gen (fx : fixes) (dbg : bool) (now nonce : Z) (m : message) (s : ep) : res ep :=
  if negb (passes_filters s m) then Ok s
  else
    let s1 := set_last_recv_time now s in
    let s2 := if u_notify_sent s1 && pstate_eqb (u_state s1) PRunning
                 && (if fix_quiet_dead fx then negb (u_event_sent s1) else true)
              then push_event EvNetworkResumed (set_notify_sent false s1) else s1 in
    match m_body m with
    | SyncRequest n => Ok (queue_message now (SyncReply n) s2)
    | SyncReply n => on_sync_reply dbg now nonce (m_magic m) n s2
    | Input st dr sf af bytes => on_input dbg now st dr sf af bytes s2
    | InputAck f => Ok (pop_pending_output f s2)
    | QualityReport adv ping => Ok (queue_message now (QualityReply ping) (set_remote_adv adv s2))
    | QualityReply pong => Ok (set_rtt (ts_round_trip_time now pong) s2)
    | ChecksumReport c f => on_checksum_report dbg c f s2
    | KeepAlive => Ok s2
    end.
Definition handle_message := handle_message_gen current_code.

(* ---------- poll ---------- *)
Definition poll_running_gen (fx : fixes) (now : Z) (connect_status : list status) (s : ep) : res ep :=
  let r1 := if u_last_input_recv s + RUNNING_RETRY_INTERVAL <? now then
              match send_pending_output now connect_status s with
              | Ok t => Ok (set_last_input_recv now t)
              | Err => Err
              | Panic => Panic
              end
            else Ok s in
  match r1 with
  | Ok s1 =>
    let r2 := if u_last_quality_report s1 + QUALITY_REPORT_INTERVAL <? now
              then send_quality_report now s1 else Ok s1 in
    match r2 with
    | Ok s2 =>
      let s3 := if u_last_send_time s2 + KEEP_ALIVE_INTERVAL <? now then send_keep_alive now s2 else s2 in
      let s4 := if negb (u_notify_sent s3) && (if fix_quiet_dead fx then negb (u_event_sent s3) else true)
                   && (u_last_recv_time s3 + u_notify_start s3 <? now)
                then set_notify_sent true
                       (push_event (EvNetworkInterrupted (Z.max 0 (u_timeout s3 - u_notify_start s3))) s3)
                else s3 in
      let s5 := if negb (u_event_sent s4) && (u_last_recv_time s4 + u_timeout s4 <? now)
                then set_event_sent true (push_event EvDisconnected s4)
                else s4 in
      Ok s5
    | Err => Err
    | Panic => Panic
    end
  | Err => Err
  | Panic => Panic
  end.

Definition poll_running := poll_running_gen current_code.

Definition poll_gen (fx : fixes) (now nonce : Z) (connect_status : list status) (s : ep) : res (list event * ep) :=
  let r := match u_state s with
           | PSynchronizing =>
             Ok (if u_last_sync_request_time s + SYNC_RETRY_INTERVAL <? now
                 then send_sync_request now nonce s else s)
           | PRunning => poll_running_gen fx now connect_status s
           | PDisconnected =>
             Ok (if u_shutdown_timeout s <? now then set_state PShutdown s else s)
           | PInitializing | PShutdown => Ok s
           end in
  match r with
  | Ok s1 => Ok (u_event_queue s1, set_event_queue [] s1)
  | Err => Err
  | Panic => Panic
  end.
Definition poll := poll_gen current_code.

(* ---------- send_input ---------- *)
(* with [fix_send_guard]: the code since 7ec8d35 (Disconnected is raised once, under disconnect_event_sent);
   without: the code before, which pushed Event::Disconnected on every call while more than
   PENDING_OUTPUT_SIZE inputs were pending (kept for the refutation witness) *)
Definition send_input_gen (fx : fixes) (now : Z) (inputs : list (Z * (Z * Z))) (connect_status : list status)
                          (s : ep) : res ep :=
  if negb (pstate_eqb (u_state s) PRunning) then Ok s
  else
    match from_inputs (u_num_players s) inputs with
    | Ok data =>
      match ts_advance_frame (u_time_sync s) (fst data) (u_local_adv s) (u_remote_adv s) with
      | Ok ts =>
        let s1 := set_pending_output (u_pending_output s ++ [data]) (set_time_sync ts s) in
        let s2 := if (PENDING_OUTPUT_SIZE <? N.of_nat (length (u_pending_output s1)))%N
                  then (if fix_send_guard fx
                        then (if u_event_sent s1 then s1 else set_event_sent true (push_event EvDisconnected s1))
                        else push_event EvDisconnected s1)
                  else s1 in
        send_pending_output now connect_status s2
      | Err => Err
      | Panic => Panic
      end
    | Err => Err
    | Panic => Panic
    end.
Definition send_input := send_input_gen current_code.

(* ---------- operations as data (scripts, traces) ---------- *)
Inductive op : Set :=
| OSynchronize (now nonce : Z)
| OMessage (now nonce : Z) (m : message)
| OPoll (now nonce : Z) (connect_status : list status)
| OSendInput (now : Z) (inputs : list (Z * (Z * Z))) (connect_status : list status)
| ODisconnect (now : Z)
| OChecksum (now frame checksum : Z)
| OAdvantage (local_frame : Z)
| ODrain.

(* one operation: the endpoint afterwards and the events handed to the caller (poll only) *)
Definition step_gen (fx : fixes) (dbg : bool) (o : op) (s : ep) : res (ep * list event) :=
  match o with
  | OSynchronize now nonce =>
    match synchronize now nonce s with Ok t => Ok (t, []) | Err => Err | Panic => Panic end
  | OMessage now nonce m =>
    match handle_message_gen fx dbg now nonce m s with Ok t => Ok (t, []) | Err => Err | Panic => Panic end
  | OPoll now nonce cs =>
    match poll_gen fx now nonce cs s with Ok (evs, t) => Ok (t, evs) | Err => Err | Panic => Panic end
  | OSendInput now inputs cs =>
    match send_input_gen fx now inputs cs s with Ok t => Ok (t, []) | Err => Err | Panic => Panic end
  | ODisconnect now => Ok (disconnect now s, [])
  | OChecksum now frame checksum => Ok (send_checksum_report now frame checksum s, [])
  | OAdvantage local_frame =>
    match update_local_frame_advantage dbg local_frame s with Ok t => Ok (t, []) | Err => Err | Panic => Panic end
  | ODrain => Ok (snd (drain s), [])
  end.
Definition step := step_gen current_code.
