(* Extraction of the executable models (ExtrOcamlBasic only: bool/option/unit/list/prod/sumbool
   become the OCaml types; N, Z, positive, nat stay Coq datatypes). *)
From Coq Require Import Extraction ExtrOcamlBasic.
From GGRS Require Import Base Varint Rle Codec.
Extraction Language OCaml.
Extraction "model.ml" Codec.encode Codec.decode Codec.decode_unvalidated.
