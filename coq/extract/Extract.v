(* Extraction of the executable models (ExtrOcamlBasic only: bool/option/unit/list/prod/sumbool
   become the OCaml types; N, Z, positive, nat stay Coq datatypes). *)
From Coq Require Import Extraction ExtrOcamlBasic.
From GGRS Require Import Base Varint Rle Codec Builder.
(* Z is used by every level driver *)
From Coq Require Import ZArith.
Extraction Language OCaml.
Extraction "model.ml" Z.add N.add Nat.add
  Codec.encode Codec.decode Codec.decode_unvalidated
  Builder.run_calls.
