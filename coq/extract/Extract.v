(* Extraction of the executable models (ExtrOcamlBasic only: bool/option/unit/list/prod/sumbool
   become the OCaml types; N, Z, positive, nat stay Coq datatypes). *)
From Coq Require Import Extraction ExtrOcamlBasic.
From GGRS Require Import Base Varint Rle Codec Builder Queue Sync P2P TimeSync Endpoint SyncTest Spectator Desync.
(* Z is used by every level driver *)
From Coq Require Import ZArith.
Extraction Language OCaml.
Extraction "model.ml" Z.add N.add Nat.add
  Spectator.sp_new Spectator.sp_handle_input Spectator.sp_handle_synchronized Spectator.sp_advance Spectator.sp_frames_behind
  Codec.encode Codec.decode Codec.decode_unvalidated
  Builder.run_calls
  Queue.q_new Queue.add_input Queue.input Queue.confirmed_input Queue.discard_confirmed_frames
  Queue.reset_prediction Queue.set_frame_delay Queue.set_frame_delay_old
  TimeSync.ts_new TimeSync.ts_advance_frame TimeSync.ts_average_frame_advantage
  TimeSync.ts_round_trip_time TimeSync.ts_update_local_frame_advantage TimeSync.ts_report_frame_advantage
  TimeSync.gate_init TimeSync.gate_step
  Endpoint.ep_new Endpoint.step Endpoint.drain Endpoint.network_stats Endpoint.last_recv_frame Endpoint.is_running Endpoint.is_synchronized Z.mul Z.div Z.modulo
  P2P.p2p_new P2P.gossip P2P.advance P2P.api_add_local_input P2P.api_disconnect_player P2P.api_set_input_delay
  SyncTest.st_new SyncTest.st_add_local_input SyncTest.st_advance_frame SyncTest.st_saved
  P2P.ev_input P2P.ev_disconnected P2P.with_running P2P.confirmed_frame
  Desync.ds_new Desync.ds_advance Desync.report.
