(* C13, queue level: what one input queue of a SyncTestSession goes through during one call of
   advance_frame (reset + re-reads of the rollback, the submission of the frame's input, the read of
   the frame, the discard), on top of the ring invariant RInv of QueueProofs.v.
   Two regimes: the normal one (RInv with the true history) and the degenerate one of
   check_distance = 0 with input_delay = 0, where discard_confirmed_frames takes its
   "delete all but most recent" branch on every call (tail := head, length := 1). *)
From GGRS Require Import Base Consts Queue QueueProofs Sync SyncTest.
From Coq Require Import ZifyBool ZifyNat ZifyN.
Ltac Zify.zify_post_hook ::= Z.div_mod_to_equations.
Open Scope Z_scope.

(* ---------- list plumbing ---------- *)
Lemma st_zrange_length : forall n a, length (st_zrange a n) = n.
Proof. induction n as [|n IH]; intro a; cbn [st_zrange length]; auto. Qed.

Lemma st_zrange_nth : forall n a i d, (i < n)%nat -> nth i (st_zrange a n) d = a + Z.of_nat i.
Proof.
  induction n as [|n IH]; intros a i d H; [lia|].
  destruct i as [|i]; cbn [st_zrange nth]; [lia|]. rewrite IH by lia. lia.
Qed.

Lemma st_zrange_S : forall n a, st_zrange a (S n) = st_zrange a n ++ [a + Z.of_nat n].
Proof.
  induction n as [|n IH]; intro a.
  - cbn [st_zrange app Z.of_nat]. rewrite Z.add_0_r. reflexivity.
  - change (st_zrange a (S (S n))) with (a :: st_zrange (a + 1) (S n)).
    rewrite IH. cbn [st_zrange app]. f_equal. f_equal. f_equal. lia.
Qed.

Lemma st_zrange_in : forall n a x, In x (st_zrange a n) <-> a <= x < a + Z.of_nat n.
Proof.
  induction n as [|n IH]; intros a x; cbn [st_zrange In]; [lia|].
  rewrite IH. lia.
Qed.

Lemma st_zrange_app : forall n m a, st_zrange a (n + m) = st_zrange a n ++ st_zrange (a + Z.of_nat n) m.
Proof.
  induction n as [|n IH]; intros m a.
  - cbn [plus st_zrange app]. f_equal. lia.
  - cbn [plus st_zrange app]. f_equal. rewrite IH. f_equal. f_equal. lia.
Qed.

Lemma nth_updz_same {A} : forall (l : list A) i x d, (i < length l)%nat -> nth i (updz l i x) d = x.
Proof. induction l as [|y r IH]; intros [|i] x d H; cbn in *; try lia; auto. apply IH. lia. Qed.

Lemma nth_updz_other {A} : forall (l : list A) i j x d, i <> j -> nth j (updz l i x) d = nth j l d.
Proof. induction l as [|y r IH]; intros [|i] [|j] x d H; cbn; auto; congruence. Qed.

Lemma updz_length {A} : forall (l : list A) i x, length (updz l i x) = length l.
Proof. induction l as [|y r IH]; intros [|i] x; cbn; auto. Qed.

Lemma updz_same {A} : forall (l : list A) i d, updz l i (nth i l d) = l.
Proof. induction l as [|y r IH]; intros [|i] d; cbn; auto. f_equal. apply IH. Qed.

Lemma map_updz {A B} (f : A -> B) : forall (l : list A) i x, map f (updz l i x) = updz (map f l) i (f x).
Proof. induction l as [|y r IH]; intros [|i] x; cbn; auto. f_equal. apply IH. Qed.

Lemma nth_map_lt {A B} (f : A -> B) : forall (l : list A) i d d', (i < length l)%nat -> nth i (map f l) d' = f (nth i l d).
Proof. induction l as [|y r IH]; intros [|i] d d' H; cbn in *; try lia; auto. apply IH. lia. Qed.

Lemma list_eq_nth {A} : forall (l m : list A) d, length l = length m ->
  (forall i, (i < length l)%nat -> nth i l d = nth i m d) -> l = m.
Proof.
  induction l as [|x r IH]; intros [|y t] d HL H; cbn in HL; try lia; auto.
  f_equal.
  - apply (H 0%nat). cbn. lia.
  - apply (IH t d); [lia|]. intros i Hi. apply (H (S i)). cbn. lia.
Qed.

(* two frames inside one window of the cell ring occupy different cells *)
Lemma st_mod_inj : forall m f g, 0 < m -> Z.abs (f - g) < m -> f mod m = g mod m -> f = g.
Proof.
  intros m f g Hm Hfg H.
  pose proof (Z.div_mod f m ltac:(lia)) as Df. pose proof (Z.div_mod g m ltac:(lia)) as Dg.
  assert (E : f - g = m * (f / m - g / m)) by lia.
  assert (f / m - g / m = 0) by nia. lia.
Qed.

(* ---------- one queue ---------- *)
Section OneQueue.
Variable predict : Z -> Z.
Variables k d : Z.                (* input delay, check distance *)
Variable u : Z -> Z.              (* the value the user submits at user frame j *)
Hypothesis Hk : 0 <= k.
Hypothesis Hd : 0 <= d.
Hypothesis Hcap : k + d + 2 <= QLEN.

(* the input of game frame f *)
Definition st_dl (f : Z) : Z := if f <? k then 0 else u (f - k).
(* the queue's history of n frames *)
Definition st_qh (n : nat) : list Z := map st_dl (st_zrange 0 n).

Lemma hlen_qh : forall n, hlen (st_qh n) = Z.of_nat n.
Proof. intro n. unfold hlen, st_qh. rewrite map_length, st_zrange_length. reflexivity. Qed.

Lemma hval_qh : forall n f, 0 <= f < Z.of_nat n -> hval (st_qh n) f = st_dl f.
Proof.
  intros n f Hf. unfold hval, st_qh.
  rewrite (nth_map_lt st_dl _ _ 0 0) by (rewrite st_zrange_length; lia).
  rewrite st_zrange_nth by lia. f_equal. lia.
Qed.

Lemma qh_S : forall n, st_qh (S n) = st_qh n ++ [st_dl (Z.of_nat n)].
Proof. intro n. unfold st_qh. rewrite st_zrange_S, map_app. reflexivity. Qed.

Lemma qh_zeros : forall n, Z.of_nat n <= k -> st_qh n = repeat 0 n.
Proof.
  induction n as [|n IH]; intro H; [reflexivity|].
  rewrite qh_S, IH by lia. unfold st_dl. assert ((Z.of_nat n <? k) = true) as -> by lia.
  clear. induction n; cbn in *; [reflexivity|]. f_equal. exact IHn.
Qed.

(* the tail after the discards of the calls before call c *)
Definition st_lo (c : Z) : Z := Z.max 0 (c - 1 - d).
(* frames in the ring at the start of call c *)
Definition st_hn (c : Z) : nat := Z.to_nat (if c =? 0 then 0 else c + k).

Record QN (c lo : Z) (q : queue) : Prop := {
  qn_ring : RInv q (st_qh (st_hn c)) lo;
  qn_delay : q_delay q = k;
  qn_user : q_last_user q = c - 1;
  qn_pred : pi_frame (q_pred q) = NULL;
  qn_fi : q_first_incorrect q = NULL }.

Lemma QN_new : QN 0 0 (with_delay q_new k).
Proof.
  constructor; cbn; try reflexivity.
  apply RInv_with_delay. apply RInv_new.
Qed.

Lemma QN_req : forall c lo q f, QN c lo q -> QN c lo (set_last_requested q f).
Proof.
  intros c lo q f [I D U P F]. constructor; cbn; auto.
  eapply RInv_ext; [exact I|reflexivity..].
Qed.

Lemma QN_reset : forall c lo q, QN c lo q -> QN c lo (reset_prediction q).
Proof.
  intros c lo q [I D U P F]. constructor; cbn; auto.
  apply reset_ok. exact I.
Qed.

Lemma QN_input : forall c lo q f, QN c lo q -> lo <= f < Z.of_nat (st_hn c) ->
  input predict q f = Ok (set_last_requested q f, (st_dl f, Confirmed)).
Proof.
  intros c lo q f [I D U P F] Hf.
  rewrite (input_confirmed predict q _ lo f I F P) by (rewrite hlen_qh; lia).
  destruct (ri_low _ _ _ I) as (L0 & _).
  rewrite hval_qh by lia. reflexivity.
Qed.

Lemma QN_add : forall c lo q, 0 <= c -> QN c lo q -> c + k + 1 - lo <= QLEN ->
  exists q' r, add_input q c (u c) = Ok (q', r) /\ QN (c + 1) lo q'.
Proof.
  intros c lo q Hc [I D U P F] Hcp.
  assert (Hs : q_last_user q = NULL \/ c = q_last_user q + 1) by (right; lia).
  destruct (add_input_ok q _ lo c (u c) I P ltac:(lia) Hs Hc) as [_ Hacc].
  rewrite D, hlen_qh in Hacc.
  assert (Hle : Z.of_nat (st_hn c) <= c + k) by (unfold st_hn; destruct (Z.eqb_spec c 0); lia).
  destruct (Hacc Hle ltac:(lia)) as (q' & E & I' & D' & U' & R' & F' & P').
  exists q', (c + k). split; [exact E|].
  constructor; try congruence; [|lia].
  assert (Hh : st_qh (st_hn c) ++ repeat (hlast (st_qh (st_hn c))) (Z.to_nat (c + k - Z.of_nat (st_hn c))) ++ [u c]
               = st_qh (st_hn (c + 1))).
  { unfold st_hn. assert ((c + 1 =? 0) = false) as -> by lia.
    replace (Z.to_nat (c + 1 + k)) with (S (Z.to_nat (c + k))) by lia.
    rewrite qh_S. rewrite (Z2Nat.id (c + k)) by lia. unfold st_dl.
    assert ((c + k <? k) = false) as -> by lia. replace (c + k - k) with c by lia.
    destruct (Z.eqb_spec c 0) as [->|Hn].
    - cbn [Z.to_nat st_qh st_zrange map hlast last app Z.of_nat]. rewrite Z.sub_0_r, Z.add_0_l.
      rewrite (qh_zeros (Z.to_nat k)) by lia. reflexivity.
    - rewrite Z2Nat.id by lia. rewrite Z.sub_diag. cbn [Z.to_nat repeat app]. reflexivity. }
  rewrite <- Hh. exact I'.
Qed.

Lemma QN_fi : forall c lo q, QN c lo q -> q_first_incorrect q = NULL.
Proof. intros c lo q H. apply (qn_fi _ _ _ H). Qed.

(* the discard at the end of call c in the normal regime (0 < d + k) *)
Lemma QN_discard : forall c lo q, 0 <= c -> QN (c + 1) lo q -> q_last_requested q = c -> 0 < d + k ->
  QN (c + 1) (Z.max lo (c - d)) (discard_confirmed_frames q (c - d)).
Proof.
  intros c lo q Hc [I D U P F] HR Hdk.
  assert (Hn : Z.of_nat (st_hn (c + 1)) = c + 1 + k) by (unfold st_hn; assert ((c + 1 =? 0) = false) as -> by lia; lia).
  destruct (discard_ok q _ lo (c - d) I ltac:(rewrite hlen_qh; lia)) as (I' & D' & U' & R' & F' & P').
  constructor; try congruence.
  replace (Z.max lo (c - d)) with (discard_low q lo (c - d)); [exact I'|].
  unfold discard_low. rewrite HR. assert ((c =? NULL) = false) as -> by (unfold NULL; lia). lia.
Qed.

(* ----- the degenerate regime: k = 0 and d = 0, calls c >= 1 ----- *)
Record QD (c : Z) (q : queue) : Prop := {
  qd_len : Z.of_nat (length (q_inputs q)) = QLEN;
  qd_head : q_head q = c mod QLEN;
  qd_tail : q_tail q = c mod QLEN;
  qd_length : q_length q = 1;
  qd_first : q_first q = false;
  qd_last : q_last_added q = c - 1;
  qd_user : q_last_user q = c - 1;
  qd_delay : q_delay q = 0;
  qd_pred : pi_frame (q_pred q) = NULL;
  qd_fi : q_first_incorrect q = NULL;
  qd_prev : pi_frame (slot (q_inputs q) ((c - 1) mod QLEN)) = c - 1 }.

(* after the submission of frame c *)
Record QDA (c : Z) (q : queue) : Prop := {
  qa_len : Z.of_nat (length (q_inputs q)) = QLEN;
  qa_head : q_head q = (c + 1) mod QLEN;
  qa_tail : q_tail q = c mod QLEN;
  qa_length : q_length q = 2;
  qa_first : q_first q = false;
  qa_last : q_last_added q = c;
  qa_user : q_last_user q = c;
  qa_delay : q_delay q = 0;
  qa_pred : pi_frame (q_pred q) = NULL;
  qa_fi : q_first_incorrect q = NULL;
  qa_slot : slot (q_inputs q) (c mod QLEN) = mkpi c (u c) }.

Lemma QD_req : forall c q f, QD c q -> QD c (set_last_requested q f).
Proof. intros c q f H. destruct H. constructor; cbn; auto. Qed.
Lemma QD_reset : forall c q, QD c q -> QD c (reset_prediction q).
Proof. intros c q H. destruct H. constructor; cbn; auto. Qed.

Lemma QD_add : forall c q v, 1 <= c -> QD c q -> 2 <= QLEN ->
  exists q' r, add_input q c v = Ok (q', r) /\
    (v = u c -> QDA c q').
Proof.
  intros c q v Hc [L H T Ln Fi La Us De Pr Fic Pv] HQ. pose proof QLEN_pos as HQP.
  assert (Hpp : prev_pos (q_head q) = (c - 1) mod QLEN) by (rewrite H; apply prev_pos_mod).
  unfold add_input. rewrite Us. zbool.
  unfold advance_queue_head. cbn [q_first q_inputs q_head q_delay].
  rewrite Fi, Hpp, Pv, De. zbool.
  replace (c + 0 - (c - 1 + 1)) with 0 by lia. cbn [Z.to_nat fill_to]. zbool. cbn [res_bind].
  cbn [q_inputs q_head]. rewrite Hpp, Pv. zbool. cbn [res_bind]. zbool.
  unfold add_input_by_frame. cbn [q_head q_last_added q_inputs q_length q_pred q_tail q_first q_last_user q_first_incorrect q_last_requested q_delay].
  rewrite La, Hpp, Pv, Ln, Pr. zbool.
  eexists; eexists. split; [reflexivity|].
  intros ->.
  assert (Hh : 0 <= q_head q < QLEN) by (rewrite H; apply Z.mod_pos_bound; lia).
  constructor; cbn [q_inputs q_head q_tail q_length q_first q_last_added q_last_user q_delay q_pred q_first_incorrect]; auto.
  - rewrite upd_length. exact L.
  - rewrite H. rewrite Zplus_mod_idemp_l. reflexivity.
  - rewrite Z.add_0_r. reflexivity.
  - rewrite Z.add_0_r. rewrite <- H. apply slot_upd_same. lia.
Qed.

Lemma QDA_input : forall c q, 0 <= c -> QDA c q ->
  input predict q c = Ok (set_last_requested q c, (u c, Confirmed)).
Proof.
  intros c q Hc [L H T Ln Fi La Us De Pr Fic Sl]. pose proof QLEN_pos as HQP.
  unfold input, set_last_requested. rewrite Fic, T, Sl, Pr, Ln. cbn [pi_frame pi_val]. zbool.
  replace (c - c + c mod QLEN) with (c mod QLEN) by lia. rewrite Z.mod_mod by lia. rewrite Sl.
  cbn [pi_frame pi_val]. zbool. reflexivity.
Qed.

Lemma QDA_finish : forall c q, 0 <= c -> QDA c q ->
  QD (c + 1) (discard_confirmed_frames (set_last_requested q c) c).
Proof.
  intros c q Hc [L H T Ln Fi La Us De Pr Fic Sl].
  unfold discard_confirmed_frames, set_last_requested.
  cbn [q_last_requested q_last_added q_inputs q_tail q_head q_length q_first q_last_user q_first_incorrect q_delay q_pred].
  assert ((c =? NULL) = false) as -> by (unfold NULL; lia).
  rewrite La. replace (Z.min c c) with c by lia. zbool.
  constructor; cbn [q_inputs q_head q_tail q_length q_first q_last_added q_last_user q_delay q_pred q_first_incorrect]; auto; try lia.
  replace (c + 1 - 1) with c by lia. rewrite Sl. reflexivity.
Qed.

(* entering the degenerate regime: the very first call *)
Lemma QN1_finish_deg : forall q, k = 0 -> d = 0 -> QN 1 0 q -> q_last_requested q = 0 ->
  QD 1 (discard_confirmed_frames q 0).
Proof.
  intros q Hk0 Hd0 [I D U P F] HR. pose proof QLEN_pos as HQP.
  assert (Hn : st_hn 1 = 1%nat) by (unfold st_hn; rewrite Hk0; reflexivity).
  rewrite Hn in I.
  assert (Hl : hlen (st_qh 1) = 1) by (rewrite hlen_qh; reflexivity).
  unfold discard_confirmed_frames. rewrite HR, (ri_last _ _ _ I), Hl.
  cbn [Z.eqb NULL]. replace (Z.min 0 0) with 0 by lia. zbool.
  constructor; cbn [q_inputs q_head q_tail q_length q_first q_last_added q_last_user q_delay q_pred q_first_incorrect]; auto; try lia.
  - apply (ri_len _ _ _ I).
  - rewrite (ri_head _ _ _ I), Hl. reflexivity.
  - rewrite (ri_head _ _ _ I), Hl. reflexivity.
  - rewrite (ri_first _ _ _ I), Hl. reflexivity.
  - replace (1 - 1) with 0 by lia.
    destruct (ri_low _ _ _ I) as (L0 & L1 & _).
    rewrite (ri_slots _ _ _ I 0) by lia. reflexivity.
Qed.

(* ----- both regimes behind one interface ----- *)
Definition st_deg : bool := (k =? 0) && (d =? 0).

(* at the start of call c *)
Definition QI (c : Z) (q : queue) : Prop :=
  if st_deg && (0 <? c) then QD c q else QN c (st_lo c) q.
(* after the submission of frame c *)
Definition QA (c : Z) (q : queue) : Prop :=
  if st_deg && (0 <? c) then QDA c q else QN (c + 1) (st_lo c) q.

Lemma QI_new : QI 0 (with_delay q_new k).
Proof. unfold QI. rewrite andb_false_r. replace (st_lo 0) with 0 by (unfold st_lo; lia). apply QN_new. Qed.

Lemma QI_req : forall c q f, QI c q -> QI c (set_last_requested q f).
Proof. unfold QI. intros c q f. destruct (st_deg && (0 <? c)); [apply QD_req|apply QN_req]. Qed.

Lemma QI_reset : forall c q, QI c q -> QI c (reset_prediction q).
Proof. unfold QI. intros c q. destruct (st_deg && (0 <? c)); [apply QD_reset|apply QN_reset]. Qed.

Lemma QI_fi : forall c q, QI c q -> q_first_incorrect q = NULL.
Proof. unfold QI. intros c q. destruct (st_deg && (0 <? c)); intro H; [apply (qd_fi _ _ H)|apply (qn_fi _ _ _ H)]. Qed.

Lemma QA_fi : forall c q, QA c q -> q_first_incorrect q = NULL.
Proof. unfold QA. intros c q. destruct (st_deg && (0 <? c)); intro H; [apply (qa_fi _ _ H)|apply (qn_fi _ _ _ H)]. Qed.

(* the re-reads of the rollback (only happen for 0 < d, hence in the normal regime) *)
Lemma QI_read : forall c q f, 0 < d -> QI c q -> st_lo c <= f < c ->
  input predict q f = Ok (set_last_requested q f, (st_dl f, Confirmed)).
Proof.
  intros c q f Hd0 H Hf. unfold QI, st_deg in H.
  assert ((d =? 0) = false) as E by lia. rewrite E, andb_false_r in H. cbn [andb] in H.
  apply (QN_input c (st_lo c) q f H). unfold st_hn, st_lo in *.
  destruct (Z.eqb_spec c 0); lia.
Qed.

Lemma QI_add : forall c q, 0 <= c -> QI c q ->
  exists q' r, add_input q c (u c) = Ok (q', r) /\ QA c q'.
Proof.
  intros c q Hc H. unfold QI in H. unfold QA.
  destruct (st_deg && (0 <? c)) eqn:E.
  - destruct (QD_add c q (u c) ltac:(lia) H ltac:(lia)) as (q' & r & E1 & HA).
    exists q', r. split; [exact E1|]. apply HA. reflexivity.
  - apply (QN_add c (st_lo c) q Hc H). unfold st_lo. lia.
Qed.

Lemma QA_input : forall c q, 0 <= c -> QA c q ->
  input predict q c = Ok (set_last_requested q c, (st_dl c, Confirmed)).
Proof.
  intros c q Hc H. unfold QA in H.
  destruct (st_deg && (0 <? c)) eqn:E.
  - rewrite (QDA_input c q Hc H). unfold st_dl. unfold st_deg in E.
    assert (k = 0) as -> by lia. assert ((c <? 0) = false) as -> by lia. rewrite Z.sub_0_r. reflexivity.
  - apply (QN_input (c + 1) (st_lo c) q c H). unfold st_hn, st_lo.
    assert ((c + 1 =? 0) = false) as -> by lia. lia.
Qed.

(* the end of call c: mark frame c requested, then discard c - d if the confirmed frame is positive *)
Lemma QA_finish : forall c q, 0 <= c -> QA c q ->
  QI (c + 1) (if 0 <? c + 1 - d then discard_confirmed_frames (set_last_requested q c) (c - d)
              else set_last_requested q c).
Proof.
  intros c q Hc H. unfold QA in H. unfold QI.
  assert ((0 <? c + 1) = true) as -> by lia. rewrite andb_true_r.
  destruct st_deg eqn:Ed.
  - unfold st_deg in Ed. assert (Hk0 : k = 0) by lia. assert (Hd0 : d = 0) by lia.
    assert ((0 <? c + 1 - d) = true) as -> by lia. replace (c - d) with c by lia.
    cbn [andb] in H. destruct (Z.ltb_spec 0 c) as [Hp|Hz].
    + apply QDA_finish; assumption.
    + assert (c = 0) by lia. subst c. apply QN1_finish_deg; auto.
      apply QN_req. replace (st_lo 0) with 0 in H by (unfold st_lo; lia). exact H.
  - cbn [andb] in H.
    assert (Hdk : 0 < d + k) by (unfold st_deg in Ed; lia).
    destruct (Z.ltb_spec 0 (c + 1 - d)) as [Hp|Hz].
    + replace (st_lo (c + 1)) with (Z.max (st_lo c) (c - d)) by (unfold st_lo; lia).
      apply QN_discard; auto. apply QN_req. exact H.
    + replace (st_lo (c + 1)) with (st_lo c) by (unfold st_lo; lia).
      apply QN_req. exact H.
Qed.

End OneQueue.
