(* Model of src/sessions/builder.rs (SessionBuilder) together with the parts of the session
   constructors that decide what the finishers return (P2PSession::new, SpectatorSession::new,
   SyncTestSession::new, UdpProtocol::new as far as the handle lists are concerned).
   usize / u32 / Duration(ms) values are Z; addresses are Z; `HashMap<PlayerHandle, PlayerType>` is an
   association list in insertion order (all observable results are order-independent: the code only
   iterates the map to test every entry, to count, or to collect handle sets that are compared sorted). *)
From GGRS Require Import Base Consts.
Open Scope Z_scope.

Inductive ptype : Type :=
| Local
| Remote (a : Z)
| Spectator (a : Z).

Record builder : Type := mkB {
  b_num_players : Z;
  b_local_players : Z;
  b_max_prediction : Z;
  b_fps : Z;
  b_sparse : bool;
  b_desync : option Z;            (* None = DesyncDetection::Off, Some i = On { interval: i } *)
  b_disconnect_timeout : Z;       (* ms *)
  b_notify : Z;                   (* ms *)
  b_handles : list (Z * ptype);   (* player_reg.handles *)
  b_input_delay : Z;
  b_check_dist : Z;
  b_max_frames_behind : Z;
  b_catchup_speed : Z }.

(* SessionBuilder::new; DEFAULT_SAVE_MODE = false and DEFAULT_DETECTION_MODE = Off are not numeric and
   therefore written here (the correspondence level observes both defaults). *)
Definition new_builder : builder :=
  mkB DEFAULT_PLAYERS 0 DEFAULT_MAX_PREDICTION_FRAMES DEFAULT_FPS false None
      DEFAULT_DISCONNECT_TIMEOUT DEFAULT_DISCONNECT_NOTIFY_START [] DEFAULT_INPUT_DELAY
      DEFAULT_CHECK_DISTANCE DEFAULT_MAX_FRAMES_BEHIND DEFAULT_CATCHUP_SPEED.

Definition set_num_players (b : builder) (v : Z) : builder :=
  mkB v (b_local_players b) (b_max_prediction b) (b_fps b) (b_sparse b) (b_desync b)
      (b_disconnect_timeout b) (b_notify b) (b_handles b) (b_input_delay b) (b_check_dist b)
      (b_max_frames_behind b) (b_catchup_speed b).
Definition set_players (b : builder) (lp : Z) (hs : list (Z * ptype)) : builder :=
  mkB (b_num_players b) lp (b_max_prediction b) (b_fps b) (b_sparse b) (b_desync b)
      (b_disconnect_timeout b) (b_notify b) hs (b_input_delay b) (b_check_dist b)
      (b_max_frames_behind b) (b_catchup_speed b).
Definition set_max_prediction (b : builder) (v : Z) : builder :=
  mkB (b_num_players b) (b_local_players b) v (b_fps b) (b_sparse b) (b_desync b)
      (b_disconnect_timeout b) (b_notify b) (b_handles b) (b_input_delay b) (b_check_dist b)
      (b_max_frames_behind b) (b_catchup_speed b).
Definition set_fps (b : builder) (v : Z) : builder :=
  mkB (b_num_players b) (b_local_players b) (b_max_prediction b) v (b_sparse b) (b_desync b)
      (b_disconnect_timeout b) (b_notify b) (b_handles b) (b_input_delay b) (b_check_dist b)
      (b_max_frames_behind b) (b_catchup_speed b).
Definition set_sparse (b : builder) (v : bool) : builder :=
  mkB (b_num_players b) (b_local_players b) (b_max_prediction b) (b_fps b) v (b_desync b)
      (b_disconnect_timeout b) (b_notify b) (b_handles b) (b_input_delay b) (b_check_dist b)
      (b_max_frames_behind b) (b_catchup_speed b).
Definition set_desync (b : builder) (v : option Z) : builder :=
  mkB (b_num_players b) (b_local_players b) (b_max_prediction b) (b_fps b) (b_sparse b) v
      (b_disconnect_timeout b) (b_notify b) (b_handles b) (b_input_delay b) (b_check_dist b)
      (b_max_frames_behind b) (b_catchup_speed b).
Definition set_disconnect_timeout (b : builder) (v : Z) : builder :=
  mkB (b_num_players b) (b_local_players b) (b_max_prediction b) (b_fps b) (b_sparse b) (b_desync b)
      v (b_notify b) (b_handles b) (b_input_delay b) (b_check_dist b)
      (b_max_frames_behind b) (b_catchup_speed b).
Definition set_notify (b : builder) (v : Z) : builder :=
  mkB (b_num_players b) (b_local_players b) (b_max_prediction b) (b_fps b) (b_sparse b) (b_desync b)
      (b_disconnect_timeout b) v (b_handles b) (b_input_delay b) (b_check_dist b)
      (b_max_frames_behind b) (b_catchup_speed b).
Definition set_input_delay (b : builder) (v : Z) : builder :=
  mkB (b_num_players b) (b_local_players b) (b_max_prediction b) (b_fps b) (b_sparse b) (b_desync b)
      (b_disconnect_timeout b) (b_notify b) (b_handles b) v (b_check_dist b)
      (b_max_frames_behind b) (b_catchup_speed b).
Definition set_check_dist (b : builder) (v : Z) : builder :=
  mkB (b_num_players b) (b_local_players b) (b_max_prediction b) (b_fps b) (b_sparse b) (b_desync b)
      (b_disconnect_timeout b) (b_notify b) (b_handles b) (b_input_delay b) v
      (b_max_frames_behind b) (b_catchup_speed b).
Definition set_max_frames_behind (b : builder) (v : Z) : builder :=
  mkB (b_num_players b) (b_local_players b) (b_max_prediction b) (b_fps b) (b_sparse b) (b_desync b)
      (b_disconnect_timeout b) (b_notify b) (b_handles b) (b_input_delay b) (b_check_dist b)
      v (b_catchup_speed b).
Definition set_catchup_speed (b : builder) (v : Z) : builder :=
  mkB (b_num_players b) (b_local_players b) (b_max_prediction b) (b_fps b) (b_sparse b) (b_desync b)
      (b_disconnect_timeout b) (b_notify b) (b_handles b) (b_input_delay b) (b_check_dist b)
      (b_max_frames_behind b) v.

(* ---------- builder methods ---------- *)

(* `player_reg.handles.contains_key(&h)` *)
Definition contains_key (h : Z) (hs : list (Z * ptype)) : bool :=
  existsb (fun p => fst p =? h) hs.

(* validate_player_handle: true = Ok(()), false = Err(InvalidRequest) *)
Definition validate_player_handle (t : ptype) (h np : Z) : bool :=
  match t with
  | Local => negb (np <=? h)          (* `if player_handle >= num_players { return Err }` *)
  | Remote _ => negb (np <=? h)
  | Spectator _ => negb (h <? np)     (* `if player_handle < num_players { return Err }` *)
  end.

Definition is_local (t : ptype) : bool := match t with Local => true | _ => false end.

Definition add_player (b : builder) (t : ptype) (h : Z) : res builder :=
  if contains_key h (b_handles b) then Err
  else if negb (validate_player_handle t h (b_num_players b)) then Err
  else Ok (set_players b (if is_local t then b_local_players b + 1 else b_local_players b)
                         (b_handles b ++ [(h, t)])).

Definition with_num_players (b : builder) (n : Z) : res builder :=
  if n =? 0 then Err
  else if forallb (fun p => validate_player_handle (snd p) (fst p) n) (b_handles b)
       then Ok (set_num_players b n)
       else Err.

Definition with_max_prediction_window (b : builder) (w : Z) : res builder := Ok (set_max_prediction b w).
Definition with_input_delay (b : builder) (d : Z) : res builder := Ok (set_input_delay b d).
Definition with_sparse_saving_mode (b : builder) (s : bool) : res builder := Ok (set_sparse b s).
Definition with_desync_detection_mode (b : builder) (m : option Z) : res builder := Ok (set_desync b m).
Definition with_disconnect_timeout (b : builder) (ms : Z) : res builder := Ok (set_disconnect_timeout b ms).
Definition with_disconnect_notify_delay (b : builder) (ms : Z) : res builder := Ok (set_notify b ms).

Definition with_fps (b : builder) (f : Z) : res builder :=
  if f =? 0 then Err else Ok (set_fps b f).

Definition with_check_distance (b : builder) (d : Z) : res builder := Ok (set_check_dist b d).

Definition with_max_frames_behind (b : builder) (m : Z) : res builder :=
  if m <? 1 then Err
  else if SPECTATOR_BUFFER_SIZE <=? m then Err
  else Ok (set_max_frames_behind b m).

Definition with_catchup_speed (b : builder) (s : Z) : res builder :=
  if s <? 1 then Err else Ok (set_catchup_speed b s).

(* ---------- what the finishers return ---------- *)

Fixpoint insert_sorted (x : Z) (l : list Z) : list Z :=
  match l with
  | [] => [x]
  | y :: r => if x <=? y then x :: l else y :: insert_sorted x r
  end.
Definition sortZ (l : list Z) : list Z := fold_right insert_sorted [] l.

(* sorted, duplicates removed *)
Fixpoint insert_uniq (x : Z) (l : list Z) : list Z :=
  match l with
  | [] => [x]
  | y :: r => if x <? y then x :: l else if x =? y then l else y :: insert_uniq x r
  end.
Definition sort_uniq (l : list Z) : list Z := fold_right insert_uniq [] l.

Definition ptype_eqb (t u : ptype) : bool :=
  match t, u with
  | Local, Local => true
  | Remote a, Remote b => a =? b
  | Spectator a, Spectator b => a =? b
  | _, _ => false
  end.

Definition is_remote (t : ptype) : bool := match t with Remote _ => true | _ => false end.
Definition is_spectator (t : ptype) : bool := match t with Spectator _ => true | _ => false end.

(* sorted handles whose registered type satisfies f *)
Definition handles_where (f : ptype -> bool) (hs : list (Z * ptype)) : list Z :=
  sortZ (map fst (filter (fun p => f (snd p)) hs)).

Definition remote_addrs (hs : list (Z * ptype)) : list Z :=
  sort_uniq (flat_map (fun p => match snd p with Remote a => [a] | _ => [] end) hs).
Definition spectator_addrs (hs : list (Z * ptype)) : list Z :=
  sort_uniq (flat_map (fun p => match snd p with Spectator a => [a] | _ => [] end) hs).
Definition all_addrs (hs : list (Z * ptype)) : list Z :=
  sort_uniq (flat_map (fun p => match snd p with Remote a => [a] | Spectator a => [a] | Local => [] end) hs).

(* one UdpProtocol per key of `addr_count` (a HashMap keyed by the PlayerType value, so Remote(a) and
   Spectator(a) are different endpoints); UdpProtocol::new sorts the handles *)
Record endpoint : Type := mkE { e_addr : Z; e_handles : list Z; e_spectator : bool }.

Definition endpoints (hs : list (Z * ptype)) : list endpoint :=
  map (fun a => mkE a (handles_where (ptype_eqb (Remote a)) hs) false) (remote_addrs hs) ++
  map (fun a => mkE a (handles_where (ptype_eqb (Spectator a)) hs) true) (spectator_addrs hs).

(* PlayerRegistry::handles_by_address *)
Definition handles_by_address (hs : list (Z * ptype)) (a : Z) : list Z :=
  handles_where (fun t => match t with Remote x => x =? a | Spectator x => x =? a | Local => false end) hs.

Record p2p_summary : Type := mkP {
  p_num_players : Z;              (* P2PSession::num_players() = number of Local/Remote entries *)
  p_cfg_num_players : Z;          (* the num_players the session (sync layer, connect status) was sized with *)
  p_running : bool;               (* current_state() == Running *)
  p_endpoints : list endpoint;    (* player_reg.remotes ++ player_reg.spectators, sorted by address *)
  p_local : list Z;               (* local_player_handles(), sorted *)
  p_remote : list Z;              (* remote_player_handles(), sorted *)
  p_spectators : list Z;          (* spectator_handles(), sorted *)
  p_by_addr : list (Z * list Z);  (* handles_by_address for every registered address, sorted *)
  p_max_prediction : Z;
  p_sparse : bool;                (* effective sparse saving *)
  p_desync : option Z;
  p_input_delay : Z;
  p_fps : Z }.

Inductive summary : Type :=
| SP2P (p : p2p_summary)
| SSpectator (num_players host max_frames_behind catchup_speed : Z)   (* state is always Synchronizing *)
| SSyncTest (num_players max_prediction check_distance input_delay : Z).

(* 0, 1, .., n-1 *)
Definition zrange (n : Z) : list Z := map Z.of_nat (seq 0 (Z.to_nat n)).

Definition start_p2p_session (b : builder) : res summary :=
  let hs := b_handles b in
  if match b_desync b with Some i => i =? 0 | None => false end then Err
  else if negb (forallb (fun h => contains_key h hs) (zrange (b_num_players b))) then Err
  (* P2PSession::new -> SyncLayer::set_frame_delay: assert!(player_handle < num_players) for every local player *)
  else if negb (forallb (fun p => if is_local (snd p) then fst p <? b_num_players b else true) hs) then Panic
  else
    let eps := endpoints hs in
    Ok (SP2P (mkP
      (Z.of_nat (length (filter (fun p => negb (is_spectator (snd p))) hs)))
      (b_num_players b)
      (match eps with [] => true | _ => false end)
      eps
      (handles_where is_local hs)
      (handles_where is_remote hs)
      (handles_where is_spectator hs)
      (map (fun a => (a, handles_by_address hs a)) (all_addrs hs))
      (b_max_prediction b)
      (if (b_max_prediction b =? 0) && b_sparse b then false else b_sparse b)
      (b_desync b)
      (b_input_delay b)
      (b_fps b))).

Definition start_spectator_session (b : builder) (host : Z) : res summary :=
  Ok (SSpectator (b_num_players b) host (b_max_frames_behind b) (b_catchup_speed b)).

Definition start_synctest_session (b : builder) : res summary :=
  if b_max_prediction b <=? b_check_dist b then Err      (* check_dist >= max_prediction *)
  else if b_sparse b then Err
  else Ok (SSyncTest (b_num_players b) (b_max_prediction b) (b_check_dist b) (b_input_delay b)).

(* ---------- call sequences ---------- *)

Inductive call : Type :=
| CAddPlayer (t : ptype) (h : Z)
| CNumPlayers (n : Z)
| CMaxPrediction (w : Z)
| CInputDelay (d : Z)
| CSparse (s : bool)
| CDesync (m : option Z)
| CDisconnectTimeout (ms : Z)
| CNotifyDelay (ms : Z)
| CFps (f : Z)
| CCheckDistance (d : Z)
| CMaxFramesBehind (m : Z)
| CCatchupSpeed (s : Z).

Inductive finisher : Type :=
| FP2P
| FSpectator (host : Z)
| FSyncTest.

Definition apply_call (b : builder) (c : call) : res builder :=
  match c with
  | CAddPlayer t h => add_player b t h
  | CNumPlayers n => with_num_players b n
  | CMaxPrediction w => with_max_prediction_window b w
  | CInputDelay d => with_input_delay b d
  | CSparse s => with_sparse_saving_mode b s
  | CDesync m => with_desync_detection_mode b m
  | CDisconnectTimeout ms => with_disconnect_timeout b ms
  | CNotifyDelay ms => with_disconnect_notify_delay b ms
  | CFps f => with_fps b f
  | CCheckDistance d => with_check_distance b d
  | CMaxFramesBehind m => with_max_frames_behind b m
  | CCatchupSpeed s => with_catchup_speed b s
  end.

Definition finish (b : builder) (f : finisher) : res summary :=
  match f with
  | FP2P => start_p2p_session b
  | FSpectator host => start_spectator_session b host
  | FSyncTest => start_synctest_session b
  end.

(* index of the call being executed; the finisher has index `length calls` *)
Fixpoint run_from (b : builder) (i : nat) (cs : list call) (f : finisher) : nat * res summary :=
  match cs with
  | [] => (i, finish b f)
  | c :: rest =>
    match apply_call b c with
    | Ok b' => run_from b' (S i) rest f
    | Err => (i, Err)
    | Panic => (i, Panic)
    end
  end.

Definition run_calls (cs : list call) (f : finisher) : nat * res summary :=
  run_from new_builder 0 cs f.
