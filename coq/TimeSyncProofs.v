(* Proofs about the time-sync model (TimeSync.v) for property C15. *)
From Coq Require Import ZArith List Bool Lia ZifyBool ZifyNat.
From Flocq Require Import IEEE754.BinarySingleNaN.
From GGRS Require Import Base Consts TimeSync.
Open Scope Z_scope.
Ltac Zify.zify_post_hook ::= Z.div_mod_to_equations.

(* ------------------------------------------------------------------ *)
(* integer ranges, for the in-kernel sweeps                           *)
(* ------------------------------------------------------------------ *)
Fixpoint ts_zrange (lo : Z) (n : nat) : list Z :=
  match n with O => [] | S k => lo :: ts_zrange (lo + 1) k end.

Lemma in_ts_zrange : forall n lo x, lo <= x < lo + Z.of_nat n -> In x (ts_zrange lo n).
Proof.
  induction n as [|n IH]; intros lo x H.
  - lia.
  - cbn [ts_zrange]. destruct (Z.eq_dec x lo) as [->|Hne]; [now left|right].
    apply IH. lia.
Qed.

Lemma forallb_ts_zrange : forall f lo n,
  forallb f (ts_zrange lo n) = true -> forall x, lo <= x < lo + Z.of_nat n -> f x = true.
Proof.
  intros f lo n H x Hx. rewrite forallb_forall in H. apply H. now apply in_ts_zrange.
Qed.

(* ------------------------------------------------------------------ *)
(* window sums                                                        *)
(* ------------------------------------------------------------------ *)
Definition ts_zsum (l : list Z) : Z := fold_right Z.add 0 l.

Definition ts_wf (ts : time_sync) : Prop :=
  length (ts_local ts) = Z.to_nat FRAME_WINDOW_SIZE /\
  length (ts_remote ts) = Z.to_nat FRAME_WINDOW_SIZE.

Lemma ts_zsum_bounds : forall lo hi l,
  Forall (fun x => lo <= x <= hi) l ->
  Z.of_nat (length l) * lo <= ts_zsum l <= Z.of_nat (length l) * hi.
Proof.
  intros lo hi l H. induction H as [|x t Hx _ IH].
  - cbn. lia.
  - cbn [ts_zsum fold_right length]. fold (ts_zsum t). rewrite Nat2Z.inj_succ. lia.
Qed.

Lemma ts_i32_arith_ok : forall dbg x,
  TS_I32_MIN <= x <= TS_I32_MAX -> ts_i32_arith dbg x = Ok x.
Proof.
  intros dbg x H. unfold ts_i32_arith, ts_in_i32.
  replace ((TS_I32_MIN <=? x) && (x <=? TS_I32_MAX)) with true by lia. reflexivity.
Qed.

(* no partial sum leaves the i32 range when |entries| <= B and (number of entries) * B fits *)
Lemma ts_sum_from_ok : forall dbg B l acc,
  0 <= B ->
  Forall (fun x => - B <= x <= B) l ->
  Z.abs acc + Z.of_nat (length l) * B <= TS_I32_MAX ->
  ts_sum_from dbg acc l = Ok (acc + ts_zsum l).
Proof.
  intros dbg B l. induction l as [|x t IH]; intros acc HB HF Hacc.
  - cbn. f_equal. lia.
  - inversion HF as [|? ? Hx Ht]; subst.
    cbn [ts_sum_from ts_zsum fold_right length] in *. fold (ts_zsum t).
    rewrite Nat2Z.inj_succ in Hacc.
    assert (Hn : 0 <= Z.of_nat (length t) * B) by (apply Z.mul_nonneg_nonneg; lia).
    rewrite ts_i32_arith_ok by (unfold TS_I32_MIN, TS_I32_MAX in *; lia).
    rewrite IH by (try assumption; lia). f_equal. lia.
Qed.

Lemma ts_sum_ok : forall dbg B l,
  0 <= B ->
  Forall (fun x => - B <= x <= B) l ->
  Z.of_nat (length l) * B <= TS_I32_MAX ->
  ts_sum dbg l = Ok (ts_zsum l).
Proof.
  intros dbg B l HB HF HL. unfold ts_sum.
  rewrite (ts_sum_from_ok dbg B l 0 HB HF) by (cbn [Z.abs]; lia). reflexivity.
Qed.

(* the average is a function of the two window sums *)
Theorem ts_average_of_sums : forall dbg B ts,
  0 < FRAME_WINDOW_SIZE ->
  ts_wf ts ->
  0 <= B -> FRAME_WINDOW_SIZE * B <= TS_I32_MAX ->
  Forall (fun x => - B <= x <= B) (ts_local ts) ->
  Forall (fun x => - B <= x <= B) (ts_remote ts) ->
  ts_average_frame_advantage dbg ts =
    Ok (ts_avg_of_sums (ts_zsum (ts_local ts)) (ts_zsum (ts_remote ts))).
Proof.
  intros dbg B ts HW [Hl Hr] HB HWB HFl HFr.
  unfold ts_average_frame_advantage.
  rewrite (ts_sum_ok dbg B _ HB HFl) by (rewrite Hl; lia).
  rewrite (ts_sum_ok dbg B _ HB HFr) by (rewrite Hr; lia).
  rewrite Hl, Hr. rewrite Z2Nat.id by lia. reflexivity.
Qed.

(* ------------------------------------------------------------------ *)
(* the in-kernel sweep over the steady-lead sum ranges                *)
(* ------------------------------------------------------------------ *)
(* For lead k: peer A's local window sum sl ranges over W*(-k-1) .. W*(-k+1) and its remote window
   sum sr over W*(k-1) .. W*(k+1)  (W = FRAME_WINDOW_SIZE entries, each within 1 of -k resp. k).
   a = A's average, b = the average of the peer holding the mirrored windows. *)
Definition ts_steady_ok (k a b : Z) : bool :=
  (Z.abs (a - k) <=? 1) && (Z.abs (b + k) <=? 1) && (Z.abs (a + b) <=? 1).

Definition ts_steady_check (k : Z) : bool :=
  let W := FRAME_WINDOW_SIZE in
  let n := Z.to_nat (2 * W + 1) in
  let ls := map (fun s => ts_window_avg s W) (ts_zrange (W * (- k - 1)) n) in
  let rs := map (fun s => ts_window_avg s W) (ts_zrange (W * (k - 1)) n) in
  forallb (fun la => forallb (fun ra => ts_steady_ok k (ts_meet la ra) (ts_meet ra la)) rs) ls.

Lemma ts_steady_sweep : forallb ts_steady_check (ts_zrange (-7) 15) = true.
Proof. vm_cast_no_check (@eq_refl bool true). Qed.

Lemma ts_steady_sums : forall k sl sr,
  -7 <= k <= 7 ->
  FRAME_WINDOW_SIZE * (- k - 1) <= sl <= FRAME_WINDOW_SIZE * (- k + 1) ->
  FRAME_WINDOW_SIZE * (k - 1) <= sr <= FRAME_WINDOW_SIZE * (k + 1) ->
  ts_steady_ok k (ts_avg_of_sums sl sr) (ts_avg_of_sums sr sl) = true.
Proof.
  intros k sl sr Hk Hsl Hsr.
  assert (HW : 0 < FRAME_WINDOW_SIZE) by (vm_compute; reflexivity).
  pose proof (forallb_ts_zrange _ _ _ ts_steady_sweep k ltac:(lia)) as Hc.
  unfold ts_steady_check in Hc.
  assert (Hl : In (ts_window_avg sl FRAME_WINDOW_SIZE)
      (map (fun s => ts_window_avg s FRAME_WINDOW_SIZE)
         (ts_zrange (FRAME_WINDOW_SIZE * (- k - 1)) (Z.to_nat (2 * FRAME_WINDOW_SIZE + 1))))).
  { apply in_map with (f := fun s => ts_window_avg s FRAME_WINDOW_SIZE).
    apply in_ts_zrange. rewrite Z2Nat.id by lia. lia. }
  assert (Hr : In (ts_window_avg sr FRAME_WINDOW_SIZE)
      (map (fun s => ts_window_avg s FRAME_WINDOW_SIZE)
         (ts_zrange (FRAME_WINDOW_SIZE * (k - 1)) (Z.to_nat (2 * FRAME_WINDOW_SIZE + 1))))).
  { apply in_map with (f := fun s => ts_window_avg s FRAME_WINDOW_SIZE).
    apply in_ts_zrange. rewrite Z2Nat.id by lia. lia. }
  pose proof (proj1 (forallb_forall _ _) Hc _ Hl) as Hc2. cbv beta in Hc2.
  exact (proj1 (forallb_forall _ _) Hc2 _ Hr).
Qed.

(* ------------------------------------------------------------------ *)
(* steady windows                                                     *)
(* ------------------------------------------------------------------ *)
Definition ts_mirror (ts : time_sync) : time_sync :=
  {| ts_local := ts_remote ts; ts_remote := ts_local ts |}.

Lemma ts_wf_mirror : forall ts, ts_wf ts -> ts_wf (ts_mirror ts).
Proof. intros ts [H1 H2]. split; assumption. Qed.

Lemma ts_fws_pos : 0 < FRAME_WINDOW_SIZE.
Proof. vm_compute. reflexivity. Qed.
Lemma ts_fws_small : FRAME_WINDOW_SIZE * 8 <= TS_I32_MAX.
Proof. vm_compute. discriminate. Qed.

Theorem ts_avg_steady : forall dbg k ts,
  -7 <= k <= 7 ->
  ts_wf ts ->
  Forall (fun x => - k - 1 <= x <= - k + 1) (ts_local ts) ->
  Forall (fun x => k - 1 <= x <= k + 1) (ts_remote ts) ->
  exists a b,
    ts_average_frame_advantage dbg ts = Ok a /\
    ts_average_frame_advantage dbg (ts_mirror ts) = Ok b /\
    k - 1 <= a <= k + 1 /\ - k - 1 <= b <= - k + 1 /\ -1 <= a + b <= 1.
Proof.
  intros dbg k ts Hk Hwf Hl Hr.
  pose proof ts_fws_pos as HW. pose proof ts_fws_small as HS.
  assert (Hl8 : Forall (fun x => - 8 <= x <= 8) (ts_local ts))
    by (eapply Forall_impl; [|exact Hl]; cbv beta; intros; lia).
  assert (Hr8 : Forall (fun x => - 8 <= x <= 8) (ts_remote ts))
    by (eapply Forall_impl; [|exact Hr]; cbv beta; intros; lia).
  exists (ts_avg_of_sums (ts_zsum (ts_local ts)) (ts_zsum (ts_remote ts))),
         (ts_avg_of_sums (ts_zsum (ts_remote ts)) (ts_zsum (ts_local ts))).
  split; [apply (ts_average_of_sums dbg 8 ts); auto; lia|].
  split; [apply (ts_average_of_sums dbg 8 (ts_mirror ts)); auto using ts_wf_mirror; lia|].
  pose proof (ts_zsum_bounds _ _ _ Hl) as Bl. pose proof (ts_zsum_bounds _ _ _ Hr) as Br.
  destruct Hwf as [Ll Lr]. rewrite Ll, Z2Nat.id in Bl by lia. rewrite Lr, Z2Nat.id in Br by lia.
  pose proof (ts_steady_sums k _ _ Hk Bl Br) as Hc.
  unfold ts_steady_ok in Hc. lia.
Qed.

(* ------------------------------------------------------------------ *)
(* histories: consecutive advance_frame calls overwrite the windows   *)
(* ------------------------------------------------------------------ *)
(* advance_frame for frames f, f+1, ... with the given (local_adv, remote_adv) pairs *)
Fixpoint ts_run (ts : time_sync) (frame : Z) (ws : list (Z * Z)) : res time_sync :=
  match ws with
  | [] => Ok ts
  | (l, r) :: t =>
    match ts_advance_frame ts frame l r with
    | Ok ts' => ts_run ts' (frame + 1) t
    | Err => Err
    | Panic => Panic
    end
  end.

Fixpoint ts_run_list (l : list Z) (frame : Z) (vs : list Z) : list Z :=
  match vs with
  | [] => l
  | v :: t =>
    ts_run_list (ts_set_nth (Z.to_nat (ts_index frame (Z.of_nat (length l)))) v l) (frame + 1) t
  end.

Lemma ts_set_nth_length : forall l i v, length (ts_set_nth i v l) = length l.
Proof. induction l as [|x t IH]; intros [|i] v; cbn; auto. Qed.

Lemma ts_set_nth_same : forall l i v d, (i < length l)%nat -> nth i (ts_set_nth i v l) d = v.
Proof.
  induction l as [|x t IH]; intros [|i] v d H; cbn in *; try lia; auto.
  apply IH. lia.
Qed.

Lemma ts_set_nth_other : forall l i j v d, i <> j -> nth j (ts_set_nth i v l) d = nth j l d.
Proof.
  induction l as [|x t IH]; intros [|i] [|j] v d H; cbn; auto; try congruence.
Qed.

Lemma ts_run_list_length : forall vs l f, length (ts_run_list l f vs) = length l.
Proof.
  induction vs as [|v t IH]; intros l f; cbn [ts_run_list]; auto.
  rewrite IH. apply ts_set_nth_length.
Qed.

Lemma ts_index_range : forall f len, 0 < len -> 0 <= ts_index f len < len.
Proof. intros. unfold ts_index. apply Z.mod_pos_bound. assumption. Qed.

Lemma ts_run_list_inv : forall (P : Z -> Prop) vs l f j,
  (0 < length l)%nat ->
  Forall P vs ->
  (j < length l)%nat ->
  (P (nth j l 0) \/
   exists i, 0 <= i < Z.of_nat (length vs) /\ ts_index (f + i) (Z.of_nat (length l)) = Z.of_nat j) ->
  P (nth j (ts_run_list l f vs) 0).
Proof.
  intros P vs. induction vs as [|v t IH]; intros l f j Hl HF Hj H.
  - cbn [ts_run_list]. destruct H as [H|[i [Hi _]]]; [assumption|cbn in Hi; lia].
  - inversion HF as [|? ? Hv Ht]; subst. cbn [ts_run_list].
    pose proof (ts_index_range f (Z.of_nat (length l)) ltac:(lia)) as Hidx.
    set (i0 := Z.to_nat (ts_index f (Z.of_nat (length l)))) in *.
    assert (Hlen : length (ts_set_nth i0 v l) = length l) by apply ts_set_nth_length.
    apply IH; rewrite ?Hlen; try assumption.
    destruct (Nat.eq_dec i0 j) as [E|NE].
    + left. subst j. rewrite ts_set_nth_same by assumption. assumption.
    + destruct H as [H|[i [Hi Hidx2]]].
      * left. rewrite ts_set_nth_other by assumption. assumption.
      * destruct (Z.eq_dec i 0) as [->|Hi0].
        -- exfalso. apply NE. unfold i0. rewrite Z.add_0_r in Hidx2. rewrite Hidx2. lia.
        -- right. exists (i - 1). split.
           ++ cbn [length] in Hi. lia.
           ++ replace (f + 1 + (i - 1)) with (f + i) by lia. assumption.
Qed.

(* once a full window of consecutive frames has been written, every slot holds one of the values *)
Lemma ts_run_list_covered : forall (P : Z -> Prop) vs l f,
  (0 < length l)%nat ->
  Forall P vs ->
  0 <= f -> f + Z.of_nat (length vs) <= 2147483648 ->
  (length l <= length vs)%nat ->
  Forall P (ts_run_list l f vs).
Proof.
  intros P vs l f Hl HF Hf Hmax Hlen.
  apply Forall_nth. intros j d Hj. rewrite ts_run_list_length in Hj.
  rewrite nth_indep with (d' := 0) by (rewrite ts_run_list_length; assumption).
  apply ts_run_list_inv; try assumption.
  right. set (W := Z.of_nat (length l)). assert (HW : 0 < W) by lia.
  exists ((Z.of_nat j - f) mod W). split.
  - pose proof (Z.mod_pos_bound (Z.of_nat j - f) W HW). lia.
  - unfold ts_index.
    pose proof (Z.mod_pos_bound (Z.of_nat j - f) W HW) as Hb.
    rewrite (Z.mod_small (f + _)) by lia.
    rewrite Z.add_mod_idemp_r by lia.
    replace (f + (Z.of_nat j - f)) with (Z.of_nat j) by lia.
    apply Z.mod_small. lia.
Qed.

Lemma ts_run_lists : forall ws ts f,
  (0 < length (ts_local ts))%nat -> (0 < length (ts_remote ts))%nat ->
  ts_run ts f ws =
    Ok {| ts_local := ts_run_list (ts_local ts) f (map fst ws);
          ts_remote := ts_run_list (ts_remote ts) f (map snd ws) |}.
Proof.
  induction ws as [|[l r] t IH]; intros ts f Hl Hr.
  - cbn. destruct ts; reflexivity.
  - cbn [ts_run map fst snd ts_run_list]. unfold ts_advance_frame.
    replace ((Z.of_nat (length (ts_local ts)) =? 0) || (Z.of_nat (length (ts_remote ts)) =? 0))
      with false by lia.
    rewrite IH; cbn [ts_local ts_remote]; rewrite ?ts_set_nth_length; auto.
Qed.

(* Whatever the windows held before: after at least FRAME_WINDOW_SIZE consecutive frames whose
   recorded advantages stay within one frame of (-k, +k), the average is within one frame of k,
   the mirrored peer's is within one of -k, and the two sum to within one frame of zero. *)
Theorem ts_avg_settles : forall dbg k ts0 f ws,
  -7 <= k <= 7 ->
  ts_wf ts0 ->
  0 <= f -> f + Z.of_nat (length ws) <= 2147483648 ->
  FRAME_WINDOW_SIZE <= Z.of_nat (length ws) ->
  Forall (fun w => (- k - 1 <= fst w <= - k + 1) /\ (k - 1 <= snd w <= k + 1)) ws ->
  exists ts a b,
    ts_run ts0 f ws = Ok ts /\ ts_wf ts /\
    ts_average_frame_advantage dbg ts = Ok a /\
    ts_average_frame_advantage dbg (ts_mirror ts) = Ok b /\
    k - 1 <= a <= k + 1 /\ - k - 1 <= b <= - k + 1 /\ -1 <= a + b <= 1.
Proof.
  intros dbg k ts0 f ws Hk [Ll Lr] Hf Hmax Hlen HF.
  pose proof ts_fws_pos as HW.
  assert (Hl0 : (0 < length (ts_local ts0))%nat) by lia.
  assert (Hr0 : (0 < length (ts_remote ts0))%nat) by lia.
  eexists. 
  assert (Hwf : ts_wf {| ts_local := ts_run_list (ts_local ts0) f (map fst ws);
                         ts_remote := ts_run_list (ts_remote ts0) f (map snd ws) |}).
  { split; cbn [ts_local ts_remote]; rewrite ts_run_list_length; assumption. }
  assert (HFl : Forall (fun x => - k - 1 <= x <= - k + 1) (map fst ws)).
  { apply Forall_map. eapply Forall_impl; [|exact HF]. cbv beta. intros w [H _]. exact H. }
  assert (HFr : Forall (fun x => k - 1 <= x <= k + 1) (map snd ws)).
  { apply Forall_map. eapply Forall_impl; [|exact HF]. cbv beta. intros w [_ H]. exact H. }
  destruct (ts_avg_steady dbg k _ Hk Hwf) as [a [b H]].
  - cbn [ts_local]. apply ts_run_list_covered; rewrite ?map_length; auto; lia.
  - cbn [ts_remote]. apply ts_run_list_covered; rewrite ?map_length; auto; lia.
  - exists a, b. split; [apply ts_run_lists; assumption|]. split; [exact Hwf|exact H].
Qed.

Lemma ts_new_wf : ts_wf ts_new.
Proof. split; cbn [ts_new ts_local ts_remote]; apply repeat_length. Qed.

Lemma ts_advance_frame_wf : forall ts f l r,
  0 < FRAME_WINDOW_SIZE -> ts_wf ts -> exists ts', ts_advance_frame ts f l r = Ok ts' /\ ts_wf ts'.
Proof.
  intros ts f l r HW [Ll Lr]. unfold ts_advance_frame.
  replace ((Z.of_nat (length (ts_local ts)) =? 0) || (Z.of_nat (length (ts_remote ts)) =? 0))
    with false by lia.
  eexists. split; [reflexivity|]. split; cbn [ts_local ts_remote]; rewrite ts_set_nth_length; assumption.
Qed.

(* ------------------------------------------------------------------ *)
(* the frame-advantage estimate                                       *)
(* ------------------------------------------------------------------ *)
Lemma ts_rtt_nonneg : forall now pong, 0 <= ts_round_trip_time now pong.
Proof. intros. unfold ts_round_trip_time. lia. Qed.

Lemma ts_rtt_exact : forall sent d, 0 <= d -> ts_round_trip_time (sent + d) sent = d.
Proof. intros. unfold ts_round_trip_time. lia. Qed.

Lemma ts_ping_range : forall rtt, 0 <= rtt -> 0 <= ts_ping rtt <= TS_I32_MAX.
Proof. intros rtt H. unfold ts_ping, TS_I32_MAX. cbv zeta. destruct (Z.leb_spec (rtt / 2) 2147483647); lia. Qed.

Lemma ts_ping_half : forall rtt, 0 <= rtt -> rtt / 2 <= TS_I32_MAX -> ts_ping rtt = rtt / 2.
Proof. intros rtt H H2. unfold ts_ping, TS_I32_MAX in *. cbv zeta. destruct (Z.leb_spec (rtt / 2) 2147483647); lia. Qed.

Lemma ts_ping_mono : forall r1 r2, 0 <= r1 <= r2 -> ts_ping r1 <= ts_ping r2.
Proof.
  intros r1 r2 H. unfold ts_ping, TS_I32_MAX. cbv zeta.
  destruct (Z.leb_spec (r1 / 2) 2147483647); destruct (Z.leb_spec (r2 / 2) 2147483647); lia.
Qed.

(* one-way latency L ms on a symmetric link: rtt = 2L (or 2L+1 when a clock tick falls in between) *)
Lemma ts_ping_latency : forall L e, 0 <= L <= TS_I32_MAX -> 0 <= e <= 1 -> ts_ping (2 * L + e) = L.
Proof. intros L e HL He. rewrite ts_ping_half; unfold TS_I32_MAX in *; lia. Qed.

Lemma ts_wrap_i32_small : forall x, TS_I32_MIN <= x <= TS_I32_MAX -> ts_wrap_i32 x = x.
Proof. intros x H. unfold ts_wrap_i32, TS_I32_MIN, TS_I32_MAX in *. lia. Qed.

Lemma ts_ulfa_null : forall dbg rtt fps lr lf cur,
  lf = NULL \/ lr = NULL -> ts_update_local_frame_advantage dbg rtt fps lr lf cur = Ok cur.
Proof.
  intros dbg rtt fps lr lf cur H. unfold ts_update_local_frame_advantage.
  replace ((lf =? NULL) || (lr =? NULL)) with true by lia. reflexivity.
Qed.

(* the general closed form, whenever the three i32 operations stay in range *)
Lemma ts_ulfa_value : forall dbg rtt fps lr lf cur,
  0 <= rtt -> 0 <= fps <= TS_I32_MAX ->
  0 <= lr <= TS_I32_MAX -> 0 <= lf <= TS_I32_MAX ->
  ts_ping rtt * fps <= TS_I32_MAX ->
  lr + ts_ping rtt * fps / 1000 <= TS_I32_MAX ->
  ts_update_local_frame_advantage dbg rtt fps lr lf cur =
    Ok (lr + ts_ping rtt * fps / 1000 - lf).
Proof.
  intros dbg rtt fps lr lf cur Hrtt Hfps Hlr Hlf Hmul Hadd.
  unfold ts_update_local_frame_advantage.
  replace ((lf =? NULL) || (lr =? NULL)) with false by (unfold NULL; lia).
  rewrite ts_wrap_i32_small by (unfold TS_I32_MIN, TS_I32_MAX in *; lia).
  pose proof (ts_ping_range rtt Hrtt) as Hp.
  assert (Hm0 : 0 <= ts_ping rtt * fps) by (apply Z.mul_nonneg_nonneg; lia).
  set (m := ts_ping rtt * fps) in *.
  rewrite ts_i32_arith_ok by (unfold TS_I32_MIN, TS_I32_MAX in *; lia).
  rewrite Z.quot_div_nonneg by lia.
  assert (0 <= m / 1000) by (apply Z.div_pos; lia).
  rewrite ts_i32_arith_ok by (unfold TS_I32_MIN, TS_I32_MAX in *; lia).
  rewrite ts_i32_arith_ok by (unfold TS_I32_MIN, TS_I32_MAX in *; lia).
  reflexivity.
Qed.

(* C15 range: one-way latency L in 0..=100 ms, any fps in 1..=1000 (covers 30, 60, 120),
   frames below 2^30: remote_frame = last_recv_frame + floor(L * fps / 1000); never panics *)
Theorem ts_ulfa_latency : forall dbg L e fps lr lf cur,
  0 <= L <= 100 -> 0 <= e <= 1 -> 1 <= fps <= 1000 ->
  0 <= lr <= 1073741824 -> 0 <= lf <= 1073741824 ->
  ts_update_local_frame_advantage dbg (2 * L + e) fps lr lf cur =
    Ok (lr + L * fps / 1000 - lf).
Proof.
  intros dbg L e fps lr lf cur HL He Hfps Hlr Hlf.
  assert (Hp : ts_ping (2 * L + e) = L) by (apply ts_ping_latency; unfold TS_I32_MAX; lia).
  assert (Hm : 0 <= L * fps <= 100000) by nia.
  rewrite ts_ulfa_value; rewrite ?Hp; unfold TS_I32_MAX; try lia.
  reflexivity.
Qed.

(* the estimate grows with the measured round trip (no-overflow range) *)
Lemma ts_ulfa_mono : forall dbg r1 r2 fps lr lf cur a1 a2,
  0 <= r1 <= r2 -> 0 <= fps <= TS_I32_MAX ->
  0 <= lr <= TS_I32_MAX -> 0 <= lf <= TS_I32_MAX ->
  ts_ping r2 * fps <= TS_I32_MAX ->
  lr + ts_ping r2 * fps / 1000 <= TS_I32_MAX ->
  ts_update_local_frame_advantage dbg r1 fps lr lf cur = Ok a1 ->
  ts_update_local_frame_advantage dbg r2 fps lr lf cur = Ok a2 ->
  a1 <= a2.
Proof.
  intros dbg r1 r2 fps lr lf cur a1 a2 Hr Hfps Hlr Hlf Hmul Hadd H1 H2.
  pose proof (ts_ping_mono r1 r2 Hr) as Hpm.
  pose proof (ts_ping_range r1 ltac:(lia)) as Hp1.
  assert (Hle : ts_ping r1 * fps <= ts_ping r2 * fps) by (apply Z.mul_le_mono_nonneg_r; lia).
  assert (Hd : ts_ping r1 * fps / 1000 <= ts_ping r2 * fps / 1000) by (apply Z.div_le_mono; lia).
  rewrite ts_ulfa_value in H1 by lia. rewrite ts_ulfa_value in H2 by lia.
  inversion H1; inversion H2; subst. lia.
Qed.

(* link between the estimate and the bands of the steady-window theorem: peer B is at frame b, the
   newest frame received from it was produced one latency ago give or take a frame, and this peer
   runs k frames ahead of B; then the recorded local advantage is within one frame of -k *)
Theorem ts_ulfa_steady_band : forall dbg L e fps b k lr cur,
  0 <= L <= 100 -> 0 <= e <= 1 -> 1 <= fps <= 1000 ->
  -7 <= k <= 7 -> 0 <= b + k <= 1073741824 -> 0 <= lr <= 1073741824 ->
  b - L * fps / 1000 - 1 <= lr <= b - L * fps / 1000 + 1 ->
  exists adv,
    ts_update_local_frame_advantage dbg (2 * L + e) fps lr (b + k) cur = Ok adv /\
    - k - 1 <= adv <= - k + 1.
Proof.
  intros dbg L e fps b k lr cur HL He Hfps Hk Hb Hlr Hband.
  rewrite ts_ulfa_latency by lia.
  eexists. split; [reflexivity|]. lia.
Qed.

(* the three i32 operations can overflow for an absurd round-trip time (a QualityReply whose pong
   is not the echo of a recent ping): overflow-checking builds panic, release builds wrap *)
Lemma ts_ulfa_overflow : 
  ts_update_local_frame_advantage true 200000000 60 0 0 0 = Panic /\
  ts_update_local_frame_advantage false 200000000 60 0 0 0 = Ok 1705032.
Proof. split; vm_compute; reflexivity. Qed.

(* send_quality_report *)
Lemma ts_report_total : forall adv, ts_report_frame_advantage adv = Ok (ts_clamp_i16 adv).
Proof.
  intros adv. unfold ts_report_frame_advantage, ts_in_i16, ts_clamp_i16, TS_I16_MIN, TS_I16_MAX.
  cbv zeta.
  replace ((-32768 <=? Z.max (-32768) (Z.min 32767 adv)) && (Z.max (-32768) (Z.min 32767 adv) <=? 32767))
    with true by lia.
  reflexivity.
Qed.

Lemma ts_clamp_i16_id : forall adv, TS_I16_MIN <= adv <= TS_I16_MAX -> ts_clamp_i16 adv = adv.
Proof. intros adv. unfold ts_clamp_i16, TS_I16_MIN, TS_I16_MAX. lia. Qed.

Lemma ts_clamp_i16_range : forall adv, TS_I16_MIN <= ts_clamp_i16 adv <= TS_I16_MAX.
Proof. intros adv. unfold ts_clamp_i16, TS_I16_MIN, TS_I16_MAX. lia. Qed.

Lemma ts_clamp_i16_mono : forall a b, a <= b -> ts_clamp_i16 a <= ts_clamp_i16 b.
Proof. intros a b. unfold ts_clamp_i16, TS_I16_MIN, TS_I16_MAX. lia. Qed.

(* ------------------------------------------------------------------ *)
(* the float computation is not the exact rational one                *)
(* ------------------------------------------------------------------ *)
(* windows summing to -116 and -56 differ by exactly 60 = 2 * FRAME_WINDOW_SIZE, i.e. an exact
   advantage of one frame; binary32 yields 0 *)
Lemma ts_avg_not_exact :
  ts_avg_of_sums (-116) (-56) = 0 /\ Z.quot (-56 - -116) (2 * FRAME_WINDOW_SIZE) = 1.
Proof. split; vm_compute; reflexivity. Qed.

(* ------------------------------------------------------------------ *)
(* witnesses for the non-vacuity examples of props/C15.v              *)
(* ------------------------------------------------------------------ *)
Definition ts_ex_steady : time_sync :=
  {| ts_local := repeat (-5) 10 ++ repeat (-6) 10 ++ repeat (-4) 10;
     ts_remote := repeat 5 15 ++ repeat 6 15 |}.

Lemma ts_ex_steady_ok :
  ts_wf ts_ex_steady /\
  Forall (fun x => - 5 - 1 <= x <= - 5 + 1) (ts_local ts_ex_steady) /\
  Forall (fun x => 5 - 1 <= x <= 5 + 1) (ts_remote ts_ex_steady) /\
  ts_average_frame_advantage true ts_ex_steady = Ok 5 /\
  ts_average_frame_advantage true (ts_mirror ts_ex_steady) = Ok (-5).
Proof.
  split; [split; vm_compute; reflexivity|].
  split; [cbn [ts_ex_steady ts_local repeat app]; repeat constructor; lia|].
  split; [cbn [ts_ex_steady ts_remote repeat app]; repeat constructor; lia|].
  split; vm_compute; reflexivity.
Qed.

Definition ts_ex_stale : time_sync := {| ts_local := repeat 1000 30; ts_remote := repeat (-1000) 30 |}.
Definition ts_ex_writes : list (Z * Z) := repeat (3, -3) 20 ++ repeat (4, -2) 20.

Lemma ts_ex_settles_ok :
  ts_wf ts_ex_stale /\ FRAME_WINDOW_SIZE <= Z.of_nat (length ts_ex_writes) /\
  Forall (fun w => (- -3 - 1 <= fst w <= - -3 + 1) /\ (-3 - 1 <= snd w <= -3 + 1)) ts_ex_writes /\
  match ts_run ts_ex_stale 7 ts_ex_writes with
  | Ok ts => ts_average_frame_advantage true ts
  | _ => Err
  end = Ok (-3).
Proof.
  split; [split; vm_compute; reflexivity|].
  split; [vm_compute; discriminate|].
  split; [cbn [ts_ex_writes repeat app]; repeat constructor; cbn [fst snd]; lia|].
  vm_compute; reflexivity.
Qed.

(* ------------------------------------------------------------------ *)
(* the recommendation gate                                            *)
(* ------------------------------------------------------------------ *)
Lemma gate_consts : MIN_RECOMMENDATION = 3 /\ RECOMMENDATION_INTERVAL = 60.
Proof. split; vm_compute; reflexivity. Qed.

(* the conversion to u32 can never fail: the gate lets only fa >= MIN_RECOMMENDATION > 0 through *)
Lemma gate_step_total : forall next cf fa, exists n' o, gate_step next cf fa = Ok (n', o).
Proof.
  intros next cf fa. unfold gate_step. destruct gate_consts as [Hm _].
  destruct ((next <? cf) && (MIN_RECOMMENDATION <=? fa)) eqn:Hc.
  - destruct (fa <? 0) eqn:Hn; [exfalso; lia|]. eauto.
  - eauto.
Qed.

Lemma gate_step_spec : forall next cf fa n' o, gate_step next cf fa = Ok (n', o) ->
  (o = Some fa /\ next < cf /\ MIN_RECOMMENDATION <= fa /\ n' = cf + RECOMMENDATION_INTERVAL) \/
  (o = None /\ n' = next /\ ~ (next < cf /\ MIN_RECOMMENDATION <= fa)).
Proof.
  intros next cf fa n' o. unfold gate_step.
  destruct ((next <? cf) && (MIN_RECOMMENDATION <=? fa)) eqn:Hc.
  - destruct (fa <? 0) eqn:Hn; [discriminate|]. intros H; inversion H; subst. left. repeat split; lia.
  - intros H; inversion H; subst. right. repeat split; lia.
Qed.

Lemma gate_run_length : forall calls next, length (gate_run next calls) = length calls.
Proof.
  induction calls as [|[cf fa] r IH]; intros next; cbn [gate_run length]; [reflexivity|].
  destruct (gate_step_total next cf fa) as (n' & o & E). rewrite E. cbn [length]. now rewrite IH.
Qed.

(* the gate state only grows, and every event of a run is raised at a frame above the state it started from *)
Lemma gate_run_above : forall calls next cf fa k,
  In (cf, fa, Some k) (gate_run next calls) -> next < cf /\ k = fa /\ MIN_RECOMMENDATION <= fa.
Proof.
  induction calls as [|[cf0 fa0] r IH]; intros next cf fa k HIn; cbn [gate_run] in HIn; [contradiction|].
  destruct (gate_step next cf0 fa0) as [[n' o]| |] eqn:E; [|contradiction|contradiction].
  assert (Hge : next <= n').
  { destruct (gate_step_spec _ _ _ _ _ E) as [(_ & H1 & _ & H2)|(_ & H2 & _)]; destruct gate_consts; lia. }
  destruct HIn as [HIn|HIn].
  - inversion HIn; subst.
    destruct (gate_step_spec _ _ _ _ _ E) as [(H0 & H1 & H2 & _)|(H0 & _)]; [|discriminate].
    inversion H0; subst. repeat split; assumption.
  - destruct (IH _ _ _ _ HIn) as (H1 & H2 & H3). repeat split; try assumption. lia.
Qed.

Lemma gate_run_split : forall calls next pre cf fa o post,
  gate_run next calls = pre ++ (cf, fa, o) :: post ->
  exists n' rest, post = gate_run n' rest /\ (forall k, o = Some k -> n' = cf + RECOMMENDATION_INTERVAL).
Proof.
  induction calls as [|[cf0 fa0] r IH]; intros next pre cf fa o post H; cbn [gate_run] in H.
  - destruct pre; discriminate.
  - destruct (gate_step next cf0 fa0) as [[n' o']| |] eqn:E; [|destruct pre; discriminate|destruct pre; discriminate].
    destruct pre as [|x pre]; cbn [app] in H.
    + inversion H; subst. exists n', r. split; [reflexivity|]. intros k Hk.
      destruct (gate_step_spec _ _ _ _ _ E) as [(_ & _ & _ & H2)|(H0 & _)]; [assumption|congruence].
    + inversion H; subst. eapply IH; eassumption.
Qed.

Lemma gate_spacing : forall calls next pre cf1 fa1 k1 post cf2 fa2 k2,
  gate_run next calls = pre ++ (cf1, fa1, Some k1) :: post ->
  In (cf2, fa2, Some k2) post ->
  cf1 + RECOMMENDATION_INTERVAL < cf2.
Proof.
  intros calls next pre cf1 fa1 k1 post cf2 fa2 k2 H HIn.
  destruct (gate_run_split _ _ _ _ _ _ _ H) as (n' & rest & Hp & Hn). subst post.
  rewrite <- (Hn k1 eq_refl). exact (proj1 (gate_run_above _ _ _ _ _ HIn)).
Qed.

(* no recommendation is withheld: a call above the gate state with fa >= MIN_RECOMMENDATION raises one *)
Lemma gate_step_emits : forall next cf fa, next < cf -> MIN_RECOMMENDATION <= fa ->
  gate_step next cf fa = Ok (cf + RECOMMENDATION_INTERVAL, Some fa).
Proof.
  intros next cf fa H1 H2. unfold gate_step. destruct gate_consts as [Hm _].
  replace ((next <? cf) && (MIN_RECOMMENDATION <=? fa)) with true by lia.
  destruct (fa <? 0) eqn:Hn; [exfalso; lia|reflexivity].
Qed.

(* the call that follows a recommendation is decided by the interval and the lead alone: it raises the next one
   exactly when it is more than RECOMMENDATION_INTERVAL frames later and the lead is still >= MIN_RECOMMENDATION *)
Lemma gate_next_call : forall calls next pre cf1 fa1 k1 cf fa o post,
  gate_run next calls = pre ++ (cf1, fa1, Some k1) :: (cf, fa, o) :: post ->
  (o = Some fa /\ cf1 + RECOMMENDATION_INTERVAL < cf /\ MIN_RECOMMENDATION <= fa) \/
  (o = None /\ ~ (cf1 + RECOMMENDATION_INTERVAL < cf /\ MIN_RECOMMENDATION <= fa)).
Proof.
  intros calls next pre cf1 fa1 k1 cf fa o post H.
  destruct (gate_run_split _ _ _ _ _ _ _ H) as (n' & rest & Hp & Hn).
  specialize (Hn k1 eq_refl). subst n'.
  destruct rest as [|[c f] r]; cbn [gate_run] in Hp; [discriminate|].
  destruct (gate_step (cf1 + RECOMMENDATION_INTERVAL) c f) as [[n'' o']| |] eqn:E; [|discriminate|discriminate].
  inversion Hp; subst.
  destruct (gate_step_spec _ _ _ _ _ E) as [(H0 & H1 & H2 & _)|(H0 & _ & H2)]; [left|right]; repeat split; assumption.
Qed.

(* a lasting lead: n calls at the consecutive frames c, c+1, ... with the same frames_ahead *)
Fixpoint gate_steady (c : Z) (n : nat) (fa : Z) : list (Z * Z) :=
  match n with O => [] | S k => (c, fa) :: gate_steady (c + 1) k fa end.

(* cadence: recommendations come exactly every RECOMMENDATION_INTERVAL + 1 frames, starting at the first frame
   above the gate state *)
Lemma gate_steady_cadence : forall n next c fa cf o,
  MIN_RECOMMENDATION <= fa -> next < c + RECOMMENDATION_INTERVAL ->
  In (cf, fa, o) (gate_run next (gate_steady c n fa)) ->
  (o = Some fa /\ (cf - Z.max (next + 1) c) mod (RECOMMENDATION_INTERVAL + 1) = 0) \/
  (o = None /\ (cf - Z.max (next + 1) c) mod (RECOMMENDATION_INTERVAL + 1) <> 0).
Proof.
  induction n as [|k IH]; intros next c fa cf o Hfa Hn HIn; cbn [gate_steady gate_run] in HIn; [contradiction|].
  destruct gate_consts as [Hm Hr].
  destruct (gate_step next c fa) as [[n' o']| |] eqn:E; [|contradiction|contradiction].
  destruct (gate_step_spec _ _ _ _ _ E) as [(H0 & H1 & H2 & H3)|(H0 & H3 & H4)].
  - destruct HIn as [HIn|HIn].
    + inversion HIn; subst. left. split; [reflexivity|].
      replace (Z.max (next + 1) cf) with cf by lia. replace (cf - cf) with 0 by lia. rewrite Hr. reflexivity.
    + subst n'. assert (Hn' : c + RECOMMENDATION_INTERVAL < c + 1 + RECOMMENDATION_INTERVAL) by lia.
      destruct (IH _ _ _ _ _ Hfa Hn' HIn) as [(A & B)|(A & B)]; [left|right]; (split; [exact A|]);
        rewrite Hr in *; lia.
  - destruct HIn as [HIn|HIn].
    + inversion HIn; subst. right. split; [reflexivity|]. rewrite Hr in *. lia.
    + subst n'. assert (Hn' : next < c + 1 + RECOMMENDATION_INTERVAL) by lia.
      destruct (IH _ _ _ _ _ Hfa Hn' HIn) as [(A & B)|(A & B)]; [left|right]; (split; [exact A|]);
        rewrite Hr in *; lia.
Qed.

Definition gate_ex_calls : list (Z * Z) :=
  [(1, 0); (2, 3); (3, 5); (40, 7); (62, 2); (63, 4); (64, 4); (123, 2); (124, 9)].
Lemma gate_ex_ok : gate_run gate_init gate_ex_calls =
  [(1, 0, None); (2, 3, Some 3); (3, 5, None); (40, 7, None); (62, 2, None); (63, 4, Some 4);
   (64, 4, None); (123, 2, None); (124, 9, Some 9)].
Proof. vm_compute. reflexivity. Qed.
