(* C01's timeline theorems for SPARSE SAVING.  SessionTimeline.v states the run theorems once for both saving
   modes (section Generic: the mode supplies "every operation in the space succeeds and keeps the cells
   invariant" and "advance_frame keeps the timeline invariant TI").  This file supplies the two for sparse
   saving - the rollback step there is `load last_saved_frame, re-simulate, save the confirmed frame on the
   way`, possibly twice in one call (misprediction, then the forced save of check_last_saved_state) - and
   instantiates the theorems. *)
From GGRS Require Import Base Consts Queue QueueProofs QueueTheorems Sync P2P Session SessionProofs SessionSparse SessionProgress SessionSparse2 SessionTimeline.
From Coq Require Import ZifyBool ZifyNat ZifyN.
Ltac Zify.zify_post_hook ::= Z.div_mod_to_equations.
Open Scope Z_scope.

(* SX without the ghost histories: what the session holds of each player is read off the connection statuses *)
Record SXs (p : p2p) : Prop := {
  sxs_range : -1 <= s_last_saved (ps_sync p) <= s_current (ps_sync p);
  sxs_null : s_last_saved (ps_sync p) = NULL -> s_current (ps_sync p) = 0;
  sxs_conf : s_last_confirmed (ps_sync p) <= s_last_saved (ps_sync p);
  sxs_held : Forall (fun st => s_last_saved (ps_sync p) <= Z.max 0 (cs_last st)) (ps_status p);
  sxs_fi : Forall (fun q => q_first_incorrect q <> NULL -> s_last_saved (ps_sync p) <= q_first_incorrect q) (s_queues (ps_sync p));
}.

Lemma held_status_ghost : forall S (st : list cstat) (gs : list ghost),
  Forall2 (fun s g => cs_last s = hlen (fst g) - 1) st gs ->
  (Forall (fun s => S <= Z.max 0 (cs_last s)) st <-> Forall (fun g : ghost => S <= Z.max 0 (hlen (fst g) - 1)) gs).
Proof.
  intros S st gs H. induction H as [|s g st gs Hsg H IH]; [split; constructor|].
  split; intros X; inversion X; subst; constructor; try (apply IH; assumption); lia.
Qed.

Lemma SX_of_SXs : forall sp w d p gs, QSg sp w d p gs -> SXs p -> SX p gs.
Proof.
  intros sp w d p gs HQS [A B C D E]. constructor; try assumption.
  apply (held_status_ghost _ _ _ (qs_last _ _ _ _ HQS)). exact D.
Qed.
Lemma SXs_of_SX : forall sp w d p gs, QSg sp w d p gs -> SX p gs -> SXs p.
Proof.
  intros sp w d p gs HQS [A B C D E]. constructor; try assumption.
  apply (held_status_ghost _ _ _ (qs_last _ _ _ _ HQS)). exact D.
Qed.

Section SparseTimeline.
Variable predict : Z -> Z.
Hypothesis predict_idem : forall x, predict (predict x) = predict x.
Hypothesis predict_zero : predict 0 = 0.

Notation GIl := (GIl predict).
Notation TI := (TI predict).
Notation truthful_lt := (truthful_lt predict).

(* the optional rollback at the start of handle_rollback_and_save, seen from the game's history *)
Lemma first_gi : forall p gs L cf o p2 o2 G,
  (if check_simulation_consistency (ps_sync p) (ps_disc_frame p) =? NULL then Ok (p, o)
   else res_bind (adjust_gamestate predict p (check_simulation_consistency (ps_sync p) (ps_disc_frame p)) cf o)
          (fun '(p1, o1) => Ok (with_disc_frame p1 NULL, o1))) = Ok (p2, o2) ->
  ps_sparse p = true -> connected (ps_status p) -> length (ps_status p) = length (s_queues (ps_sync p)) ->
  QsI (s_current (ps_sync p)) L (s_queues (ps_sync p)) gs ->
  L <= s_last_saved (ps_sync p) -> -1 <= L ->
  Forall (fun q => q_first_incorrect q <> NULL -> s_last_saved (ps_sync p) <= q_first_incorrect q) (s_queues (ps_sync p)) ->
  glen G = s_current (ps_sync p) -> GIl (s_current (ps_sync p)) G (s_queues (ps_sync p)) gs ->
  PNl (s_current (ps_sync p)) (s_queues (ps_sync p)) gs ->
  exists R, o_requests o2 = o_requests o ++ R /\
    GIl (s_current (ps_sync p)) (replay_hist G R) (s_queues (ps_sync p2)) gs /\
    glen (replay_hist G R) = s_current (ps_sync p) /\ PNl (s_current (ps_sync p)) (s_queues (ps_sync p2)) gs /\
    Forall (truthful_lt (s_current (ps_sync p)) gs) (adv_frames G R).
Proof.
  intros p gs L cf o p2 o2 G E Hsp Hcon Hlen HQ HLS HL Hfi HG HGI HPN.
  destruct (_ =? NULL).
  - injection E as <- <-. exists []. rewrite app_nil_r. cbn [replay_hist adv_frames].
    split; [reflexivity|]. split; [exact HGI|]. split; [exact HG|]. split; [exact HPN|constructor].
  - apply res_bind_ok in E. destruct E as ([p3 o3] & Ea & E). injection E as <- <-.
    cbn [with_disc_frame ps_sync].
    apply (adjust_gi_gen predict predict_idem p gs L _ cf o p3 o3 G Ea Hcon Hlen HQ); rewrite ?Hsp; try assumption.
    eapply Forall_impl; [|exact Hfi]. cbv beta. intros q Hq.
    destruct (Z.eq_dec (q_first_incorrect q) NULL) as [En|En]; [left; exact En|right; exact (Hq En)].
Qed.

(* the forced save, seen from the game's history *)
Lemma check_gi : forall p gs L S cf o p1 o1 G,
  check_last_saved_state predict p S cf o = Ok (p1, o1) ->
  ps_sparse p = true -> connected (ps_status p) -> length (ps_status p) = length (s_queues (ps_sync p)) ->
  QsI (s_current (ps_sync p)) L (s_queues (ps_sync p)) gs -> all_clean (s_queues (ps_sync p)) ->
  L <= s_last_saved (ps_sync p) -> -1 <= L ->
  glen G = s_current (ps_sync p) -> GIl (s_current (ps_sync p)) G (s_queues (ps_sync p)) gs ->
  PNl (s_current (ps_sync p)) (s_queues (ps_sync p)) gs ->
  exists R, o_requests o1 = o_requests o ++ R /\
    GIl (s_current (ps_sync p)) (replay_hist G R) (s_queues (ps_sync p1)) gs /\
    glen (replay_hist G R) = s_current (ps_sync p) /\ PNl (s_current (ps_sync p)) (s_queues (ps_sync p1)) gs /\
    Forall (truthful_lt (s_current (ps_sync p)) gs) (adv_frames G R).
Proof.
  intros p gs L S cf o p1 o1 G E Hsp Hcon Hlen HQ Hcl HLS HL HG HGI HPN.
  unfold check_last_saved_state in E.
  destruct (_ <? ps_maxpred p).
  - injection E as <- <-. exists []. rewrite app_nil_r. cbn [replay_hist adv_frames].
    split; [reflexivity|]. split; [exact HGI|]. split; [exact HG|]. split; [exact HPN|constructor].
  - apply res_bind_ok in E. destruct E as ([p3 o3] & E3 & E). destruct (negb _); [discriminate|]. injection E as <- <-.
    destruct (_ <=? cf).
    + apply res_bind_ok in E3. destruct E3 as ([s3 r] & Es & E3). injection E3 as <- <-.
      destruct (save_current_state_inv _ _ _ Es) as (_ & -> & _ & Hq3 & _).
      exists [RSave (s_current (ps_sync p))]. cbn [add_req o_requests replay_hist adv_frames with_sync ps_sync]. rewrite Hq3.
      split; [reflexivity|]. split; [exact HGI|]. split; [exact HG|]. split; [exact HPN|constructor].
    + apply (adjust_gi_gen predict predict_idem p gs L S cf o p3 o3 G E3 Hcon Hlen HQ); rewrite ?Hsp; try assumption.
      eapply Forall_impl; [|exact Hcl]. cbv beta. intros q Hq. left. exact Hq.
Qed.

(* the rollback step of a sparse-saving session: progress and timeline together *)
Lemma sparse_rollback_ti : forall p gs g w d o cf G,
  QSg true w d p gs -> JS w p g -> SX p gs -> 0 <= s_last_saved (ps_sync p) ->
  confirmed_frame p = Ok cf -> s_last_confirmed (ps_sync p) <= cf ->
  Forall (fun c => cs_last c < I32MAX) (ps_status p) -> TI p gs G ->
  HRti predict p gs cf o G.
Proof.
  intros p gs g w d o cf G HQS HJS HSX HS0 Ecf HLcf Hbnd (HG & HGI & HPN).
  destruct (sparse_rollback predict p gs g w d o cf HQS HJS HSX HS0 Ecf HLcf Hbnd) as (p1 & o1 & HR & _).
  pose proof HR as (Er & _).
  pose proof HSX as [X1 X2 X3 X4 X5].
  pose proof HQS as [Hw Hd Hmode Hn Hconn Hgos HQ Hlast Hfr Hkinds Hpe Hsok].
  destruct Hw as (Hw1 & Hw2 & Hw3). destruct Hmode as (Hrun & Hsp & Hdf).
  destruct Hn as (Hn1 & Hn2 & Hn3 & Hn4). destruct Hfr as (HfL & Hfc & Hfw).
  pose proof (js_w _ _ _ HJS) as Hw1p. rewrite (Z.max_r 1 w) in Hfw by lia.
  pose proof (QsI_length _ _ _ _ HQ) as Hlq.
  assert (HScf : s_last_saved (ps_sync p) <= Z.max 0 cf).
  { destruct (confirmed_frame_spec p Hconn) as (cf' & Ecf' & _ & Hex); [|exact Hbnd|].
    { intro E. rewrite E in Hn4. cbn in Hn4. lia. }
    rewrite Ecf in Ecf'. injection Ecf' as <-.
    pose proof (cf_is_held _ _ _ Hlast Hex) as Hex2.
    destruct (Forall_Exists_both _ _ _ X4 Hex2) as (g0 & G1 & G2). lia. }
  destruct (sparse_first_progress predict p gs g w d o cf HQS HJS HSX HS0 HLcf HScf)
    as (p2 & o2 & E2 & Hshape2 & HQ2 & Hcl2 & Hsu2 & HL2 & Hc2 & Hst2 & Hidle2 & HLS2 & HS2 & HScf2 & g2 & Hgf2 & Hcells2).
  destruct (first_gi p gs _ cf o p2 o2 G E2 Hsp Hconn ltac:(lia) HQ X3 ltac:(lia) X5 HG HGI HPN) as (R1 & Ho2 & HGI2 & HG2 & HPN2 & HTR2).
  assert (Hsp2 : ps_sparse p2 = true) by (rewrite Hshape2; cbn; exact Hsp).
  assert (Hmpp2 : ps_maxpred p2 = w) by (rewrite Hshape2; cbn; exact Hw2).
  assert (Hmp2 : s_maxpred (ps_sync p2) = w) by (destruct Hcells2 as (X & _); exact X).
  assert (Hlen2 : length (ps_status p2) = length (s_queues (ps_sync p2))) by (rewrite Hst2; pose proof (QsI_length _ _ _ _ HQ2); lia).
  assert (Hcon2 : connected (ps_status p2)) by (rewrite Hst2; exact Hconn).
  destruct (sparse_check_progress predict p2 gs g2 w (s_last_confirmed (ps_sync p)) cf o2 Hsp2) as (p1' & o1' & E1 & _);
    try (first [assumption|rewrite ?Hc2, ?Hst2; first [assumption|lia]]).
  assert (Er' : handle_rollback_and_save predict p cf o = Ok (p1', o1')).
  { unfold handle_rollback_and_save. rewrite E2. cbn [res_bind]. rewrite Hsp2. exact E1. }
  rewrite Er in Er'. injection Er' as <- <-.
  rewrite <- Hc2 in HQ2, HG2, HGI2, HPN2.
  destruct (check_gi p2 gs _ _ cf o2 p1 o1 (replay_hist G R1) E1 Hsp2 Hcon2 Hlen2 HQ2 Hcl2 HLS2 ltac:(lia) HG2 HGI2 HPN2)
    as (R2 & Ho1 & HGI1 & HG1 & HPN1 & HTR1).
  rewrite Hc2 in HGI1, HG1, HPN1, HTR1.
  exists p1, o1, (R1 ++ R2). split; [exact HR|]. split; [rewrite Ho1, Ho2, app_assoc; reflexivity|].
  rewrite replay_hist_app. split; [exact HGI1|]. split; [exact HG1|]. split; [exact HPN1|].
  rewrite adv_frames_app. apply Forall_app. split; [exact HTR2|exact HTR1].
Qed.

(* the cells invariant of sparse saving, as the generic run theorems want it *)
Definition CIs (w : Z) (p : p2p) (g : game) : Prop := JS w p g /\ SXs p.

Lemma sparse_CI_step : forall p gs g w d o,
  QSg true w d p gs -> CIs w p g -> op_ok p o = true ->
  exists s g', sstep predict p o = Ok s /\ exec w g (o_requests (sr_out s)) = Some g' /\ CIs w (sr_state s) g'.
Proof.
  intros p gs g w d o HQS (HJS & HX) Hok.
  destruct (sparse_step_in_space predict p gs g w d o HQS HJS (SX_of_SXs _ _ _ _ _ HQS HX) Hok) as (s & gs' & g' & Es & HQ' & Ex & HJ' & HX').
  exists s, g'. split; [exact Es|]. split; [exact Ex|]. split; [exact HJ'|exact (SXs_of_SX _ _ _ _ _ HQ' HX')].
Qed.

Lemma sparse_CI_frame : forall w p g, CIs w p g -> gframe g = s_current (ps_sync p).
Proof. intros w p g (HJ & _). exact (js_frame _ _ _ HJ). Qed.

Lemma sparse_CI_start : forall n w d kinds eps nspec, 1 <= w -> CIs w (session_start n w true d kinds eps nspec) (game0 w).
Proof.
  intros n w d kinds eps nspec Hw. split; [apply JS_start; exact Hw|].
  pose proof (SX_start n w d kinds eps nspec) as [A B C D E]. constructor; try assumption.
  apply Forall_forall. intros st Hst. unfold session_start, p2p_new in Hst. cbn [with_running ps_status] in Hst.
  apply repeat_spec in Hst. subst st.
  change (s_last_saved (ps_sync (session_start n w true d kinds eps nspec))) with NULL. unfold cs_default, NULL. cbn [cs_last]. lia.
Qed.

(* advance_frame of a sparse-saving session keeps the timeline invariant *)
Lemma sparse_advance_timeline : forall p gs g w d p' o r G,
  advance predict p = Ok (p', o, r) ->
  QSg true w d p gs -> CIs w p g -> Forall (fun c => cs_last c < I32MAX) (ps_status p) ->
  Forall (fun c => cs_last c + 1 < I32MAX) (ps_status p) -> TI p gs G ->
  exists gs', QSg true w d p' gs' /\ TI p' gs' (replay_hist G (o_requests o)) /\
    hist_step d (ps_pending p) (local_handles p) gs gs' /\ ps_kinds p' = ps_kinds p /\ spec_step p gs' o p' /\
    Forall (truthful_lt (s_current (ps_sync p')) gs') (adv_frames G (o_requests o)) /\ sends_adv p gs gs' p' o.
Proof.
  intros p gs g w d p' o r G E HQS (HJS & HXs) Hbnd _ HTI.
  pose proof (SX_of_SXs _ _ _ _ _ HQS HXs) as HSX.
  pose proof HQS as [Hw Hd Hmode Hn Hconn Hgos HQ Hlast Hfr Hkinds Hpe Hsok].
  destruct Hw as (Hw1 & Hw2 & Hw3). destruct Hmode as (Hrun & Hsp & Hdf). destruct Hfr as (HfL & Hfc & Hfw).
  pose proof (js_w _ _ _ HJS) as Hw1p. rewrite (Z.max_r 1 w) in Hfw by lia.
  unfold advance in E. rewrite Hrun in E. cbn [negb] in E.
  destruct (forallb _ (local_handles p)) eqn:Efa; cbn [negb] in E.
  2:{ injection E as <- <- <-. exists gs. split; [exact HQS|]. split; [exact HTI|]. split; [apply hist_step_refl|]. split; [reflexivity|]. split; [apply spec_step_none; [exact Hsok|reflexivity..]|split; [constructor|intros HO; split; [exact HO|constructor]]]. }
  assert (Hpend : forall h, In h (local_handles p) -> exists pi, assoc_get (ps_pending p) h = Some pi).
  { intros h Hin. rewrite forallb_forall in Efa. specialize (Efa h Hin).
    destruct (assoc_get (ps_pending p) h); [eauto|discriminate]. }
  assert ((ps_maxpred p =? 0) = false) as Hm0 by lia. rewrite Hm0 in E. cbn [negb] in E.
  assert (Hfirst : exists p1 o1 g1, (if (s_current (ps_sync p) =? 0) && true
                     then res_bind (save_current_state (ps_sync p)) (fun '(s1, r) => Ok (with_sync p s1, add_req out0 r))
                     else Ok (p, out0)) = Ok (p1, o1) /\ QSg true w d p1 gs /\ JS w p1 g1 /\ SX p1 gs /\
                     0 <= s_last_saved (ps_sync p1) /\ ps_status p1 = ps_status p /\
                     local_handles p1 = local_handles p /\ ps_pending p1 = ps_pending p /\ ps_remotes p1 = ps_remotes p /\
                     TI p1 gs G /\ (forall G0, replay_hist G0 (o_requests o1) = G0) /\ ps_kinds p1 = ps_kinds p /\
                     ps_next_spec p1 = ps_next_spec p /\ ps_spectators p1 = ps_spectators p /\ o_spec_sends o1 = [] /\
                     (forall G0, adv_frames G0 (o_requests o1) = [])).
  { destruct HSX as [X1 X2 X3 X4 X5].
    destruct (Z.eqb_spec (s_current (ps_sync p)) 0) as [Ec|Ec]; cbn [andb].
    - destruct HJS as [Jw Jmp Jsp Jfr Jcur Jcells].
      destruct (save_current_state (ps_sync p)) as [[s1 r0]| |] eqn:Es;
        [|unfold save_current_state in Es; rewrite Ec in Es; discriminate..].
      destruct (sp_save w _ g s1 r0 Jcells ltac:(lia) Jfr Es) as (-> & g1 & _ & Hh1 & Hcl1 & Hc1 & Hsv1 & Hq1 & HL1).
      cbn [res_bind]. exists (with_sync p s1), (add_req out0 (RSave (s_current (ps_sync p)))), g1.
      split; [reflexivity|]. split; [|split; [|split; [|cbn [with_sync ps_sync ps_status ps_pending ps_remotes ps_kinds ps_next_spec ps_spectators add_req out0 o_requests o_spec_sends replay_hist adv_frames];
                                                       rewrite Hsv1; split; [lia|]; split; [reflexivity|]; split; [reflexivity|]; split; [reflexivity|]; split; [reflexivity|]; split; [|repeat split]]]].
      + apply (QS_same_queues true); [exact HQS| |exact Hq1|exact Hc1|exact HL1].
        destruct Hcl1 as (M & _). rewrite M. symmetry. exact Hw3.
      + constructor; cbn [with_sync ps_maxpred ps_sync ps_sparse]; try assumption.
        * unfold gframe in *. rewrite Hh1, Hc1. exact Jfr.
        * lia.
      + constructor; cbn [with_sync ps_sync]; rewrite ?Hsv1, ?Hc1, ?HL1, ?Hq1.
        * lia.
        * unfold NULL. lia.
        * lia.
        * apply Forall_forall. intros g0 _. lia.
        * eapply Forall_impl; [|exact (fi_above_conf _ _ _ _ HQ)]. cbv beta. intros q Hq Hnn. specialize (Hq Hnn). lia.
      + unfold SessionTimeline.TI in *. cbn [with_sync ps_sync]. rewrite Hc1, Hq1. exact HTI.
    - exists p, out0, g. split; [reflexivity|]. split; [exact HQS|]. split; [exact HJS|].
      split; [constructor; assumption|]. split.
      { destruct (Z.eq_dec (s_last_saved (ps_sync p)) NULL) as [En|En]; [specialize (X2 En); lia|unfold NULL in En; lia]. }
      split; [reflexivity|]. split; [reflexivity|]. split; [reflexivity|]. split; [reflexivity|]. split; [exact HTI|]. split; [intros G0; reflexivity|repeat split]. }
  destruct Hfirst as (p1 & o1 & g1 & E1 & HQS1 & HJS1 & HSX1 & HS1 & Hst1 & Hlh1 & Hpe1 & Hrm1 & HTI1 & Hrep1 & Hkk1 & Hns1 & Hss1 & Hos1 & Hadv1).
  pose proof (first_save_out _ _ _ _ E1) as (Hog1 & Hls1 & Hrs1).
  rewrite E1 in E. cbn [res_bind] in E.
  rewrite (update_disconnects_noop p1) in E; [|rewrite Hst1; exact Hconn|rewrite Hrm1; exact Hgos]. cbn [res_bind] in E.
  destruct (advance_rollback_frame predict p1 o1) as [[p3 o3]| |] eqn:E3; cbn [res_bind] in E; try discriminate.
  injection E as <- <- <-.
  assert (Hbnd1 : Forall (fun c => cs_last c < I32MAX) (ps_status p1)) by (rewrite Hst1; exact Hbnd).
  destruct (advance_rollback_timeline_gen predict predict_idem true p1 gs w d o1 p3 o3 G E3 HQS1 Hbnd1)
    as (gs' & R & Ho & HQS' & HTI' & Hh' & Hkk' & HTR' & cf & Ecf & Hsent & Hns' & Hss' & Hout'); [| |exact HTI1|].
  { intros h Hin. rewrite Hpe1. apply Hpend. rewrite <- Hlh1. exact Hin. }
  { intros cf Ecf HLcf _. exact (sparse_rollback_ti p1 gs g1 w d o1 cf G HQS1 HJS1 HSX1 HS1 Ecf HLcf Hbnd1 HTI1). }
  exists gs'. split; [exact HQS'|]. split; [rewrite Ho, replay_hist_app, Hrep1; exact HTI'|]. split; [rewrite <- Hpe1, <- Hlh1; exact Hh'|]. split; [congruence|].
  split; [|split; [rewrite Ho, adv_frames_app, Hadv1, Hrep1; exact HTR'|]].
  2:{ intros (HO & _). destruct Hout' as (HO' & HB' & rounds & Q1 & Q2).
      { intros Hr1. rewrite Hrm1 in Hr1. eapply OI_same; [exact (HO Hr1)|exact Hog1|exact Hls1|exact Hlh1|reflexivity]. }
      split; [split; [exact HO'|exact HB']|]. rewrite Q1, Hrs1. cbn [app]. rewrite <- Hlh1. exact Q2. }
  apply (spec_sent_step predict predict_idem p gs gs' cf); [exact Hsok| | |congruence| |].
  - apply (cf_bound predict predict_idem _ w d p gs cf HQS). unfold confirmed_frame in *. rewrite <- Hst1. exact Ecf.
  - apply (hist_step_grows_gs _ _ _ _ _ Hh').
    destruct (qs_n _ _ _ _ HQS') as (_ & _ & A & _). destruct (qs_n _ _ _ _ HQS) as (_ & _ & B & _). congruence.
  - rewrite Hsent, Hos1. unfold spec_sent. rewrite Hss1, Hns1. reflexivity.
  - rewrite Hns'. unfold next_spec_after. rewrite Hss1, Hns1. reflexivity.
Qed.

(* ---------- the run theorems for sparse saving ---------- *)
Definition sparse_run_timeline :=
  run_timeline_g predict predict_idem predict_zero true CIs sparse_CI_step sparse_advance_timeline sparse_CI_frame.
Definition sparse_confirmed_frames_use_held_inputs :=
  confirmed_frames_use_held_inputs_g predict predict_idem predict_zero true CIs sparse_CI_step sparse_advance_timeline sparse_CI_frame sparse_CI_start.
Definition sparse_host_broadcast_and_game :=
  host_broadcast_and_game_g predict predict_idem predict_zero true CIs sparse_CI_step sparse_advance_timeline sparse_CI_frame sparse_CI_start.
Definition sparse_sends_and_receipts :=
  sends_and_receipts_g predict predict_idem predict_zero true CIs sparse_CI_step sparse_advance_timeline sparse_CI_frame sparse_CI_start.
Definition sparse_confirmed_frames_use_delivered_inputs :=
  confirmed_frames_use_delivered_inputs_g predict predict_idem predict_zero true CIs sparse_CI_step sparse_advance_timeline sparse_CI_frame sparse_CI_start.
Definition sparse_held_inputs_step :=
  held_inputs_step_g predict predict_idem predict_zero true CIs sparse_CI_step sparse_advance_timeline sparse_CI_frame.
Definition sparse_host_broadcast_is_confirmed_timeline :=
  host_broadcast_is_confirmed_timeline_g predict predict_idem predict_zero true CIs sparse_CI_step sparse_advance_timeline sparse_CI_frame sparse_CI_start.

Definition sparse_invariants_reachable :=
  invariants_reachable_g predict predict_idem predict_zero true CIs sparse_CI_step sparse_advance_timeline sparse_CI_frame sparse_CI_start.
Definition sparse_requests_truthful_step :=
  requests_truthful_step_g predict predict_idem predict_zero true CIs sparse_CI_step sparse_advance_timeline sparse_CI_frame.
Definition sparse_confirmed_frame_monotone :=
  confirmed_frame_monotone_g predict predict_idem predict_zero true CIs sparse_CI_step sparse_advance_timeline sparse_CI_frame.

End SparseTimeline.
