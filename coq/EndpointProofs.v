(* Proofs for property C12 (endpoint half) about the model Endpoint.v. *)
From Coq Require Import ZArith List Bool Lia.
From Coq Require Import ZifyBool ZifyNat ZifyN.
From GGRS Require Import Base Consts TimeSync Codec Endpoint EndpointSpec.
Open Scope Z_scope.

(* ---------- record plumbing ---------- *)
Ltac fsimpl :=
  cbn [u_num_players u_handles u_send_queue u_event_queue u_state u_sync_remaining u_sync_requests
       u_last_quality_report u_last_input_recv u_notify_sent u_event_sent u_timeout u_notify_start
       u_shutdown_timeout u_fps u_magic u_remote_magic u_peer_status u_pending_output u_last_acked
       u_max_prediction u_recv_inputs u_time_sync u_local_adv u_remote_adv u_stats_start u_rtt
       u_last_send_time u_last_sync_request_time u_last_recv_time u_pending_checksums u_desync
       set_send_queue set_event_queue set_state set_sync_remaining set_sync_requests
       set_last_quality_report set_last_input_recv set_notify_sent set_event_sent set_shutdown_timeout
       set_remote_magic set_peer_status set_pending_output set_last_acked set_recv_inputs set_time_sync
       set_local_adv set_remote_adv set_stats_start set_rtt set_last_send_time
       set_last_sync_request_time set_last_recv_time set_pending_checksums
       push_event queue_message send_sync_request send_input_ack send_keep_alive send_checksum_report
       fst snd] in *.

Lemma pstate_eqb_eq : forall a b, pstate_eqb a b = true <-> a = b.
Proof. destruct a, b; cbn; split; intro H; try reflexivity; discriminate. Qed.
Lemma pstate_eqb_refl : forall a, pstate_eqb a a = true.
Proof. destruct a; reflexivity. Qed.

(* the control part of an endpoint: everything the C12 theorems talk about *)
Definition same_ctl (s s' : ep) : Prop :=
  u_state s' = u_state s /\ u_sync_remaining s' = u_sync_remaining s /\
  u_sync_requests s' = u_sync_requests s /\ u_notify_sent s' = u_notify_sent s /\
  u_event_sent s' = u_event_sent s /\ u_remote_magic s' = u_remote_magic s /\
  u_last_recv_time s' = u_last_recv_time s /\ u_notify_start s' = u_notify_start s /\
  u_timeout s' = u_timeout s /\ u_last_sync_request_time s' = u_last_sync_request_time s.

Lemma same_ctl_refl : forall s, same_ctl s s.
Proof. intro s; repeat split. Qed.
Lemma same_ctl_trans : forall a b c, same_ctl a b -> same_ctl b c -> same_ctl a c.
Proof.
  unfold same_ctl; intros a b c H1 H2.
  destruct H1 as (?&?&?&?&?&?&?&?&?&?), H2 as (?&?&?&?&?&?&?&?&?&?).
  repeat split; congruence.
Qed.

Definition is_input (e : event) : bool := match e with EvInput _ _ _ => true | _ => false end.

(* ---------- helper lemmas about the building blocks ---------- *)
Lemma send_pending_output_ctl : forall now cs s s',
  send_pending_output now cs s = Ok s' ->
  same_ctl s s' /\ u_event_queue s' = u_event_queue s /\ u_pending_output s' = u_pending_output s.
Proof.
  intros now cs s s' H. unfold send_pending_output in H.
  destruct (u_pending_output s) as [|[f b] r] eqn:E.
  - inversion H; subst. rewrite E. repeat split.
  - destruct ((fst (u_last_acked s) =? NULL) || (fst (u_last_acked s) + 1 =? f)); [|discriminate].
    inversion H; subst. fsimpl. rewrite E. repeat split.
Qed.

Lemma send_quality_report_ctl : forall now s s',
  send_quality_report now s = Ok s' ->
  same_ctl s s' /\ u_event_queue s' = u_event_queue s /\ u_pending_output s' = u_pending_output s.
Proof.
  intros now s s' H. unfold send_quality_report in H.
  destruct (ts_report_frame_advantage _); inversion H; subst. fsimpl. repeat split.
Qed.

Lemma pop_pending_output_ctl : forall ack s,
  same_ctl s (pop_pending_output ack s) /\ u_event_queue (pop_pending_output ack s) = u_event_queue s.
Proof.
  intros ack s. unfold pop_pending_output. destruct (pop_pending _ _ _). fsimpl. repeat split.
Qed.

Lemma on_checksum_report_ctl : forall dbg c f s s',
  on_checksum_report dbg c f s = Ok s' -> same_ctl s s' /\ u_event_queue s' = u_event_queue s.
Proof.
  intros dbg c f s s' H. unfold on_checksum_report in H.
  cbv zeta in H.
  destruct (match u_desync s with Some i => Ok i | None => _ end) as [iv| |]; try discriminate.
  destruct (MAX_CHECKSUM_HISTORY_SIZE <=? _);
   [destruct (ts_i32_arith dbg _); try discriminate; destruct (ts_i32_arith dbg _); try discriminate|];
   inversion H; subst; fsimpl; repeat split.
Qed.

Lemma input_events_all_input : forall f vs hs evs,
  input_events f vs hs = Ok evs -> forallb is_input evs = true.
Proof.
  induction vs as [|v vs IH]; intros hs evs H; cbn in H.
  - inversion H; reflexivity.
  - destruct hs as [|h hs]; [discriminate|].
    destruct (input_events f vs hs) eqn:E; try discriminate. inversion H; subst. cbn. eauto.
Qed.

Lemma accept_inputs_ctl : forall dbg start inputs i s b s',
  accept_inputs dbg start i inputs s = Ok (b, s') ->
  same_ctl s s' /\ exists evs, u_event_queue s' = u_event_queue s ++ evs /\ forallb is_input evs = true.
Proof.
  induction inputs as [|inp rest IH]; intros i s b s' H; cbn [accept_inputs] in H.
  - inversion H; subst. split; [apply same_ctl_refl|]. exists []. rewrite app_nil_r. auto.
  - destruct (ts_i32_arith dbg (start + i)) as [fr| |]; try discriminate.
    destruct (fr <=? last_recv_frame s).
    + eapply IH; eauto.
    + destruct (to_player_inputs _ inp) as [vals|].
      * destruct (input_events fr vals (u_handles s)) as [evs| |] eqn:Ee; try discriminate.
        apply IH in H. destruct H as [Hc (evs' & Hq & Hall)]. fsimpl.
        split.
        -- eapply same_ctl_trans; [|exact Hc]. repeat split.
        -- exists (evs ++ evs'). rewrite Hq, app_assoc. split; [reflexivity|].
           rewrite forallb_app, Hall, (input_events_all_input _ _ _ _ Ee). reflexivity.
      * inversion H; subst. split; [apply same_ctl_refl|]. exists []. rewrite app_nil_r. auto.
Qed.
