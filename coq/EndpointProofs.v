(* Proofs for property C12 (endpoint half) about the model Endpoint.v. *)
From Coq Require Import ZArith List Bool Lia.
From Coq Require Import ZifyBool ZifyNat ZifyN.
From GGRS Require Import Base Consts TimeSync Codec Endpoint EndpointSpec.
Open Scope Z_scope.

(* ---------- record plumbing ---------- *)
Ltac fsimpl :=
  cbn [u_num_players u_handles u_send_queue u_event_queue u_state u_sync_remaining u_sync_requests
       u_last_quality_report u_last_input_recv u_notify_sent u_event_sent u_timeout u_notify_start
       u_shutdown_timeout u_fps u_magic u_remote_magic u_peer_status u_pending_output u_last_acked
       u_max_prediction u_recv_inputs u_time_sync u_local_adv u_remote_adv u_stats_start u_rtt
       u_last_send_time u_last_sync_request_time u_last_recv_time u_pending_checksums u_desync
       set_send_queue set_event_queue set_state set_sync_remaining set_sync_requests
       set_last_quality_report set_last_input_recv set_notify_sent set_event_sent set_shutdown_timeout
       set_remote_magic set_peer_status set_pending_output set_last_acked set_recv_inputs set_time_sync
       set_local_adv set_remote_adv set_stats_start set_rtt set_last_send_time
       set_last_sync_request_time set_last_recv_time set_pending_checksums
       push_event queue_message send_sync_request send_input_ack send_keep_alive send_checksum_report
       fst snd] in *.

Lemma pstate_eqb_eq : forall a b, pstate_eqb a b = true <-> a = b.
Proof. destruct a, b; cbn; split; intro H; try reflexivity; discriminate. Qed.
Lemma pstate_eqb_refl : forall a, pstate_eqb a a = true.
Proof. destruct a; reflexivity. Qed.

(* the control part of an endpoint: everything the C12 theorems talk about, except the two event fields *)
Definition same_ctl (s s' : ep) : Prop :=
  u_state s' = u_state s /\ u_sync_remaining s' = u_sync_remaining s /\
  u_sync_requests s' = u_sync_requests s /\ u_notify_sent s' = u_notify_sent s /\
  u_remote_magic s' = u_remote_magic s /\
  u_last_recv_time s' = u_last_recv_time s /\ u_notify_start s' = u_notify_start s /\
  u_timeout s' = u_timeout s /\ u_last_sync_request_time s' = u_last_sync_request_time s.

Lemma same_ctl_refl : forall s, same_ctl s s.
Proof. intro s; repeat split. Qed.
Lemma same_ctl_trans : forall a b c, same_ctl a b -> same_ctl b c -> same_ctl a c.
Proof.
  unfold same_ctl; intros a b c H1 H2.
  destruct H1 as (?&?&?&?&?&?&?&?&?), H2 as (?&?&?&?&?&?&?&?&?).
  repeat split; congruence.
Qed.

(* nothing C12 talks about changes *)
Definition frame (s s' : ep) : Prop :=
  same_ctl s s' /\ u_event_sent s' = u_event_sent s /\ u_event_queue s' = u_event_queue s.
Lemma frame_refl : forall s, frame s s.
Proof. intro s; repeat split. Qed.
Lemma frame_trans : forall a b c, frame a b -> frame b c -> frame a c.
Proof.
  intros a b c (H1 & H2 & H3) (H4 & H5 & H6). split; [eapply same_ctl_trans; eauto|]. split; congruence.
Qed.

Definition is_input (e : event) : bool := match e with EvInput _ _ _ => true | _ => false end.

(* ---------- helper lemmas about the building blocks ---------- *)
Lemma send_pending_output_ctl : forall now cs s s',
  send_pending_output now cs s = Ok s' -> frame s s' /\ u_pending_output s' = u_pending_output s.
Proof.
  intros now cs s s' H. unfold send_pending_output in H.
  destruct (u_pending_output s) as [|[f b] r] eqn:E.
  - inversion H; subst. rewrite E. repeat split.
  - destruct ((fst (u_last_acked s) =? NULL) || (fst (u_last_acked s) + 1 =? f)); [|discriminate].
    inversion H; subst. fsimpl. rewrite E. repeat split.
Qed.

Lemma send_quality_report_ctl : forall now s s',
  send_quality_report now s = Ok s' -> frame s s' /\ u_pending_output s' = u_pending_output s.
Proof.
  intros now s s' H. unfold send_quality_report in H.
  destruct (ts_report_frame_advantage _); inversion H; subst. fsimpl. repeat split.
Qed.

Lemma pop_pending_output_ctl : forall ack s, frame s (pop_pending_output ack s).
Proof.
  intros ack s. unfold pop_pending_output. destruct (pop_pending _ _ _). fsimpl. repeat split.
Qed.

Lemma on_checksum_report_ctl : forall dbg c f s s',
  on_checksum_report dbg c f s = Ok s' -> frame s s'.
Proof.
  intros dbg c f s s' H. unfold on_checksum_report in H.
  cbv zeta in H.
  destruct (match u_desync s with Some i => Ok i | None => _ end) as [iv| |]; try discriminate.
  destruct (MAX_CHECKSUM_HISTORY_SIZE <=? _);
   [destruct (ts_i32_arith dbg _); try discriminate; destruct (ts_i32_arith dbg _); try discriminate|];
   inversion H; subst; fsimpl; repeat split.
Qed.

Lemma input_events_all_input : forall f vs hs evs,
  input_events f vs hs = Ok evs -> forallb is_input evs = true.
Proof.
  induction vs as [|v vs IH]; intros hs evs H; cbn in H.
  - inversion H; reflexivity.
  - destruct hs as [|h hs]; [discriminate|].
    destruct (input_events f vs hs) eqn:E; try discriminate. inversion H; subst. cbn. eauto.
Qed.

Lemma accept_inputs_ctl : forall dbg start inputs i s b s',
  accept_inputs dbg start i inputs s = Ok (b, s') ->
  same_ctl s s' /\ u_event_sent s' = u_event_sent s /\
  exists evs, u_event_queue s' = u_event_queue s ++ evs /\ forallb is_input evs = true.
Proof.
  induction inputs as [|inp rest IH]; intros i s b s' H; cbn [accept_inputs] in H.
  - inversion H; subst. split; [apply same_ctl_refl|]. split; [reflexivity|].
    exists []. rewrite app_nil_r. auto.
  - destruct (ts_i32_arith dbg (start + i)) as [fr| |]; try discriminate.
    destruct (fr <=? last_recv_frame s).
    + eapply IH; eauto.
    + destruct (to_player_inputs _ inp) as [vals|].
      * destruct (input_events fr vals (u_handles s)) as [evs| |] eqn:Ee; try discriminate.
        apply IH in H. destruct H as (Hc & He & evs' & Hq & Hall). fsimpl.
        split; [eapply same_ctl_trans; [|exact Hc]; repeat split|].
        split; [exact He|].
        exists (evs ++ evs'). rewrite Hq, app_assoc. split; [reflexivity|].
        rewrite forallb_app, Hall, (input_events_all_input _ _ _ _ Ee). reflexivity.
      * inversion H; subst. split; [apply same_ctl_refl|]. split; [reflexivity|].
        exists []. rewrite app_nil_r. auto.
Qed.

(* a step that leaves the control part alone and pushes Input events and at most one Disconnected,
   the latter only under the disconnect_event_sent guard *)
Definition quiet (s s' : ep) : Prop :=
  same_ctl s s' /\
  exists evs, forallb is_input evs = true /\
    ((u_event_sent s = false /\ u_state s <> PDisconnected /\ u_event_sent s' = true /\
      u_event_queue s' = u_event_queue s ++ EvDisconnected :: evs) \/
     (u_event_sent s' = u_event_sent s /\ u_event_queue s' = u_event_queue s ++ evs)).

Lemma frame_quiet : forall s s', frame s s' -> quiet s s'.
Proof.
  intros s s' (H1 & H2 & H3). split; [exact H1|]. exists []. split; [reflexivity|].
  right. rewrite app_nil_r. auto.
Qed.

Lemma on_input_quiet : forall dbg now st dr sf af bytes s s',
  on_input dbg now st dr sf af bytes s = Ok s' -> quiet s s'.
Proof.
  intros dbg now st dr sf af bytes s s' H. unfold on_input in H.
  destruct (negb dr && negb (Z.of_nat (length st) =? u_num_players s));
    [inversion H; subst; apply frame_quiet, frame_refl|].
  destruct (sf <? 0); [inversion H; subst; apply frame_quiet, frame_refl|].
  cbv zeta in H.
  pose proof (pop_pending_output_ctl af s) as (Hp1 & Hp2 & Hp3).
  set (s1 := pop_pending_output af s) in *.
  (* the state after the status update / disconnect request: quiet w.r.t. s, with no inputs yet *)
  match type of H with
  | match ?X with _ => _ end = _ => destruct X as [s2| |] eqn:E2; try discriminate
  end.
  assert (Hs2 :
    same_ctl s s2 /\
    ((u_event_sent s = false /\ u_state s <> PDisconnected /\ u_event_sent s2 = true /\
      u_event_queue s2 = u_event_queue s ++ [EvDisconnected]) \/
     (u_event_sent s2 = u_event_sent s /\ u_event_queue s2 = u_event_queue s))).
  { destruct dr.
    - destruct (negb (pstate_eqb (u_state s1) PDisconnected) && negb (u_event_sent s1)) eqn:Ec;
        inversion E2; subst; fsimpl.
      + apply andb_true_iff in Ec. destruct Ec as [Ec1 Ec2].
        split; [exact Hp1|]. left.
        rewrite Hp2 in Ec2. destruct (u_event_sent s); [discriminate|].
        split; [reflexivity|]. split.
        * intro Hd. destruct Hp1 as (Hst & _). rewrite Hst, Hd in Ec1. discriminate.
        * split; [reflexivity|]. rewrite Hp3. reflexivity.
      + split; [exact Hp1|]. right. auto.
    - destruct (merge_status _ _); inversion E2; subst. fsimpl.
      split; [exact Hp1|]. right. auto. }
  clear E2. destruct Hs2 as (Hc2 & Hq2).
  (* whatever follows only appends inputs *)
  assert (Hrest : forall s', same_ctl s2 s' -> u_event_sent s' = u_event_sent s2 ->
            (exists evs, u_event_queue s' = u_event_queue s2 ++ evs /\ forallb is_input evs = true) ->
            quiet s s').
  { intros t Hc He (evs & Hq & Hall). split; [eapply same_ctl_trans; eauto|].
    exists evs. split; [exact Hall|].
    destruct Hq2 as [(A & B & C & D)|(A & B)].
    - left. repeat split; try assumption; try congruence.
      rewrite Hq, D, <- app_assoc. reflexivity.
    - right. split; [congruence|]. rewrite Hq, B. reflexivity. }
  destruct (alookup _ (u_recv_inputs s2)) as [ref|].
  - destruct (Codec.decode dbg ref bytes) as [inputs| |]; try discriminate.
    + destruct (accept_inputs dbg sf 0 inputs (set_last_input_recv now s2)) as [[b s4]| |] eqn:Ea;
        try discriminate.
      apply accept_inputs_ctl in Ea. destruct Ea as (Hc4 & He4 & evs & Hq4 & Hall). fsimpl.
      destruct b.
      * destruct (ts_i32_arith dbg _) as [w| |]; try discriminate.
        destruct (ts_i32_arith dbg _) as [lo| |]; try discriminate.
        inversion H; subst. apply Hrest; fsimpl.
        -- eapply same_ctl_trans; [|eapply same_ctl_trans; [exact Hc4|]]; repeat split.
        -- exact He4.
        -- exists evs. auto.
      * inversion H; subst. apply Hrest.
        -- eapply same_ctl_trans; [|exact Hc4]. repeat split.
        -- exact He4.
        -- exists evs. auto.
    + inversion H; subst. apply Hrest; fsimpl; [repeat split|reflexivity|].
      exists []. rewrite app_nil_r. auto.
  - destruct (sf <=? last_recv_frame s2); inversion H; subst; apply Hrest; fsimpl;
      try (repeat split; fail); try reflexivity; exists []; rewrite app_nil_r; auto.
Qed.

(* ---------- the effect of each operation on the control part ---------- *)
Definition WRAP : Z := 4294967296.

Lemma on_sync_reply_spec : forall dbg now nonce mg n s s',
  on_sync_reply dbg now nonce mg n s = Ok s' ->
  (pstate_eqb (u_state s) PSynchronizing && zmem n (u_sync_requests s) = false /\ s' = s) \/
  (u_state s = PSynchronizing /\ zmem n (u_sync_requests s) = true /\
   u_sync_remaining s' = (u_sync_remaining s - 1) mod WRAP /\
   u_notify_sent s' = u_notify_sent s /\ u_event_sent s' = u_event_sent s /\
   u_last_recv_time s' = u_last_recv_time s /\ u_notify_start s' = u_notify_start s /\
   u_timeout s' = u_timeout s /\
   ((0 < (u_sync_remaining s - 1) mod WRAP /\ u_state s' = PSynchronizing /\
     u_remote_magic s' = u_remote_magic s /\
     u_sync_requests s' = zinsert nonce (zremove n (u_sync_requests s)) /\
     u_event_queue s' = u_event_queue s ++
       [EvSynchronizing NUM_SYNC_PACKETS ((NUM_SYNC_PACKETS - (u_sync_remaining s - 1) mod WRAP) mod WRAP)]) \/
    ((u_sync_remaining s - 1) mod WRAP <= 0 /\ u_state s' = PRunning /\ u_remote_magic s' = mg /\
     u_sync_requests s' = zremove n (u_sync_requests s) /\
     u_event_queue s' = u_event_queue s ++ [EvSynchronized]))).
Proof.
  intros dbg now nonce mg n s s' H. unfold on_sync_reply in H. fold WRAP in H.
  destruct (pstate_eqb (u_state s) PSynchronizing) eqn:Es; cbn [negb] in H;
    [|inversion H; subst; left; auto].
  destruct (zmem n (u_sync_requests s)) eqn:Em; cbn [negb] in H;
    [|inversion H; subst; left; auto].
  right. apply pstate_eqb_eq in Es. fsimpl.
  destruct ((u_sync_remaining s <=? 0) && dbg); [discriminate|].
  destruct (0 <? (u_sync_remaining s - 1) mod WRAP) eqn:Ep.
  - destruct ((NUM_SYNC_PACKETS <? (u_sync_remaining s - 1) mod WRAP) && dbg); [discriminate|].
    inversion H; subst; fsimpl. apply Z.ltb_lt in Ep.
    repeat (split; [first [assumption|reflexivity]|]). left. repeat split; assumption.
  - inversion H; subst; fsimpl. apply Z.ltb_ge in Ep.
    repeat (split; [first [assumption|reflexivity]|]). right. repeat split; assumption.
Qed.

Definition resumed_cond (s : ep) : bool :=
  u_notify_sent s && pstate_eqb (u_state s) PRunning && negb (u_event_sent s).
Definition resumed_pre (s : ep) : list event := if resumed_cond s then [EvNetworkResumed] else [].

Lemma passes_input_running : forall s m,
  passes_filters s m = true -> is_handshake (m_body m) = false -> u_state s <> PDisconnected ->
  u_state s = PRunning.
Proof.
  intros s m H Hh Hd. unfold passes_filters in H. rewrite Hh in H.
  destruct (u_state s); cbn in H; try reflexivity; try congruence;
    rewrite ?andb_false_r in H; try discriminate.
Qed.

(* everything but a matched SyncReply *)
Definition msg_other (s s' : ep) : Prop :=
  u_state s' = u_state s /\ u_sync_remaining s' = u_sync_remaining s /\
  u_sync_requests s' = u_sync_requests s /\ u_remote_magic s' = u_remote_magic s /\
  u_last_sync_request_time s' = u_last_sync_request_time s /\
  exists evs, forallb is_input evs = true /\
    ((u_event_sent s = false /\ u_state s = PRunning /\ u_event_sent s' = true /\
      u_event_queue s' = u_event_queue s ++ resumed_pre s ++ EvDisconnected :: evs) \/
     (u_event_sent s' = u_event_sent s /\ u_event_queue s' = u_event_queue s ++ resumed_pre s ++ evs)).

Definition msg_matched (nonce : Z) (m : message) (s s' : ep) : Prop :=
  exists n, m_body m = SyncReply n /\
   u_state s = PSynchronizing /\ zmem n (u_sync_requests s) = true /\
   u_sync_remaining s' = (u_sync_remaining s - 1) mod WRAP /\ u_event_sent s' = u_event_sent s /\
   ((0 < (u_sync_remaining s - 1) mod WRAP /\ u_state s' = PSynchronizing /\
     u_remote_magic s' = u_remote_magic s /\
     u_sync_requests s' = zinsert nonce (zremove n (u_sync_requests s)) /\
     u_event_queue s' = u_event_queue s ++
       [EvSynchronizing NUM_SYNC_PACKETS ((NUM_SYNC_PACKETS - (u_sync_remaining s - 1) mod WRAP) mod WRAP)]) \/
    ((u_sync_remaining s - 1) mod WRAP <= 0 /\ u_state s' = PRunning /\ u_remote_magic s' = m_magic m /\
     u_sync_requests s' = zremove n (u_sync_requests s) /\
     u_event_queue s' = u_event_queue s ++ [EvSynchronized])).

Lemma handle_message_effect : forall dbg now nonce m s s',
  handle_message dbg now nonce m s = Ok s' ->
  (passes_filters s m = false /\ s' = s) \/
  (passes_filters s m = true /\ u_last_recv_time s' = now /\
   u_notify_start s' = u_notify_start s /\ u_timeout s' = u_timeout s /\
   u_notify_sent s' = (if resumed_cond s then false else u_notify_sent s) /\
   ((match_of s (OMessage now nonce m) <> [] /\ msg_matched nonce m s s') \/
    (match_of s (OMessage now nonce m) = [] /\ msg_other s s'))).
Proof.
  intros dbg now nonce m s s' H. unfold handle_message, handle_message_gen in H.
  cbn [fix_quiet_dead current_code] in H.
  destruct (passes_filters s m) eqn:Ep; cbn [negb] in H; [|inversion H; subst; left; auto].
  right. split; [reflexivity|]. cbv zeta in H.
  set (s1 := set_last_recv_time now s) in *.
  set (s2 := if u_notify_sent s1 && pstate_eqb (u_state s1) PRunning && negb (u_event_sent s1)
             then push_event EvNetworkResumed (set_notify_sent false s1) else s1) in *.
  (* facts about s2 *)
  assert (F : u_state s2 = u_state s /\ u_sync_remaining s2 = u_sync_remaining s /\
              u_sync_requests s2 = u_sync_requests s /\ u_remote_magic s2 = u_remote_magic s /\
              u_last_sync_request_time s2 = u_last_sync_request_time s /\
              u_last_recv_time s2 = now /\ u_notify_start s2 = u_notify_start s /\
              u_timeout s2 = u_timeout s /\ u_event_sent s2 = u_event_sent s /\
              u_notify_sent s2 = (if resumed_cond s then false else u_notify_sent s) /\
              u_event_queue s2 = u_event_queue s ++ resumed_pre s).
  { subst s2 s1. unfold resumed_pre, resumed_cond. fsimpl.
    destruct (u_notify_sent s) eqn:En; destruct (pstate_eqb (u_state s) PRunning) eqn:Er;
      destruct (u_event_sent s) eqn:Ee;
      cbn [andb negb]; fsimpl; rewrite ?En, ?Ee, ?app_nil_r; repeat split. }
  destruct F as (F1 & F2 & F3 & F4 & F5 & F6 & F7 & F8 & F9 & F10 & F11).
  (* a step from s2 that is a frame gives msg_other *)
  assert (Hframe : forall t, frame s2 t ->
            u_last_recv_time t = now /\ u_notify_start t = u_notify_start s /\ u_timeout t = u_timeout s /\
            u_notify_sent t = (if resumed_cond s then false else u_notify_sent s) /\ msg_other s t).
  { intros t ((A1 & A2 & A3 & A4 & A5 & A6 & A7 & A8 & A9) & B & C).
    repeat (split; [congruence|]). unfold msg_other. repeat (split; [congruence|]).
    exists []. split; [reflexivity|]. right. split; [congruence|]. rewrite C, F11, app_nil_r. reflexivity. }
  destruct (m_body m) as [n|n|st dr sf af bytes|f|adv ping|pong|c f|] eqn:Eb.
  - (* SyncRequest *)
    inversion H; subst s'.
    destruct (Hframe (queue_message now (SyncReply n) s2)) as (A & B & C & D & E); [fsimpl; repeat split|].
    repeat (split; [assumption|]). right. split; [|exact E]. unfold match_of; rewrite Eb; reflexivity.
  - (* SyncReply *)
    apply on_sync_reply_spec in H. rewrite F1, F3 in H.
    destruct H as [(Hn & ->)|(Hs & Hm & R1 & R2 & R3 & R4 & R5 & R6 & R7)].
    + destruct (Hframe s2 (frame_refl _)) as (A & B & C & D & E).
      repeat (split; [assumption|]). right. split; [|exact E].
      unfold match_of. rewrite Eb, Ep. cbn [andb]. rewrite Hn. reflexivity.
    + rewrite F2 in *. 
      repeat (split; [congruence|]). left. split.
      * unfold match_of. rewrite Eb, Ep, Hs, Hm. cbn. discriminate.
      * exists n. split; [exact Eb|]. split; [exact Hs|]. split; [exact Hm|]. split; [exact R1|].
        split; [congruence|].
        assert (Er : resumed_pre s = [])
          by (unfold resumed_pre, resumed_cond; rewrite Hs; cbn [pstate_eqb]; rewrite andb_false_r; reflexivity).
        rewrite F11, Er, app_nil_r, F4 in R7. exact R7.
  - (* Input *)
    apply on_input_quiet in H.
    destruct H as ((A1 & A2 & A3 & A4 & A5 & A6 & A7 & A8 & A9) & evs & Hall & Hq).
    repeat (split; [congruence|]). right. split; [unfold match_of; rewrite Eb; reflexivity|].
    unfold msg_other. repeat (split; [congruence|]).
    exists evs. split; [exact Hall|].
    destruct Hq as [(B1 & B2 & B3 & B4)|(B1 & B2)].
    + left. split; [congruence|]. split.
      * eapply passes_input_running; eauto; [rewrite Eb; reflexivity|congruence].
      * split; [exact B3|]. rewrite B4, F11, <- app_assoc. reflexivity.
    + right. split; [congruence|]. rewrite B2, F11, <- app_assoc. reflexivity.
  - (* InputAck *)
    inversion H; subst s'.
    destruct (Hframe _ (pop_pending_output_ctl f s2)) as (A & B & C & D & E).
    repeat (split; [assumption|]). right. split; [|exact E]. unfold match_of; rewrite Eb; reflexivity.
  - (* QualityReport *)
    inversion H; subst s'.
    destruct (Hframe (queue_message now (QualityReply ping) (set_remote_adv adv s2))) as (A & B & C & D & E);
      [fsimpl; repeat split|].
    repeat (split; [assumption|]). right. split; [|exact E]. unfold match_of; rewrite Eb; reflexivity.
  - (* QualityReply *)
    inversion H; subst s'.
    destruct (Hframe (set_rtt (ts_round_trip_time now pong) s2)) as (A & B & C & D & E);
      [fsimpl; repeat split|].
    repeat (split; [assumption|]). right. split; [|exact E]. unfold match_of; rewrite Eb; reflexivity.
  - (* ChecksumReport *)
    apply on_checksum_report_ctl in H.
    destruct (Hframe _ H) as (A & B & C & D & E).
    repeat (split; [assumption|]). right. split; [|exact E]. unfold match_of; rewrite Eb; reflexivity.
  - (* KeepAlive *)
    inversion H; subst s'.
    destruct (Hframe s2 (frame_refl _)) as (A & B & C & D & E).
    repeat (split; [assumption|]). right. split; [|exact E]. unfold match_of; rewrite Eb; reflexivity.
Qed.

Definition interrupt_now (now : Z) (s : ep) : bool :=
  negb (u_notify_sent s) && negb (u_event_sent s) && (u_last_recv_time s + u_notify_start s <? now).
Definition timeout_now (now : Z) (s : ep) : bool :=
  negb (u_event_sent s) && (u_last_recv_time s + u_timeout s <? now).
Definition poll_pushed (now : Z) (s : ep) : list event :=
  (if interrupt_now now s then [EvNetworkInterrupted (Z.max 0 (u_timeout s - u_notify_start s))] else []) ++
  (if timeout_now now s then [EvDisconnected] else []).

Lemma poll_running_effect : forall now cs s s',
  poll_running now cs s = Ok s' ->
  u_state s' = u_state s /\ u_sync_remaining s' = u_sync_remaining s /\
  u_sync_requests s' = u_sync_requests s /\ u_remote_magic s' = u_remote_magic s /\
  u_last_recv_time s' = u_last_recv_time s /\ u_notify_start s' = u_notify_start s /\
  u_timeout s' = u_timeout s /\ u_last_sync_request_time s' = u_last_sync_request_time s /\
  u_notify_sent s' = u_notify_sent s || interrupt_now now s /\
  u_event_sent s' = u_event_sent s || timeout_now now s /\
  u_event_queue s' = u_event_queue s ++ poll_pushed now s.
Proof.
  intros now cs s s' H. unfold poll_running, poll_running_gen in H.
  cbn [fix_quiet_dead current_code] in H. cbv zeta in H.
  match type of H with match ?X with _ => _ end = _ => destruct X as [s1| |] eqn:E1; try discriminate end.
  assert (F1 : frame s s1).
  { destruct (u_last_input_recv s + RUNNING_RETRY_INTERVAL <? now).
    - destruct (send_pending_output now cs s) as [t| |] eqn:Et; try discriminate.
      apply send_pending_output_ctl in Et. destruct Et as [Et _]. inversion E1; subst.
      eapply frame_trans; [exact Et|]. fsimpl. repeat split.
    - inversion E1; subst. apply frame_refl. }
  clear E1.
  match type of H with match ?X with _ => _ end = _ => destruct X as [s2| |] eqn:E2; try discriminate end.
  assert (F2 : frame s1 s2).
  { destruct (u_last_quality_report s1 + QUALITY_REPORT_INTERVAL <? now).
    - apply send_quality_report_ctl in E2. tauto.
    - inversion E2; subst. apply frame_refl. }
  clear E2.
  set (s3 := if u_last_send_time s2 + KEEP_ALIVE_INTERVAL <? now then send_keep_alive now s2 else s2) in *.
  assert (F3 : frame s2 s3).
  { subst s3. destruct (u_last_send_time s2 + KEEP_ALIVE_INTERVAL <? now); [fsimpl|]; repeat split. }
  pose proof (frame_trans _ _ _ (frame_trans _ _ _ F1 F2) F3) as F.
  destruct F as ((A1 & A2 & A3 & A4 & A5 & A6 & A7 & A8 & A9) & B & C).
  clearbody s3. clear F1 F2 F3.
  inversion H; subst s'; clear H.
  unfold poll_pushed, interrupt_now, timeout_now. rewrite <- A4, <- A6, <- A7, <- A8, <- B, <- C.
  destruct (negb (u_notify_sent s3) && negb (u_event_sent s3) && (u_last_recv_time s3 + u_notify_start s3 <? now)) eqn:EI; fsimpl;
  destruct (negb (u_event_sent s3) && (u_last_recv_time s3 + u_timeout s3 <? now)) eqn:ET; fsimpl;
  rewrite ?orb_true_r, ?orb_false_r, ?app_nil_r, <- ?app_assoc; cbn [app]; repeat split; congruence.
Qed.

Lemma poll_effect : forall now nonce cs s out s',
  poll now nonce cs s = Ok (out, s') ->
  u_event_queue s' = [] /\ u_notify_start s' = u_notify_start s /\ u_timeout s' = u_timeout s /\
  u_last_recv_time s' = u_last_recv_time s /\ u_remote_magic s' = u_remote_magic s /\
  u_sync_remaining s' = u_sync_remaining s /\
  match u_state s with
  | PRunning =>
    u_state s' = PRunning /\ u_sync_requests s' = u_sync_requests s /\
    u_notify_sent s' = u_notify_sent s || interrupt_now now s /\
    u_event_sent s' = u_event_sent s || timeout_now now s /\
    out = u_event_queue s ++ poll_pushed now s
  | PSynchronizing =>
    u_state s' = PSynchronizing /\ u_notify_sent s' = u_notify_sent s /\ u_event_sent s' = u_event_sent s /\
    out = u_event_queue s /\
    u_sync_requests s' = (if u_last_sync_request_time s + SYNC_RETRY_INTERVAL <? now
                          then zinsert nonce (u_sync_requests s) else u_sync_requests s)
  | PDisconnected =>
    u_state s' = (if u_shutdown_timeout s <? now then PShutdown else PDisconnected) /\
    u_notify_sent s' = u_notify_sent s /\ u_event_sent s' = u_event_sent s /\
    out = u_event_queue s /\ u_sync_requests s' = u_sync_requests s
  | st =>
    u_state s' = st /\ u_notify_sent s' = u_notify_sent s /\ u_event_sent s' = u_event_sent s /\
    out = u_event_queue s /\ u_sync_requests s' = u_sync_requests s
  end.
Proof.
  intros now nonce cs s out s' H. unfold poll, poll_gen in H. cbv zeta in H.
  change (poll_running_gen current_code) with poll_running in H.
  destruct (u_state s) eqn:Es.
  - inversion H; subst; fsimpl. rewrite Es. repeat split.
  - destruct (u_last_sync_request_time s + SYNC_RETRY_INTERVAL <? now); inversion H; subst; fsimpl;
      rewrite ?Es; repeat split.
  - destruct (poll_running now cs s) as [t| |] eqn:Et; try discriminate.
    apply poll_running_effect in Et.
    destruct Et as (A1 & A2 & A3 & A4 & A5 & A6 & A7 & A8 & A9 & A10 & A11).
    inversion H; subst; fsimpl. rewrite Es in A1. repeat split; assumption.
  - destruct (u_shutdown_timeout s <? now); inversion H; subst; fsimpl; rewrite ?Es; repeat split.
  - inversion H; subst; fsimpl. rewrite Es. repeat split.
Qed.

Lemma send_input_effect : forall now inputs cs s s',
  send_input now inputs cs s = Ok s' ->
  same_ctl s s' /\
  ((u_event_sent s = false /\ u_state s = PRunning /\ u_event_sent s' = true /\
    u_event_queue s' = u_event_queue s ++ [EvDisconnected]) \/
   (u_event_sent s' = u_event_sent s /\ u_event_queue s' = u_event_queue s)).
Proof.
  intros now inputs cs s s' H. unfold send_input, send_input_gen in H.
  cbn [fix_send_guard current_code] in H.
  destruct (pstate_eqb (u_state s) PRunning) eqn:Er; cbn [negb] in H.
  2:{ inversion H; subst. split; [apply same_ctl_refl|]. right. auto. }
  apply pstate_eqb_eq in Er.
  destruct (from_inputs _ _) as [data| |]; try discriminate.
  destruct (ts_advance_frame _ _ _ _) as [ts| |]; try discriminate.
  cbv zeta in H. apply send_pending_output_ctl in H. destruct H as [(Hc & He & Hq) _].
  match type of Hc with same_ctl ?X _ => set (s2 := X) in * end.
  destruct (PENDING_OUTPUT_SIZE <? _)%N.
  - destruct (u_event_sent (set_pending_output (u_pending_output s ++ [data]) (set_time_sync ts s))) eqn:Ee;
      subst s2; fsimpl.
    + split; [eapply same_ctl_trans; [|exact Hc]; repeat split|]. right. split; congruence.
    + split; [eapply same_ctl_trans; [|exact Hc]; repeat split|]. left. repeat split; assumption.
  - subst s2; fsimpl. split; [eapply same_ctl_trans; [|exact Hc]; repeat split|]. right. auto.
Qed.

Lemma synchronize_effect : forall now nonce s s',
  synchronize now nonce s = Ok s' ->
  u_state s = PInitializing /\ u_state s' = PSynchronizing /\ u_sync_remaining s' = NUM_SYNC_PACKETS /\
  u_sync_requests s' = zinsert nonce (u_sync_requests s) /\
  u_notify_sent s' = u_notify_sent s /\ u_event_sent s' = u_event_sent s /\
  u_remote_magic s' = u_remote_magic s /\ u_last_recv_time s' = u_last_recv_time s /\
  u_notify_start s' = u_notify_start s /\ u_timeout s' = u_timeout s /\
  u_event_queue s' = u_event_queue s.
Proof.
  intros now nonce s s' H. unfold synchronize in H.
  destruct (pstate_eqb (u_state s) PInitializing) eqn:E; [|discriminate].
  apply pstate_eqb_eq in E. inversion H; subst; fsimpl. repeat split. exact E.
Qed.

Lemma disconnect_effect : forall now s,
  let s' := disconnect now s in
  u_state s' = (if pstate_eqb (u_state s) PShutdown then PShutdown else PDisconnected) /\
  u_sync_remaining s' = u_sync_remaining s /\ u_sync_requests s' = u_sync_requests s /\
  u_notify_sent s' = u_notify_sent s /\ u_event_sent s' = u_event_sent s /\
  u_remote_magic s' = u_remote_magic s /\ u_last_recv_time s' = u_last_recv_time s /\
  u_notify_start s' = u_notify_start s /\ u_timeout s' = u_timeout s /\
  u_event_queue s' = u_event_queue s.
Proof.
  intros now s. cbv zeta. unfold disconnect.
  destruct (pstate_eqb (u_state s) PShutdown) eqn:E; fsimpl; repeat split.
  apply pstate_eqb_eq in E. exact E.
Qed.

Ltac fold_ops H :=
  change (handle_message_gen current_code) with handle_message in H;
  change (poll_gen current_code) with poll in H;
  change (send_input_gen current_code) with send_input in H.

Lemma misc_effect : forall dbg o s s' out,
  step dbg o s = Ok (s', out) ->
  match o with OChecksum _ _ _ | OAdvantage _ | ODrain => frame s s' /\ out = [] | _ => True end.
Proof.
  intros dbg o s s' out H. destruct o; try exact I; unfold step in H; cbn [step_gen] in H; fold_ops H.
  - inversion H; subst; fsimpl. repeat split.
  - unfold update_local_frame_advantage in H.
    destruct (ts_update_local_frame_advantage _ _ _ _ _ _); inversion H; subst; fsimpl. repeat split.
  - inversion H; subst. unfold drain; fsimpl. repeat split.
Qed.

(* ---------- the recogniser ---------- *)
Lemma recog_app : forall a b r,
  recog r (a ++ b) = match recog r a with Some r' => recog r' b | None => None end.
Proof.
  induction a as [|e a IH]; intros b r; cbn [app recog]; [reflexivity|].
  destruct (rstep r e); [apply IH|reflexivity].
Qed.

Lemma recog_inputs : forall evs r, forallb is_input evs = true -> recog r evs = Some r.
Proof.
  induction evs as [|e evs IH]; intros r H; cbn in *; [reflexivity|].
  apply andb_true_iff in H. destruct H as [He H]. destruct e; try discriminate. cbn. auto.
Qed.

Lemma recog_prefix : forall a b r, recog r (a ++ b) <> None -> recog r a <> None.
Proof. intros a b r H. rewrite recog_app in H. destruct (recog r a); congruence. Qed.

Lemma wd_app : forall a b, without_disconnected (a ++ b) = without_disconnected a ++ without_disconnected b.
Proof. intros. unfold without_disconnected. apply filter_app. Qed.

Lemma wd_inputs : forall evs, forallb is_input evs = true -> without_disconnected evs = evs.
Proof.
  induction evs as [|e evs IH]; intro H; cbn in *; [reflexivity|].
  apply andb_true_iff in H. destruct H as [He H]. destruct e; try discriminate. cbn. f_equal. auto.
Qed.

Lemma cd_app : forall a b, count_disconnected (a ++ b) = (count_disconnected a + count_disconnected b)%nat.
Proof. intros. unfold count_disconnected. rewrite filter_app, app_length. reflexivity. Qed.

Lemma cd_inputs : forall evs, forallb is_input evs = true -> count_disconnected evs = O.
Proof.
  induction evs as [|e evs IH]; intro H; cbn in *; [reflexivity|].
  apply andb_true_iff in H. destruct H as [He H]. destruct e; try discriminate. cbn. auto.
Qed.

Lemma inputs_no_sync : forall evs, forallb is_input evs = true -> ~ In EvSynchronized evs.
Proof.
  induction evs as [|e evs IH]; intros H; [intros []|].
  cbn in H; apply andb_true_iff in H; destruct H as [He H]. intros [E|E].
  - subst; discriminate.
  - exact (IH H E).
Qed.

Lemma in_sync_app : forall w p, ~ In EvSynchronized p -> (In EvSynchronized (w ++ p) <-> In EvSynchronized w).
Proof. intros w p H. rewrite in_app_iff. tauto. Qed.

Lemma pre_kind_resumed_aux : forall s,
  (u_notify_sent s = true /\ u_state s = PRunning /\ u_event_sent s = false /\ resumed_cond s = true) \/
  resumed_cond s = false.
Proof.
  intro s. unfold resumed_cond.
  destruct (u_notify_sent s); cbn [andb]; [|right; reflexivity].
  destruct (pstate_eqb (u_state s) PRunning) eqn:E; cbn [andb]; [|right; reflexivity].
  destruct (u_event_sent s); cbn [negb]; [right; reflexivity|].
  left. apply pstate_eqb_eq in E. auto.
Qed.

Lemma wrap_small : forall x, 0 <= x < WRAP -> x mod WRAP = x.
Proof. intros. apply Z.mod_small. assumption. Qed.

(* ---------- invariant 1: grammar modulo Disconnected, at most one Disconnected, handshake count ---------- *)
Lemma num_facts : 1 <= NUM_SYNC_PACKETS /\ NUM_SYNC_PACKETS < WRAP.
Proof. split; [discriminate|reflexivity]. Qed.

Definition hs_facts (s : ep) (w : list event) (ms : list (Z * Z)) : Prop :=
  let m := Z.of_nat (length ms) in
  (In EvSynchronized w <-> m = NUM_SYNC_PACKETS) /\ m <= NUM_SYNC_PACKETS /\
  (m < NUM_SYNC_PACKETS -> u_remote_magic s = 0) /\
  (m = NUM_SYNC_PACKETS -> u_remote_magic s = nth (Z.to_nat (NUM_SYNC_PACKETS - 1)) (map snd ms) 0).

Definition st_facts (s : ep) (w : list event) (ms : list (Z * Z)) : Prop :=
  let m := Z.of_nat (length ms) in
  match u_state s with
  | PInitializing =>
    recog (RSync 0) (without_disconnected w) = Some (RSync 0) /\ m = 0 /\
    u_notify_sent s = false /\ u_event_sent s = false
  | PSynchronizing =>
    recog (RSync 0) (without_disconnected w) = Some (RSync m) /\ m = NUM_SYNC_PACKETS - u_sync_remaining s /\
    1 <= u_sync_remaining s <= NUM_SYNC_PACKETS /\ u_notify_sent s = false /\ u_event_sent s = false
  | PRunning =>
    recog (RSync 0) (without_disconnected w) = Some (if u_notify_sent s then RInterrupted else RRun) /\
    m = NUM_SYNC_PACKETS
  | _ => recog (RSync 0) (without_disconnected w) <> None
  end.

Definition Inv1 (s : ep) (W : list event) (ms : list (Z * Z)) : Prop :=
  let w := W ++ u_event_queue s in
  count_disconnected w = (if u_event_sent s then 1 else 0)%nat /\ hs_facts s w ms /\ st_facts s w ms.

Lemma st_facts_accepts : forall s w ms, st_facts s w ms -> recog (RSync 0) (without_disconnected w) <> None.
Proof.
  intros s w ms H. unfold st_facts in H.
  destruct (u_state s); try exact H; destruct H as [H _]; rewrite H; discriminate.
Qed.

Inductive pre_kind (s s' : ep) : list event -> Prop :=
| pk_none : u_notify_sent s' = u_notify_sent s -> pre_kind s s' []
| pk_resumed : u_notify_sent s = true -> u_state s = PRunning -> u_notify_sent s' = false ->
               pre_kind s s' [EvNetworkResumed]
| pk_interrupted : forall t, u_notify_sent s = false -> u_state s = PRunning -> u_notify_sent s' = true ->
               pre_kind s s' [EvNetworkInterrupted t].

Lemma pre_kind_resumed : forall s s',
  u_notify_sent s' = (if resumed_cond s then false else u_notify_sent s) -> pre_kind s s' (resumed_pre s).
Proof.
  intros s s' H. unfold resumed_pre.
  destruct (pre_kind_resumed_aux s) as [(A & B & C & D)|D]; rewrite D in *.
  - apply pk_resumed; assumption.
  - apply pk_none; assumption.
Qed.

Lemma resumed_pre_dead : forall s, u_event_sent s = true -> resumed_pre s = [].
Proof.
  intros s H. unfold resumed_pre, resumed_cond. rewrite H. cbn [negb]. rewrite andb_false_r. reflexivity.
Qed.

Lemma interrupt_now_true : forall now s, interrupt_now now s = true ->
  u_notify_sent s = false /\ u_event_sent s = false /\ u_last_recv_time s + u_notify_start s < now.
Proof.
  intros now s H. unfold interrupt_now in H.
  apply andb_true_iff in H. destruct H as [H H3]. apply andb_true_iff in H. destruct H as [H1 H2].
  destruct (u_notify_sent s); [discriminate|]. destruct (u_event_sent s); [discriminate|].
  repeat split. lia.
Qed.

(* state-preserving steps: optional Resumed/Interrupted, optional guarded Disconnected, inputs *)
Lemma inv1_same_state : forall s W ms s' W' pre (d : bool) evs,
  Inv1 s W ms ->
  u_state s' = u_state s -> u_sync_remaining s' = u_sync_remaining s -> u_remote_magic s' = u_remote_magic s ->
  W' ++ u_event_queue s' = (W ++ u_event_queue s) ++ pre ++ (if d then [EvDisconnected] else []) ++ evs ->
  forallb is_input evs = true ->
  (if d then u_event_sent s = false /\ u_event_sent s' = true /\ u_state s = PRunning
   else u_event_sent s' = u_event_sent s) ->
  pre_kind s s' pre ->
  Inv1 s' W' ms.
Proof.
  intros s W ms s' W' pre d evs (Hc & (HA & HB & HC & HD) & Hst) Es Er Em Hw Hall Hd Hp.
  unfold Inv1. cbv zeta. rewrite Hw. set (w := W ++ u_event_queue s) in *.
  assert (Hwd : without_disconnected (w ++ pre ++ (if d then [EvDisconnected] else []) ++ evs)
                = without_disconnected w ++ pre ++ evs).
  { rewrite !wd_app, (wd_inputs evs Hall).
    assert (without_disconnected pre = pre) as -> by (destruct Hp; reflexivity).
    destruct d; reflexivity. }
  assert (Hns : ~ In EvSynchronized (pre ++ (if d then [EvDisconnected] else []) ++ evs)).
  { rewrite !in_app_iff. intros [H|[H|H]].
    - destruct Hp; cbn in H; intuition discriminate.
    - destruct d; cbn in H; intuition discriminate.
    - exact (inputs_no_sync _ Hall H). }
  split; [|split].
  - rewrite !cd_app, (cd_inputs evs Hall), Hc.
    assert (count_disconnected pre = O) as -> by (destruct Hp; reflexivity).
    destruct d; [destruct Hd as (-> & -> & _); reflexivity|rewrite Hd; cbn; lia].
  - unfold hs_facts. cbv zeta. rewrite Em. rewrite (in_sync_app _ _ Hns). repeat split; tauto.
  - unfold st_facts in *. cbv zeta in *. rewrite Es, Er, Hwd.
    destruct (u_state s) eqn:Est.
    + destruct Hst as (R & M & N & E). rewrite recog_app, R.
      destruct Hp as [Hn| |]; try congruence. cbn [app]. rewrite (recog_inputs _ _ Hall).
      destruct d; [destruct Hd as (_ & _ & Hd); congruence|]. repeat split; congruence.
    + destruct Hst as (R & M & S & N & E). rewrite recog_app, R.
      destruct Hp as [Hn| |]; try congruence. cbn [app]. rewrite (recog_inputs _ _ Hall).
      destruct d; [destruct Hd as (_ & _ & Hd); congruence|]. repeat split; try congruence; lia.
    + destruct Hst as (R & M). rewrite recog_app, R. split; [|exact M].
      destruct Hp as [Hn|Hn _ Hn'|t Hn _ Hn']; cbn [app recog].
      * rewrite (recog_inputs _ _ Hall), Hn. reflexivity.
      * rewrite Hn, Hn'. cbn [rstep]. apply recog_inputs. exact Hall.
      * rewrite Hn, Hn'. cbn [rstep]. apply recog_inputs. exact Hall.
    + rewrite recog_app. destruct (recog (RSync 0) (without_disconnected w)) as [r|]; [|congruence].
      destruct Hp as [Hn| |]; try congruence. cbn [app]. rewrite (recog_inputs _ _ Hall). discriminate.
    + rewrite recog_app. destruct (recog (RSync 0) (without_disconnected w)) as [r|]; [|congruence].
      destruct Hp as [Hn| |]; try congruence. cbn [app]. rewrite (recog_inputs _ _ Hall). discriminate.
Qed.

Lemma inv1_dead : forall s W ms s' W',
  Inv1 s W ms -> (u_state s' = PDisconnected \/ u_state s' = PShutdown) ->
  u_remote_magic s' = u_remote_magic s -> u_event_sent s' = u_event_sent s ->
  W' ++ u_event_queue s' = W ++ u_event_queue s -> Inv1 s' W' ms.
Proof.
  intros s W ms s' W' (Hc & Hh & Hst) Hs Em Ee Hw. unfold Inv1. cbv zeta. rewrite Hw, Ee.
  split; [exact Hc|]. split.
  - unfold hs_facts in *. cbv zeta in *. rewrite Em. exact Hh.
  - apply st_facts_accepts in Hst. unfold st_facts. destruct Hs as [-> | ->]; exact Hst.
Qed.

Lemma match_of_filtered : forall s now nonce m, passes_filters s m = false -> match_of s (OMessage now nonce m) = [].
Proof. intros s now nonce m H. unfold match_of. destruct (m_body m); try reflexivity. rewrite H. reflexivity. Qed.

Lemma match_of_matched : forall s now nonce m n,
  passes_filters s m = true -> m_body m = SyncReply n -> u_state s = PSynchronizing ->
  zmem n (u_sync_requests s) = true -> match_of s (OMessage now nonce m) = [(n, m_magic m)].
Proof. intros s now nonce m n Hp Hb Hs Hm. unfold match_of. rewrite Hb, Hp, Hs, Hm. reflexivity. Qed.

Lemma match_of_not_message : forall s o, (forall now nonce m, o <> OMessage now nonce m) -> match_of s o = [].
Proof. intros s o H. destruct o; try reflexivity. exfalso. eapply H; eauto. Qed.

Ltac lsolve := cbn [app]; rewrite ?app_nil_r, <- ?app_assoc; cbn [app]; rewrite ?app_nil_r; reflexivity.

Lemma inv1_step : forall dbg o s s' out W ms,
  Inv1 s W ms -> step dbg o s = Ok (s', out) -> Inv1 s' (W ++ out) (ms ++ match_of s o).
Proof.
  intros dbg o s s' out W ms HI H.
  destruct o as [now nonce|now nonce m|now nonce cs|now inputs cs|now|now fr ck|lf|].
  - (* synchronize *)
    unfold step in H; cbn [step_gen] in H; fold_ops H.
    destruct (synchronize now nonce s) as [t| |] eqn:E; inversion H; subst; clear H.
    apply synchronize_effect in E.
    destruct E as (S0 & S1 & S2 & S3 & S4 & S5 & S6 & S7 & S8 & S9 & S10).
    cbn [match_of]. rewrite !app_nil_r.
    destruct HI as (Hc & (HA & HB & HC & HD) & Hst). unfold Inv1. cbv zeta. rewrite S10, S5.
    split; [exact Hc|]. split.
    + unfold hs_facts. cbv zeta. rewrite S6. repeat split; tauto.
    + unfold st_facts in *. cbv zeta in *. rewrite S0 in Hst. rewrite S1, S2, S4, S5.
      destruct Hst as (R & M & N & E). rewrite M. pose proof num_facts.
      repeat split; try assumption; lia.
  - (* handle_message *)
    unfold step in H; cbn [step_gen] in H; fold_ops H.
    destruct (handle_message dbg now nonce m s) as [t| |] eqn:E; inversion H; subst; clear H.
    apply handle_message_effect in E.
    destruct E as [(Hf & ->)|(Hp & L & NS & TO & NT & [(Hm & Hmm)|(Hm & Ho)])].
    + rewrite (match_of_filtered _ _ _ _ Hf), !app_nil_r. exact HI.
    + (* matched reply *)
      destruct Hmm as (n & Eb & Ss & Zm & R1 & R3 & Hcase).
      rewrite (match_of_matched _ _ _ _ _ Hp Eb Ss Zm), app_nil_r.
      destruct HI as (Hc & (HA & HB & HC & HD) & Hst).
      unfold st_facts in Hst. cbv zeta in Hst. rewrite Ss in Hst.
      destruct Hst as (R & M & (Slo & Shi) & N & E).
      pose proof num_facts as (N1 & N2).
      assert (Erem : (u_sync_remaining s - 1) mod WRAP = u_sync_remaining s - 1)
        by (apply wrap_small; lia).
      rewrite Erem in *.
      assert (Elen : Z.of_nat (length (ms ++ [(n, m_magic m)])) = Z.of_nat (length ms) + 1)
        by (rewrite app_length; cbn [length]; lia).
      assert (Hnos : ~ In EvSynchronized (W ++ u_event_queue s)) by (rewrite HA; lia).
      unfold Inv1. cbv zeta. rewrite R3, E.
      destruct Hcase as [(Hpos & S' & Rm & Rq & Q)|(Hz & S' & Rm & Rq & Q)]; rewrite Q, app_assoc.
      * assert (Ecnt : (NUM_SYNC_PACKETS - (u_sync_remaining s - 1)) mod WRAP = Z.of_nat (length ms) + 1)
          by (rewrite wrap_small; lia).
        rewrite Ecnt. split; [|split].
        -- rewrite cd_app, Hc, E. reflexivity.
        -- unfold hs_facts. cbv zeta. rewrite Elen, Rm. rewrite in_app_iff.
           split; [|split; [lia|split; [intros _; apply HC; lia|intro; lia]]].
           split; [intros [X|[X|[]]]; [tauto|discriminate]|intro; lia].
        -- unfold st_facts. cbv zeta. rewrite S', Elen, R1, wd_app, recog_app, R. cbn [without_disconnected filter is_disconnected negb recog rstep].
           assert (((NUM_SYNC_PACKETS =? NUM_SYNC_PACKETS) && (Z.of_nat (length ms) + 1 =? Z.of_nat (length ms) + 1)
                    && (Z.of_nat (length ms) + 1 <? NUM_SYNC_PACKETS)) = true) as -> by lia.
           assert (u_notify_sent s' = false) as -> by (rewrite NT, N; destruct (resumed_cond s); reflexivity).
           repeat split; lia.
      * assert (Esr : u_sync_remaining s = 1) by lia.
        split; [|split].
        -- rewrite cd_app, Hc, E. reflexivity.
        -- unfold hs_facts. cbv zeta. rewrite Elen, Rm. rewrite in_app_iff.
           split; [|split; [lia|split; [intro; lia|]]].
           ++ split; [intro; lia|intro; right; left; reflexivity].
           ++ intros _. rewrite map_app. cbn [map snd].
              assert (Z.to_nat (NUM_SYNC_PACKETS - 1) = length (map snd ms)) as -> by (rewrite map_length; lia).
              rewrite app_nth2, Nat.sub_diag by lia. reflexivity.
        -- unfold st_facts. cbv zeta. rewrite S', Elen, wd_app, recog_app, R. cbn [without_disconnected filter is_disconnected negb recog rstep].
           assert ((Z.of_nat (length ms) =? NUM_SYNC_PACKETS - 1) = true) as -> by lia.
           assert (u_notify_sent s' = false) as -> by (rewrite NT, N; destruct (resumed_cond s); reflexivity).
           split; [reflexivity|lia].
    + (* any other accepted message *)
      rewrite Hm, !app_nil_r.
      destruct Ho as (O1 & O2 & O3 & O4 & O5 & evs & Hall & Hq).
      assert (Hpk : pre_kind s s' (resumed_pre s)) by (apply pre_kind_resumed; exact NT).
      destruct Hq as [(B1 & B2 & B3 & B4)|(B1 & B2)].
      * eapply (inv1_same_state s W ms s' W (resumed_pre s) true evs); eauto.
        rewrite B4. lsolve.
      * eapply (inv1_same_state s W ms s' W (resumed_pre s) false evs); eauto.
        rewrite B2. lsolve.
  - (* poll *)
    unfold step in H; cbn [step_gen] in H; fold_ops H.
    destruct (poll now nonce cs s) as [[evs t]| |] eqn:E; inversion H; subst; clear H.
    apply poll_effect in E. destruct E as (Q & NS & TO & L & RM & SR & Hst).
    cbn [match_of]. rewrite app_nil_r.
    destruct (u_state s) eqn:Es.
    + destruct Hst as (A & B & C & D & F).
      eapply (inv1_same_state s W ms s' _ [] false []); eauto; try congruence.
      * rewrite Q, D. lsolve.
      * apply pk_none; exact B.
    + destruct Hst as (A & B & C & D & F).
      eapply (inv1_same_state s W ms s' _ [] false []); eauto; try congruence.
      * rewrite Q, D. lsolve.
      * apply pk_none; exact B.
    + destruct Hst as (A & B & C & D & F).
      eapply (inv1_same_state s W ms s' _
                (if interrupt_now now s then [EvNetworkInterrupted (Z.max 0 (u_timeout s - u_notify_start s))] else [])
                (timeout_now now s) []); eauto; try congruence.
      * rewrite Q, F. unfold poll_pushed. lsolve.
      * destruct (timeout_now now s) eqn:T.
        -- unfold timeout_now in T. apply andb_true_iff in T. destruct T as [T _].
           destruct (u_event_sent s); [discriminate|]. rewrite D. auto.
        -- rewrite D. apply orb_false_r.
      * destruct (interrupt_now now s) eqn:T.
        -- apply interrupt_now_true in T. destruct T as (T1 & T2 & T3).
           apply pk_interrupted; try assumption. rewrite C. apply orb_true_r.
        -- apply pk_none. rewrite C. apply orb_false_r.
    + destruct Hst as (A & B & C & D & F).
      eapply (inv1_dead s W ms s'); eauto.
      * destruct (u_shutdown_timeout s <? now); auto.
      * rewrite Q, D. lsolve.
    + destruct Hst as (A & B & C & D & F).
      eapply (inv1_dead s W ms s'); eauto.
      rewrite Q, D. lsolve.
  - (* send_input *)
    unfold step in H; cbn [step_gen] in H; fold_ops H.
    destruct (send_input now inputs cs s) as [t| |] eqn:E; inversion H; subst; clear H.
    apply send_input_effect in E. destruct E as ((A1 & A2 & A3 & A4 & A5 & A6 & A7 & A8 & A9) & Hq).
    cbn [match_of]. rewrite !app_nil_r.
    destruct Hq as [(B1 & B2 & B3 & B4)|(B1 & B2)].
    + eapply (inv1_same_state s W ms s' W [] true []); eauto.
      * rewrite B4. lsolve.
      * apply pk_none; exact A4.
    + eapply (inv1_same_state s W ms s' W [] false []); eauto.
      * rewrite B2. lsolve.
      * apply pk_none; exact A4.
  - (* disconnect *)
    unfold step in H; cbn [step_gen] in H; fold_ops H. inversion H; subst; clear H.
    pose proof (disconnect_effect now s) as (D1 & D2 & D3 & D4 & D5 & D6 & D7 & D8 & D9 & D10).
    cbn [match_of]. rewrite !app_nil_r.
    eapply inv1_dead; eauto.
    + rewrite D1. destruct (pstate_eqb (u_state s) PShutdown); auto.
    + rewrite D10. lsolve.
  - pose proof (misc_effect _ _ _ _ _ H) as (((A1 & A2 & A3 & A4 & A5 & A6 & A7 & A8 & A9) & B & C) & ->).
    cbn [match_of]. rewrite !app_nil_r.
    eapply (inv1_same_state s W ms s' W [] false []); eauto.
    + rewrite C. lsolve.
    + apply pk_none; exact A4.
  - pose proof (misc_effect _ _ _ _ _ H) as (((A1 & A2 & A3 & A4 & A5 & A6 & A7 & A8 & A9) & B & C) & ->).
    cbn [match_of]. rewrite !app_nil_r.
    eapply (inv1_same_state s W ms s' W [] false []); eauto.
    + rewrite C. lsolve.
    + apply pk_none; exact A4.
  - pose proof (misc_effect _ _ _ _ _ H) as (((A1 & A2 & A3 & A4 & A5 & A6 & A7 & A8 & A9) & B & C) & ->).
    cbn [match_of]. rewrite !app_nil_r.
    eapply (inv1_same_state s W ms s' W [] false []); eauto.
    + rewrite C. lsolve.
    + apply pk_none; exact A4.
Qed.

Lemma inv1_run : forall dbg ops s W ms s' evs,
  Inv1 s W ms -> run dbg s ops = Ok (s', evs) -> Inv1 s' (W ++ evs) (ms ++ matches dbg s ops).
Proof.
  induction ops as [|o r IH]; intros s W ms s' evs HI H; unfold run in *; cbn [run_gen matches] in *.
  - inversion H; subst. rewrite !app_nil_r. exact HI.
  - change (step_gen current_code) with step in H.
    destruct (step dbg o s) as [[s1 e1]| |] eqn:E; try discriminate.
    destruct (run_gen current_code dbg s1 r) as [[s2 e2]| |] eqn:E2; try discriminate.
    inversion H; subst. rewrite !app_assoc. eapply IH; [|exact E2].
    eapply inv1_step; eauto.
Qed.

Section Initial.
Variables (now magic : Z) (handles : list Z) (np lp mp timeout notify fps : Z) (desync : option Z).
Let s0 := ep_new now magic handles np lp mp timeout notify fps desync.

Lemma inv1_initial : Inv1 s0 [] [].
Proof.
  unfold Inv1, hs_facts, st_facts. cbn. pose proof num_facts.
  repeat split; try reflexivity; try lia; try tauto; intros; lia.
Qed.

Lemma reach_inv1 : forall dbg ops s evs,
  run dbg s0 ops = Ok (s, evs) -> Inv1 s evs (matches dbg s0 ops).
Proof. intros dbg ops s evs H. exact (inv1_run dbg ops s0 [] [] s evs inv1_initial H). Qed.

(* (a), unconditional part *)
Lemma grammar_modulo_disconnected : forall dbg ops s evs,
  run dbg s0 ops = Ok (s, evs) ->
  event_grammar (without_disconnected evs) /\ (count_disconnected evs <= 1)%nat.
Proof.
  intros dbg ops s evs H. apply reach_inv1 in H. destruct H as (Hc & _ & Hst). split.
  - apply st_facts_accepts in Hst. rewrite wd_app in Hst. exact (recog_prefix _ _ _ Hst).
  - rewrite cd_app in Hc. destruct (u_event_sent s); lia.
Qed.

(* (b) *)
Lemma handshake_count : forall dbg ops s evs,
  run dbg s0 ops = Ok (s, evs) ->
  let m := matched dbg s0 ops in
  0 <= m <= NUM_SYNC_PACKETS /\
  (m = NUM_SYNC_PACKETS <-> In EvSynchronized (evs ++ u_event_queue s)) /\
  (is_running s = true -> m = NUM_SYNC_PACKETS) /\
  (m = NUM_SYNC_PACKETS -> is_synchronized s = true) /\
  (m < NUM_SYNC_PACKETS -> u_remote_magic s = 0) /\
  (m = NUM_SYNC_PACKETS ->
   u_remote_magic s = nth (Z.to_nat (NUM_SYNC_PACKETS - 1)) (map snd (matches dbg s0 ops)) 0).
Proof.
  intros dbg ops s evs H. apply reach_inv1 in H. cbv zeta. unfold matched.
  destruct H as (_ & (HA & HB & HC & HD) & Hst). pose proof num_facts as (N1 & N2).
  split; [lia|]. split; [tauto|]. split; [|split; [|split; assumption]].
  - unfold is_running. intro R. apply pstate_eqb_eq in R. unfold st_facts in Hst. rewrite R in Hst. tauto.
  - intro M. unfold is_synchronized, st_facts in *. destruct (u_state s); try reflexivity.
    + destruct Hst as (_ & M0 & _). lia.
    + destruct Hst as (_ & M0 & S & _). lia.
Qed.
End Initial.

(* ---------- invariant 2: the full grammar (nothing but Input events after Disconnected) ---------- *)
Definition InvS (s : ep) (W : list event) : Prop :=
  let w := W ++ u_event_queue s in
  match u_state s with
  | PInitializing =>
    recog (RSync 0) w = Some (RSync 0) /\ u_notify_sent s = false /\ u_event_sent s = false
  | PSynchronizing =>
    recog (RSync 0) w = Some (RSync (NUM_SYNC_PACKETS - u_sync_remaining s)) /\
    1 <= u_sync_remaining s <= NUM_SYNC_PACKETS /\ u_notify_sent s = false /\ u_event_sent s = false
  | PRunning =>
    recog (RSync 0) w = Some (if u_event_sent s then RDead else if u_notify_sent s then RInterrupted else RRun)
  | _ => recog (RSync 0) w <> None
  end.

Lemma invS_accepts : forall s W, InvS s W -> recog (RSync 0) (W ++ u_event_queue s) <> None.
Proof.
  intros s W H. unfold InvS in H. cbv zeta in H.
  destruct (u_state s); try exact H.
  - destruct H as [H _]; rewrite H; discriminate.
  - destruct H as [H _]; rewrite H; discriminate.
  - rewrite H; discriminate.
Qed.

Lemma invS_same_state : forall s W s' W' pre (d : bool) evs,
  InvS s W ->
  u_state s' = u_state s -> u_sync_remaining s' = u_sync_remaining s ->
  W' ++ u_event_queue s' = (W ++ u_event_queue s) ++ pre ++ (if d then [EvDisconnected] else []) ++ evs ->
  forallb is_input evs = true ->
  (if d then u_event_sent s = false /\ u_event_sent s' = true /\ u_state s = PRunning
   else u_event_sent s' = u_event_sent s) ->
  pre_kind s s' pre ->
  (u_event_sent s = true -> pre = []) ->
  InvS s' W'.
Proof.
  intros s W s' W' pre d evs HI Es Er Hw Hall Hd Hp Hpre.
  unfold InvS in *. cbv zeta in *. rewrite Hw, Es, Er. set (w := W ++ u_event_queue s) in *.
  destruct (u_state s) eqn:Est.
  - destruct HI as (R & N & E).
    destruct Hp as [Hn| |]; try congruence. destruct d; [destruct Hd as (_ & _ & Hd); congruence|].
    cbn [app]. rewrite recog_app, R, (recog_inputs _ _ Hall). repeat split; congruence.
  - destruct HI as (R & S & N & E).
    destruct Hp as [Hn| |]; try congruence. destruct d; [destruct Hd as (_ & _ & Hd); congruence|].
    cbn [app]. rewrite recog_app, R, (recog_inputs _ _ Hall). repeat split; try congruence; lia.
  - destruct (u_event_sent s) eqn:Ee.
    + rewrite (Hpre eq_refl).
      destruct d; [destruct Hd; discriminate|]. rewrite Hd. cbn [app].
      rewrite recog_app, HI. apply recog_inputs. exact Hall.
    + rewrite recog_app, HI.
      assert (Hr : recog (if u_notify_sent s then RInterrupted else RRun) pre
                   = Some (if u_notify_sent s' then RInterrupted else RRun)).
      { destruct Hp as [Hn|Hn _ Hn'|t Hn _ Hn']; cbn [recog]; rewrite ?Hn, ?Hn'; reflexivity. }
      rewrite recog_app, Hr.
      destruct d.
      * destruct Hd as (_ & Hd & _). rewrite Hd. cbn [app recog].
        assert (rstep (if u_notify_sent s' then RInterrupted else RRun) EvDisconnected = Some RDead) as ->
          by (destruct (u_notify_sent s'); reflexivity).
        apply recog_inputs. exact Hall.
      * rewrite Hd. cbn [app]. apply recog_inputs. exact Hall.
  - destruct Hp as [Hn| |]; try congruence. destruct d; [destruct Hd as (_ & _ & Hd); congruence|].
    cbn [app]. rewrite recog_app. destruct (recog (RSync 0) w); [|congruence].
    rewrite (recog_inputs _ _ Hall). discriminate.
  - destruct Hp as [Hn| |]; try congruence. destruct d; [destruct Hd as (_ & _ & Hd); congruence|].
    cbn [app]. rewrite recog_app. destruct (recog (RSync 0) w); [|congruence].
    rewrite (recog_inputs _ _ Hall). discriminate.
Qed.

Lemma invS_dead : forall s W s' W',
  InvS s W -> (u_state s' = PDisconnected \/ u_state s' = PShutdown) ->
  W' ++ u_event_queue s' = W ++ u_event_queue s -> InvS s' W'.
Proof.
  intros s W s' W' HI Hs Hw. apply invS_accepts in HI. unfold InvS. cbv zeta. rewrite Hw.
  destruct Hs as [-> | ->]; exact HI.
Qed.

Lemma invS_step : forall dbg o s s' out W,
  InvS s W -> step dbg o s = Ok (s', out) -> InvS s' (W ++ out).
Proof.
  intros dbg o s s' out W HI H.
  destruct o as [now nonce|now nonce m|now nonce cs|now inputs cs|now|now fr ck|lf|].
  - (* synchronize *)
    unfold step in H; cbn [step_gen] in H; fold_ops H.
    destruct (synchronize now nonce s) as [t| |] eqn:E; inversion H; subst; clear H.
    apply synchronize_effect in E.
    destruct E as (S0 & S1 & S2 & S3 & S4 & S5 & S6 & S7 & S8 & S9 & S10).
    unfold InvS in *. cbv zeta in *. rewrite S0 in HI. rewrite S1, S2, S4, S5, S10, app_nil_r.
    destruct HI as (R & N & E). pose proof num_facts.
    replace (NUM_SYNC_PACKETS - NUM_SYNC_PACKETS) with 0 by lia. repeat split; try assumption; lia.
  - (* handle_message *)
    unfold step in H; cbn [step_gen] in H; fold_ops H.
    destruct (handle_message dbg now nonce m s) as [t| |] eqn:E; inversion H; subst; clear H.
    apply handle_message_effect in E. rewrite app_nil_r.
    destruct E as [(Hf & ->)|(Hp & L & NS & TO & NT & [(Hm & Hmm)|(Hm & Ho)])].
    + exact HI.
    + (* matched reply *)
      destruct Hmm as (n & Eb & Ss & Zm & R1 & R3 & Hcase).
      unfold InvS in *. cbv zeta in *. rewrite Ss in HI.
      destruct HI as (R & (Slo & Shi) & N & E).
      pose proof num_facts as (N1 & N2).
      assert (Erem : (u_sync_remaining s - 1) mod WRAP = u_sync_remaining s - 1)
        by (apply wrap_small; lia).
      rewrite Erem in *.
      assert (En' : u_notify_sent s' = false) by (rewrite NT, N; destruct (resumed_cond s); reflexivity).
      destruct Hcase as [(Hpos & S' & Rm & Rq & Q)|(Hz & S' & Rm & Rq & Q)]; rewrite S', Q, app_assoc, recog_app, R.
      * assert (Ecnt : (NUM_SYNC_PACKETS - (u_sync_remaining s - 1)) mod WRAP = NUM_SYNC_PACKETS - u_sync_remaining s + 1)
          by (rewrite wrap_small; lia).
        rewrite Ecnt, R1. cbn [recog rstep].
        assert (((NUM_SYNC_PACKETS =? NUM_SYNC_PACKETS)
                 && (NUM_SYNC_PACKETS - u_sync_remaining s + 1 =? NUM_SYNC_PACKETS - u_sync_remaining s + 1)
                 && (NUM_SYNC_PACKETS - u_sync_remaining s + 1 <? NUM_SYNC_PACKETS)) = true) as -> by lia.
        rewrite En', R3, E.
        replace (NUM_SYNC_PACKETS - (u_sync_remaining s - 1)) with (NUM_SYNC_PACKETS - u_sync_remaining s + 1) by lia.
        repeat split; lia.
      * cbn [recog rstep].
        assert ((NUM_SYNC_PACKETS - u_sync_remaining s =? NUM_SYNC_PACKETS - 1) = true) as -> by lia.
        rewrite R3, E, En'. reflexivity.
    + (* any other accepted message *)
      destruct Ho as (O1 & O2 & O3 & O4 & O5 & evs & Hall & Hqq).
      assert (Hpk : pre_kind s s' (resumed_pre s)) by (apply pre_kind_resumed; exact NT).
      destruct Hqq as [(B1 & B2 & B3 & B4)|(B1 & B2)].
      * eapply (invS_same_state s W s' W (resumed_pre s) true evs); eauto.
        -- rewrite B4. lsolve.
        -- apply resumed_pre_dead.
      * eapply (invS_same_state s W s' W (resumed_pre s) false evs); eauto.
        -- rewrite B2. lsolve.
        -- apply resumed_pre_dead.
  - (* poll *)
    unfold step in H; cbn [step_gen] in H; fold_ops H.
    destruct (poll now nonce cs s) as [[evs t]| |] eqn:E; inversion H; subst; clear H.
    apply poll_effect in E. destruct E as (Q & NS & TO & L & RM & SR & Hst).
    destruct (u_state s) eqn:Es.
    + destruct Hst as (A & B & C & D & F).
      eapply (invS_same_state s W s' _ [] false []); eauto; try congruence.
      * rewrite Q, D. lsolve.
      * apply pk_none; exact B.
    + destruct Hst as (A & B & C & D & F).
      eapply (invS_same_state s W s' _ [] false []); eauto; try congruence.
      * rewrite Q, D. lsolve.
      * apply pk_none; exact B.
    + destruct Hst as (A & B & C & D & F).
      eapply (invS_same_state s W s' _
                (if interrupt_now now s then [EvNetworkInterrupted (Z.max 0 (u_timeout s - u_notify_start s))] else [])
                (timeout_now now s) []); eauto; try congruence.
      * rewrite Q, F. unfold poll_pushed. lsolve.
      * destruct (timeout_now now s) eqn:T.
        -- unfold timeout_now in T. apply andb_true_iff in T. destruct T as [T _].
           destruct (u_event_sent s); [discriminate|]. rewrite D. auto.
        -- rewrite D. apply orb_false_r.
      * destruct (interrupt_now now s) eqn:T.
        -- apply interrupt_now_true in T. destruct T as (T1 & T2 & T3).
           apply pk_interrupted; try assumption. rewrite C. apply orb_true_r.
        -- apply pk_none. rewrite C. apply orb_false_r.
      * intro He. destruct (interrupt_now now s) eqn:T; [|reflexivity].
        apply interrupt_now_true in T. destruct T as (_ & T & _). congruence.
    + destruct Hst as (A & B & C & D & F).
      eapply (invS_dead s W s'); eauto.
      * destruct (u_shutdown_timeout s <? now); auto.
      * rewrite Q, D. lsolve.
    + destruct Hst as (A & B & C & D & F).
      eapply (invS_dead s W s'); eauto.
      rewrite Q, D. lsolve.
  - (* send_input *)
    unfold step in H; cbn [step_gen] in H; fold_ops H.
    destruct (send_input now inputs cs s) as [t| |] eqn:E; inversion H; subst; clear H.
    apply send_input_effect in E. destruct E as ((A1 & A2 & A3 & A4 & A5 & A6 & A7 & A8 & A9) & Hqq).
    destruct Hqq as [(B1 & B2 & B3 & B4)|(B1 & B2)].
    + eapply (invS_same_state s W s' _ [] true []); eauto.
      * rewrite B4. lsolve.
      * apply pk_none; exact A4.
    + eapply (invS_same_state s W s' _ [] false []); eauto.
      * rewrite B2. lsolve.
      * apply pk_none; exact A4.
  - (* disconnect *)
    unfold step in H; cbn [step_gen] in H; fold_ops H. inversion H; subst; clear H.
    pose proof (disconnect_effect now s) as (D1 & D2 & D3 & D4 & D5 & D6 & D7 & D8 & D9 & D10).
    eapply invS_dead; eauto.
    + rewrite D1. destruct (pstate_eqb (u_state s) PShutdown); auto.
    + rewrite D10. lsolve.
  - pose proof (misc_effect _ _ _ _ _ H) as (((A1 & A2 & A3 & A4 & A5 & A6 & A7 & A8 & A9) & B & C) & ->).
    eapply (invS_same_state s W s' _ [] false []); eauto.
    + rewrite C. lsolve.
    + apply pk_none; exact A4.
  - pose proof (misc_effect _ _ _ _ _ H) as (((A1 & A2 & A3 & A4 & A5 & A6 & A7 & A8 & A9) & B & C) & ->).
    eapply (invS_same_state s W s' _ [] false []); eauto.
    + rewrite C. lsolve.
    + apply pk_none; exact A4.
  - pose proof (misc_effect _ _ _ _ _ H) as (((A1 & A2 & A3 & A4 & A5 & A6 & A7 & A8 & A9) & B & C) & ->).
    eapply (invS_same_state s W s' _ [] false []); eauto.
    + rewrite C. lsolve.
    + apply pk_none; exact A4.
Qed.

Lemma invS_run : forall dbg ops s W s' evs,
  InvS s W -> run dbg s ops = Ok (s', evs) -> InvS s' (W ++ evs).
Proof.
  induction ops as [|o r IH]; intros s W s' evs HI H; unfold run in *; cbn [run_gen] in *.
  - inversion H; subst. rewrite app_nil_r. exact HI.
  - change (step_gen current_code) with step in H.
    destruct (step dbg o s) as [[s1 e1]| |] eqn:E; try discriminate.
    destruct (run_gen current_code dbg s1 r) as [[s2 e2]| |] eqn:E2; try discriminate.
    inversion H; subst. rewrite app_assoc. eapply IH; [|exact E2].
    eapply invS_step; eauto.
Qed.

(* ---------- invariant 3: timers ---------- *)
Definition no_interrupted (l : list event) : Prop := forall t, ~ In (EvNetworkInterrupted t) l.

Definition InvT (ns to : Z) (s : ep) (la : Z) : Prop :=
  (u_notify_start s = ns /\ u_timeout s = to /\ u_last_recv_time s = la) /\ no_interrupted (u_event_queue s).

Lemma no_interrupted_app : forall a b, no_interrupted a -> no_interrupted b -> no_interrupted (a ++ b).
Proof. intros a b Ha Hb t H. apply in_app_iff in H. destruct H; [eapply Ha|eapply Hb]; eauto. Qed.

Lemma no_interrupted_inputs : forall evs, forallb is_input evs = true -> no_interrupted evs.
Proof.
  induction evs as [|e evs IH]; intros H t; [intros []|].
  cbn in H. apply andb_true_iff in H. destruct H as [He H]. intros [X|X].
  - subst. discriminate.
  - exact (IH H t X).
Qed.

Lemma no_interrupted_resumed_pre : forall s, no_interrupted (resumed_pre s).
Proof.
  intros s t H. unfold resumed_pre in H.
  destruct (resumed_cond s); cbn in H; intuition discriminate.
Qed.

Lemma invT_step : forall ns to dbg o s s' out la,
  InvT ns to s la -> step dbg o s = Ok (s', out) -> InvT ns to s' (accept_time s o la).
Proof.
  intros ns to dbg o s s' out la ((HK1 & HK2 & HL) & HN) H.
  destruct o as [now nonce|now nonce m|now nonce cs|now inputs cs|now|now fr ck|lf|]; cbn [accept_time].
  - unfold step in H; cbn [step_gen] in H; fold_ops H.
    destruct (synchronize now nonce s) as [t| |] eqn:E; inversion H; subst; clear H.
    apply synchronize_effect in E.
    destruct E as (S0 & S1 & S2 & S3 & S4 & S5 & S6 & S7 & S8 & S9 & S10).
    split; [repeat split; congruence|rewrite S10; exact HN].
  - unfold step in H; cbn [step_gen] in H; fold_ops H.
    destruct (handle_message dbg now nonce m s) as [t| |] eqn:E; inversion H; subst; clear H.
    apply handle_message_effect in E.
    destruct E as [(Hf & ->)|(Hp & L & NS & TO & NT & [(Hm & Hmm)|(Hm & Ho)])].
    + rewrite Hf. split; [repeat split; congruence|assumption].
    + rewrite Hp. split; [repeat split; congruence|].
      destruct Hmm as (n & Eb & Ss & Zm & R1 & R3 & [(_ & _ & _ & _ & Q)|(_ & _ & _ & _ & Q)]);
        rewrite Q; apply no_interrupted_app; try assumption;
        intros t [X|[]]; discriminate.
    + rewrite Hp. split; [repeat split; congruence|].
      destruct Ho as (O1 & O2 & O3 & O4 & O5 & evs & Hall & [(B1 & B2 & B3 & B4)|(B1 & B2)]).
      * rewrite B4. apply no_interrupted_app; [assumption|].
        apply no_interrupted_app; [apply no_interrupted_resumed_pre|].
        intros t [X|X]; [discriminate|exact (no_interrupted_inputs _ Hall t X)].
      * rewrite B2. apply no_interrupted_app; [assumption|].
        apply no_interrupted_app; [apply no_interrupted_resumed_pre|apply no_interrupted_inputs; exact Hall].
  - unfold step in H; cbn [step_gen] in H; fold_ops H.
    destruct (poll now nonce cs s) as [[evs t]| |] eqn:E; inversion H; subst; clear H.
    apply poll_effect in E. destruct E as (Q & NS & TO & L & RM & SR & Hst).
    split; [repeat split; congruence|]. rewrite Q. intros t [].
  - unfold step in H; cbn [step_gen] in H; fold_ops H.
    destruct (send_input now inputs cs s) as [t| |] eqn:E; inversion H; subst; clear H.
    apply send_input_effect in E. destruct E as ((A1 & A2 & A3 & A4 & A5 & A6 & A7 & A8 & A9) & Hqq).
    split; [repeat split; congruence|].
    destruct Hqq as [(B1 & B2 & B3 & B4)|(B1 & B2)]; [rewrite B4|rewrite B2; exact HN].
    apply no_interrupted_app; [assumption|]. intros t [X|[]]; discriminate.
  - unfold step in H; cbn [step_gen] in H; fold_ops H. inversion H; subst; clear H.
    pose proof (disconnect_effect now s) as (D1 & D2 & D3 & D4 & D5 & D6 & D7 & D8 & D9 & D10).
    split; [repeat split; congruence|rewrite D10; exact HN].
  - pose proof (misc_effect _ _ _ _ _ H) as (((A1 & A2 & A3 & A4 & A5 & A6 & A7 & A8 & A9) & B & C) & ->).
    split; [repeat split; congruence|rewrite C; exact HN].
  - pose proof (misc_effect _ _ _ _ _ H) as (((A1 & A2 & A3 & A4 & A5 & A6 & A7 & A8 & A9) & B & C) & ->).
    split; [repeat split; congruence|rewrite C; exact HN].
  - pose proof (misc_effect _ _ _ _ _ H) as (((A1 & A2 & A3 & A4 & A5 & A6 & A7 & A8 & A9) & B & C) & ->).
    split; [repeat split; congruence|rewrite C; exact HN].
Qed.

Lemma invT_run : forall ns to dbg ops s la s' evs,
  InvT ns to s la -> run dbg s ops = Ok (s', evs) -> InvT ns to s' (last_accept dbg s ops la).
Proof.
  intros ns to dbg. induction ops as [|o r IH]; intros s la s' evs HI H; unfold run in *; cbn [run_gen last_accept] in *.
  - inversion H; subst. exact HI.
  - change (step_gen current_code) with step in H.
    destruct (step dbg o s) as [[s1 e1]| |] eqn:E; try discriminate.
    destruct (run_gen current_code dbg s1 r) as [[s2 e2]| |] eqn:E2; try discriminate.
    inversion H; subst. eapply IH; [|exact E2]. eapply invT_step; eauto.
Qed.

(* what a poll pushes, for any state *)
Lemma poll_pushes : forall dbg now nonce cs s s' out,
  step dbg (OPoll now nonce cs) s = Ok (s', out) ->
  exists pushed, out = u_event_queue s ++ pushed /\
    (forall t, In (EvNetworkInterrupted t) pushed ->
       u_state s = PRunning /\ u_notify_sent s = false /\ u_event_sent s = false /\
       u_last_recv_time s + u_notify_start s < now /\ t = Z.max 0 (u_timeout s - u_notify_start s)) /\
    (In EvDisconnected pushed ->
       u_state s = PRunning /\ u_event_sent s = false /\ u_last_recv_time s + u_timeout s < now) /\
    (u_state s = PRunning -> u_notify_sent s = false -> u_event_sent s = false ->
     u_last_recv_time s + u_notify_start s < now ->
       In (EvNetworkInterrupted (Z.max 0 (u_timeout s - u_notify_start s))) pushed /\ u_notify_sent s' = true) /\
    (u_state s = PRunning -> u_event_sent s = false -> u_last_recv_time s + u_timeout s < now ->
       In EvDisconnected pushed /\ u_event_sent s' = true).
Proof.
  intros dbg now nonce cs s s' out H. unfold step in H; cbn [step_gen] in H; fold_ops H.
  destruct (poll now nonce cs s) as [[evs t]| |] eqn:E; inversion H; subst; clear H.
  apply poll_effect in E. destruct E as (Q & NS & TO & L & RM & SR & Hst).
  assert (Hother : u_state s <> PRunning -> out = u_event_queue s ->
    exists pushed, out = u_event_queue s ++ pushed /\
    (forall t, In (EvNetworkInterrupted t) pushed ->
       u_state s = PRunning /\ u_notify_sent s = false /\ u_event_sent s = false /\
       u_last_recv_time s + u_notify_start s < now /\ t = Z.max 0 (u_timeout s - u_notify_start s)) /\
    (In EvDisconnected pushed ->
       u_state s = PRunning /\ u_event_sent s = false /\ u_last_recv_time s + u_timeout s < now) /\
    (u_state s = PRunning -> u_notify_sent s = false -> u_event_sent s = false ->
     u_last_recv_time s + u_notify_start s < now ->
       In (EvNetworkInterrupted (Z.max 0 (u_timeout s - u_notify_start s))) pushed /\ u_notify_sent s' = true) /\
    (u_state s = PRunning -> u_event_sent s = false -> u_last_recv_time s + u_timeout s < now ->
       In EvDisconnected pushed /\ u_event_sent s' = true)).
  { intros Hn D. exists []. rewrite app_nil_r. split; [exact D|].
    split; [intros ? []|]. split; [intros []|]. split; intro X; contradiction. }
  destruct (u_state s) eqn:Es; try (destruct Hst as (A & B & C & D & F); apply Hother; [discriminate|exact D]).
  clear Hother. destruct Hst as (A & B & C & D & F). exists (poll_pushed now s). split; [exact F|].
  unfold poll_pushed.
  assert (HI : interrupt_now now s = true <->
               (u_notify_sent s = false /\ u_event_sent s = false /\ u_last_recv_time s + u_notify_start s < now)).
  { split; [apply interrupt_now_true|]. intros (X1 & X2 & X3). unfold interrupt_now. rewrite X1, X2. cbn. lia. }
  assert (HT : timeout_now now s = true <->
               (u_event_sent s = false /\ u_last_recv_time s + u_timeout s < now)).
  { unfold timeout_now. split.
    - intro X. apply andb_true_iff in X. destruct X as [X1 X2].
      destruct (u_event_sent s); [discriminate|]. split; [reflexivity|lia].
    - intros (X1 & X2). rewrite X1. cbn. lia. }
  split; [|split; [|split]].
  - intros t X. apply in_app_iff in X. destruct X as [X|X].
    + destruct (interrupt_now now s) eqn:T; [|destruct X].
      destruct X as [X|[]]. inversion X; subst. destruct HI as [HI1 _]. specialize (HI1 eq_refl). tauto.
    + destruct (timeout_now now s); [destruct X as [X|[]]; discriminate|destruct X].
  - intro X. apply in_app_iff in X. destruct X as [X|X].
    + destruct (interrupt_now now s); [destruct X as [X|[]]; discriminate|destruct X].
    + destruct (timeout_now now s) eqn:T; [|destruct X]. destruct HT as [HT1 _]. specialize (HT1 eq_refl). tauto.
  - intros _ X1 X2 X3. assert (T : interrupt_now now s = true) by (apply HI; auto).
    rewrite T. split; [left; reflexivity|]. rewrite C, T. apply orb_true_r.
  - intros _ X1 X2. assert (T : timeout_now now s = true) by (apply HT; auto).
    rewrite T. split; [apply in_app_iff; right; left; reflexivity|]. rewrite D, T. apply orb_true_r.
Qed.

(* ---------- fed endpoints are never interrupted ---------- *)
Lemma non_poll_silent : forall dbg o s s' out,
  step dbg o s = Ok (s', out) -> (forall now nonce cs, o <> OPoll now nonce cs) -> out = [].
Proof.
  intros dbg o s s' out H Hn. unfold step in H.
  destruct o; cbn [step_gen] in H;
    try (match type of H with match ?X with _ => _ end = _ => destruct X end; inversion H; reflexivity);
    try (inversion H; reflexivity).
  exfalso. eapply Hn; eauto.
Qed.

Lemma fed_run : forall ns to D dbg ops s la W s' evs,
  D < ns -> InvT ns to s la -> no_interrupted W -> fed D dbg s ops la ->
  run dbg s ops = Ok (s', evs) -> no_interrupted (W ++ evs) /\ no_interrupted (u_event_queue s').
Proof.
  intros ns to D dbg. induction ops as [|o r IH]; intros s la W s' evs HD HI HW HF H;
    unfold run in *; cbn [run_gen fed] in *.
  - inversion H; subst. rewrite app_nil_r. split; [exact HW|exact (proj2 HI)].
  - change (step_gen current_code) with step in H. destruct HF as (Hpoll & HF).
    destruct (step dbg o s) as [[s1 e1]| |] eqn:E; try discriminate.
    destruct (run_gen current_code dbg s1 r) as [[s2 e2]| |] eqn:E2; try discriminate.
    inversion H; subst. rewrite app_assoc.
    eapply (IH s1 (accept_time s o la) (W ++ e1)); eauto.
    + eapply invT_step; eauto.
    + apply no_interrupted_app; [exact HW|].
      destruct HI as ((K1 & K2 & K3) & HQ).
      destruct o as [now nonce|now nonce m|now nonce cs|now inputs cs|now|now fr ck|lf|];
        try (rewrite (non_poll_silent _ _ _ _ _ E); [intros ? []|intros; discriminate]).
      destruct (poll_pushes _ _ _ _ _ _ _ E) as (pushed & -> & P1 & _).
      apply no_interrupted_app; [exact HQ|].
      intros t X. destruct (P1 t X) as (R & _ & _ & T & _). specialize (Hpoll R). lia.
Qed.

(* ---------- matched nonces are pairwise distinct when the drawn nonces are ---------- *)
Lemma zmem_zinsert : forall x y l, zmem x (zinsert y l) = (x =? y) || zmem x l.
Proof.
  intros x y l. unfold zinsert. destruct (zmem y l) eqn:E; [|reflexivity].
  destruct (x =? y) eqn:Exy; [|reflexivity]. apply Z.eqb_eq in Exy. subst. rewrite E. reflexivity.
Qed.

Lemma zmem_zremove : forall x y l, zmem x (zremove y l) = negb (x =? y) && zmem x l.
Proof.
  intros x y. induction l as [|z l IH]; cbn [zremove zmem]; [rewrite andb_false_r; reflexivity|].
  destruct (y =? z) eqn:Eyz.
  - apply Z.eqb_eq in Eyz. subst z. rewrite IH. destruct (x =? y); reflexivity.
  - cbn [zmem]. rewrite IH. destruct (x =? z) eqn:Exz; [|reflexivity].
    apply Z.eqb_eq in Exz. subst z. rewrite Z.eqb_sym, Eyz. reflexivity.
Qed.

Lemma nodup_snoc : forall (l : list Z) x, NoDup l -> ~ In x l -> NoDup (l ++ [x]).
Proof.
  induction l as [|y l IH]; intros x Hn Hx; cbn [app].
  - constructor; [intros []|constructor].
  - inversion Hn; subst. constructor.
    + rewrite in_app_iff. intros [X|[X|[]]]; [contradiction|]. subst. apply Hx. left. reflexivity.
    + apply IH; [assumption|]. intro X. apply Hx. right. exact X.
Qed.

Definition Inv3 (s : ep) (used mn : list Z) : Prop :=
  (forall n, zmem n (u_sync_requests s) = true -> In n used) /\
  (forall n, In n mn -> In n used) /\ NoDup mn /\
  (forall n, In n mn -> zmem n (u_sync_requests s) = false).

Lemma inv3_keep : forall s s' used mn,
  Inv3 s used mn -> u_sync_requests s' = u_sync_requests s -> Inv3 s' ([] ++ used) (mn ++ map (@fst Z Z) []).
Proof. intros s s' used mn H E. cbn. rewrite app_nil_r. unfold Inv3 in *. rewrite E. exact H. Qed.

Lemma inv3_insert : forall s s' used mn nonce,
  Inv3 s used mn -> ~ In nonce used -> u_sync_requests s' = zinsert nonce (u_sync_requests s) ->
  Inv3 s' ([nonce] ++ used) (mn ++ map (@fst Z Z) []).
Proof.
  intros s s' used mn nonce (H1 & H2 & H3 & H4) Hf E. cbn. rewrite app_nil_r. unfold Inv3. rewrite E.
  split; [|split; [|split]].
  - intros n X. rewrite zmem_zinsert in X. apply orb_true_iff in X. destruct X as [X|X].
    + left. apply Z.eqb_eq in X. auto.
    + right. auto.
  - intros n X. right. auto.
  - exact H3.
  - intros n X. rewrite zmem_zinsert, (H4 n X), orb_false_r. apply Z.eqb_neq. intro; subst. apply Hf. auto.
Qed.

Lemma inv3_step : forall dbg o s s' out W ms used mn,
  Inv1 s W ms -> Inv3 s used mn -> (forall n, In n (draws s o) -> ~ In n used) ->
  step dbg o s = Ok (s', out) -> Inv3 s' (draws s o ++ used) (mn ++ map fst (match_of s o)).
Proof.
  intros dbg o s s' out W ms used mn HI1 HI3 Hfresh H.
  destruct o as [now nonce|now nonce m|now nonce cs|now inputs cs|now|now fr ck|lf|].
  - unfold step in H; cbn [step_gen] in H; fold_ops H.
    destruct (synchronize now nonce s) as [t| |] eqn:E; inversion H; subst; clear H.
    apply synchronize_effect in E.
    destruct E as (S0 & S1 & S2 & S3 & S4 & S5 & S6 & S7 & S8 & S9 & S10).
    cbn [draws match_of] in *. rewrite S0 in *. cbn [pstate_eqb] in *.
    apply (inv3_insert s); auto. apply Hfresh. left. reflexivity.
  - unfold step in H; cbn [step_gen] in H; fold_ops H.
    destruct (handle_message dbg now nonce m s) as [t| |] eqn:E; inversion H; subst; clear H.
    apply handle_message_effect in E.
    destruct E as [(Hf & ->)|(Hp & L & NS & TO & NT & [(Hm & Hmm)|(Hm & Ho)])].
    + cbn [draws]. rewrite (match_of_filtered _ _ _ _ Hf). apply (inv3_keep s); auto.
    + destruct Hmm as (n & Eb & Ss & Zm & R1 & R3 & Hcase).
      cbn [draws] in *. rewrite (match_of_matched _ _ _ _ _ Hp Eb Ss Zm) in *. cbn [map fst].
      destruct HI1 as (_ & _ & Hst). unfold st_facts in Hst. rewrite Ss in Hst.
      destruct Hst as (_ & _ & (Slo & Shi) & _). pose proof num_facts as (N1 & N2).
      assert (Erem : (u_sync_remaining s - 1) mod WRAP = u_sync_remaining s - 1) by (apply wrap_small; lia).
      rewrite Erem in Hcase.
      destruct HI3 as (H1 & H2 & H3 & H4).
      assert (Hn_used : In n used) by (apply H1; exact Zm).
      assert (Hn_new : ~ In n mn) by (intro X; rewrite (H4 n X) in Zm; discriminate).
      destruct Hcase as [(Hpos & S' & Rm & Rq & Q)|(Hz & S' & Rm & Rq & Q)].
      * assert ((1 <? u_sync_remaining s) = true) as Hd by lia. rewrite Hd in *. cbn [app].
        assert (Hnonce : ~ In nonce used) by (apply Hfresh; left; reflexivity).
        unfold Inv3. rewrite Rq. split; [|split; [|split]].
        -- intros k X. rewrite zmem_zinsert, zmem_zremove in X. apply orb_true_iff in X. destruct X as [X|X].
           ++ left. apply Z.eqb_eq in X. auto.
           ++ right. apply andb_true_iff in X. destruct X as [_ X]. auto.
        -- intros k X. right. apply in_app_iff in X. destruct X as [X|[X|[]]]; [auto|subst; auto].
        -- apply nodup_snoc; assumption.
        -- intros k X. rewrite zmem_zinsert, zmem_zremove. apply in_app_iff in X. destruct X as [X|[X|[]]].
           ++ rewrite (H4 k X), andb_false_r, orb_false_r. apply Z.eqb_neq. intro; subst. apply Hnonce. auto.
           ++ subst k. rewrite Z.eqb_refl. cbn [negb andb]. rewrite orb_false_r.
              apply Z.eqb_neq. intro; subst. contradiction.
      * assert ((1 <? u_sync_remaining s) = false) as Hd by lia. rewrite Hd in *. cbn [app].
        unfold Inv3. rewrite Rq. split; [|split; [|split]].
        -- intros k X. rewrite zmem_zremove in X. apply andb_true_iff in X. destruct X as [_ X]. auto.
        -- intros k X. apply in_app_iff in X. destruct X as [X|[X|[]]]; [auto|subst; auto].
        -- apply nodup_snoc; assumption.
        -- intros k X. rewrite zmem_zremove. apply in_app_iff in X. destruct X as [X|[X|[]]].
           ++ rewrite (H4 k X). apply andb_false_r.
           ++ subst k. rewrite Z.eqb_refl. reflexivity.
    + cbn [draws]. rewrite Hm. destruct Ho as (O1 & O2 & O3 & _). apply (inv3_keep s); auto.
  - unfold step in H; cbn [step_gen] in H; fold_ops H.
    destruct (poll now nonce cs s) as [[evs t]| |] eqn:E; inversion H; subst; clear H.
    apply poll_effect in E. destruct E as (Q & NS & TO & L & RM & SR & Hst).
    cbn [draws match_of] in *.
    destruct (u_state s) eqn:Es; cbn [pstate_eqb andb] in *;
      try (destruct Hst as (A & B & C & D & F); apply (inv3_keep s); auto; fail).
    destruct Hst as (A & B & C & D & F).
    destruct (u_last_sync_request_time s + SYNC_RETRY_INTERVAL <? now).
    + apply (inv3_insert s); auto. apply Hfresh. left. reflexivity.
    + apply (inv3_keep s); auto.
  - unfold step in H; cbn [step_gen] in H; fold_ops H.
    destruct (send_input now inputs cs s) as [t| |] eqn:E; inversion H; subst; clear H.
    apply send_input_effect in E. destruct E as ((A1 & A2 & A3 & A4 & A5 & A6 & A7 & A8 & A9) & _).
    apply (inv3_keep s); auto.
  - unfold step in H; cbn [step_gen] in H; fold_ops H. inversion H; subst; clear H.
    pose proof (disconnect_effect now s) as (D1 & D2 & D3 & D4 & D5 & D6 & D7 & D8 & D9 & D10).
    apply (inv3_keep s); auto.
  - pose proof (misc_effect _ _ _ _ _ H) as (((A1 & A2 & A3 & A4 & A5 & A6 & A7 & A8 & A9) & B & C) & ->).
    apply (inv3_keep s); auto.
  - pose proof (misc_effect _ _ _ _ _ H) as (((A1 & A2 & A3 & A4 & A5 & A6 & A7 & A8 & A9) & B & C) & ->).
    apply (inv3_keep s); auto.
  - pose proof (misc_effect _ _ _ _ _ H) as (((A1 & A2 & A3 & A4 & A5 & A6 & A7 & A8 & A9) & B & C) & ->).
    apply (inv3_keep s); auto.
Qed.

Lemma inv13_run : forall dbg ops s W ms used mn s' evs,
  Inv1 s W ms -> Inv3 s used mn -> fresh_nonces dbg s used ops -> run dbg s ops = Ok (s', evs) ->
  NoDup (mn ++ map fst (matches dbg s ops)).
Proof.
  induction ops as [|o r IH]; intros s W ms used mn s' evs H1 H3 HF H;
    unfold run in *; cbn [run_gen matches fresh_nonces] in *.
  - cbn. rewrite app_nil_r. exact (proj1 (proj2 (proj2 H3))).
  - change (step_gen current_code) with step in H. destruct HF as (Hfr & HF).
    destruct (step dbg o s) as [[s1 e1]| |] eqn:E; try discriminate.
    destruct (run_gen current_code dbg s1 r) as [[s2 e2]| |] eqn:E2; try discriminate.
    rewrite map_app, app_assoc.
    eapply (IH s1 (W ++ e1) (ms ++ match_of s o) (draws s o ++ used)); eauto.
    + eapply inv1_step; eauto.
    + eapply inv3_step; eauto.
Qed.

Section Initial2.
Variables (now0 magic : Z) (handles : list Z) (np lp mp timeout notify fps : Z) (desync : option Z).
Let s0 := ep_new now0 magic handles np lp mp timeout notify fps desync.

Lemma invS_initial : InvS s0 [].
Proof. unfold InvS. cbn. repeat split. Qed.

(* (a) the full grammar, for every operation sequence *)
Lemma event_grammar_full : forall dbg ops s evs,
  run dbg s0 ops = Ok (s, evs) -> event_grammar evs /\ event_grammar (evs ++ u_event_queue s).
Proof.
  intros dbg ops s evs H. pose proof (invS_run dbg ops s0 [] s evs invS_initial H) as HI.
  apply invS_accepts in HI. cbn [app] in HI. split; [exact (recog_prefix _ _ _ HI)|exact HI].
Qed.

Lemma invT_initial : InvT notify timeout s0 now0.
Proof. unfold InvT. cbn. repeat split. intros t []. Qed.

(* (c) *)
Lemma no_early_timer : forall dbg ops s evs,
  run dbg s0 ops = Ok (s, evs) ->
  let la := last_accept dbg s0 ops now0 in
  u_last_recv_time s = la /\
  forall now nonce cs s' out, step dbg (OPoll now nonce cs) s = Ok (s', out) ->
    exists pushed, out = u_event_queue s ++ pushed /\
      (forall t, ~ In (EvNetworkInterrupted t) (u_event_queue s)) /\
      (forall t, In (EvNetworkInterrupted t) pushed -> la + notify < now /\ t = Z.max 0 (timeout - notify)) /\
      (In EvDisconnected pushed -> la + timeout < now) /\
      (u_state s = PRunning -> u_notify_sent s = false -> u_event_sent s = false -> la + notify < now ->
         In (EvNetworkInterrupted (Z.max 0 (timeout - notify))) pushed) /\
      (u_state s = PRunning -> u_event_sent s = false -> la + timeout < now -> In EvDisconnected pushed).
Proof.
  intros dbg ops s evs H. cbv zeta.
  pose proof (invT_run _ _ dbg ops s0 now0 s evs invT_initial H) as ((K1 & K2 & K3) & HQ).
  split; [exact K3|]. intros now nonce cs s' out Hp.
  destruct (poll_pushes _ _ _ _ _ _ _ Hp) as (pushed & E & P1 & P2 & P3 & P4).
  exists pushed. rewrite <- K1, <- K2, <- K3. split; [exact E|]. split; [exact HQ|].
  split; [|split; [|split]].
  - intros t X. destruct (P1 t X) as (_ & _ & _ & A & B). auto.
  - intro X. destruct (P2 X) as (_ & _ & A). exact A.
  - intros A B C D. exact (proj1 (P3 A B C D)).
  - intros A B C. exact (proj1 (P4 A B C)).
Qed.

Lemma no_spurious_interrupt : forall G P dbg ops s evs,
  G + P < notify -> fed (G + P) dbg s0 ops now0 -> run dbg s0 ops = Ok (s, evs) ->
  forall t, ~ In (EvNetworkInterrupted t) (evs ++ u_event_queue s).
Proof.
  intros G P dbg ops s evs HGP HF H.
  destruct (fed_run notify timeout (G + P) dbg ops s0 now0 [] s evs HGP invT_initial
              (fun t X => match X with end) HF H) as (A & B).
  cbn [app] in A. apply no_interrupted_app; assumption.
Qed.

Lemma matched_nonces_distinct : forall dbg ops s evs,
  fresh_nonces dbg s0 [] ops -> run dbg s0 ops = Ok (s, evs) -> NoDup (map fst (matches dbg s0 ops)).
Proof.
  intros dbg ops s evs HF H.
  apply (inv13_run dbg ops s0 [] [] [] [] s evs); try assumption.
  - apply inv1_initial.
  - unfold Inv3. cbn. split; [intros n X; discriminate|]. split; [intros n []|]. split; [constructor|intros n []].
Qed.
End Initial2.

(* replies that do not match leave the handshake alone *)
Lemma unmatched_reply_no_effect : forall dbg now nonce magic n s s',
  match_of s (OMessage now nonce (mkMsg magic (SyncReply n))) = [] ->
  handle_message dbg now nonce (mkMsg magic (SyncReply n)) s = Ok s' ->
  u_state s' = u_state s /\ u_sync_remaining s' = u_sync_remaining s /\
  u_sync_requests s' = u_sync_requests s /\ u_remote_magic s' = u_remote_magic s /\
  ~ In EvSynchronized (skipn (length (u_event_queue s)) (u_event_queue s')).
Proof.
  intros dbg now nonce magic n s s' Hm H. apply handle_message_effect in H.
  destruct H as [(_ & ->)|(_ & _ & _ & _ & _ & [(X & _)|(_ & O1 & O2 & O3 & O4 & _ & evs & Hall & Hq)])].
  - repeat split. rewrite skipn_all. intros [].
  - contradiction.
  - repeat split; try assumption.
    assert (Hp : ~ In EvSynchronized (resumed_pre s))
      by (unfold resumed_pre; destruct (resumed_cond s); cbn; intuition discriminate).
    destruct Hq as [(_ & _ & _ & Q)|(_ & Q)]; rewrite Q, skipn_app, skipn_all, Nat.sub_diag; cbn [skipn app];
      rewrite in_app_iff; intros [X|X]; try contradiction.
    + destruct X as [X|X]; [discriminate|]. exact (inputs_no_sync _ Hall X).
    + exact (inputs_no_sync _ Hall X).
Qed.

(* ---------- witnesses ---------- *)
Definition w_status : list status := [(false, NULL); (false, NULL)].
Definition w_new : ep := ep_new 0 9 [1] 2 1 8 2000 500 60 None.
(* handshake with forged replies under magic 7: the nonces are 100..104 *)
Definition w_handshake : list op :=
  [OSynchronize 0 100;
   OMessage 0 101 (mkMsg 7 (SyncReply 100)); OMessage 0 102 (mkMsg 7 (SyncReply 101));
   OMessage 0 103 (mkMsg 7 (SyncReply 102)); OMessage 0 104 (mkMsg 7 (SyncReply 103));
   OMessage 0 105 (mkMsg 7 (SyncReply 104))].
Definition w_sends (now : Z) (n : nat) : list op :=
  map (fun f => OSendInput now [(0, (Z.of_nat f, 0))] w_status) (seq 0 n).

(* the code before 7ec8d35: 130 send_input calls without an ack, one poll: Disconnected twice *)
Definition w_multi : list op := w_handshake ++ w_sends 0 130 ++ [OPoll 0 200 w_status].
Lemma multiple_disconnected_refuted :
  exists s evs, run_gen before_7ec8d35 true w_new w_multi = Ok (s, evs) /\ count_disconnected evs = 2%nat /\
                recog (RSync 0) evs = None.
Proof. eexists. eexists. split; [vm_compute; reflexivity|]. split; vm_compute; reflexivity. Qed.
Lemma multiple_disconnected_repaired :
  exists s evs, run true w_new w_multi = Ok (s, evs) /\ count_disconnected evs = 1%nat.
Proof. eexists. eexists. split; [vm_compute; reflexivity|]. vm_compute; reflexivity. Qed.

(* the code before 25d3021: interrupted endpoint, overflow in send_input, then a packet, then the poll
   (followed by disconnect, as the session does): Disconnected is followed by NetworkResumed *)
Definition w_after : list op :=
  w_handshake ++ [OPoll 501 200 w_status] ++ w_sends 501 129 ++
  [OMessage 501 200 (mkMsg 7 KeepAlive); OPoll 501 200 w_status; ODisconnect 501].
Lemma event_after_disconnected_refuted :
  exists s evs, run_gen before_25d3021 true w_new w_after = Ok (s, evs) /\ recog (RSync 0) evs = None /\
                skipn 6 (filter (fun e => negb (is_input e)) evs) = [EvDisconnected; EvNetworkResumed].
Proof. eexists. eexists. split; [vm_compute; reflexivity|]. split; vm_compute; reflexivity. Qed.

(* non-vacuity: a complete handshake under duplication and stray replies reaches Running *)
Definition w_dup : list op :=
  [OSynchronize 0 100;
   OMessage 1 101 (mkMsg 7 (SyncReply 100)); OMessage 1 102 (mkMsg 7 (SyncReply 100));
   OMessage 2 102 (mkMsg 3 (SyncReply 999)); OMessage 2 102 (mkMsg 7 (SyncReply 101));
   OMessage 3 103 (mkMsg 7 (SyncReply 101)); OMessage 3 103 (mkMsg 7 (SyncReply 102));
   OMessage 4 104 (mkMsg 7 (SyncReply 103)); OMessage 4 105 (mkMsg 7 (SyncReply 100));
   OMessage 5 105 (mkMsg 8 (SyncReply 104)); OMessage 6 106 (mkMsg 7 (SyncReply 104));
   OPoll 6 106 w_status].
Lemma handshake_example :
  exists s evs, run true w_new w_dup = Ok (s, evs) /\ is_running s = true /\ matched true w_new w_dup = 5 /\
    u_remote_magic s = 8 /\ fresh_nonces true w_new [] w_dup /\
    evs = [EvSynchronizing 5 1; EvSynchronizing 5 2; EvSynchronizing 5 3; EvSynchronizing 5 4; EvSynchronized].
Proof.
  eexists. eexists. split; [vm_compute; reflexivity|].
  split; [vm_compute; reflexivity|]. split; [vm_compute; reflexivity|]. split; [vm_compute; reflexivity|].
  split; [|vm_compute; reflexivity].
  vm_compute. repeat split; intros x A B; try contradiction; destruct A as [A|[]]; subst x; intuition discriminate.
Qed.

(* non-vacuity: an interruption / resume cycle, then the timeout *)
Definition w_cycle : list op :=
  w_handshake ++
  [OPoll 500 200 w_status; OPoll 501 200 w_status; OMessage 600 200 (mkMsg 7 KeepAlive);
   OPoll 1100 200 w_status; OPoll 1101 200 w_status; OPoll 2600 200 w_status; OPoll 2601 200 w_status;
   OMessage 2700 200 (mkMsg 7 KeepAlive); OPoll 9000 200 w_status].
Lemma cycle_example :
  exists s evs, run true w_new w_cycle = Ok (s, evs) /\
    skipn 5 evs = [EvNetworkInterrupted 1500; EvNetworkResumed; EvNetworkInterrupted 1500; EvDisconnected] /\
    event_grammar evs.
Proof.
  eexists. eexists. split; [vm_compute; reflexivity|]. split; [vm_compute; reflexivity|].
  vm_compute. discriminate.
Qed.
