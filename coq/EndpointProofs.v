(* Proofs for property C12 (endpoint half) about the model Endpoint.v. *)
From Coq Require Import ZArith List Bool Lia.
From Coq Require Import ZifyBool ZifyNat ZifyN.
From GGRS Require Import Base Consts TimeSync Codec Endpoint EndpointSpec.
Open Scope Z_scope.

(* ---------- record plumbing ---------- *)
Ltac fsimpl :=
  cbn [u_num_players u_handles u_send_queue u_event_queue u_state u_sync_remaining u_sync_requests
       u_last_quality_report u_last_input_recv u_notify_sent u_event_sent u_timeout u_notify_start
       u_shutdown_timeout u_fps u_magic u_remote_magic u_peer_status u_pending_output u_last_acked
       u_max_prediction u_recv_inputs u_time_sync u_local_adv u_remote_adv u_stats_start u_rtt
       u_last_send_time u_last_sync_request_time u_last_recv_time u_pending_checksums u_desync
       set_send_queue set_event_queue set_state set_sync_remaining set_sync_requests
       set_last_quality_report set_last_input_recv set_notify_sent set_event_sent set_shutdown_timeout
       set_remote_magic set_peer_status set_pending_output set_last_acked set_recv_inputs set_time_sync
       set_local_adv set_remote_adv set_stats_start set_rtt set_last_send_time
       set_last_sync_request_time set_last_recv_time set_pending_checksums
       push_event queue_message send_sync_request send_input_ack send_keep_alive send_checksum_report
       fst snd] in *.

Lemma pstate_eqb_eq : forall a b, pstate_eqb a b = true <-> a = b.
Proof. destruct a, b; cbn; split; intro H; try reflexivity; discriminate. Qed.
Lemma pstate_eqb_refl : forall a, pstate_eqb a a = true.
Proof. destruct a; reflexivity. Qed.

(* the control part of an endpoint: everything the C12 theorems talk about, except the two event fields *)
Definition same_ctl (s s' : ep) : Prop :=
  u_state s' = u_state s /\ u_sync_remaining s' = u_sync_remaining s /\
  u_sync_requests s' = u_sync_requests s /\ u_notify_sent s' = u_notify_sent s /\
  u_remote_magic s' = u_remote_magic s /\
  u_last_recv_time s' = u_last_recv_time s /\ u_notify_start s' = u_notify_start s /\
  u_timeout s' = u_timeout s /\ u_last_sync_request_time s' = u_last_sync_request_time s.

Lemma same_ctl_refl : forall s, same_ctl s s.
Proof. intro s; repeat split. Qed.
Lemma same_ctl_trans : forall a b c, same_ctl a b -> same_ctl b c -> same_ctl a c.
Proof.
  unfold same_ctl; intros a b c H1 H2.
  destruct H1 as (?&?&?&?&?&?&?&?&?), H2 as (?&?&?&?&?&?&?&?&?).
  repeat split; congruence.
Qed.

(* nothing C12 talks about changes *)
Definition frame (s s' : ep) : Prop :=
  same_ctl s s' /\ u_event_sent s' = u_event_sent s /\ u_event_queue s' = u_event_queue s.
Lemma frame_refl : forall s, frame s s.
Proof. intro s; repeat split. Qed.
Lemma frame_trans : forall a b c, frame a b -> frame b c -> frame a c.
Proof.
  intros a b c (H1 & H2 & H3) (H4 & H5 & H6). split; [eapply same_ctl_trans; eauto|]. split; congruence.
Qed.

Definition is_input (e : event) : bool := match e with EvInput _ _ _ => true | _ => false end.

(* ---------- helper lemmas about the building blocks ---------- *)
Lemma send_pending_output_ctl : forall now cs s s',
  send_pending_output now cs s = Ok s' -> frame s s' /\ u_pending_output s' = u_pending_output s.
Proof.
  intros now cs s s' H. unfold send_pending_output in H.
  destruct (u_pending_output s) as [|[f b] r] eqn:E.
  - inversion H; subst. rewrite E. repeat split.
  - destruct ((fst (u_last_acked s) =? NULL) || (fst (u_last_acked s) + 1 =? f)); [|discriminate].
    inversion H; subst. fsimpl. rewrite E. repeat split.
Qed.

Lemma send_quality_report_ctl : forall now s s',
  send_quality_report now s = Ok s' -> frame s s' /\ u_pending_output s' = u_pending_output s.
Proof.
  intros now s s' H. unfold send_quality_report in H.
  destruct (ts_report_frame_advantage _); inversion H; subst. fsimpl. repeat split.
Qed.

Lemma pop_pending_output_ctl : forall ack s, frame s (pop_pending_output ack s).
Proof.
  intros ack s. unfold pop_pending_output. destruct (pop_pending _ _ _). fsimpl. repeat split.
Qed.

Lemma on_checksum_report_ctl : forall dbg c f s s',
  on_checksum_report dbg c f s = Ok s' -> frame s s'.
Proof.
  intros dbg c f s s' H. unfold on_checksum_report in H.
  cbv zeta in H.
  destruct (match u_desync s with Some i => Ok i | None => _ end) as [iv| |]; try discriminate.
  destruct (MAX_CHECKSUM_HISTORY_SIZE <=? _);
   [destruct (ts_i32_arith dbg _); try discriminate; destruct (ts_i32_arith dbg _); try discriminate|];
   inversion H; subst; fsimpl; repeat split.
Qed.

Lemma input_events_all_input : forall f vs hs evs,
  input_events f vs hs = Ok evs -> forallb is_input evs = true.
Proof.
  induction vs as [|v vs IH]; intros hs evs H; cbn in H.
  - inversion H; reflexivity.
  - destruct hs as [|h hs]; [discriminate|].
    destruct (input_events f vs hs) eqn:E; try discriminate. inversion H; subst. cbn. eauto.
Qed.

Lemma accept_inputs_ctl : forall dbg start inputs i s b s',
  accept_inputs dbg start i inputs s = Ok (b, s') ->
  same_ctl s s' /\ u_event_sent s' = u_event_sent s /\
  exists evs, u_event_queue s' = u_event_queue s ++ evs /\ forallb is_input evs = true.
Proof.
  induction inputs as [|inp rest IH]; intros i s b s' H; cbn [accept_inputs] in H.
  - inversion H; subst. split; [apply same_ctl_refl|]. split; [reflexivity|].
    exists []. rewrite app_nil_r. auto.
  - destruct (ts_i32_arith dbg (start + i)) as [fr| |]; try discriminate.
    destruct (fr <=? last_recv_frame s).
    + eapply IH; eauto.
    + destruct (to_player_inputs _ inp) as [vals|].
      * destruct (input_events fr vals (u_handles s)) as [evs| |] eqn:Ee; try discriminate.
        apply IH in H. destruct H as (Hc & He & evs' & Hq & Hall). fsimpl.
        split; [eapply same_ctl_trans; [|exact Hc]; repeat split|].
        split; [exact He|].
        exists (evs ++ evs'). rewrite Hq, app_assoc. split; [reflexivity|].
        rewrite forallb_app, Hall, (input_events_all_input _ _ _ _ Ee). reflexivity.
      * inversion H; subst. split; [apply same_ctl_refl|]. split; [reflexivity|].
        exists []. rewrite app_nil_r. auto.
Qed.

(* a step that leaves the control part alone and pushes Input events and at most one Disconnected,
   the latter only under the disconnect_event_sent guard *)
Definition quiet (s s' : ep) : Prop :=
  same_ctl s s' /\
  exists evs, forallb is_input evs = true /\
    ((u_event_sent s = false /\ u_state s <> PDisconnected /\ u_event_sent s' = true /\
      u_event_queue s' = u_event_queue s ++ EvDisconnected :: evs) \/
     (u_event_sent s' = u_event_sent s /\ u_event_queue s' = u_event_queue s ++ evs)).

Lemma frame_quiet : forall s s', frame s s' -> quiet s s'.
Proof.
  intros s s' (H1 & H2 & H3). split; [exact H1|]. exists []. split; [reflexivity|].
  right. rewrite app_nil_r. auto.
Qed.

Lemma on_input_quiet : forall dbg now st dr sf af bytes s s',
  on_input dbg now st dr sf af bytes s = Ok s' -> quiet s s'.
Proof.
  intros dbg now st dr sf af bytes s s' H. unfold on_input in H.
  destruct (negb dr && negb (Z.of_nat (length st) =? u_num_players s));
    [inversion H; subst; apply frame_quiet, frame_refl|].
  destruct (sf <? 0); [inversion H; subst; apply frame_quiet, frame_refl|].
  cbv zeta in H.
  pose proof (pop_pending_output_ctl af s) as (Hp1 & Hp2 & Hp3).
  set (s1 := pop_pending_output af s) in *.
  (* the state after the status update / disconnect request: quiet w.r.t. s, with no inputs yet *)
  match type of H with
  | match ?X with _ => _ end = _ => destruct X as [s2| |] eqn:E2; try discriminate
  end.
  assert (Hs2 :
    same_ctl s s2 /\
    ((u_event_sent s = false /\ u_state s <> PDisconnected /\ u_event_sent s2 = true /\
      u_event_queue s2 = u_event_queue s ++ [EvDisconnected]) \/
     (u_event_sent s2 = u_event_sent s /\ u_event_queue s2 = u_event_queue s))).
  { destruct dr.
    - destruct (negb (pstate_eqb (u_state s1) PDisconnected) && negb (u_event_sent s1)) eqn:Ec;
        inversion E2; subst; fsimpl.
      + apply andb_true_iff in Ec. destruct Ec as [Ec1 Ec2].
        split; [exact Hp1|]. left.
        rewrite Hp2 in Ec2. destruct (u_event_sent s); [discriminate|].
        split; [reflexivity|]. split.
        * intro Hd. destruct Hp1 as (Hst & _). rewrite Hst, Hd in Ec1. discriminate.
        * split; [reflexivity|]. rewrite Hp3. reflexivity.
      + split; [exact Hp1|]. right. auto.
    - destruct (merge_status _ _); inversion E2; subst. fsimpl.
      split; [exact Hp1|]. right. auto. }
  clear E2. destruct Hs2 as (Hc2 & Hq2).
  (* whatever follows only appends inputs *)
  assert (Hrest : forall s', same_ctl s2 s' -> u_event_sent s' = u_event_sent s2 ->
            (exists evs, u_event_queue s' = u_event_queue s2 ++ evs /\ forallb is_input evs = true) ->
            quiet s s').
  { intros t Hc He (evs & Hq & Hall). split; [eapply same_ctl_trans; eauto|].
    exists evs. split; [exact Hall|].
    destruct Hq2 as [(A & B & C & D)|(A & B)].
    - left. repeat split; try assumption; try congruence.
      rewrite Hq, D, <- app_assoc. reflexivity.
    - right. split; [congruence|]. rewrite Hq, B. reflexivity. }
  destruct (alookup _ (u_recv_inputs s2)) as [ref|].
  - destruct (Codec.decode dbg ref bytes) as [inputs| |]; try discriminate.
    + destruct (accept_inputs dbg sf 0 inputs (set_last_input_recv now s2)) as [[b s4]| |] eqn:Ea;
        try discriminate.
      apply accept_inputs_ctl in Ea. destruct Ea as (Hc4 & He4 & evs & Hq4 & Hall). fsimpl.
      destruct b.
      * destruct (ts_i32_arith dbg _) as [w| |]; try discriminate.
        destruct (ts_i32_arith dbg _) as [lo| |]; try discriminate.
        inversion H; subst. apply Hrest; fsimpl.
        -- eapply same_ctl_trans; [|eapply same_ctl_trans; [exact Hc4|]]; repeat split.
        -- exact He4.
        -- exists evs. auto.
      * inversion H; subst. apply Hrest.
        -- eapply same_ctl_trans; [|exact Hc4]. repeat split.
        -- exact He4.
        -- exists evs. auto.
    + inversion H; subst. apply Hrest; fsimpl; [repeat split|reflexivity|].
      exists []. rewrite app_nil_r. auto.
  - destruct (sf <=? last_recv_frame s2); inversion H; subst; apply Hrest; fsimpl;
      try (repeat split; fail); try reflexivity; exists []; rewrite app_nil_r; auto.
Qed.

(* ---------- the effect of each operation on the control part ---------- *)
Definition WRAP : Z := 4294967296.

Lemma on_sync_reply_spec : forall dbg now nonce mg n s s',
  on_sync_reply dbg now nonce mg n s = Ok s' ->
  (pstate_eqb (u_state s) PSynchronizing && zmem n (u_sync_requests s) = false /\ s' = s) \/
  (u_state s = PSynchronizing /\ zmem n (u_sync_requests s) = true /\
   u_sync_remaining s' = (u_sync_remaining s - 1) mod WRAP /\
   u_notify_sent s' = u_notify_sent s /\ u_event_sent s' = u_event_sent s /\
   u_last_recv_time s' = u_last_recv_time s /\ u_notify_start s' = u_notify_start s /\
   u_timeout s' = u_timeout s /\
   ((0 < (u_sync_remaining s - 1) mod WRAP /\ u_state s' = PSynchronizing /\
     u_remote_magic s' = u_remote_magic s /\
     u_sync_requests s' = zinsert nonce (zremove n (u_sync_requests s)) /\
     u_event_queue s' = u_event_queue s ++
       [EvSynchronizing NUM_SYNC_PACKETS ((NUM_SYNC_PACKETS - (u_sync_remaining s - 1) mod WRAP) mod WRAP)]) \/
    ((u_sync_remaining s - 1) mod WRAP <= 0 /\ u_state s' = PRunning /\ u_remote_magic s' = mg /\
     u_sync_requests s' = zremove n (u_sync_requests s) /\
     u_event_queue s' = u_event_queue s ++ [EvSynchronized]))).
Proof.
  intros dbg now nonce mg n s s' H. unfold on_sync_reply in H. fold WRAP in H.
  destruct (pstate_eqb (u_state s) PSynchronizing) eqn:Es; cbn [negb] in H;
    [|inversion H; subst; left; auto].
  destruct (zmem n (u_sync_requests s)) eqn:Em; cbn [negb] in H;
    [|inversion H; subst; left; auto].
  right. apply pstate_eqb_eq in Es. fsimpl.
  destruct ((u_sync_remaining s <=? 0) && dbg); [discriminate|].
  destruct (0 <? (u_sync_remaining s - 1) mod WRAP) eqn:Ep.
  - destruct ((NUM_SYNC_PACKETS <? (u_sync_remaining s - 1) mod WRAP) && dbg); [discriminate|].
    inversion H; subst; fsimpl. apply Z.ltb_lt in Ep.
    repeat (split; [first [assumption|reflexivity]|]). left. repeat split; assumption.
  - inversion H; subst; fsimpl. apply Z.ltb_ge in Ep.
    repeat (split; [first [assumption|reflexivity]|]). right. repeat split; assumption.
Qed.

Definition resumed_pre (s : ep) : list event :=
  if u_notify_sent s && pstate_eqb (u_state s) PRunning then [EvNetworkResumed] else [].

Lemma passes_input_running : forall s m,
  passes_filters s m = true -> is_handshake (m_body m) = false -> u_state s <> PDisconnected ->
  u_state s = PRunning.
Proof.
  intros s m H Hh Hd. unfold passes_filters in H. rewrite Hh in H.
  destruct (u_state s); cbn in H; try reflexivity; try congruence;
    rewrite ?andb_false_r in H; try discriminate.
Qed.

(* everything but a matched SyncReply *)
Definition msg_other (s s' : ep) : Prop :=
  u_state s' = u_state s /\ u_sync_remaining s' = u_sync_remaining s /\
  u_sync_requests s' = u_sync_requests s /\ u_remote_magic s' = u_remote_magic s /\
  u_last_sync_request_time s' = u_last_sync_request_time s /\
  exists evs, forallb is_input evs = true /\
    ((u_event_sent s = false /\ u_state s = PRunning /\ u_event_sent s' = true /\
      u_event_queue s' = u_event_queue s ++ resumed_pre s ++ EvDisconnected :: evs) \/
     (u_event_sent s' = u_event_sent s /\ u_event_queue s' = u_event_queue s ++ resumed_pre s ++ evs)).

Definition msg_matched (nonce : Z) (m : message) (s s' : ep) : Prop :=
  exists n, m_body m = SyncReply n /\
   u_state s = PSynchronizing /\ zmem n (u_sync_requests s) = true /\
   u_sync_remaining s' = (u_sync_remaining s - 1) mod WRAP /\ u_event_sent s' = u_event_sent s /\
   ((0 < (u_sync_remaining s - 1) mod WRAP /\ u_state s' = PSynchronizing /\
     u_remote_magic s' = u_remote_magic s /\
     u_sync_requests s' = zinsert nonce (zremove n (u_sync_requests s)) /\
     u_event_queue s' = u_event_queue s ++
       [EvSynchronizing NUM_SYNC_PACKETS ((NUM_SYNC_PACKETS - (u_sync_remaining s - 1) mod WRAP) mod WRAP)]) \/
    ((u_sync_remaining s - 1) mod WRAP <= 0 /\ u_state s' = PRunning /\ u_remote_magic s' = m_magic m /\
     u_sync_requests s' = zremove n (u_sync_requests s) /\
     u_event_queue s' = u_event_queue s ++ [EvSynchronized])).

Lemma handle_message_effect : forall dbg now nonce m s s',
  handle_message dbg now nonce m s = Ok s' ->
  (passes_filters s m = false /\ s' = s) \/
  (passes_filters s m = true /\ u_last_recv_time s' = now /\
   u_notify_start s' = u_notify_start s /\ u_timeout s' = u_timeout s /\
   u_notify_sent s' = u_notify_sent s && negb (pstate_eqb (u_state s) PRunning) /\
   ((match_of s (OMessage now nonce m) <> [] /\ msg_matched nonce m s s') \/
    (match_of s (OMessage now nonce m) = [] /\ msg_other s s'))).
Proof.
  intros dbg now nonce m s s' H. unfold handle_message in H.
  destruct (passes_filters s m) eqn:Ep; cbn [negb] in H; [|inversion H; subst; left; auto].
  right. split; [reflexivity|]. cbv zeta in H.
  set (s1 := set_last_recv_time now s) in *.
  set (s2 := if u_notify_sent s1 && pstate_eqb (u_state s1) PRunning
             then push_event EvNetworkResumed (set_notify_sent false s1) else s1) in *.
  (* facts about s2 *)
  assert (F : u_state s2 = u_state s /\ u_sync_remaining s2 = u_sync_remaining s /\
              u_sync_requests s2 = u_sync_requests s /\ u_remote_magic s2 = u_remote_magic s /\
              u_last_sync_request_time s2 = u_last_sync_request_time s /\
              u_last_recv_time s2 = now /\ u_notify_start s2 = u_notify_start s /\
              u_timeout s2 = u_timeout s /\ u_event_sent s2 = u_event_sent s /\
              u_notify_sent s2 = u_notify_sent s && negb (pstate_eqb (u_state s) PRunning) /\
              u_event_queue s2 = u_event_queue s ++ resumed_pre s).
  { subst s2 s1. unfold resumed_pre. fsimpl.
    destruct (u_notify_sent s) eqn:En; destruct (pstate_eqb (u_state s) PRunning) eqn:Er;
      cbn [andb negb]; fsimpl; rewrite ?En, ?app_nil_r; repeat split. }
  destruct F as (F1 & F2 & F3 & F4 & F5 & F6 & F7 & F8 & F9 & F10 & F11).
  (* a step from s2 that is a frame gives msg_other *)
  assert (Hframe : forall t, frame s2 t ->
            u_last_recv_time t = now /\ u_notify_start t = u_notify_start s /\ u_timeout t = u_timeout s /\
            u_notify_sent t = u_notify_sent s && negb (pstate_eqb (u_state s) PRunning) /\ msg_other s t).
  { intros t ((A1 & A2 & A3 & A4 & A5 & A6 & A7 & A8 & A9) & B & C).
    repeat (split; [congruence|]). unfold msg_other. repeat (split; [congruence|]).
    exists []. split; [reflexivity|]. right. split; [congruence|]. rewrite C, F11, app_nil_r. reflexivity. }
  destruct (m_body m) as [n|n|st dr sf af bytes|f|adv ping|pong|c f|] eqn:Eb.
  - (* SyncRequest *)
    inversion H; subst s'.
    destruct (Hframe (queue_message now (SyncReply n) s2)) as (A & B & C & D & E); [fsimpl; repeat split|].
    repeat (split; [assumption|]). right. split; [|exact E]. unfold match_of; rewrite Eb; reflexivity.
  - (* SyncReply *)
    apply on_sync_reply_spec in H. rewrite F1, F3 in H.
    destruct H as [(Hn & ->)|(Hs & Hm & R1 & R2 & R3 & R4 & R5 & R6 & R7)].
    + destruct (Hframe s2 (frame_refl _)) as (A & B & C & D & E).
      repeat (split; [assumption|]). right. split; [|exact E].
      unfold match_of. rewrite Eb, Ep. cbn [andb]. rewrite Hn. reflexivity.
    + rewrite F2 in *. 
      repeat (split; [congruence|]). left. split.
      * unfold match_of. rewrite Eb, Ep, Hs, Hm. cbn. discriminate.
      * exists n. split; [exact Eb|]. split; [exact Hs|]. split; [exact Hm|]. split; [exact R1|].
        split; [congruence|].
        assert (Er : resumed_pre s = []) by (unfold resumed_pre; rewrite Hs; cbn [pstate_eqb]; rewrite andb_false_r; reflexivity).
        rewrite F11, Er, app_nil_r, F4 in R7. exact R7.
  - (* Input *)
    apply on_input_quiet in H.
    destruct H as ((A1 & A2 & A3 & A4 & A5 & A6 & A7 & A8 & A9) & evs & Hall & Hq).
    repeat (split; [congruence|]). right. split; [unfold match_of; rewrite Eb; reflexivity|].
    unfold msg_other. repeat (split; [congruence|]).
    exists evs. split; [exact Hall|].
    destruct Hq as [(B1 & B2 & B3 & B4)|(B1 & B2)].
    + left. split; [congruence|]. split.
      * eapply passes_input_running; eauto; [rewrite Eb; reflexivity|congruence].
      * split; [exact B3|]. rewrite B4, F11, <- app_assoc. reflexivity.
    + right. split; [congruence|]. rewrite B2, F11, <- app_assoc. reflexivity.
  - (* InputAck *)
    inversion H; subst s'.
    destruct (Hframe _ (pop_pending_output_ctl f s2)) as (A & B & C & D & E).
    repeat (split; [assumption|]). right. split; [|exact E]. unfold match_of; rewrite Eb; reflexivity.
  - (* QualityReport *)
    inversion H; subst s'.
    destruct (Hframe (queue_message now (QualityReply ping) (set_remote_adv adv s2))) as (A & B & C & D & E);
      [fsimpl; repeat split|].
    repeat (split; [assumption|]). right. split; [|exact E]. unfold match_of; rewrite Eb; reflexivity.
  - (* QualityReply *)
    inversion H; subst s'.
    destruct (Hframe (set_rtt (ts_round_trip_time now pong) s2)) as (A & B & C & D & E);
      [fsimpl; repeat split|].
    repeat (split; [assumption|]). right. split; [|exact E]. unfold match_of; rewrite Eb; reflexivity.
  - (* ChecksumReport *)
    apply on_checksum_report_ctl in H.
    destruct (Hframe _ H) as (A & B & C & D & E).
    repeat (split; [assumption|]). right. split; [|exact E]. unfold match_of; rewrite Eb; reflexivity.
  - (* KeepAlive *)
    inversion H; subst s'.
    destruct (Hframe s2 (frame_refl _)) as (A & B & C & D & E).
    repeat (split; [assumption|]). right. split; [|exact E]. unfold match_of; rewrite Eb; reflexivity.
Qed.

Definition interrupt_now (now : Z) (s : ep) : bool :=
  negb (u_notify_sent s) && (u_last_recv_time s + u_notify_start s <? now).
Definition timeout_now (now : Z) (s : ep) : bool :=
  negb (u_event_sent s) && (u_last_recv_time s + u_timeout s <? now).
Definition poll_pushed (now : Z) (s : ep) : list event :=
  (if interrupt_now now s then [EvNetworkInterrupted (Z.max 0 (u_timeout s - u_notify_start s))] else []) ++
  (if timeout_now now s then [EvDisconnected] else []).

Lemma poll_running_effect : forall now cs s s',
  poll_running now cs s = Ok s' ->
  u_state s' = u_state s /\ u_sync_remaining s' = u_sync_remaining s /\
  u_sync_requests s' = u_sync_requests s /\ u_remote_magic s' = u_remote_magic s /\
  u_last_recv_time s' = u_last_recv_time s /\ u_notify_start s' = u_notify_start s /\
  u_timeout s' = u_timeout s /\ u_last_sync_request_time s' = u_last_sync_request_time s /\
  u_notify_sent s' = u_notify_sent s || interrupt_now now s /\
  u_event_sent s' = u_event_sent s || timeout_now now s /\
  u_event_queue s' = u_event_queue s ++ poll_pushed now s.
Proof.
  intros now cs s s' H. unfold poll_running in H. cbv zeta in H.
  match type of H with match ?X with _ => _ end = _ => destruct X as [s1| |] eqn:E1; try discriminate end.
  assert (F1 : frame s s1).
  { destruct (u_last_input_recv s + RUNNING_RETRY_INTERVAL <? now).
    - destruct (send_pending_output now cs s) as [t| |] eqn:Et; try discriminate.
      apply send_pending_output_ctl in Et. destruct Et as [Et _]. inversion E1; subst.
      eapply frame_trans; [exact Et|]. fsimpl. repeat split.
    - inversion E1; subst. apply frame_refl. }
  clear E1.
  match type of H with match ?X with _ => _ end = _ => destruct X as [s2| |] eqn:E2; try discriminate end.
  assert (F2 : frame s1 s2).
  { destruct (u_last_quality_report s1 + QUALITY_REPORT_INTERVAL <? now).
    - apply send_quality_report_ctl in E2. tauto.
    - inversion E2; subst. apply frame_refl. }
  clear E2.
  set (s3 := if u_last_send_time s2 + KEEP_ALIVE_INTERVAL <? now then send_keep_alive now s2 else s2) in *.
  assert (F3 : frame s2 s3).
  { subst s3. destruct (u_last_send_time s2 + KEEP_ALIVE_INTERVAL <? now); [fsimpl|]; repeat split. }
  pose proof (frame_trans _ _ _ (frame_trans _ _ _ F1 F2) F3) as F.
  destruct F as ((A1 & A2 & A3 & A4 & A5 & A6 & A7 & A8 & A9) & B & C).
  clearbody s3. clear F1 F2 F3.
  inversion H; subst s'; clear H.
  unfold poll_pushed, interrupt_now, timeout_now. rewrite <- A4, <- A6, <- A7, <- A8, <- B, <- C.
  destruct (negb (u_notify_sent s3) && (u_last_recv_time s3 + u_notify_start s3 <? now)) eqn:EI; fsimpl;
  destruct (negb (u_event_sent s3) && (u_last_recv_time s3 + u_timeout s3 <? now)) eqn:ET; fsimpl;
  rewrite ?orb_true_r, ?orb_false_r, ?app_nil_r, <- ?app_assoc; cbn [app]; repeat split; congruence.
Qed.

Lemma poll_effect : forall now nonce cs s out s',
  poll now nonce cs s = Ok (out, s') ->
  u_event_queue s' = [] /\ u_notify_start s' = u_notify_start s /\ u_timeout s' = u_timeout s /\
  u_last_recv_time s' = u_last_recv_time s /\ u_remote_magic s' = u_remote_magic s /\
  u_sync_remaining s' = u_sync_remaining s /\
  match u_state s with
  | PRunning =>
    u_state s' = PRunning /\ u_sync_requests s' = u_sync_requests s /\
    u_notify_sent s' = u_notify_sent s || interrupt_now now s /\
    u_event_sent s' = u_event_sent s || timeout_now now s /\
    out = u_event_queue s ++ poll_pushed now s
  | PSynchronizing =>
    u_state s' = PSynchronizing /\ u_notify_sent s' = u_notify_sent s /\ u_event_sent s' = u_event_sent s /\
    out = u_event_queue s /\
    u_sync_requests s' = (if u_last_sync_request_time s + SYNC_RETRY_INTERVAL <? now
                          then zinsert nonce (u_sync_requests s) else u_sync_requests s)
  | PDisconnected =>
    u_state s' = (if u_shutdown_timeout s <? now then PShutdown else PDisconnected) /\
    u_notify_sent s' = u_notify_sent s /\ u_event_sent s' = u_event_sent s /\
    out = u_event_queue s /\ u_sync_requests s' = u_sync_requests s
  | st =>
    u_state s' = st /\ u_notify_sent s' = u_notify_sent s /\ u_event_sent s' = u_event_sent s /\
    out = u_event_queue s /\ u_sync_requests s' = u_sync_requests s
  end.
Proof.
  intros now nonce cs s out s' H. unfold poll in H. cbv zeta in H.
  destruct (u_state s) eqn:Es.
  - inversion H; subst; fsimpl. rewrite Es. repeat split.
  - destruct (u_last_sync_request_time s + SYNC_RETRY_INTERVAL <? now); inversion H; subst; fsimpl;
      rewrite ?Es; repeat split.
  - destruct (poll_running now cs s) as [t| |] eqn:Et; try discriminate.
    apply poll_running_effect in Et.
    destruct Et as (A1 & A2 & A3 & A4 & A5 & A6 & A7 & A8 & A9 & A10 & A11).
    inversion H; subst; fsimpl. rewrite Es in A1. repeat split; assumption.
  - destruct (u_shutdown_timeout s <? now); inversion H; subst; fsimpl; rewrite ?Es; repeat split.
  - inversion H; subst; fsimpl. rewrite Es. repeat split.
Qed.

Lemma send_input_effect : forall now inputs cs s s',
  send_input now inputs cs s = Ok s' ->
  same_ctl s s' /\
  ((u_event_sent s = false /\ u_state s = PRunning /\ u_event_sent s' = true /\
    u_event_queue s' = u_event_queue s ++ [EvDisconnected]) \/
   (u_event_sent s' = u_event_sent s /\ u_event_queue s' = u_event_queue s)).
Proof.
  intros now inputs cs s s' H. unfold send_input, send_input_gen in H.
  destruct (pstate_eqb (u_state s) PRunning) eqn:Er; cbn [negb] in H.
  2:{ inversion H; subst. split; [apply same_ctl_refl|]. right. auto. }
  apply pstate_eqb_eq in Er.
  destruct (from_inputs _ _) as [data| |]; try discriminate.
  destruct (ts_advance_frame _ _ _ _) as [ts| |]; try discriminate.
  cbv zeta in H. apply send_pending_output_ctl in H. destruct H as [(Hc & He & Hq) _].
  match type of Hc with same_ctl ?X _ => set (s2 := X) in * end.
  destruct (PENDING_OUTPUT_SIZE <? _)%N.
  - destruct (u_event_sent (set_pending_output (u_pending_output s ++ [data]) (set_time_sync ts s))) eqn:Ee;
      subst s2; fsimpl.
    + split; [eapply same_ctl_trans; [|exact Hc]; repeat split|]. right. split; congruence.
    + split; [eapply same_ctl_trans; [|exact Hc]; repeat split|]. left. repeat split; assumption.
  - subst s2; fsimpl. split; [eapply same_ctl_trans; [|exact Hc]; repeat split|]. right. auto.
Qed.

Lemma synchronize_effect : forall now nonce s s',
  synchronize now nonce s = Ok s' ->
  u_state s = PInitializing /\ u_state s' = PSynchronizing /\ u_sync_remaining s' = NUM_SYNC_PACKETS /\
  u_sync_requests s' = zinsert nonce (u_sync_requests s) /\
  u_notify_sent s' = u_notify_sent s /\ u_event_sent s' = u_event_sent s /\
  u_remote_magic s' = u_remote_magic s /\ u_last_recv_time s' = u_last_recv_time s /\
  u_notify_start s' = u_notify_start s /\ u_timeout s' = u_timeout s /\
  u_event_queue s' = u_event_queue s.
Proof.
  intros now nonce s s' H. unfold synchronize in H.
  destruct (pstate_eqb (u_state s) PInitializing) eqn:E; [|discriminate].
  apply pstate_eqb_eq in E. inversion H; subst; fsimpl. repeat split. exact E.
Qed.

Lemma disconnect_effect : forall now s,
  let s' := disconnect now s in
  u_state s' = (if pstate_eqb (u_state s) PShutdown then PShutdown else PDisconnected) /\
  u_sync_remaining s' = u_sync_remaining s /\ u_sync_requests s' = u_sync_requests s /\
  u_notify_sent s' = u_notify_sent s /\ u_event_sent s' = u_event_sent s /\
  u_remote_magic s' = u_remote_magic s /\ u_last_recv_time s' = u_last_recv_time s /\
  u_notify_start s' = u_notify_start s /\ u_timeout s' = u_timeout s /\
  u_event_queue s' = u_event_queue s.
Proof.
  intros now s. cbv zeta. unfold disconnect.
  destruct (pstate_eqb (u_state s) PShutdown) eqn:E; fsimpl; repeat split.
  apply pstate_eqb_eq in E. exact E.
Qed.

Lemma misc_effect : forall dbg o s s' out,
  step dbg o s = Ok (s', out) ->
  match o with OChecksum _ _ _ | OAdvantage _ | ODrain => frame s s' /\ out = [] | _ => True end.
Proof.
  intros dbg o s s' out H. destruct o; try exact I; unfold step in H; cbn [step_gen] in H.
  - inversion H; subst; fsimpl. repeat split.
  - unfold update_local_frame_advantage in H.
    destruct (ts_update_local_frame_advantage _ _ _ _ _ _); inversion H; subst; fsimpl. repeat split.
  - inversion H; subst. unfold drain; fsimpl. repeat split.
Qed.

(* ---------- the recogniser ---------- *)
Lemma recog_app : forall a b r,
  recog r (a ++ b) = match recog r a with Some r' => recog r' b | None => None end.
Proof.
  induction a as [|e a IH]; intros b r; cbn [app recog]; [reflexivity|].
  destruct (rstep r e); [apply IH|reflexivity].
Qed.

Lemma recog_inputs : forall evs r, forallb is_input evs = true -> recog r evs = Some r.
Proof.
  induction evs as [|e evs IH]; intros r H; cbn in *; [reflexivity|].
  apply andb_true_iff in H. destruct H as [He H]. destruct e; try discriminate. cbn. auto.
Qed.

Lemma recog_prefix : forall a b r, recog r (a ++ b) <> None -> recog r a <> None.
Proof. intros a b r H. rewrite recog_app in H. destruct (recog r a); congruence. Qed.

Lemma wd_app : forall a b, without_disconnected (a ++ b) = without_disconnected a ++ without_disconnected b.
Proof. intros. unfold without_disconnected. apply filter_app. Qed.

Lemma wd_inputs : forall evs, forallb is_input evs = true -> without_disconnected evs = evs.
Proof.
  induction evs as [|e evs IH]; intro H; cbn in *; [reflexivity|].
  apply andb_true_iff in H. destruct H as [He H]. destruct e; try discriminate. cbn. f_equal. auto.
Qed.

Lemma cd_app : forall a b, count_disconnected (a ++ b) = (count_disconnected a + count_disconnected b)%nat.
Proof. intros. unfold count_disconnected. rewrite filter_app, app_length. reflexivity. Qed.

Lemma cd_inputs : forall evs, forallb is_input evs = true -> count_disconnected evs = O.
Proof.
  induction evs as [|e evs IH]; intro H; cbn in *; [reflexivity|].
  apply andb_true_iff in H. destruct H as [He H]. destruct e; try discriminate. cbn. auto.
Qed.

Lemma inputs_no_sync : forall evs, forallb is_input evs = true -> ~ In EvSynchronized evs.
Proof.
  induction evs as [|e evs IH]; intros H; [intros []|].
  cbn in H; apply andb_true_iff in H; destruct H as [He H]. intros [E|E].
  - subst; discriminate.
  - exact (IH H E).
Qed.

Lemma in_sync_app : forall w p, ~ In EvSynchronized p -> (In EvSynchronized (w ++ p) <-> In EvSynchronized w).
Proof. intros w p H. rewrite in_app_iff. tauto. Qed.

Lemma resumed_pre_cases : forall s,
  (u_notify_sent s = true /\ u_state s = PRunning /\ resumed_pre s = [EvNetworkResumed]) \/
  ((u_notify_sent s = false \/ u_state s <> PRunning) /\ resumed_pre s = []).
Proof.
  intro s. unfold resumed_pre. destruct (u_notify_sent s); cbn [andb]; [|right; auto].
  destruct (pstate_eqb (u_state s) PRunning) eqn:E.
  - left. apply pstate_eqb_eq in E. auto.
  - right. split; [|reflexivity]. right. intro H. rewrite H in E. discriminate.
Qed.

Lemma wrap_small : forall x, 0 <= x < WRAP -> x mod WRAP = x.
Proof. intros. apply Z.mod_small. assumption. Qed.

(* ---------- invariant 1: grammar modulo Disconnected, at most one Disconnected, handshake count ---------- *)
Lemma num_facts : 1 <= NUM_SYNC_PACKETS /\ NUM_SYNC_PACKETS < WRAP.
Proof. split; [discriminate|reflexivity]. Qed.

Definition hs_facts (s : ep) (w : list event) (ms : list (Z * Z)) : Prop :=
  let m := Z.of_nat (length ms) in
  (In EvSynchronized w <-> m = NUM_SYNC_PACKETS) /\ m <= NUM_SYNC_PACKETS /\
  (m < NUM_SYNC_PACKETS -> u_remote_magic s = 0) /\
  (m = NUM_SYNC_PACKETS -> u_remote_magic s = nth (Z.to_nat (NUM_SYNC_PACKETS - 1)) (map snd ms) 0).

Definition st_facts (s : ep) (w : list event) (ms : list (Z * Z)) : Prop :=
  let m := Z.of_nat (length ms) in
  match u_state s with
  | PInitializing =>
    recog (RSync 0) (without_disconnected w) = Some (RSync 0) /\ m = 0 /\
    u_notify_sent s = false /\ u_event_sent s = false
  | PSynchronizing =>
    recog (RSync 0) (without_disconnected w) = Some (RSync m) /\ m = NUM_SYNC_PACKETS - u_sync_remaining s /\
    1 <= u_sync_remaining s <= NUM_SYNC_PACKETS /\ u_notify_sent s = false /\ u_event_sent s = false
  | PRunning =>
    recog (RSync 0) (without_disconnected w) = Some (if u_notify_sent s then RInterrupted else RRun) /\
    m = NUM_SYNC_PACKETS
  | _ => recog (RSync 0) (without_disconnected w) <> None
  end.

Definition Inv1 (s : ep) (W : list event) (ms : list (Z * Z)) : Prop :=
  let w := W ++ u_event_queue s in
  count_disconnected w = (if u_event_sent s then 1 else 0)%nat /\ hs_facts s w ms /\ st_facts s w ms.

Lemma st_facts_accepts : forall s w ms, st_facts s w ms -> recog (RSync 0) (without_disconnected w) <> None.
Proof.
  intros s w ms H. unfold st_facts in H.
  destruct (u_state s); try exact H; destruct H as [H _]; rewrite H; discriminate.
Qed.

Inductive pre_kind (s s' : ep) : list event -> Prop :=
| pk_none : u_notify_sent s' = u_notify_sent s -> pre_kind s s' []
| pk_resumed : u_notify_sent s = true -> u_state s = PRunning -> u_notify_sent s' = false ->
               pre_kind s s' [EvNetworkResumed]
| pk_interrupted : forall t, u_notify_sent s = false -> u_state s = PRunning -> u_notify_sent s' = true ->
               pre_kind s s' [EvNetworkInterrupted t].

(* state-preserving steps: optional Resumed/Interrupted, optional guarded Disconnected, inputs *)
Lemma inv1_same_state : forall s W ms s' W' pre (d : bool) evs,
  Inv1 s W ms ->
  u_state s' = u_state s -> u_sync_remaining s' = u_sync_remaining s -> u_remote_magic s' = u_remote_magic s ->
  W' ++ u_event_queue s' = (W ++ u_event_queue s) ++ pre ++ (if d then [EvDisconnected] else []) ++ evs ->
  forallb is_input evs = true ->
  (if d then u_event_sent s = false /\ u_event_sent s' = true /\ u_state s = PRunning
   else u_event_sent s' = u_event_sent s) ->
  pre_kind s s' pre ->
  Inv1 s' W' ms.
Proof.
  intros s W ms s' W' pre d evs (Hc & (HA & HB & HC & HD) & Hst) Es Er Em Hw Hall Hd Hp.
  unfold Inv1. cbv zeta. rewrite Hw. set (w := W ++ u_event_queue s) in *.
  assert (Hwd : without_disconnected (w ++ pre ++ (if d then [EvDisconnected] else []) ++ evs)
                = without_disconnected w ++ pre ++ evs).
  { rewrite !wd_app, (wd_inputs evs Hall).
    assert (without_disconnected pre = pre) as -> by (destruct Hp; reflexivity).
    destruct d; reflexivity. }
  assert (Hns : ~ In EvSynchronized (pre ++ (if d then [EvDisconnected] else []) ++ evs)).
  { rewrite !in_app_iff. intros [H|[H|H]].
    - destruct Hp; cbn in H; intuition discriminate.
    - destruct d; cbn in H; intuition discriminate.
    - exact (inputs_no_sync _ Hall H). }
  split; [|split].
  - rewrite !cd_app, (cd_inputs evs Hall), Hc.
    assert (count_disconnected pre = O) as -> by (destruct Hp; reflexivity).
    destruct d; [destruct Hd as (-> & -> & _); reflexivity|rewrite Hd; cbn; lia].
  - unfold hs_facts. cbv zeta. rewrite Em. rewrite (in_sync_app _ _ Hns). repeat split; tauto.
  - unfold st_facts in *. cbv zeta in *. rewrite Es, Er, Hwd.
    destruct (u_state s) eqn:Est.
    + destruct Hst as (R & M & N & E). rewrite recog_app, R.
      destruct Hp as [Hn| |]; try congruence. cbn [app]. rewrite (recog_inputs _ _ Hall).
      destruct d; [destruct Hd as (_ & _ & Hd); congruence|]. repeat split; congruence.
    + destruct Hst as (R & M & S & N & E). rewrite recog_app, R.
      destruct Hp as [Hn| |]; try congruence. cbn [app]. rewrite (recog_inputs _ _ Hall).
      destruct d; [destruct Hd as (_ & _ & Hd); congruence|]. repeat split; try congruence; lia.
    + destruct Hst as (R & M). rewrite recog_app, R. split; [|exact M].
      destruct Hp as [Hn|Hn _ Hn'|t Hn _ Hn']; cbn [app recog].
      * rewrite (recog_inputs _ _ Hall), Hn. reflexivity.
      * rewrite Hn, Hn'. cbn [rstep]. apply recog_inputs. exact Hall.
      * rewrite Hn, Hn'. cbn [rstep]. apply recog_inputs. exact Hall.
    + rewrite recog_app. destruct (recog (RSync 0) (without_disconnected w)) as [r|]; [|congruence].
      destruct Hp as [Hn| |]; try congruence. cbn [app]. rewrite (recog_inputs _ _ Hall). discriminate.
    + rewrite recog_app. destruct (recog (RSync 0) (without_disconnected w)) as [r|]; [|congruence].
      destruct Hp as [Hn| |]; try congruence. cbn [app]. rewrite (recog_inputs _ _ Hall). discriminate.
Qed.

Lemma inv1_dead : forall s W ms s' W',
  Inv1 s W ms -> (u_state s' = PDisconnected \/ u_state s' = PShutdown) ->
  u_remote_magic s' = u_remote_magic s -> u_event_sent s' = u_event_sent s ->
  W' ++ u_event_queue s' = W ++ u_event_queue s -> Inv1 s' W' ms.
Proof.
  intros s W ms s' W' (Hc & Hh & Hst) Hs Em Ee Hw. unfold Inv1. cbv zeta. rewrite Hw, Ee.
  split; [exact Hc|]. split.
  - unfold hs_facts in *. cbv zeta in *. rewrite Em. exact Hh.
  - apply st_facts_accepts in Hst. unfold st_facts. destruct Hs as [-> | ->]; exact Hst.
Qed.

Lemma match_of_filtered : forall s now nonce m, passes_filters s m = false -> match_of s (OMessage now nonce m) = [].
Proof. intros s now nonce m H. unfold match_of. destruct (m_body m); try reflexivity. rewrite H. reflexivity. Qed.

Lemma match_of_matched : forall s now nonce m n,
  passes_filters s m = true -> m_body m = SyncReply n -> u_state s = PSynchronizing ->
  zmem n (u_sync_requests s) = true -> match_of s (OMessage now nonce m) = [(n, m_magic m)].
Proof. intros s now nonce m n Hp Hb Hs Hm. unfold match_of. rewrite Hb, Hp, Hs, Hm. reflexivity. Qed.

Lemma match_of_not_message : forall s o, (forall now nonce m, o <> OMessage now nonce m) -> match_of s o = [].
Proof. intros s o H. destruct o; try reflexivity. exfalso. eapply H; eauto. Qed.

Ltac lsolve := cbn [app]; rewrite ?app_nil_r, <- ?app_assoc; cbn [app]; rewrite ?app_nil_r; reflexivity.

Lemma inv1_step : forall dbg o s s' out W ms,
  Inv1 s W ms -> step dbg o s = Ok (s', out) -> Inv1 s' (W ++ out) (ms ++ match_of s o).
Proof.
  intros dbg o s s' out W ms HI H.
  destruct o as [now nonce|now nonce m|now nonce cs|now inputs cs|now|now fr ck|lf|].
  - (* synchronize *)
    unfold step in H; cbn [step_gen] in H.
    destruct (synchronize now nonce s) as [t| |] eqn:E; inversion H; subst; clear H.
    apply synchronize_effect in E.
    destruct E as (S0 & S1 & S2 & S3 & S4 & S5 & S6 & S7 & S8 & S9 & S10).
    cbn [match_of]. rewrite !app_nil_r.
    destruct HI as (Hc & (HA & HB & HC & HD) & Hst). unfold Inv1. cbv zeta. rewrite S10, S5.
    split; [exact Hc|]. split.
    + unfold hs_facts. cbv zeta. rewrite S6. repeat split; tauto.
    + unfold st_facts in *. cbv zeta in *. rewrite S0 in Hst. rewrite S1, S2, S4, S5.
      destruct Hst as (R & M & N & E). rewrite M. pose proof num_facts.
      repeat split; try assumption; lia.
  - (* handle_message *)
    unfold step in H; cbn [step_gen] in H.
    destruct (handle_message dbg now nonce m s) as [t| |] eqn:E; inversion H; subst; clear H.
    apply handle_message_effect in E.
    destruct E as [(Hf & ->)|(Hp & L & NS & TO & NT & [(Hm & Hmm)|(Hm & Ho)])].
    + rewrite (match_of_filtered _ _ _ _ Hf), !app_nil_r. exact HI.
    + (* matched reply *)
      destruct Hmm as (n & Eb & Ss & Zm & R1 & R3 & Hcase).
      rewrite (match_of_matched _ _ _ _ _ Hp Eb Ss Zm), app_nil_r.
      destruct HI as (Hc & (HA & HB & HC & HD) & Hst).
      unfold st_facts in Hst. cbv zeta in Hst. rewrite Ss in Hst.
      destruct Hst as (R & M & (Slo & Shi) & N & E).
      pose proof num_facts as (N1 & N2).
      assert (Erem : (u_sync_remaining s - 1) mod WRAP = u_sync_remaining s - 1)
        by (apply wrap_small; lia).
      rewrite Erem in *.
      assert (Elen : Z.of_nat (length (ms ++ [(n, m_magic m)])) = Z.of_nat (length ms) + 1)
        by (rewrite app_length; cbn [length]; lia).
      assert (Hnos : ~ In EvSynchronized (W ++ u_event_queue s)) by (rewrite HA; lia).
      unfold Inv1. cbv zeta. rewrite R3, E.
      destruct Hcase as [(Hpos & S' & Rm & Rq & Q)|(Hz & S' & Rm & Rq & Q)]; rewrite Q, app_assoc.
      * assert (Ecnt : (NUM_SYNC_PACKETS - (u_sync_remaining s - 1)) mod WRAP = Z.of_nat (length ms) + 1)
          by (rewrite wrap_small; lia).
        rewrite Ecnt. split; [|split].
        -- rewrite cd_app, Hc, E. reflexivity.
        -- unfold hs_facts. cbv zeta. rewrite Elen, Rm. rewrite in_app_iff.
           split; [|split; [lia|split; [intros _; apply HC; lia|intro; lia]]].
           split; [intros [X|[X|[]]]; [tauto|discriminate]|intro; lia].
        -- unfold st_facts. cbv zeta. rewrite S', Elen, R1, wd_app, recog_app, R. cbn [without_disconnected filter is_disconnected negb recog rstep].
           assert (((NUM_SYNC_PACKETS =? NUM_SYNC_PACKETS) && (Z.of_nat (length ms) + 1 =? Z.of_nat (length ms) + 1)
                    && (Z.of_nat (length ms) + 1 <? NUM_SYNC_PACKETS)) = true) as -> by lia.
           rewrite NT, N. cbn [andb]. repeat split; lia.
      * assert (Esr : u_sync_remaining s = 1) by lia.
        split; [|split].
        -- rewrite cd_app, Hc, E. reflexivity.
        -- unfold hs_facts. cbv zeta. rewrite Elen, Rm. rewrite in_app_iff.
           split; [|split; [lia|split; [intro; lia|]]].
           ++ split; [intro; lia|intro; right; left; reflexivity].
           ++ intros _. rewrite map_app. cbn [map snd].
              assert (Z.to_nat (NUM_SYNC_PACKETS - 1) = length (map snd ms)) as -> by (rewrite map_length; lia).
              rewrite app_nth2, Nat.sub_diag by lia. reflexivity.
        -- unfold st_facts. cbv zeta. rewrite S', Elen, wd_app, recog_app, R. cbn [without_disconnected filter is_disconnected negb recog rstep].
           assert ((Z.of_nat (length ms) =? NUM_SYNC_PACKETS - 1) = true) as -> by lia.
           rewrite NT, N. cbn [andb]. split; [reflexivity|lia].
    + (* any other accepted message *)
      rewrite Hm, !app_nil_r.
      destruct Ho as (O1 & O2 & O3 & O4 & O5 & evs & Hall & Hq).
      assert (Hpk : pre_kind s s' (resumed_pre s)).
      { destruct (resumed_pre_cases s) as [(A & B & ->)|([A|A] & ->)].
        - apply pk_resumed; try assumption. rewrite NT, A, B. reflexivity.
        - apply pk_none. rewrite NT, A. reflexivity.
        - apply pk_none. rewrite NT. destruct (pstate_eqb (u_state s) PRunning) eqn:X;
            [apply pstate_eqb_eq in X; contradiction|]. cbn. apply andb_true_r. }
      destruct Hq as [(B1 & B2 & B3 & B4)|(B1 & B2)].
      * eapply (inv1_same_state s W ms s' W (resumed_pre s) true evs); eauto.
        rewrite B4. lsolve.
      * eapply (inv1_same_state s W ms s' W (resumed_pre s) false evs); eauto.
        rewrite B2. lsolve.
  - (* poll *)
    unfold step in H; cbn [step_gen] in H.
    destruct (poll now nonce cs s) as [[evs t]| |] eqn:E; inversion H; subst; clear H.
    apply poll_effect in E. destruct E as (Q & NS & TO & L & RM & SR & Hst).
    cbn [match_of]. rewrite app_nil_r.
    destruct (u_state s) eqn:Es.
    + destruct Hst as (A & B & C & D & F).
      eapply (inv1_same_state s W ms s' _ [] false []); eauto; try congruence.
      * rewrite Q, D. lsolve.
      * apply pk_none; exact B.
    + destruct Hst as (A & B & C & D & F).
      eapply (inv1_same_state s W ms s' _ [] false []); eauto; try congruence.
      * rewrite Q, D. lsolve.
      * apply pk_none; exact B.
    + destruct Hst as (A & B & C & D & F).
      eapply (inv1_same_state s W ms s' _
                (if interrupt_now now s then [EvNetworkInterrupted (Z.max 0 (u_timeout s - u_notify_start s))] else [])
                (timeout_now now s) []); eauto; try congruence.
      * rewrite Q, F. unfold poll_pushed. lsolve.
      * destruct (timeout_now now s) eqn:T.
        -- unfold timeout_now in T. apply andb_true_iff in T. destruct T as [T _].
           destruct (u_event_sent s); [discriminate|]. rewrite D. auto.
        -- rewrite D. apply orb_false_r.
      * destruct (interrupt_now now s) eqn:T.
        -- unfold interrupt_now in T. apply andb_true_iff in T. destruct T as [T _].
           apply pk_interrupted; try assumption; [destruct (u_notify_sent s); [discriminate|reflexivity]|].
           rewrite C. apply orb_true_r.
        -- apply pk_none. rewrite C. apply orb_false_r.
    + destruct Hst as (A & B & C & D & F).
      eapply (inv1_dead s W ms s'); eauto.
      * destruct (u_shutdown_timeout s <? now); auto.
      * rewrite Q, D. lsolve.
    + destruct Hst as (A & B & C & D & F).
      eapply (inv1_dead s W ms s'); eauto.
      rewrite Q, D. lsolve.
  - (* send_input *)
    unfold step in H; cbn [step_gen] in H.
    destruct (send_input_gen true now inputs cs s) as [t| |] eqn:E; inversion H; subst; clear H.
    apply send_input_effect in E. destruct E as ((A1 & A2 & A3 & A4 & A5 & A6 & A7 & A8 & A9) & Hq).
    cbn [match_of]. rewrite !app_nil_r.
    destruct Hq as [(B1 & B2 & B3 & B4)|(B1 & B2)].
    + eapply (inv1_same_state s W ms s' W [] true []); eauto.
      * rewrite B4. lsolve.
      * apply pk_none; exact A4.
    + eapply (inv1_same_state s W ms s' W [] false []); eauto.
      * rewrite B2. lsolve.
      * apply pk_none; exact A4.
  - (* disconnect *)
    unfold step in H; cbn [step_gen] in H. inversion H; subst; clear H.
    pose proof (disconnect_effect now s) as (D1 & D2 & D3 & D4 & D5 & D6 & D7 & D8 & D9 & D10).
    cbn [match_of]. rewrite !app_nil_r.
    eapply inv1_dead; eauto.
    + rewrite D1. destruct (pstate_eqb (u_state s) PShutdown); auto.
    + rewrite D10. lsolve.
  - pose proof (misc_effect _ _ _ _ _ H) as (((A1 & A2 & A3 & A4 & A5 & A6 & A7 & A8 & A9) & B & C) & ->).
    cbn [match_of]. rewrite !app_nil_r.
    eapply (inv1_same_state s W ms s' W [] false []); eauto.
    + rewrite C. lsolve.
    + apply pk_none; exact A4.
  - pose proof (misc_effect _ _ _ _ _ H) as (((A1 & A2 & A3 & A4 & A5 & A6 & A7 & A8 & A9) & B & C) & ->).
    cbn [match_of]. rewrite !app_nil_r.
    eapply (inv1_same_state s W ms s' W [] false []); eauto.
    + rewrite C. lsolve.
    + apply pk_none; exact A4.
  - pose proof (misc_effect _ _ _ _ _ H) as (((A1 & A2 & A3 & A4 & A5 & A6 & A7 & A8 & A9) & B & C) & ->).
    cbn [match_of]. rewrite !app_nil_r.
    eapply (inv1_same_state s W ms s' W [] false []); eauto.
    + rewrite C. lsolve.
    + apply pk_none; exact A4.
Qed.

Lemma inv1_run : forall dbg ops s W ms s' evs,
  Inv1 s W ms -> run dbg s ops = Ok (s', evs) -> Inv1 s' (W ++ evs) (ms ++ matches dbg s ops).
Proof.
  induction ops as [|o r IH]; intros s W ms s' evs HI H; cbn [run matches] in *.
  - inversion H; subst. rewrite !app_nil_r. exact HI.
  - destruct (step dbg o s) as [[s1 e1]| |] eqn:E; try discriminate.
    destruct (run dbg s1 r) as [[s2 e2]| |] eqn:E2; try discriminate.
    inversion H; subst. rewrite !app_assoc. eapply IH; [|exact E2].
    eapply inv1_step; eauto.
Qed.

Section Initial.
Variables (now magic : Z) (handles : list Z) (np lp mp timeout notify fps : Z) (desync : option Z).
Let s0 := ep_new now magic handles np lp mp timeout notify fps desync.

Lemma inv1_initial : Inv1 s0 [] [].
Proof.
  unfold Inv1, hs_facts, st_facts. cbn. pose proof num_facts.
  repeat split; try reflexivity; try lia; try tauto; intros; lia.
Qed.

Lemma reach_inv1 : forall dbg ops s evs,
  run dbg s0 ops = Ok (s, evs) -> Inv1 s evs (matches dbg s0 ops).
Proof. intros dbg ops s evs H. exact (inv1_run dbg ops s0 [] [] s evs inv1_initial H). Qed.

(* (a), unconditional part *)
Lemma grammar_modulo_disconnected : forall dbg ops s evs,
  run dbg s0 ops = Ok (s, evs) ->
  event_grammar (without_disconnected evs) /\ (count_disconnected evs <= 1)%nat.
Proof.
  intros dbg ops s evs H. apply reach_inv1 in H. destruct H as (Hc & _ & Hst). split.
  - apply st_facts_accepts in Hst. rewrite wd_app in Hst. exact (recog_prefix _ _ _ Hst).
  - rewrite cd_app in Hc. destruct (u_event_sent s); lia.
Qed.

(* (b) *)
Lemma handshake_count : forall dbg ops s evs,
  run dbg s0 ops = Ok (s, evs) ->
  let m := matched dbg s0 ops in
  0 <= m <= NUM_SYNC_PACKETS /\
  (m = NUM_SYNC_PACKETS <-> In EvSynchronized (evs ++ u_event_queue s)) /\
  (is_running s = true -> m = NUM_SYNC_PACKETS) /\
  (m = NUM_SYNC_PACKETS -> is_synchronized s = true) /\
  (m < NUM_SYNC_PACKETS -> u_remote_magic s = 0) /\
  (m = NUM_SYNC_PACKETS ->
   u_remote_magic s = nth (Z.to_nat (NUM_SYNC_PACKETS - 1)) (map snd (matches dbg s0 ops)) 0).
Proof.
  intros dbg ops s evs H. apply reach_inv1 in H. cbv zeta. unfold matched.
  destruct H as (_ & (HA & HB & HC & HD) & Hst). pose proof num_facts as (N1 & N2).
  split; [lia|]. split; [tauto|]. split; [|split; [|split; assumption]].
  - unfold is_running. intro R. apply pstate_eqb_eq in R. unfold st_facts in Hst. rewrite R in Hst. tauto.
  - intro M. unfold is_synchronized, st_facts in *. destruct (u_state s); try reflexivity.
    + destruct Hst as (_ & M0 & _). lia.
    + destruct Hst as (_ & M0 & S & _). lia.
Qed.
End Initial.

(* ---------- invariant 2: the full grammar under the caller discipline ---------- *)
Definition InvS (s : ep) (W : list event) (md : bool) : Prop :=
  let w := W ++ u_event_queue s in
  match u_state s with
  | PInitializing =>
    recog (RSync 0) w = Some (RSync 0) /\ u_notify_sent s = false /\ u_event_sent s = false
  | PSynchronizing =>
    recog (RSync 0) w = Some (RSync (NUM_SYNC_PACKETS - u_sync_remaining s)) /\
    1 <= u_sync_remaining s <= NUM_SYNC_PACKETS /\ u_notify_sent s = false /\ u_event_sent s = false
  | PRunning =>
    if u_event_sent s
    then recog (RSync 0) w = Some RDead /\ (md = true \/ In EvDisconnected (u_event_queue s))
    else recog (RSync 0) w = Some (if u_notify_sent s then RInterrupted else RRun)
  | _ => recog (RSync 0) w <> None
  end.

Lemma invS_accepts : forall s W md, InvS s W md -> recog (RSync 0) (W ++ u_event_queue s) <> None.
Proof.
  intros s W md H. unfold InvS in H. cbv zeta in H.
  destruct (u_state s); try exact H.
  - destruct H as [H _]; rewrite H; discriminate.
  - destruct H as [H _]; rewrite H; discriminate.
  - destruct (u_event_sent s); [destruct H as [H _]|]; rewrite H; discriminate.
Qed.

Lemma invS_same_state : forall s W md s' W' md' pre (d : bool) evs,
  InvS s W md ->
  u_state s' = u_state s -> u_sync_remaining s' = u_sync_remaining s ->
  W' ++ u_event_queue s' = (W ++ u_event_queue s) ++ pre ++ (if d then [EvDisconnected] else []) ++ evs ->
  forallb is_input evs = true ->
  (if d then u_event_sent s = false /\ u_event_sent s' = true /\ u_state s = PRunning
   else u_event_sent s' = u_event_sent s) ->
  pre_kind s s' pre ->
  (u_event_sent s = true -> pre = []) ->
  (u_state s = PRunning -> u_event_sent s' = true -> md' = true \/ In EvDisconnected (u_event_queue s')) ->
  InvS s' W' md'.
Proof.
  intros s W md s' W' md' pre d evs HI Es Er Hw Hall Hd Hp Hpre Hmd.
  unfold InvS in *. cbv zeta in *. rewrite Hw, Es, Er. set (w := W ++ u_event_queue s) in *.
  destruct (u_state s) eqn:Est.
  - destruct HI as (R & N & E).
    destruct Hp as [Hn| |]; try congruence. destruct d; [destruct Hd as (_ & _ & Hd); congruence|].
    cbn [app]. rewrite recog_app, R, (recog_inputs _ _ Hall). repeat split; congruence.
  - destruct HI as (R & S & N & E).
    destruct Hp as [Hn| |]; try congruence. destruct d; [destruct Hd as (_ & _ & Hd); congruence|].
    cbn [app]. rewrite recog_app, R, (recog_inputs _ _ Hall). repeat split; try congruence; lia.
  - destruct (u_event_sent s) eqn:Ee.
    + destruct HI as (R & _). rewrite (Hpre eq_refl).
      destruct d; [destruct Hd; discriminate|]. rewrite Hd. cbn [app].
      rewrite recog_app, R, (recog_inputs _ _ Hall). split; [reflexivity|]. apply Hmd; auto.
    + rewrite recog_app, HI.
      assert (Hr : recog (if u_notify_sent s then RInterrupted else RRun) pre
                   = Some (if u_notify_sent s' then RInterrupted else RRun)).
      { destruct Hp as [Hn|Hn _ Hn'|t Hn _ Hn']; cbn [recog]; rewrite ?Hn, ?Hn'; reflexivity. }
      rewrite recog_app, Hr.
      destruct d.
      * destruct Hd as (_ & Hd & _). rewrite Hd. cbn [app recog].
        assert (rstep (if u_notify_sent s' then RInterrupted else RRun) EvDisconnected = Some RDead) as ->
          by (destruct (u_notify_sent s'); reflexivity).
        rewrite (recog_inputs _ _ Hall). split; [reflexivity|]. apply Hmd; auto.
      * rewrite Hd. cbn [app]. apply recog_inputs. exact Hall.
  - destruct Hp as [Hn| |]; try congruence. destruct d; [destruct Hd as (_ & _ & Hd); congruence|].
    cbn [app]. rewrite recog_app. destruct (recog (RSync 0) w); [|congruence].
    rewrite (recog_inputs _ _ Hall). discriminate.
  - destruct Hp as [Hn| |]; try congruence. destruct d; [destruct Hd as (_ & _ & Hd); congruence|].
    cbn [app]. rewrite recog_app. destruct (recog (RSync 0) w); [|congruence].
    rewrite (recog_inputs _ _ Hall). discriminate.
Qed.

Lemma invS_dead : forall s W md s' W' md',
  InvS s W md -> (u_state s' = PDisconnected \/ u_state s' = PShutdown) ->
  W' ++ u_event_queue s' = W ++ u_event_queue s -> InvS s' W' md'.
Proof.
  intros s W md s' W' md' HI Hs Hw. apply invS_accepts in HI. unfold InvS. cbv zeta. rewrite Hw.
  destruct Hs as [-> | ->]; exact HI.
Qed.
