(* Operation sequences over the P2P session core model: what a user and the endpoints can do to
   one session.  Used by the session-level theorems and by the refutation witnesses. *)
From GGRS Require Import Base Consts Queue Sync P2P.
Open Scope Z_scope.

Inductive sop :=
| SLocal (h v : Z)                       (* add_local_input *)
| SRemote (player frame v : Z)           (* Event::Input from an endpoint *)
| SGossip (ep : Z) (st : list cstat)     (* an endpoint merged a gossiped peer_connect_status *)
| SEpDisc (handles : list Z)             (* Event::Disconnected of the endpoint carrying these handles *)
| SDisc (h : Z)                          (* disconnect_player *)
| SDelay (h d : Z)                       (* set_input_delay *)
| SAdvance.                              (* advance_frame (after its poll) *)

Record sres := mksr { sr_state : p2p; sr_out : pout; sr_api : apires }.

Section WithPredictor.
Variable predict : Z -> Z.

Definition sstep (p : p2p) (o : sop) : res sres :=
  match o with
  | SLocal h v => let '(p', r) := api_add_local_input p h v in Ok (mksr p' out0 r)
  | SRemote pl f v => res_bind (ev_input p pl f v) (fun p' => Ok (mksr p' out0 AOk))
  | SGossip ep st => Ok (mksr (gossip p ep st) out0 AOk)
  | SEpDisc hs => res_bind (ev_disconnected p hs) (fun p' => Ok (mksr p' out0 AOk))
  | SDisc h => res_bind (api_disconnect_player p h) (fun '(p', r) => Ok (mksr p' out0 r))
  | SDelay h d => res_bind (api_set_input_delay p h d) (fun '(p', o, r) => Ok (mksr p' o r))
  | SAdvance => res_bind (advance predict p) (fun '(p', o, r) => Ok (mksr p' o r))
  end.

(* runs the ops; returns the final state and the outputs of every call, in order *)
Fixpoint srun (p : p2p) (ops : list sop) : res (p2p * list (pout * apires)) :=
  match ops with
  | [] => Ok (p, [])
  | o :: r =>
    res_bind (sstep p o) (fun s =>
      res_bind (srun (sr_state s) r) (fun '(p', outs) => Ok (p', (sr_out s, sr_api s) :: outs)))
  end.

End WithPredictor.

(* a synchronized session with the given player kinds, all endpoints running *)
Definition session_start (nplayers maxpred : Z) (sparse : bool) (delay : Z) (kinds : list pkind)
                         (eps : list (list Z)) (nspec : nat) : p2p :=
  with_running
    (p2p_new nplayers maxpred sparse delay kinds
       (map (fun k => (nplayers + Z.of_nat k, Z.of_nat k)) (seq 0 nspec))
       (map (fun hs => mkev true (repeat cs_default (Z.to_nat nplayers)) hs) eps) nspec)
    true.
