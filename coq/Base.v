(* Base definitions shared by all models: result type with explicit Panic / Err outcomes. *)
From Coq Require Export List NArith ZArith Bool Lia.
Export ListNotations.

Inductive res (A : Type) : Type :=
| Ok (a : A)
| Err
| Panic.
Arguments Ok {A} a.
Arguments Err {A}.
Arguments Panic {A}.

Definition res_bind {A B} (r : res A) (f : A -> res B) : res B :=
  match r with Ok a => f a | Err => Err | Panic => Panic end.

Definition is_panic {A} (r : res A) : bool :=
  match r with Panic => true | _ => false end.

Definition NULL : Z := (-1)%Z.
