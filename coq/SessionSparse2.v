(* Sparse saving, unconditionally: a sparse-saving session in C01's space never fires an assert.
   SessionSparse.v shows that IF advance_frame returns, its requests are executable; this file shows
   that it DOES return - the counterpart of SessionProgress.advance_progress, which covers dense saving.
   The extra invariant SX relates the one saved frame S to the rest of the session:
     last confirmed <= S <= current,  S <= every player's last held frame (or 0),
     and no queue has marked a frame below S as incorrectly predicted
   which is what makes `load S, re-simulate from S` legal whenever a rollback or a forced save needs it. *)
From GGRS Require Import Base Consts Queue QueueProofs QueueTheorems Sync P2P Session SessionProofs SessionSparse SessionProgress.
From Coq Require Import ZifyBool ZifyNat ZifyN.
Ltac Zify.zify_post_hook ::= Z.div_mod_to_equations.
Open Scope Z_scope.

Record SX (p : p2p) (gs : list ghost) : Prop := {
  sx_range : -1 <= s_last_saved (ps_sync p) <= s_current (ps_sync p);
  sx_null : s_last_saved (ps_sync p) = NULL -> s_current (ps_sync p) = 0;
  sx_conf : s_last_confirmed (ps_sync p) <= s_last_saved (ps_sync p);
  sx_held : Forall (fun g : ghost => s_last_saved (ps_sync p) <= Z.max 0 (hlen (fst g) - 1)) gs;
  sx_fi : Forall (fun q => q_first_incorrect q <> NULL -> s_last_saved (ps_sync p) <= q_first_incorrect q) (s_queues (ps_sync p));
}.

(* the first incorrect frame found by check_simulation_consistency is one of the queues' *)
Lemma csc_in : forall qs acc,
  let r := fold_left (fun acc q => let inc := q_first_incorrect q in
                        if negb (inc =? NULL) && ((acc =? NULL) || (inc <? acc)) then inc else acc) qs acc in
  r = acc \/ exists q, In q qs /\ q_first_incorrect q = r /\ r <> NULL.
Proof.
  induction qs as [|q qs IH]; intros acc; cbn [fold_left]; [left; reflexivity|]. cbv zeta.
  destruct (negb (q_first_incorrect q =? NULL) && ((acc =? NULL) || (q_first_incorrect q <? acc))) eqn:E.
  - destruct (IH (q_first_incorrect q)) as [A|(q0 & A & B & C)].
    + right. exists q. split; [left; reflexivity|]. cbv zeta in A. rewrite A. split; [reflexivity|].
      apply andb_true_iff in E. destruct E as (E & _). apply negb_true_iff in E. apply Z.eqb_neq in E. exact E.
    + right. exists q0. split; [right; exact A|]. split; [exact B|exact C].
  - destruct (IH acc) as [A|(q0 & A & B & C)]; [left; exact A|right].
    exists q0. split; [right; exact A|]. split; [exact B|exact C].
Qed.

Lemma cf_is_held : forall (st : list cstat) (gs : list ghost) cf,
  Forall2 (fun s g => cs_last s = hlen (fst g) - 1) st gs -> Exists (fun s => cf = cs_last s) st ->
  Exists (fun g : ghost => cf = hlen (fst g) - 1) gs.
Proof.
  intros st gs cf H. induction H as [|s g st gs Hsg H IH]; intros He; inversion He; subst.
  - left. congruence.
  - right. apply IH. assumption.
Qed.

Section SparseProgress.
Variable predict : Z -> Z.

(* the only save of a sparse re-simulation is the one of frame mc *)
Lemma resim_last_saved : forall n i p mc o p' o',
  resim_go predict n i p mc o = Ok (p', o') -> ps_sparse p = true ->
  s_last_saved (ps_sync p') =
    (if (s_current (ps_sync p) <=? mc) && (mc <? s_current (ps_sync p) + Z.of_nat n) then mc else s_last_saved (ps_sync p)).
Proof.
  induction n as [|n IH]; intros i p mc o p' o' H Hsp; cbn [resim_go] in H.
  - injection H as <- <-. destruct (Z.leb_spec (s_current (ps_sync p)) mc), (Z.ltb_spec mc (s_current (ps_sync p) + Z.of_nat 0)); cbn [andb]; try reflexivity; lia.
  - apply res_bind_ok in H. destruct H as ([s1 ins] & E1 & H).
    destruct (synchronized_inputs_sync _ _ _ _ _ E1) as (_ & Hc1 & _ & Hs1).
    apply res_bind_ok in H. destruct H as ([s2 o2] & E2 & H). rewrite Hsp in E2.
    apply IH in H; [|exact Hsp]. cbn [with_sync ps_sync advance_frame with_current s_current s_last_saved] in H.
    rewrite H. clear H.
    destruct (Z.eqb_spec (s_current s1) mc) as [Em|Em].
    + apply res_bind_ok in E2. destruct E2 as ([s2' r] & Es & E2). injection E2 as <- <-.
      destruct (save_current_state_inv _ _ _ Es) as (_ & _ & Hc2 & _ & _ & _ & Hsv2).
      rewrite Hc2, Hsv2, Hc1.
      destruct (Z.leb_spec (s_current (ps_sync p) + 1) mc), (Z.ltb_spec mc (s_current (ps_sync p) + 1 + Z.of_nat n)),
               (Z.leb_spec (s_current (ps_sync p)) mc), (Z.ltb_spec mc (s_current (ps_sync p) + Z.of_nat (S n))); cbn [andb]; lia.
    + injection E2 as <- <-. rewrite Hc1, Hs1.
      destruct (Z.leb_spec (s_current (ps_sync p) + 1) mc), (Z.ltb_spec mc (s_current (ps_sync p) + 1 + Z.of_nat n)),
               (Z.leb_spec (s_current (ps_sync p)) mc), (Z.ltb_spec mc (s_current (ps_sync p) + Z.of_nat (S n))); cbn [andb]; try reflexivity; lia.
Qed.

(* loading the saved frame and re-simulating from it cannot fail *)
Lemma sparse_adjust_progress : forall p gs L fi mc o w,
  ps_sparse p = true -> connected (ps_status p) ->
  length (ps_status p) = length (s_queues (ps_sync p)) ->
  QsI (s_current (ps_sync p)) L (s_queues (ps_sync p)) gs ->
  L <= s_last_saved (ps_sync p) -> 0 <= s_last_saved (ps_sync p) -> s_last_saved (ps_sync p) <= fi ->
  s_last_saved (ps_sync p) < s_current (ps_sync p) -> -1 <= L ->
  s_current (ps_sync p) - w <= s_last_saved (ps_sync p) -> s_maxpred (ps_sync p) = w ->
  cell_frame (ps_sync p) (s_last_saved (ps_sync p)) = s_last_saved (ps_sync p) ->
  exists p' o', adjust_gamestate predict p fi mc o = Ok (p', o') /\
    QsI (s_current (ps_sync p)) L (s_queues (ps_sync p')) gs /\ all_clean (s_queues (ps_sync p')) /\
    same_user (s_queues (ps_sync p)) (s_queues (ps_sync p')) /\
    s_last_confirmed (ps_sync p') = s_last_confirmed (ps_sync p) /\ ps_status p' = ps_status p /\
    s_current (ps_sync p') = s_current (ps_sync p) /\
    (forall h gh q', nth_error gs h = Some gh -> nth_error (s_queues (ps_sync p')) h = Some q' ->
       s_current (ps_sync p) <= hlen (fst gh) -> pi_frame (q_pred q') = NULL) /\
    s_last_saved (ps_sync p') =
      (if (s_last_saved (ps_sync p) <=? mc) && (mc <? s_current (ps_sync p)) then mc else s_last_saved (ps_sync p)).
Proof.
  intros p gs L fi mc o w Hsp Hcon Hlen HQ HLS HS0 HSfi HSc HL Hwin Hmp Hcell.
  set (c := s_current (ps_sync p)) in *. set (S := s_last_saved (ps_sync p)) in *.
  assert (El : load_frame (ps_sync p) S = Ok (with_current (ps_sync p) S, RLoad S)).
  { unfold load_frame. fold c. rewrite Hmp, Hcell.
    assert ((S =? NULL) = false) as -> by (unfold NULL; lia).
    assert ((S <? c) = true) as -> by lia. cbn [negb].
    assert ((S <? c - w) = false) as -> by lia.
    assert ((S <? 0) = false) as -> by lia. rewrite Z.eqb_refl. reflexivity. }
  set (p1 := with_sync p (reset_all (with_current (ps_sync p) S))).
  destruct (resim_progress predict (Z.to_nat (c - S)) 0 p1 gs L mc (add_req o (RLoad S))) as (p2 & o2 & Er & A1 & A2 & A3 & A4 & A5 & _ & A7).
  - exact Hcon.
  - subst p1. cbn [with_sync ps_status ps_sync reset_all with_queues s_queues with_current]. rewrite map_length. exact Hlen.
  - subst p1. cbn [with_sync ps_sync reset_all with_queues s_queues s_current with_current].
    eapply QsI_reset. exact HQ.
  - subst p1. cbn [with_sync ps_sync reset_all with_queues s_queues with_current]. apply all_clean_reset.
  - subst p1. cbn. lia.
  - subst p1. cbn. lia.
  - pose proof (resim_current _ _ _ _ _ _ _ _ Er) as Hcur2.
    assert (Hc2 : s_current (ps_sync p2) = c).
    { rewrite Hcur2. subst p1. cbn [with_sync ps_sync reset_all with_queues s_current with_current]. lia. }
    pose proof (resim_last_saved _ _ _ _ _ _ _ Er) as Hsv2.
    exists p2, o2. unfold adjust_gamestate. rewrite Hsp. fold c S.
    assert ((fi <? S) = false) as -> by lia. rewrite El. cbn [res_bind]. fold p1. rewrite Er. cbn [res_bind].
    rewrite Hc2, Z.eqb_refl. cbn [negb]. split; [reflexivity|].
    subst p1. cbn [with_sync ps_sync ps_status ps_sparse reset_all with_queues s_queues s_last_confirmed s_last_saved s_current with_current] in A3, A4, A5, A7, Hsv2.
    rewrite Hc2 in A1.
    split; [exact A1|]. split; [exact A2|].
    split; [eapply same_user_trans; [apply same_user_reset|exact A3]|].
    split; [exact A4|]. split; [exact A5|]. split; [first [exact Hc2|reflexivity]|]. split.
    + intros h gh q' B1 B2 B3.
      assert (exists q, nth_error (s_queues (ps_sync p)) h = Some q) as (q & B4).
      { destruct (nth_error (s_queues (ps_sync p)) h) eqn:E1; [eauto|]. apply nth_error_None in E1.
        pose proof (QsI_length _ _ _ _ HQ). assert (nth_error gs h <> None) as B7 by congruence.
        apply nth_error_Some in B7. lia. }
      apply (A7 h (reset_prediction q) gh q'); [rewrite nth_error_map, B4; reflexivity|exact B1|exact B2|rewrite Hc2; exact B3|reflexivity].
    + rewrite (Hsv2 Hsp). replace (S + Z.of_nat (Z.to_nat (c - S))) with c by lia. reflexivity.
Qed.

(* the forced save of check_last_saved_state: nothing, a plain save, or load-and-re-simulate *)
Lemma sparse_check_progress : forall p gs g w L cf o,
  ps_sparse p = true -> connected (ps_status p) ->
  length (ps_status p) = length (s_queues (ps_sync p)) ->
  QsI (s_current (ps_sync p)) L (s_queues (ps_sync p)) gs -> all_clean (s_queues (ps_sync p)) ->
  L <= s_last_saved (ps_sync p) -> 0 <= s_last_saved (ps_sync p) <= s_current (ps_sync p) -> -1 <= L ->
  s_current (ps_sync p) <= Z.max 0 L + w -> 1 <= w -> ps_maxpred p = w -> s_maxpred (ps_sync p) = w ->
  SparseCells w (ps_sync p) g -> L <= cf -> s_last_saved (ps_sync p) <= Z.max 0 cf ->
  exists p1 o1, check_last_saved_state predict p (s_last_saved (ps_sync p)) cf o = Ok (p1, o1) /\
    p1 = with_sync p (ps_sync p1) /\
    QsI (s_current (ps_sync p)) L (s_queues (ps_sync p1)) gs /\ all_clean (s_queues (ps_sync p1)) /\
    same_user (s_queues (ps_sync p)) (s_queues (ps_sync p1)) /\
    s_last_confirmed (ps_sync p1) = s_last_confirmed (ps_sync p) /\
    s_current (ps_sync p1) = s_current (ps_sync p) /\
    (forall h q gh q', nth_error (s_queues (ps_sync p)) h = Some q -> nth_error gs h = Some gh ->
       nth_error (s_queues (ps_sync p1)) h = Some q' -> s_current (ps_sync p) <= hlen (fst gh) ->
       pi_frame (q_pred q) = NULL -> pi_frame (q_pred q') = NULL) /\
    L <= s_last_saved (ps_sync p1) /\ 0 <= s_last_saved (ps_sync p1) <= s_current (ps_sync p) /\
    s_last_saved (ps_sync p1) <= Z.max 0 cf.
Proof.
  intros p gs g w L cf o Hsp Hcon Hlen HQ Hcl HLS HS HL Hwin Hw Hmpp Hmp Hcells HLcf HScf.
  set (c := s_current (ps_sync p)) in *. set (S := s_last_saved (ps_sync p)) in *.
  unfold check_last_saved_state. fold c. rewrite Hmpp.
  destruct (Z.ltb_spec (c - S) w) as [Hnear|Hfar].
  - exists p, o. split; [reflexivity|]. split; [symmetry; apply with_sync_self|]. split; [exact HQ|]. split; [exact Hcl|].
    split; [apply same_user_refl|]. split; [reflexivity|]. split; [reflexivity|].
    split; [intros h q gh q' A _ B _ Hn; rewrite A in B; injection B as <-; exact Hn|].
    fold S. split; [exact HLS|]. split; [exact HS|exact HScf].
  - destruct (Z.leb_spec c cf) as [Hcc|Hcc].
    + unfold save_current_state. fold c. assert ((c <? 0) = false) as -> by lia. cbn [res_bind].
      cbn [with_sync ps_sync s_last_saved s_current].
      assert (((cf =? NULL) || (c =? Z.min cf c)) = true) as -> by (apply orb_true_iff; right; lia). cbn [negb].
      eexists; eexists. split; [reflexivity|]. cbn [with_sync ps_sync s_queues s_last_confirmed s_current s_last_saved].
      split; [reflexivity|]. split; [exact HQ|]. split; [exact Hcl|].
      split; [apply same_user_refl|]. split; [reflexivity|]. split; [reflexivity|].
      split; [intros h q gh q' A _ B _ Hn; rewrite A in B; injection B as <-; exact Hn|].
      split; [lia|]. split; [lia|lia].
    + assert (Hcf : cell_frame (ps_sync p) S = S).
      { destruct Hcells as (_ & _ & _ & [X|(_ & X & _)]); [fold S in X; unfold NULL in X; lia|exact X]. }
      destruct (sparse_adjust_progress p gs L S cf o w Hsp Hcon Hlen HQ) as (p2 & o2 & Ea & A1 & A2 & A3 & A4 & A5 & A6 & A7 & A8);
        try (fold c S; lia); try assumption.
      fold c S in A1, A6, A7, A8. rewrite Ea. cbn [res_bind]. rewrite A6, A8.
      assert (Hb : ((cf =? NULL) || ((if (S <=? cf) && (cf <? c) then cf else S) =? Z.min cf c)) = true).
      { destruct (Z.eqb_spec cf NULL) as [En|En]; [reflexivity|]. cbn [orb].
        assert ((S <=? cf) = true) as -> by (unfold NULL in En; lia).
        assert ((cf <? c) = true) as -> by lia. cbn [andb]. lia. }
      rewrite Hb. cbn [negb].
      exists p2, o2. split; [reflexivity|]. split; [exact (adjust_shape _ _ _ _ _ _ _ Ea)|].
      split; [exact A1|]. split; [exact A2|]. split; [exact A3|]. split; [exact A4|]. split; [exact A6|].
      split; [intros h q gh q' _ B C D _; exact (A7 h gh q' B C D)|].
      rewrite A8. destruct ((S <=? cf) && (cf <? c)) eqn:Eb.
      * apply andb_true_iff in Eb. split; [lia|]. split; [lia|lia].
      * split; [exact HLS|]. split; [exact HS|exact HScf].
Qed.

Lemma Forall_Exists_both {A} (P Q : A -> Prop) : forall l, Forall P l -> Exists Q l -> exists x, P x /\ Q x.
Proof.
  intros l HF HE. apply Exists_exists in HE. destruct HE as (x & Hin & Hq). rewrite Forall_forall in HF. exists x. split; [apply HF; exact Hin|exact Hq].
Qed.

(* the optional rollback at the start of handle_rollback_and_save, sparse saving: load the saved frame and
   re-simulate; the facts about the state in between (needed again by the forced save that follows) *)
Lemma sparse_first_progress : forall p gs g w d o cf,
  QSg true w d p gs -> JS w p g -> SX p gs -> 0 <= s_last_saved (ps_sync p) ->
  s_last_confirmed (ps_sync p) <= cf -> s_last_saved (ps_sync p) <= Z.max 0 cf ->
  exists p2 o2,
     (if check_simulation_consistency (ps_sync p) (ps_disc_frame p) =? NULL then Ok (p, o)
      else res_bind (adjust_gamestate predict p (check_simulation_consistency (ps_sync p) (ps_disc_frame p)) cf o)
             (fun '(p1, o1) => Ok (with_disc_frame p1 NULL, o1))) = Ok (p2, o2) /\
     p2 = with_sync p (ps_sync p2) /\
     QsI (s_current (ps_sync p)) (s_last_confirmed (ps_sync p)) (s_queues (ps_sync p2)) gs /\ all_clean (s_queues (ps_sync p2)) /\
     same_user (s_queues (ps_sync p)) (s_queues (ps_sync p2)) /\
     s_last_confirmed (ps_sync p2) = s_last_confirmed (ps_sync p) /\ s_current (ps_sync p2) = s_current (ps_sync p) /\ ps_status p2 = ps_status p /\
     (forall h q gh q', nth_error (s_queues (ps_sync p)) h = Some q -> nth_error gs h = Some gh ->
        nth_error (s_queues (ps_sync p2)) h = Some q' -> s_current (ps_sync p) <= hlen (fst gh) ->
        pi_frame (q_pred q) = NULL -> pi_frame (q_pred q') = NULL) /\
     s_last_confirmed (ps_sync p) <= s_last_saved (ps_sync p2) /\ 0 <= s_last_saved (ps_sync p2) <= s_current (ps_sync p) /\
     s_last_saved (ps_sync p2) <= Z.max 0 cf /\
     exists g2, gframe g2 = s_current (ps_sync p) /\ SparseCells w (ps_sync p2) g2.
Proof.
  intros p gs g w d o cf HQS HJS [X1 X2 X3 X4 X5] HS0 HLcf HScf.
  pose proof HQS as [Hw Hd Hmode Hn Hconn Hgos HQ Hlast Hfr Hkinds Hpe Hsok].
  destruct Hw as (Hw1 & Hw2 & Hw3). destruct Hmode as (Hrun & Hsp & Hdf).
  destruct Hn as (Hn1 & Hn2 & Hn3 & Hn4). destruct Hfr as (HfL & Hfc & Hfw).
  destruct HJS as [Jw Jmp Jsp Jfr Jcur Jcells]. rewrite (Z.max_r 1 w) in Hfw by lia.
  set (c := s_current (ps_sync p)) in *. set (L := s_last_confirmed (ps_sync p)) in *. set (S := s_last_saved (ps_sync p)) in *.
  pose proof (QsI_length _ _ _ _ HQ) as Hlq.
  unfold check_simulation_consistency. rewrite Hdf.
    pose proof (csc_spec predict (s_queues (ps_sync p)) gs _ _ NULL HQ (or_introl eq_refl)) as Hcsc. cbv zeta in Hcsc.
    pose proof (csc_in (s_queues (ps_sync p)) NULL) as Hin. cbv zeta in Hin.
    set (fi := fold_left _ _ NULL) in *.
    destruct Hcsc as [(Hr & _ & Hcl)|Hr].
    - rewrite Hr, Z.eqb_refl. exists p, o. split; [reflexivity|]. split; [symmetry; apply with_sync_self|].
      split; [exact HQ|]. split; [exact Hcl|]. split; [apply same_user_refl|]. split; [reflexivity|]. split; [reflexivity|]. split; [reflexivity|].
      split; [intros h q gh q' A _ B _ Hn; rewrite A in B; injection B as <-; exact Hn|].
      fold S. split; [exact X3|]. split; [lia|]. split; [exact HScf|]. exists g. split; [exact Jfr|exact Jcells].
    - assert ((fi =? NULL) = false) as -> by (unfold NULL in *; lia).
      assert (HSfi : S <= fi).
      { destruct Hin as [Hin|(q0 & I1 & I2 & I3)]; [unfold NULL in *; lia|].
        rewrite Forall_forall in X5. specialize (X5 q0 I1). rewrite I2 in X5. exact (X5 I3). }
      assert (Hcf : cell_frame (ps_sync p) S = S).
      { destruct Jcells as (_ & _ & _ & [X|(_ & X & _)]); [fold S in X; unfold NULL in X; lia|exact X]. }
      destruct (sparse_adjust_progress p gs L fi cf o w Hsp Hconn ltac:(lia) HQ) as (p2 & o2 & Ea & A1 & A2 & A3 & A4 & A5 & A6 & A7 & A8);
        try (fold c S; lia); try assumption.
      fold c S in A1, A6, A7, A8. fold L in A4. rewrite Ea. cbn [res_bind].
      pose proof (adjust_shape _ _ _ _ _ _ _ Ea) as Hshape.
      assert (Hd2 : with_disc_frame p2 NULL = p2).
      { apply with_disc_null. rewrite Hshape. cbn. exact Hdf. }
      rewrite Hd2.
      destruct (sp_adjust predict p fi cf o p2 o2 g w Ea Hsp ltac:(lia) Hfc Jfr Jcells) as (R & g2 & _ & _ & _ & _ & G5 & _ & G7 & _).
      exists p2, o2. split; [reflexivity|]. split; [exact Hshape|]. split; [exact A1|]. split; [exact A2|]. split; [exact A3|].
      split; [exact A4|]. split; [exact A6|]. split; [exact A5|].
      split; [intros h q gh q' _ B C D _; exact (A7 h gh q' B C D)|].
      rewrite A8. split; [|split; [|split; [|exists g2; split; [exact G5|exact G7]]]];
        destruct ((S <=? cf) && (cf <? c)) eqn:Eb; try (apply andb_true_iff in Eb); lia.
Qed.

(* the rollback step of a sparse-saving session delivers what the rest of advance_rollback_frame needs *)
Lemma sparse_rollback : forall p gs g w d o cf,
  QSg true w d p gs -> JS w p g -> SX p gs -> 0 <= s_last_saved (ps_sync p) ->
  confirmed_frame p = Ok cf -> s_last_confirmed (ps_sync p) <= cf ->
  Forall (fun c => cs_last c < I32MAX) (ps_status p) ->
  exists p1 o1, HRpost predict p gs cf o p1 o1 /\
    0 <= s_last_saved (ps_sync p1) <= s_current (ps_sync p) /\ s_last_saved (ps_sync p1) <= Z.max 0 cf.
Proof.
  intros p gs g w d o cf HQS HJS [X1 X2 X3 X4 X5] HS0 Ecf HLcf Hbnd.
  pose proof HQS as [Hw Hd Hmode Hn Hconn Hgos HQ Hlast Hfr Hkinds Hpe Hsok].
  destruct Hw as (Hw1 & Hw2 & Hw3). destruct Hmode as (Hrun & Hsp & Hdf).
  destruct Hn as (Hn1 & Hn2 & Hn3 & Hn4). destruct Hfr as (HfL & Hfc & Hfw).
  destruct HJS as [Jw Jmp Jsp Jfr Jcur Jcells]. rewrite (Z.max_r 1 w) in Hfw by lia.
  set (c := s_current (ps_sync p)) in *. set (L := s_last_confirmed (ps_sync p)) in *. set (S := s_last_saved (ps_sync p)) in *.
  pose proof (QsI_length _ _ _ _ HQ) as Hlq.
  assert (HScf : S <= Z.max 0 cf).
  { destruct (confirmed_frame_spec p Hconn) as (cf' & Ecf' & _ & Hex); [|exact Hbnd|].
    { intro E. rewrite E in Hn4. cbn in Hn4. lia. }
    rewrite Ecf in Ecf'. injection Ecf' as <-.
    pose proof (cf_is_held _ _ _ Hlast Hex) as Hex2.
    destruct (Forall_Exists_both _ _ _ X4 Hex2) as (g0 & G1 & G2). lia. }
  (* the optional rollback *)
  pose proof (sparse_first_progress p gs g w d o cf HQS (Build_JS _ _ _ Jw Jmp Jsp Jfr Jcur Jcells) (Build_SX _ _ X1 X2 X3 X4 X5) HS0 HLcf HScf) as Hfirst.
  fold c L S in Hfirst.
  destruct Hfirst as (p2 & o2 & E2 & Hshape2 & HQ2 & Hcl2 & Hsu2 & HL2 & Hc2 & Hst2 & Hidle2 & HLS2 & HS2 & HScf2 & g2 & Hgf2 & Hcells2).
  assert (Hsp2 : ps_sparse p2 = true) by (rewrite Hshape2; cbn; exact Hsp).
  assert (Hmpp2 : ps_maxpred p2 = w) by (rewrite Hshape2; cbn; exact Hw2).
  assert (Hmp2 : s_maxpred (ps_sync p2) = w) by (destruct Hcells2 as (X & _); exact X).
  assert (Hlen2 : length (ps_status p2) = length (s_queues (ps_sync p2))) by (rewrite Hst2; pose proof (QsI_length _ _ _ _ HQ2); lia).
  destruct (sparse_check_progress p2 gs g2 w L cf o2 Hsp2) as (p1 & o1 & E1 & Hshape1 & HQ1 & Hcl1 & Hsu1 & HL1 & Hc1 & Hidle1 & HLS1 & HS1 & HScf1);
    try (first [assumption|rewrite ?Hc2, ?Hst2; first [assumption|lia]]).
  assert (Hmp1 : s_maxpred (ps_sync p1) = w).
  { assert (Ehr : handle_rollback_and_save predict p cf o = Ok (p1, o1)).
    { unfold handle_rollback_and_save. rewrite E2. cbn [res_bind]. rewrite Hsp2. exact E1. }
    destruct (sp_handle_rollback predict p cf o p1 o1 g w Ehr Hsp ltac:(lia) Hw2 Hfc Jfr Jcells) as (R & g' & _ & _ & _ & _ & _ & _ & (X & _) & _).
    exact X. }
  exists p1, o1. split; [|rewrite Hc2 in HS1; split; [exact HS1|exact HScf1]].
  unfold HRpost. fold c L.
  split; [unfold handle_rollback_and_save; rewrite E2; cbn [res_bind]; rewrite Hsp2; exact E1|].
  split; [rewrite Hshape1, Hshape2 at 1; cbn [with_sync ps_sync]; rewrite with_sync_idem; reflexivity|].
  rewrite Hc2 in HQ1, Hidle1.
  split; [exact HQ1|]. split; [exact Hcl1|]. split; [eapply same_user_trans; eassumption|].
  split; [congruence|]. split; [congruence|].
  split.
  - intros h q gh q' A B C D Hn.
    assert (exists q2, nth_error (s_queues (ps_sync p2)) h = Some q2) as (q2 & A2).
    { destruct (nth_error (s_queues (ps_sync p2)) h) eqn:E0; [eauto|]. apply nth_error_None in E0.
      pose proof (QsI_length _ _ _ _ HQ2). assert (nth_error gs h <> None) as B7 by congruence.
      apply nth_error_Some in B7. lia. }
    apply (Hidle1 h q2 gh q' A2 B C D). exact (Hidle2 h q gh q2 A B A2 D Hn).
  - split; [congruence|]. intros _. exact HLS1.
Qed.

End SparseProgress.

Lemma fi_above_conf : forall c L qs gs, QsI c L qs gs -> Forall (fun q => q_first_incorrect q <> NULL -> L < q_first_incorrect q) qs.
Proof.
  intros c L qs gs H. induction H as [|q g qs gs Hq HQ IH]; constructor; [|exact IH].
  intros Hn. destruct (qi_p4 _ _ _ _ _ Hq Hn) as (_ & (X & _) & _). exact X.
Qed.

Lemma all_clean_fi : forall S qs, all_clean qs -> Forall (fun q => q_first_incorrect q <> NULL -> S <= q_first_incorrect q) qs.
Proof. intros S qs H. eapply Forall_impl; [|exact H]. cbv beta. intros q Hq Hn. congruence. Qed.

Section SparseRun.
Variable predict : Z -> Z.

(* one advance_frame call of a sparse-saving session in C01's space never fails, and re-establishes the invariants *)
Lemma sparse_advance_progress : forall p gs g w d,
  QSg true w d p gs -> JS w p g -> SX p gs -> Forall (fun c => cs_last c < I32MAX) (ps_status p) ->
  exists p' o r gs' g', advance predict p = Ok (p', o, r) /\ QSg true w d p' gs' /\
    exec w g (o_requests o) = Some g' /\ JS w p' g' /\ SX p' gs'.
Proof.
  intros p gs g w d HQS HJS HSX Hbnd.
  assert (Hgoal : exists p' o r gs', advance predict p = Ok (p', o, r) /\ QSg true w d p' gs' /\ SX p' gs').
  { pose proof HQS as [Hw Hd Hmode Hn Hconn Hgos HQ Hlast Hfr Hkinds Hpe Hsok].
    destruct Hw as (Hw1 & Hw2 & Hw3). destruct Hmode as (Hrun & Hsp & Hdf). destruct Hfr as (HfL & Hfc & Hfw).
    pose proof (js_w _ _ _ HJS) as Hw1p. rewrite (Z.max_r 1 w) in Hfw by lia.
    unfold advance. rewrite Hrun. cbn [negb].
    destruct (forallb _ (local_handles p)) eqn:Efa; cbn [negb].
    2:{ exists p, out0, AInvalidRequest, gs. split; [reflexivity|]. split; [exact HQS|exact HSX]. }
    assert (Hpend : forall h, In h (local_handles p) -> exists pi, assoc_get (ps_pending p) h = Some pi).
    { intros h Hin. rewrite forallb_forall in Efa. specialize (Efa h Hin).
      destruct (assoc_get (ps_pending p) h); [eauto|discriminate]. }
    assert ((ps_maxpred p =? 0) = false) as -> by lia. cbn [negb].
    assert (Hfirst : exists p1 o1 g1, (if (s_current (ps_sync p) =? 0) && true
                       then res_bind (save_current_state (ps_sync p)) (fun '(s1, r) => Ok (with_sync p s1, add_req out0 r))
                       else Ok (p, out0)) = Ok (p1, o1) /\ QSg true w d p1 gs /\ JS w p1 g1 /\ SX p1 gs /\
                       0 <= s_last_saved (ps_sync p1) /\ ps_status p1 = ps_status p /\
                       local_handles p1 = local_handles p /\ ps_pending p1 = ps_pending p /\ ps_remotes p1 = ps_remotes p).
    { destruct HSX as [X1 X2 X3 X4 X5].
      destruct (Z.eqb_spec (s_current (ps_sync p)) 0) as [Ec|Ec]; cbn [andb].
      - destruct HJS as [Jw Jmp Jsp Jfr Jcur Jcells].
        destruct (save_current_state (ps_sync p)) as [[s1 r]| |] eqn:Es;
          [|unfold save_current_state in Es; rewrite Ec in Es; discriminate..].
        destruct (sp_save w _ g s1 r Jcells ltac:(lia) Jfr Es) as (-> & g1 & _ & Hh1 & Hcl1 & Hc1 & Hsv1 & Hq1 & HL1).
        cbn [res_bind]. exists (with_sync p s1), (add_req out0 (RSave (s_current (ps_sync p)))), g1.
        split; [reflexivity|]. split; [|split; [|split; [|cbn [with_sync ps_sync ps_status ps_pending ps_remotes]; rewrite Hsv1; repeat split; lia]]].
        + apply (QS_same_queues true); [exact HQS| |exact Hq1|exact Hc1|exact HL1].
          destruct Hcl1 as (M & _). rewrite M. symmetry. exact Hw3.
        + constructor; cbn [with_sync ps_maxpred ps_sync ps_sparse]; try assumption.
          * unfold gframe in *. rewrite Hh1, Hc1. exact Jfr.
          * lia.
        + constructor; cbn [with_sync ps_sync]; rewrite ?Hsv1, ?Hc1, ?HL1, ?Hq1.
          * lia.
          * unfold NULL. lia.
          * lia.
          * apply Forall_forall. intros g0 _. lia.
          * eapply Forall_impl; [|exact (fi_above_conf _ _ _ _ HQ)]. cbv beta. intros q Hq Hnn. specialize (Hq Hnn). lia.
      - exists p, out0, g. split; [reflexivity|]. split; [exact HQS|]. split; [exact HJS|].
        split; [constructor; assumption|]. split; [|repeat split].
        destruct (Z.eq_dec (s_last_saved (ps_sync p)) NULL) as [En|En]; [specialize (X2 En); lia|unfold NULL in En; lia]. }
    destruct Hfirst as (p1 & o1 & g1 & E1 & HQS1 & HJS1 & HSX1 & HS1 & Hst1 & Hlh1 & Hpe1 & Hrm1). rewrite E1. cbn [res_bind].
    rewrite (update_disconnects_noop p1); [|rewrite Hst1; exact Hconn|rewrite Hrm1; exact Hgos]. cbn [res_bind].
    assert (Hbnd1 : Forall (fun c => cs_last c < I32MAX) (ps_status p1)) by (rewrite Hst1; exact Hbnd).
    destruct (advance_rollback_gen predict true p1 gs w d o1 HQS1 Hbnd1)
      as (cf & pr & orr & p3 & o3 & gs3 & Ecf & Er & HLcf & Hcfg & E3 & HQS3 & Hcl3 & Hsv3 & Hgrow & HL3 & Hc3).
    { intros h Hin. rewrite Hpe1. apply Hpend. rewrite <- Hlh1. exact Hin. }
    { intros cf Ecf HLcf _. destruct (sparse_rollback predict p1 gs g1 w d o1 cf HQS1 HJS1 HSX1 HS1 Ecf HLcf Hbnd1) as (pr & orr & X & _).
      exists pr, orr. exact X. }
    destruct (sparse_rollback predict p1 gs g1 w d o1 cf HQS1 HJS1 HSX1 HS1 Ecf HLcf Hbnd1) as (pr' & orr' & (Er' & _) & HSr & HScf).
    rewrite Er in Er'. injection Er' as <- <-.
    rewrite E3. cbn [res_bind]. exists p3, o3, AOk, gs3. split; [reflexivity|]. split; [exact HQS3|].
    constructor; rewrite ?Hsv3, ?HL3.
    - lia.
    - unfold NULL. lia.
    - lia.
    - apply Forall_forall. intros g3 Hg3. apply In_nth_error in Hg3. destruct Hg3 as (h & Hh).
      destruct (Hgrow h g3 Hh) as (g0 & G1 & G2). rewrite Forall_forall in Hcfg. pose proof (Hcfg g0 (nth_error_In _ _ G1)). lia.
    - apply all_clean_fi. exact Hcl3. }
  destruct Hgoal as (p' & o & r & gs' & E & HQS' & HSX').
  destruct (sp_advance_exec predict p p' o r g w E HJS) as (g' & Ex & HJS' & _).
  exists p', o, r, gs', g'. split; [exact E|]. split; [exact HQS'|]. split; [exact Ex|]. split; [exact HJS'|exact HSX'].
Qed.

Lemma gossip_sync : forall p ep st, ps_sync (gossip p ep st) = ps_sync p.
Proof. intros p ep st. unfold gossip. destruct (nth_error (ps_remotes p) (Z.to_nat ep)); reflexivity. Qed.

Lemma sparse_step_in_space : forall p gs g w d o,
  QSg true w d p gs -> JS w p g -> SX p gs -> op_ok p o = true ->
  exists s gs' g', sstep predict p o = Ok s /\ QSg true w d (sr_state s) gs' /\
    exec w g (o_requests (sr_out s)) = Some g' /\ JS w (sr_state s) g' /\ SX (sr_state s) gs'.
Proof.
  intros p gs g w d o HQS HJS HSX Hok.
  assert (Hgoal : exists s gs', sstep predict p o = Ok s /\ QSg true w d (sr_state s) gs' /\ SX (sr_state s) gs').
  { destruct o as [h v|pl f v|ep st|hs|h|h dd|]; cbn [op_ok] in Hok; try discriminate.
    - destruct (local_progress _ w d p gs h v HQS) as (HQ' & Hs & Hsp & Hmp).
      cbn [sstep]. destruct (api_add_local_input p h v) as [p' r] eqn:E. cbn [fst] in *.
      exists (mksr p' out0 r), gs. split; [reflexivity|]. cbn [sr_state]. split; [exact HQ'|].
      destruct HSX as [X1 X2 X3 X4 X5]. constructor; rewrite Hs; assumption.
    - apply andb_prop in Hok. destruct Hok as [Hok H5]. apply andb_prop in Hok. destruct Hok as [Hok H4].
      apply andb_prop in Hok. destruct Hok as [Hok H3]. apply andb_prop in Hok. destruct Hok as [H1 H2].
      destruct (nth_error (ps_kinds p) (Z.to_nat pl)) as [[|e|e]|] eqn:Ek; try discriminate.
      destruct (remote_progress _ w d p gs pl f v e HQS ltac:(lia) Ek ltac:(lia) ltac:(lia))
        as (p' & gs' & E & HQ' & q & hist & low & q' & Eq & Eg & -> & Hqs' & F' & P' & Hc' & HL' & Hsv' & _).
      cbn [sstep]. rewrite E. cbn [res_bind].
      exists (mksr p' out0 AOk), (updz gs (Z.to_nat pl) (hist ++ [v], low)). split; [reflexivity|]. cbn [sr_state]. split; [exact HQ'|].
      destruct HSX as [X1 X2 X3 X4 X5]. constructor; rewrite ?Hsv', ?Hc', ?HL', ?Hqs'; try assumption.
      + rewrite Forall_forall in X4. pose proof (X4 _ (nth_error_In _ _ Eg)) as Xh. cbn [fst] in Xh.
        apply Forall_updz; [apply Forall_forall; exact X4|]. cbn [fst]. rewrite hlen_app. lia.
      + rewrite Forall_forall in X5. pose proof (X5 _ (nth_error_In _ _ Eq)) as Xq.
        rewrite Forall_forall in X4. pose proof (X4 _ (nth_error_In _ _ Eg)) as Xh. cbn [fst] in Xh.
        apply Forall_updz; [apply Forall_forall; exact X5|]. rewrite F'. unfold fi_after.
        pose proof (hlen_nonneg hist).
        destruct (pi_frame (q_pred q) =? NULL); [exact Xq|].
        destruct ((q_first_incorrect q =? NULL) && negb (pi_val (q_pred q) =? v)); [intros _; lia|exact Xq].
    - cbn [sstep]. exists (mksr (gossip p ep st) out0 AOk), gs. split; [reflexivity|]. cbn [sr_state]. split.
      + apply gossip_progress; [exact HQS|]. apply Forall_forall. intros s Hs. rewrite forallb_forall in Hok.
        specialize (Hok s Hs). destruct (cs_disc s); [discriminate|reflexivity].
      + destruct HSX as [X1 X2 X3 X4 X5]. constructor; rewrite gossip_sync; assumption.
    - destruct (sparse_advance_progress p gs g w d HQS HJS HSX) as (p' & o & r & gs' & g' & E & HQ' & Ex & HJ' & HX').
      { apply Forall_forall. intros s Hs. rewrite forallb_forall in Hok. specialize (Hok s Hs). lia. }
      cbn [sstep]. rewrite E. cbn [res_bind].
      exists (mksr p' o r), gs'. split; [reflexivity|]. cbn [sr_state]. split; [exact HQ'|exact HX']. }
  destruct Hgoal as (s & gs' & Es & HQ' & HX').
  destruct (sp_sstep_exec predict p o s g w Es HJS) as (g' & Ex & HJ' & _).
  exists s, gs', g'. split; [exact Es|]. split; [exact HQ'|]. split; [exact Ex|]. split; [exact HJ'|exact HX'].
Qed.

(* no modelled assert fires on any run of a sparse-saving session inside the space, and the request
   lists of the whole run are executable by the game, one after the other *)
Theorem sparse_run_in_space : forall ops p gs g w d,
  QSg true w d p gs -> JS w p g -> SX p gs ->
  srun_in predict p ops = Err \/
  exists p' outs gs' g', srun_in predict p ops = Ok (p', outs) /\ srun predict p ops = Ok (p', outs) /\
    exec_outs w g outs = Some g' /\ QSg true w d p' gs' /\ JS w p' g' /\ SX p' gs'.
Proof.
  induction ops as [|o ops IH]; intros p gs g w d HQS HJS HSX.
  - right. exists p, [], gs, g. cbn [srun_in srun exec_outs]. split; [reflexivity|]. split; [reflexivity|]. split; [reflexivity|]. split; [exact HQS|]. split; [exact HJS|exact HSX].
  - cbn [srun_in srun]. destruct (op_ok p o) eqn:Hok; [|left; reflexivity].
    destruct (sparse_step_in_space p gs g w d o HQS HJS HSX Hok) as (s & gs1 & g1 & Es & HQ1 & Ex1 & HJ1 & HX1).
    rewrite Es. cbn [res_bind].
    destruct (IH (sr_state s) gs1 g1 w d HQ1 HJ1 HX1) as [Herr|(p' & outs & gs' & g' & E1 & E2 & Ex & HQ' & HJ' & HX')].
    + left. rewrite Herr. reflexivity.
    + right. rewrite E1, E2. cbn [res_bind].
      exists p', ((sr_out s, sr_api s) :: outs), gs', g'. split; [reflexivity|]. split; [reflexivity|].
      split; [cbn [exec_outs]; rewrite Ex1; exact Ex|]. split; [exact HQ'|]. split; [exact HJ'|exact HX'].
Qed.

End SparseRun.

Lemma SX_start : forall n w d kinds eps nspec,
  SX (session_start n w true d kinds eps nspec) (repeat ([], 0) (Z.to_nat n)).
Proof.
  intros n w d kinds eps nspec. unfold session_start, p2p_new, sync_new.
  constructor; cbn [with_running with_queues ps_sync s_last_saved s_current s_last_confirmed s_queues].
  - unfold NULL. lia.
  - reflexivity.
  - lia.
  - apply Forall_forall. intros g Hg. apply repeat_spec in Hg. subst g. unfold NULL. cbn. lia.
  - apply Forall_forall. intros q Hq. apply in_map_iff in Hq. destruct Hq as ([h q0] & <- & Hin).
    apply in_combine_r in Hin. apply repeat_spec in Hin. subst q0.
    destruct (nth_error kinds (Z.to_nat h)) as [[| |]|]; cbn; intros X; congruence.
Qed.
