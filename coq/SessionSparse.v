(* Sparse saving (SessionBuilder::with_sparse_saving_mode): only the state of the last saved frame is
   ever loaded.  The request lists of a sparse-saving session are executable and frame-consistent
   (C02), conditionally on no assert firing, for every operation sequence - the counterpart of
   SessionProofs.requests_executable, which covers dense saving and lockstep. *)
From GGRS Require Import Base Consts Queue QueueProofs QueueTheorems Sync P2P Session SessionProofs.
From Coq Require Import ZifyBool ZifyNat ZifyN.
Ltac Zify.zify_post_hook ::= Z.div_mod_to_equations.
Open Scope Z_scope.

(* the one cell that matters: the last saved frame's, in the sync layer's and in the game's view *)
Definition SparseCells (w : Z) (s : sync) (g : game) : Prop :=
  s_maxpred s = w /\ Z.of_nat (length (s_cells s)) = w + 1 /\ Z.of_nat (length (g_cells g)) = w + 1 /\
  (s_last_saved s = NULL \/
   (0 <= s_last_saved s <= s_current s /\ cell_frame s (s_last_saved s) = s_last_saved s /\
    nth (Z.to_nat (s_last_saved s mod (w + 1))) (g_cells g) (NULL, []) =
      (s_last_saved s, firstn (Z.to_nat (s_last_saved s)) (g_hist g)))).

Record JS (w : Z) (p : p2p) (g : game) : Prop := {
  js_w : 1 <= w;
  js_mp : ps_maxpred p = w;
  js_sparse : ps_sparse p = true;
  js_frame : gframe g = s_current (ps_sync p);
  js_cur : 0 <= s_current (ps_sync p);
  js_cells : SparseCells w (ps_sync p) g;
}.

Lemma SparseCells_same : forall w s s' g, SparseCells w s g -> cells_same s s' -> s_current s' = s_current s -> SparseCells w s' g.
Proof.
  intros w s s' g (A & B & C & D) (E & F & G) H. unfold SparseCells. rewrite E, F, G, H.
  split; [exact A|]. split; [exact B|]. split; [exact C|].
  destruct D as [D|(D1 & D2 & D3)]; [left; exact D|right].
  split; [exact D1|]. split; [|exact D3]. unfold cell_frame, cell_pos in *. rewrite E, F. exact D2.
Qed.

Lemma sp_save : forall w s g s' r,
  SparseCells w s g -> 0 <= w -> gframe g = s_current s -> save_current_state s = Ok (s', r) ->
  r = RSave (s_current s) /\
  exists g', exec_req w g r = Some g' /\ g_hist g' = g_hist g /\ SparseCells w s' g' /\
    s_current s' = s_current s /\ s_last_saved s' = s_current s /\ s_queues s' = s_queues s /\
    s_last_confirmed s' = s_last_confirmed s.
Proof.
  intros w s g s' r (A & B & C & D) Hw Hgf E. unfold save_current_state in E.
  destruct (Z.ltb_spec (s_current s) 0) as [|Hc]; [discriminate|]. injection E as <- <-.
  split; [reflexivity|]. cbn [exec_req]. rewrite Hgf, Z.eqb_refl.
  eexists. split; [reflexivity|]. cbn [g_hist]. split; [reflexivity|].
  set (c := s_current s) in *.
  assert (Hpos : (Z.to_nat (c mod (w + 1)) < Z.to_nat (w + 1))%nat) by (apply Z2Nat.inj_lt; [| |]; lia).
  split; [|cbn [s_current s_last_saved s_queues s_last_confirmed]; repeat split].
  unfold SparseCells. cbn [s_maxpred s_cells s_last_saved s_current g_cells g_hist].
  rewrite !updz_length. split; [exact A|]. split; [exact B|]. split; [exact C|]. right.
  split; [lia|]. split.
  - unfold cell_frame, cell_pos. cbn [s_maxpred s_cells]. rewrite A. apply nth_updz_same. lia.
  - rewrite nth_updz_same by lia. f_equal. unfold gframe in Hgf. rewrite firstn_all2; [reflexivity|lia].
Qed.

Lemma sp_advance : forall w s g ins, SparseCells w s g -> gframe g = s_current s ->
  SparseCells w (advance_frame s) (mkg (g_hist g ++ [ins]) (g_cells g)).
Proof.
  intros w s g ins (A & B & C & D) Hgf. unfold SparseCells. cbn [advance_frame with_current s_maxpred s_cells s_last_saved s_current g_cells g_hist].
  split; [exact A|]. split; [exact B|]. split; [exact C|].
  destruct D as [D|(D1 & D2 & D3)]; [left; exact D|right]. split; [lia|]. split; [exact D2|].
  rewrite D3. f_equal. symmetry. apply firstn_app_le. unfold gframe in Hgf. lia.
Qed.

Lemma sp_load : forall w s g s1 r,
  SparseCells w s g -> gframe g = s_current s -> load_frame s (s_last_saved s) = Ok (s1, r) ->
  r = RLoad (s_last_saved s) /\ s1 = with_current s (s_last_saved s) /\ 0 <= s_last_saved s < s_current s /\
  exists g1, exec_req w g r = Some g1 /\ g_hist g1 = firstn (Z.to_nat (s_last_saved s)) (g_hist g) /\
    gframe g1 = s_last_saved s /\ SparseCells w s1 g1.
Proof.
  intros w s g s1 r (A & B & C & D) Hgf E.
  destruct (load_frame_inv _ _ _ _ E) as (H0 & H1 & _ & _ & -> & ->).
  set (S := s_last_saved s) in *.
  destruct D as [D|(D1 & D2 & D3)]; [unfold NULL in D; lia|].
  split; [reflexivity|]. split; [reflexivity|]. split; [lia|].
  cbn [exec_req]. rewrite D3.
  assert (((0 <=? S) && (S <? gframe g) && (S =? S) && gh_eqb (firstn (Z.to_nat S) (g_hist g)) (firstn (Z.to_nat S) (g_hist g))) = true) as ->.
  { rewrite gh_eqb_refl, Z.eqb_refl. rewrite Hgf. lia. }
  eexists. split; [reflexivity|]. cbn [g_hist]. split; [reflexivity|].
  split.
  - unfold gframe. cbn [g_hist]. rewrite firstn_length. unfold gframe in Hgf. lia.
  - unfold SparseCells. cbn [with_current s_maxpred s_cells s_last_saved s_current g_cells g_hist]. fold S.
    split; [exact A|]. split; [exact B|]. split; [exact C|]. right. split; [lia|]. split; [exact D2|].
    rewrite D3. f_equal. rewrite firstn_firstn. f_equal. lia.
Qed.

Section SparseExec.
Variable predict : Z -> Z.

Definition no_load (R : list request) : Prop := forall r, In r R -> match r with RLoad _ => False | _ => True end.

(* re-simulation with sparse saving: the only save is the one of the confirmed frame *)
Lemma sp_resim : forall n i p mc o p' o' g w,
  resim_go predict n i p mc o = Ok (p', o') -> ps_sparse p = true -> 0 <= w ->
  0 <= s_current (ps_sync p) -> gframe g = s_current (ps_sync p) -> SparseCells w (ps_sync p) g ->
  exists R g',
    o_requests o' = o_requests o ++ R /\ o_remote_sends o' = o_remote_sends o /\ o_spec_sends o' = o_spec_sends o /\
    exec w g R = Some g' /\ gframe g' = s_current (ps_sync p') /\
    s_current (ps_sync p') = s_current (ps_sync p) + Z.of_nat n /\
    SparseCells w (ps_sync p') g' /\ p' = with_sync p (ps_sync p') /\ no_load R /\
    (s_last_saved (ps_sync p') = s_last_saved (ps_sync p) \/
     (s_last_saved (ps_sync p') = mc /\ s_current (ps_sync p) <= mc < s_current (ps_sync p) + Z.of_nat n)) /\
    (s_current (ps_sync p) <= mc < s_current (ps_sync p) + Z.of_nat n -> s_last_saved (ps_sync p') = mc).
Proof.
  induction n as [|n IH]; intros i p mc o p' o' g w H Hsp Hw Hc Hgf Hcells.
  - cbn [resim_go] in H. injection H as <- <-. exists [], g. rewrite app_nil_r, Z.add_0_r. cbn [exec].
    split; [reflexivity|]. split; [reflexivity|]. split; [reflexivity|]. split; [reflexivity|]. split; [exact Hgf|].
    split; [reflexivity|]. split; [exact Hcells|]. split; [symmetry; apply with_sync_idem || destruct p; reflexivity|].
    split; [intros r []|]. split; [left; reflexivity|intros X; lia].
  - cbn [resim_go] in H.
    apply res_bind_ok in H. destruct H as ([s1 ins] & E1 & H).
    destruct (synchronized_inputs_sync _ _ _ _ _ E1) as (Hcs & Hc1 & HL1 & HS1).
    rewrite Hsp in H.
    apply res_bind_ok in H. destruct H as ([s2 o2] & E2 & H).
    set (cur := s_current (ps_sync p)) in *.
    assert (Hcells1 : SparseCells w s1 g) by (eapply SparseCells_same; eassumption).
    assert (Hstep : exists Rs g2, o_requests o2 = o_requests o ++ Rs /\ o_remote_sends o2 = o_remote_sends o /\ o_spec_sends o2 = o_spec_sends o /\
              exec w g Rs = Some g2 /\ g_hist g2 = g_hist g /\ s_current s2 = cur /\ SparseCells w s2 g2 /\ no_load Rs /\
              ((cur = mc /\ s_last_saved s2 = mc) \/ (cur <> mc /\ s_last_saved s2 = s_last_saved (ps_sync p)))).
    { rewrite Hc1 in E2. fold cur in E2. destruct (Z.eqb_spec cur mc) as [Em|Em].
      - apply res_bind_ok in E2. destruct E2 as ([s2' r] & Es & E2). injection E2 as <- <-.
        destruct (sp_save w s1 g s2' r Hcells1 Hw ltac:(lia) Es) as (-> & g2 & Ex & Hh & Hcl & Hcc & Hls & _ & _).
        exists [RSave (s_current s1)], g2. cbn [add_req o_requests o_remote_sends o_spec_sends exec]. rewrite Ex.
        split; [reflexivity|]. split; [reflexivity|]. split; [reflexivity|]. split; [reflexivity|].
        split; [exact Hh|]. split; [lia|]. split; [exact Hcl|]. split; [intros r [<-|[]]; exact I|].
        left. split; [exact Em|lia].
      - injection E2 as <- <-. exists [], g. rewrite app_nil_r. cbn [exec].
        split; [reflexivity|]. split; [reflexivity|]. split; [reflexivity|]. split; [reflexivity|].
        split; [reflexivity|]. split; [exact Hc1|]. split; [exact Hcells1|]. split; [intros r []|].
        right. split; [exact Em|exact HS1]. }
    destruct Hstep as (Rs & g2 & Ho2 & Hr2 & Hs2 & Ex2 & Hh2 & Hc2 & Hcl2 & Hnl2 & Hsv2).
    set (p1 := with_sync p (advance_frame s2)) in *.
    set (g3 := mkg (g_hist g2 ++ [ins]) (g_cells g2)).
    assert (Hgf2 : gframe g2 = s_current s2) by (unfold gframe in *; rewrite Hh2; lia).
    pose proof (sp_advance w s2 g2 ins Hcl2 Hgf2) as Hcl3. fold g3 in Hcl3.
    destruct (IH (i + 1) p1 mc (add_req o2 (RAdvance ins)) p' o' g3 w H) as (R & g' & A1 & A2 & A3 & A4 & A5 & A6 & A7 & A8 & A9 & A10 & A11).
    + exact Hsp.
    + exact Hw.
    + subst p1. cbn [with_sync ps_sync advance_frame with_current s_current]. lia.
    + subst p1 g3. cbn [with_sync ps_sync advance_frame with_current s_current]. unfold gframe in *. cbn [g_hist].
      rewrite app_length. cbn [length]. lia.
    + subst p1. cbn [with_sync ps_sync]. exact Hcl3.
    + subst p1. cbn [with_sync ps_sync advance_frame with_current s_current s_last_saved] in A6, A10, A11.
      exists (Rs ++ [RAdvance ins] ++ R), g'.
      cbn [add_req o_requests o_remote_sends o_spec_sends] in A1, A2, A3.
      split; [rewrite A1, Ho2; rewrite <- !app_assoc; reflexivity|].
      split; [congruence|]. split; [congruence|].
      split; [rewrite exec_app, Ex2; cbn [app exec exec_req]; fold g3; exact A4|].
      split; [exact A5|]. split; [lia|]. split; [exact A7|].
      split; [rewrite A8; cbn [with_sync]; reflexivity|].
      split.
      { intros r Hin. apply in_app_or in Hin. destruct Hin as [Hin|Hin]; [apply Hnl2; exact Hin|].
        cbn [app] in Hin. destruct Hin as [<-|Hin]; [exact I|apply A9; exact Hin]. }
      split.
      { destruct A10 as [A10|(A10 & A10')].
        - destruct Hsv2 as [(X1 & X2)|(X1 & X2)]; [right; split; [congruence|lia]|left; congruence].
        - right. split; [exact A10|lia]. }
      intros Hin. destruct (Z.eq_dec cur mc) as [Em|Em].
      * destruct A10 as [A10|(A10 & A10')]; [|exact A10]. destruct Hsv2 as [(X1 & X2)|(X1 & X2)]; congruence.
      * apply A11. lia.
Qed.


Lemma sp_adjust : forall p fi mc o p' o' g w,
  adjust_gamestate predict p fi mc o = Ok (p', o') -> ps_sparse p = true -> 0 <= w ->
  0 <= s_current (ps_sync p) -> gframe g = s_current (ps_sync p) -> SparseCells w (ps_sync p) g ->
  exists R g',
    o_requests o' = o_requests o ++ R /\ o_remote_sends o' = o_remote_sends o /\ o_spec_sends o' = o_spec_sends o /\
    exec w g R = Some g' /\ gframe g' = s_current (ps_sync p) /\ s_current (ps_sync p') = s_current (ps_sync p) /\
    SparseCells w (ps_sync p') g' /\ p' = with_sync p (ps_sync p') /\ loads_in_window w (s_current (ps_sync p)) R.
Proof.
  intros p fi mc o p' o' g w H Hsp Hw Hc Hgf Hcells. unfold adjust_gamestate in H. rewrite Hsp in H.
  destruct (fi <? s_last_saved (ps_sync p)); [discriminate|].
  apply res_bind_ok in H. destruct H as ([s1 r] & El & H).
  destruct (sp_load w _ g s1 r Hcells Hgf El) as (-> & -> & HS & g1 & Ex1 & Hh1 & Hgf1 & Hcl1).
  set (S := s_last_saved (ps_sync p)) in *. set (c := s_current (ps_sync p)) in *.
  apply res_bind_ok in H. destruct H as ([p2 o2] & Er & H).
  destruct (negb (s_current (ps_sync p2) =? c)) eqn:Ec; [discriminate|]. injection H as <- <-.
  set (p1 := with_sync p (reset_all (with_current (ps_sync p) S))) in *.
  destruct (sp_resim (Z.to_nat (c - S)) 0 p1 mc (add_req o (RLoad S)) p2 o2 g1 w Er) as (R & g' & A1 & A2 & A3 & A4 & A5 & A6 & A7 & A8 & A9 & _ & _).
  - exact Hsp.
  - exact Hw.
  - subst p1. cbn. lia.
  - subst p1. cbn [with_sync ps_sync reset_all with_queues s_current with_current]. exact Hgf1.
  - subst p1. cbn [with_sync ps_sync]. eapply SparseCells_same; [exact Hcl1|repeat split|reflexivity].
  - subst p1. cbn [with_sync ps_sync reset_all with_queues s_current with_current] in A6, A8.
    cbn [add_req o_requests o_remote_sends o_spec_sends] in A1, A2, A3.
    exists (RLoad S :: R), g'.
    split; [rewrite A1, <- app_assoc; reflexivity|]. split; [exact A2|]. split; [exact A3|].
    split; [cbn [exec]; rewrite Ex1; exact A4|]. split; [rewrite A5, A6; lia|]. split; [lia|]. split; [exact A7|].
    split; [rewrite A8; cbn [with_sync]; reflexivity|].
    intros r0 [<-|Hin].
    + destruct (load_frame_inv _ _ _ _ El) as (_ & _ & X & _). destruct Hcells as (M & _). rewrite M in X. fold c S in X. lia.
    + pose proof (A9 r0 Hin). destruct r0; tauto.
Qed.

(* rollback and save, sparse saving *)
Lemma sp_handle_rollback : forall p cf o p' o' g w,
  handle_rollback_and_save predict p cf o = Ok (p', o') -> ps_sparse p = true -> 0 <= w -> ps_maxpred p = w ->
  0 <= s_current (ps_sync p) -> gframe g = s_current (ps_sync p) -> SparseCells w (ps_sync p) g ->
  exists R g',
    o_requests o' = o_requests o ++ R /\ o_remote_sends o' = o_remote_sends o /\ o_spec_sends o' = o_spec_sends o /\
    exec w g R = Some g' /\ gframe g' = s_current (ps_sync p) /\ s_current (ps_sync p') = s_current (ps_sync p) /\
    SparseCells w (ps_sync p') g' /\ ps_sparse p' = true /\ ps_maxpred p' = w /\ loads_in_window w (s_current (ps_sync p)) R.
Proof.
  intros p cf o p' o' g w H Hsp Hw Hmp Hc Hgf Hcells. unfold handle_rollback_and_save in H.
  set (c := s_current (ps_sync p)) in *.
  apply res_bind_ok in H. destruct H as ([p1 o1] & E1 & H).
  assert (Hrb : exists R1 g1,
     o_requests o1 = o_requests o ++ R1 /\ o_remote_sends o1 = o_remote_sends o /\ o_spec_sends o1 = o_spec_sends o /\
     exec w g R1 = Some g1 /\ gframe g1 = c /\ s_current (ps_sync p1) = c /\ SparseCells w (ps_sync p1) g1 /\
     ps_sparse p1 = true /\ ps_maxpred p1 = w /\ loads_in_window w c R1).
  { destruct (check_simulation_consistency (ps_sync p) (ps_disc_frame p) =? NULL).
    - injection E1 as <- <-. exists [], g. rewrite app_nil_r. cbn [exec].
      split; [reflexivity|]. split; [reflexivity|]. split; [reflexivity|]. split; [reflexivity|].
      split; [exact Hgf|]. split; [reflexivity|]. split; [exact Hcells|]. split; [exact Hsp|]. split; [exact Hmp|intros r []].
    - apply res_bind_ok in E1. destruct E1 as ([p2 o2] & Ea & E1). injection E1 as <- <-.
      destruct (sp_adjust p _ cf o p2 o2 g w Ea Hsp Hw Hc Hgf Hcells) as (R & g' & A1 & A2 & A3 & A4 & A5 & A6 & A7 & A8 & A9).
      exists R, g'. cbn [with_disc_frame ps_sync ps_sparse ps_maxpred].
      split; [exact A1|]. split; [exact A2|]. split; [exact A3|]. split; [exact A4|]. split; [exact A5|]. split; [exact A6|].
      split; [exact A7|]. rewrite A8. cbn [with_sync ps_sparse ps_maxpred]. split; [exact Hsp|]. split; [exact Hmp|exact A9]. }
  destruct Hrb as (R1 & g1 & B1 & B2 & B3 & B4 & B5 & B6 & B7 & B8 & B9 & B10).
  rewrite B8 in H. unfold check_last_saved_state in H. rewrite B6, B9 in H.
  destruct (c - s_last_saved (ps_sync p1) <? w).
  - injection H as <- <-. exists R1, g1. split; [exact B1|]. split; [exact B2|]. split; [exact B3|]. split; [exact B4|]. split; [exact B5|]. split; [exact B6|]. split; [exact B7|]. split; [exact B8|]. split; [exact B9|exact B10].
  - apply res_bind_ok in H. destruct H as ([p3 o3] & E3 & H).
    destruct (negb _); [discriminate|]. injection H as <- <-.
    destruct (c <=? cf).
    + apply res_bind_ok in E3. destruct E3 as ([s2 r] & Es & E3). injection E3 as <- <-.
      destruct (sp_save w _ g1 s2 r B7 Hw ltac:(lia) Es) as (-> & g2 & Ex & Hh & Hcl & Hcc & _ & _ & _).
      exists (R1 ++ [RSave (s_current (ps_sync p1))]), g2. cbn [add_req o_requests o_remote_sends o_spec_sends with_sync ps_sync ps_sparse ps_maxpred].
      split; [rewrite B1, app_assoc; reflexivity|]. split; [exact B2|]. split; [exact B3|].
      split; [rewrite exec_app, B4; cbn [exec]; rewrite Ex; reflexivity|].
      split; [unfold gframe in *; rewrite Hh; exact B5|]. split; [lia|]. split; [exact Hcl|]. split; [exact B8|]. split; [exact B9|].
      intros r0 Hin. apply in_app_or in Hin. destruct Hin as [Hin|[<-|[]]]; [apply B10; exact Hin|exact I].
    + destruct (sp_adjust p1 _ cf o1 p3 o3 g1 w E3 B8 Hw ltac:(lia) ltac:(lia) B7) as (R & g' & A1 & A2 & A3 & A4 & A5 & A6 & A7 & A8 & A9).
      rewrite B6 in *.
      exists (R1 ++ R), g'.
      split; [rewrite A1, B1, app_assoc; reflexivity|]. split; [congruence|]. split; [congruence|].
      split; [rewrite exec_app, B4; exact A4|]. split; [exact A5|]. split; [exact A6|]. split; [exact A7|].
      rewrite A8. cbn [with_sync ps_sparse ps_maxpred]. split; [exact B8|]. split; [exact B9|].
      intros r0 Hin. apply in_app_or in Hin. destruct Hin as [Hin|Hin]; [apply B10; exact Hin|apply A9; exact Hin].
Qed.


Lemma JS_frame : forall w p p' g, JS w p g -> p_frame p p' -> JS w p' g.
Proof.
  intros w p p' g [A B C D E F] (F1 & F2 & ((F3 & F4 & F5) & F6)).
  constructor; try congruence; try lia.
  eapply SparseCells_same; [exact F|repeat split; assumption|exact F6].
Qed.

(* advance_rollback_frame, sparse saving *)
Lemma sp_advance_rollback : forall p o p' o' g w,
  advance_rollback_frame predict p o = Ok (p', o') -> JS w p g ->
  exists R g', o_requests o' = o_requests o ++ R /\ exec w g R = Some g' /\ JS w p' g' /\
    (s_current (ps_sync p') = s_current (ps_sync p) \/ s_current (ps_sync p') = s_current (ps_sync p) + 1) /\
    loads_in_window w (s_current (ps_sync p)) R.
Proof.
  intros p o p' o' g w H [Jw Jmp Jsp Jfr Jcur Jcells]. unfold advance_rollback_frame in H.
  set (c := s_current (ps_sync p)) in *.
  apply res_bind_ok in H. destruct H as (cf & Ecf & H).
  apply res_bind_ok in H. destruct H as ([p1 o1] & E1 & H).
  destruct (sp_handle_rollback p cf o p1 o1 g w E1 Jsp ltac:(lia) Jmp Jcur Jfr Jcells)
    as (R1 & g1 & A1 & A2 & A3 & A4 & A5 & A6 & A7 & A8 & A9 & A10). fold c in A5, A6, A10.
  apply res_bind_ok in H. destruct H as ([p2 o2] & E2 & H).
  destruct (send_spectators_frame _ _ _ _ _ E2) as ((F2a & F2b & F2c) & S2 & R2).
  apply res_bind_ok in H. destruct H as (s3 & E3 & H).
  pose proof (set_last_confirmed_frame_frame _ _ _ _ E3) as F3.
  apply res_bind_ok in H. destruct H as ([p4 o4] & E4 & H).
  destruct (register_local_inputs_frame _ _ _ _ E4) as ((F4a & F4b & F4c) & R4 & _).
  cbn [with_sync ps_sparse ps_maxpred ps_sync] in F4a, F4b, F4c.
  assert (Hfr : sync_frame (ps_sync p1) (ps_sync p4)).
  { eapply sync_frame_trans; [|exact F4c]. rewrite <- S2. exact F3. }
  destruct Hfr as [Hcs4 Hcur4].
  assert (Hcells4 : SparseCells w (ps_sync p4) g1) by (eapply SparseCells_same; [exact A7|exact Hcs4|exact Hcur4]).
  assert (Hc4 : s_current (ps_sync p4) = c) by congruence.
  assert (Hsp4 : ps_sparse p4 = true) by congruence.
  assert (Hmpp4 : ps_maxpred p4 = w) by congruence.
  match type of H with (if ?b then _ else _) = _ => destruct b end.
  - apply res_bind_ok in H. destruct H as ([s5 ins] & E5 & H). injection H as <- <-.
    destruct (synchronized_inputs_sync _ _ _ _ _ E5) as (Hcs5 & Hc5 & _ & _).
    set (g2 := mkg (g_hist g1 ++ [ins]) (g_cells g1)).
    exists (R1 ++ [RAdvance ins]), g2.
    cbn [add_req o_requests with_pending with_sync ps_sync ps_sparse ps_maxpred advance_frame with_current s_current].
    split; [rewrite R4, R2, A1, app_assoc; reflexivity|].
    split; [rewrite exec_app, A4; reflexivity|].
    split.
    { constructor; cbn [with_pending with_sync ps_sync ps_sparse ps_maxpred advance_frame with_current s_current]; try assumption.
      - unfold gframe, g2. cbn [g_hist]. rewrite app_length. cbn [length]. unfold gframe in A5. lia.
      - lia.
      - apply (sp_advance w s5 g1 ins); [eapply SparseCells_same; [exact Hcells4|exact Hcs5|exact Hc5]|lia]. }
    split; [right; lia|].
    intros r0 Hin. apply in_app_or in Hin. destruct Hin as [Hin|[<-|[]]]; [apply A10; exact Hin|exact I].
  - injection H as <- <-. exists R1, g1.
    split; [rewrite R4, R2, A1; reflexivity|]. split; [exact A4|].
    split; [constructor; try assumption; lia|]. split; [left; exact Hc4|exact A10].
Qed.

(* one advance_frame call, sparse saving *)
Lemma sp_advance_exec : forall p p' o r g w,
  advance predict p = Ok (p', o, r) -> JS w p g ->
  exists g', exec w g (o_requests o) = Some g' /\ JS w p' g' /\
    (s_current (ps_sync p') = s_current (ps_sync p) \/ s_current (ps_sync p') = s_current (ps_sync p) + 1) /\
    loads_in_window w (s_current (ps_sync p)) (o_requests o).
Proof.
  intros p p' o r g w H J. pose proof J as [Jw Jmp Jsp Jfr Jcur Jcells]. unfold advance in H.
  destruct (negb (ps_running p)).
  { injection H as <- <- <-. exists g. split; [reflexivity|]. split; [exact J|]. split; [left; reflexivity|intros r0 []]. }
  destruct (negb (forallb _ _)).
  { injection H as <- <- <-. exists g. split; [reflexivity|]. split; [exact J|]. split; [left; reflexivity|intros r0 []]. }
  assert ((ps_maxpred p =? 0) = false) as Hm0 by lia. rewrite Hm0 in H. cbn [negb] in H.
  apply res_bind_ok in H. destruct H as ([p1 o1] & E1 & H).
  assert (Hfirst : exists R0 g0, o_requests o1 = R0 /\ exec w g R0 = Some g0 /\ JS w p1 g0 /\
            s_current (ps_sync p1) = s_current (ps_sync p) /\ (forall r0, In r0 R0 -> match r0 with RLoad _ => False | _ => True end)).
  { destruct ((s_current (ps_sync p) =? 0) && true).
    - apply res_bind_ok in E1. destruct E1 as ([s1 r1] & Es & E1). injection E1 as <- <-.
      destruct (sp_save w _ g s1 r1 Jcells ltac:(lia) Jfr Es) as (-> & g0 & Ex & Hh & Hcl & Hcc & _ & _ & _).
      exists [RSave (s_current (ps_sync p))], g0. cbn [add_req out0 o_requests app exec]. rewrite Ex.
      split; [reflexivity|]. split; [reflexivity|].
      split; [constructor; cbn [with_sync ps_sync ps_sparse ps_maxpred]; try assumption; [unfold gframe in *; rewrite Hh; lia|lia]|].
      split; [exact Hcc|]. intros r0 [<-|[]]. exact I.
    - injection E1 as <- <-. exists [], g. cbn [out0 o_requests exec]. split; [reflexivity|]. split; [reflexivity|]. split; [exact J|]. split; [reflexivity|intros r0 []]. }
  destruct Hfirst as (R0 & g0 & Ho1 & Ex0 & J1 & Hc1 & Hnl0).
  apply res_bind_ok in H. destruct H as (p2 & E2 & H).
  destruct (update_player_disconnects_frame _ _ E2) as (F2 & S2).
  pose proof (JS_frame w p1 p2 g0 J1 F2) as J2.
  apply res_bind_ok in H. destruct H as ([p3 o3] & E3 & H). injection H as <- <- <-.
  destruct (sp_advance_rollback p2 o1 p3 o3 g0 w E3 J2) as (R & g' & A1 & A2 & A3 & A4 & A5).
  assert (Hc2 : s_current (ps_sync p2) = s_current (ps_sync p)) by (rewrite S2; exact Hc1).
  rewrite Hc2 in A4, A5.
  exists g'. split; [rewrite A1, Ho1, exec_app, Ex0; exact A2|]. split; [exact A3|]. split; [exact A4|].
  rewrite A1, Ho1. intros r0 Hin. apply in_app_or in Hin. destruct Hin as [Hin|Hin]; [pose proof (Hnl0 r0 Hin); destruct r0; tauto|apply A5; exact Hin].
Qed.

(* every operation *)
Lemma sp_sstep_exec : forall p op sr g w,
  sstep predict p op = Ok sr -> JS w p g ->
  exists g', exec w g (o_requests (sr_out sr)) = Some g' /\ JS w (sr_state sr) g' /\
    (s_current (ps_sync (sr_state sr)) = s_current (ps_sync p) \/
     (op = SAdvance /\ s_current (ps_sync (sr_state sr)) = s_current (ps_sync p) + 1)) /\
    loads_in_window w (s_current (ps_sync p)) (o_requests (sr_out sr)).
Proof.
  intros p op sr g w H J.
  destruct op as [h v|pl f v|ep st|hs|h|h d|]; cbn [sstep] in H.
  - destruct (api_add_local_input p h v) as [p' r] eqn:E. injection H as <-. cbn [sr_out sr_state out0 o_requests exec].
    assert (F : p_frame p p').
    { unfold api_add_local_input in E. destruct (kind_at p h) as [[| |]|]; injection E as <- _; repeat split. }
    exists g. split; [reflexivity|]. split; [eapply JS_frame; eassumption|].
    split; [left; destruct F as (_ & _ & (_ & X)); exact X|intros r0 []].
  - apply res_bind_ok in H. destruct H as (p' & E & H). injection H as <-. cbn [sr_out sr_state out0 o_requests exec].
    pose proof (ev_input_frame _ _ _ _ _ E) as F.
    exists g. split; [reflexivity|]. split; [eapply JS_frame; eassumption|].
    split; [left; destruct F as (_ & _ & (_ & X)); exact X|intros r0 []].
  - injection H as <-. cbn [sr_out sr_state out0 o_requests exec].
    assert (F : p_frame p (gossip p ep st)).
    { unfold gossip. destruct (nth_error _ _); repeat split. }
    exists g. split; [reflexivity|]. split; [eapply JS_frame; eassumption|].
    split; [left; destruct F as (_ & _ & (_ & X)); exact X|intros r0 []].
  - apply res_bind_ok in H. destruct H as (p' & E & H). injection H as <-. cbn [sr_out sr_state out0 o_requests exec].
    pose proof (ev_disconnected_frame _ _ _ E) as F.
    exists g. split; [reflexivity|]. split; [eapply JS_frame; eassumption|].
    split; [left; destruct F as (_ & _ & (_ & X)); exact X|intros r0 []].
  - apply res_bind_ok in H. destruct H as ([p' r] & E & H). injection H as <-. cbn [sr_out sr_state out0 o_requests exec].
    pose proof (api_disconnect_frame _ _ _ _ E) as F.
    exists g. split; [reflexivity|]. split; [eapply JS_frame; eassumption|].
    split; [left; destruct F as (_ & _ & (_ & X)); exact X|intros r0 []].
  - apply res_bind_ok in H. destruct H as ([[p' o] r] & E & H). injection H as <-. cbn [sr_out sr_state].
    destruct (api_set_input_delay_frame _ _ _ _ _ _ E) as [F R]. rewrite R. cbn [exec].
    exists g. split; [reflexivity|]. split; [eapply JS_frame; eassumption|].
    split; [left; destruct F as (_ & _ & (_ & X)); exact X|intros r0 []].
  - apply res_bind_ok in H. destruct H as ([[p' o] r] & E & H). injection H as <-. cbn [sr_out sr_state].
    destruct (sp_advance_exec _ _ _ _ _ _ E J) as (g' & A1 & A2 & A3 & A4).
    exists g'. split; [exact A1|]. split; [exact A2|].
    split; [destruct A3 as [A3|A3]; [left; exact A3|right; split; [reflexivity|exact A3]]|exact A4].
Qed.

Theorem sp_requests_executable : forall ops p0 g0 w p outs,
  JS w p0 g0 -> srun predict p0 ops = Ok (p, outs) ->
  exists g, exec_outs w g0 outs = Some g /\ JS w p g.
Proof.
  induction ops as [|op ops IH]; intros p0 g0 w p outs J H; cbn [srun] in H.
  - injection H as <- <-. exists g0. split; [reflexivity|exact J].
  - apply res_bind_ok in H. destruct H as (sr & Es & H).
    apply res_bind_ok in H. destruct H as ([p1 outs1] & Er & H). injection H as <- <-.
    destruct (sp_sstep_exec _ _ _ _ _ Es J) as (g1 & Ex & J1 & _).
    destruct (IH _ _ _ _ _ J1 Er) as (g & Ex' & J').
    exists g. cbn [exec_outs]. rewrite Ex. split; [exact Ex'|exact J'].
Qed.

End SparseExec.

Lemma JS_start : forall n w d kinds eps nspec, 1 <= w ->
  JS w (session_start n w true d kinds eps nspec) (game0 w).
Proof.
  intros n w d kinds eps nspec Hw.
  assert (Hs : ((w =? 0) && true) = false) by lia.
  constructor; unfold session_start, p2p_new, sync_new, game0, gframe;
    cbn [with_running ps_maxpred ps_sync ps_sparse with_queues s_current s_maxpred s_cells s_last_saved g_hist g_cells length Z.of_nat];
    rewrite ?Hs; try reflexivity; try lia.
  unfold SparseCells. cbn [with_queues s_maxpred s_cells s_last_saved g_cells]. rewrite !repeat_length.
  split; [reflexivity|]. split; [lia|]. split; [lia|]. left. reflexivity.
Qed.
