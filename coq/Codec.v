(* Model of src/network/compression.rs: XOR delta against a reference + u16 length prefixes,
   then bitfield-rle; decode with the validating pre-pass. *)
From GGRS Require Import Base Varint Rle Consts.
Open Scope N_scope.

Fixpoint xor_zip (base inp : list N) : list N :=
  match base, inp with
  | b :: bs, i :: is_ => N.lxor b i :: xor_zip bs is_
  | [], is_ => is_           (* input longer than base: remainder as is *)
  | _, [] => []
  end.

(* `(input.len() as u16).to_le_bytes()` *)
Definition len_prefix (n : nat) : list N :=
  let l := N.of_nat n mod 65536 in [l mod 256; l / 256].

Fixpoint delta_encode (base : list N) (ins : list (list N)) : list N :=
  match ins with
  | [] => []
  | i :: rest => len_prefix (length i) ++ xor_zip base i ++ delta_encode i rest
  end.

Definition encode (ref : list N) (ins : list (list N)) : list N :=
  rle_encode (delta_encode ref ins).

(* [left] = how many more inputs may be produced (MAX_DECODED_INPUTS in the repaired code;
   the unrepaired code had no such limit) *)
Fixpoint delta_decode (fuel : nat) (left : N) (base : list N) (data : list N) : option (list (list N)) :=
  match fuel with
  | O => match data with [] => Some [] | _ => None end
  | S k =>
    match data with
    | [] => Some []
    | [_] => None                          (* truncated length prefix *)
    | lo :: hi :: rest =>
      let l := N.to_nat (lo + 256 * hi) in
      if (length rest <? l)%nat then None   (* truncated input data *)
      else if left =? 0 then None           (* too many inputs *)
      else
        let dec := xor_zip base (firstn l rest) in
        match delta_decode k (left - 1) dec (skipn l rest) with
        | None => None
        | Some t => Some (dec :: t)
        end
    end
  end.

(* MAX_DECODED_LEN and MAX_DECODED_INPUTS are generated from the source (Consts.v) *)
Definition decode (dbg : bool) (ref data : list N) : res (list (list N)) :=
  if validate MAX_DECODED_LEN data then
    match rleF dbg data with
    | Ok buf => match delta_decode (length buf) MAX_DECODED_INPUTS ref buf with Some r => Ok r | None => Err end
    | Err => Err
    | Panic => Panic
    end
  else Err.

(* the decoder as it was before the repair (kept for the refutation witness) *)
Definition decode_unvalidated (dbg : bool) (ref data : list N) : res (list (list N)) :=
  match rleF dbg data with
  | Ok buf => match delta_decode (length buf) U64 ref buf with Some r => Ok r | None => Err end
  | Err => Err
  | Panic => Panic
  end.
