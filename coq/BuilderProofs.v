(* Proofs about the SessionBuilder model: the model accepts exactly the call sequences the reference
   predicate of BuilderSpec.v allows, fails at the first call the predicate rejects, never reaches
   the assertion in P2PSession::new, and accepted P2P configurations have the documented shape. *)
From GGRS Require Import Base Consts Builder BuilderSpec.
From Coq Require Import ZifyBool Permutation Sorted FinFun.
Open Scope Z_scope.

Ltac bsimpl :=
  cbn [b_num_players b_local_players b_max_prediction b_fps b_sparse b_desync b_disconnect_timeout
       b_notify b_handles b_input_delay b_check_dist b_max_frames_behind b_catchup_speed
       set_num_players set_players set_max_prediction set_fps set_sparse set_desync
       set_disconnect_timeout set_notify set_input_delay set_check_dist set_max_frames_behind
       set_catchup_speed new_builder fst snd] in *.

(* ---------- settings in force ---------- *)

Lemma last_set_snoc : forall (A : Type) (sel : call -> option A) cs d c,
  last_set sel d (cs ++ [c]) = match sel c with Some v => v | None => last_set sel d cs end.
Proof.
  intros A sel cs. induction cs as [|x r IH]; intros d c; cbn [app last_set].
  - destruct (sel c); reflexivity.
  - apply IH.
Qed.

(* ---------- the invariant: the model state is what the documentation says the calls so far set ---------- *)

Record repr (pre : list call) (b : builder) : Prop := mkRepr {
  r_np : b_num_players b = np_of pre;
  r_np_pos : 1 <= b_num_players b;
  r_handles : forall h t, In (h, t) (b_handles b) <-> In (CAddPlayer t h) pre;
  r_nodup : NoDup (map fst (b_handles b));
  r_hok : forall h t, In (h, t) (b_handles b) -> handle_ok t h (b_num_players b);
  r_win : b_max_prediction b = window_of pre;
  r_cd : b_check_dist b = check_dist_of pre;
  r_sparse : b_sparse b = sparse_of pre;
  r_desync : b_desync b = desync_of pre;
  r_delay : b_input_delay b = delay_of pre }.

Lemma repr_new : 1 <= DEFAULT_PLAYERS -> repr [] new_builder.
Proof.
  intro Hd. constructor; bsimpl; try reflexivity; try assumption.
  - constructor.
  - intros h t [].
Qed.

Lemma contains_key_spec : forall h hs,
  contains_key h hs = true <-> exists t, In (h, t) hs.
Proof.
  intros h hs. unfold contains_key. rewrite existsb_exists. split.
  - intros [[h' t] [Hin Heq]]. cbn [fst] in Heq. assert (h' = h) by lia. subst. exists t; assumption.
  - intros [t Hin]. exists (h, t). split; [assumption | cbn [fst]; lia].
Qed.

Lemma validate_spec : forall t h np, 0 <= h ->
  (validate_player_handle t h np = true <-> handle_ok t h np).
Proof. intros t h np Hh. destruct t; cbn [validate_player_handle handle_ok]; lia. Qed.

Lemma in_add_snoc_other : forall pre c t h,
  (forall t' h', c <> CAddPlayer t' h') ->
  (In (CAddPlayer t h) (pre ++ [c]) <-> In (CAddPlayer t h) pre).
Proof.
  intros pre c t h Hne. rewrite in_app_iff. split.
  - intros [H | [H | []]]; [assumption | exfalso; eapply Hne; exact H].
  - intro H; left; assumption.
Qed.

Ltac unfold_settings :=
  unfold np_of, window_of, check_dist_of, sparse_of, desync_of, delay_of.

(* a call that only changes a scalar setting other than num_players *)
Ltac setting_case Hr :=
  left; eexists; split; [reflexivity | split; [exact I |]];
  destruct Hr; constructor; bsimpl;
  try (unfold_settings; rewrite last_set_snoc; cbn beta iota; unfold_settings; solve [assumption | reflexivity | congruence]);
  try assumption;
  try (intros h0 t0; rewrite in_add_snoc_other by (intros; discriminate); auto).

Lemma step_spec : forall pre b c, repr pre b -> usize_call c ->
  (exists b', apply_call b c = Ok b' /\ call_ok pre c /\ repr (pre ++ [c]) b') \/
  (apply_call b c = Err /\ ~ call_ok pre c).
Proof.
  intros pre b c Hr Hu.
  destruct c; cbn [apply_call usize_call call_ok] in *;
    unfold with_max_prediction_window, with_input_delay, with_sparse_saving_mode,
           with_desync_detection_mode, with_disconnect_timeout, with_disconnect_notify_delay,
           with_check_distance.
  - (* add_player *)
    unfold add_player.
    destruct (contains_key h (b_handles b)) eqn:Hck.
    + right. split; [reflexivity|]. intros [_ Hfresh]. apply Hfresh.
      apply contains_key_spec in Hck. destruct Hck as [t' Hin]. exists t'. apply (r_handles _ _ Hr). assumption.
    + destruct (validate_player_handle t h (b_num_players b)) eqn:Hv; cbn [negb].
      * left. eexists. split; [reflexivity|].
        apply validate_spec in Hv; [|assumption].
        assert (Hfresh : ~ exists t', In (CAddPlayer t' h) pre).
        { intros [t' Hin]. apply (r_handles _ _ Hr) in Hin.
          assert (contains_key h (b_handles b) = true) by (apply contains_key_spec; exists t'; assumption).
          congruence. }
        split; [split; [rewrite <- (r_np _ _ Hr); assumption | assumption]|].
        destruct Hr. constructor; bsimpl;
          try (unfold_settings; rewrite last_set_snoc; cbn beta iota; unfold_settings; assumption);
          try assumption.
        -- intros h0 t0. rewrite !in_app_iff. rewrite r_handles0. cbn [In]. split.
           ++ intros [H | [H | []]]; [left; assumption | right; left; inversion H; reflexivity].
           ++ intros [H | [H | []]]; [left; assumption | right; left; inversion H; reflexivity].
        -- rewrite map_app. cbn [map fst].
           assert (Hnotin : ~ In h (map fst (b_handles b))).
           { intro Hin. apply in_map_iff in Hin. destruct Hin as [[h' t'] [Heq Hin]]. cbn [fst] in Heq. subst h'.
             apply Hfresh. exists t'. apply r_handles0. assumption. }
           clear - r_nodup0 Hnotin. induction (map fst (b_handles b)) as [|x l IH]; cbn [app].
           ++ constructor; [intros [] | constructor].
           ++ inversion r_nodup0; subst. constructor.
              ** rewrite in_app_iff. intros [H | [H | []]]; [contradiction | subst; apply Hnotin; left; reflexivity].
              ** apply IH; [assumption | intro; apply Hnotin; right; assumption].
        -- intros h0 t0. rewrite in_app_iff. intros [H | [H | []]]; [auto | inversion H; subst; assumption].
      * right. split; [reflexivity|]. intros [Hok _]. rewrite <- (r_np _ _ Hr) in Hok.
        apply validate_spec in Hok; [congruence | assumption].
  - (* with_num_players *)
    unfold with_num_players.
    destruct (n =? 0) eqn:Hn0.
    + right. split; [reflexivity|]. intros [H _]. lia.
    + destruct (forallb (fun p => validate_player_handle (snd p) (fst p) n) (b_handles b)) eqn:Hall.
      * left. eexists. split; [reflexivity|].
        rewrite forallb_forall in Hall.
        assert (Hhok : forall h t, In (h, t) (b_handles b) -> handle_ok t h n).
        { intros h t Hin. pose proof (Hall _ Hin) as Hv. cbn [fst snd] in Hv.
          pose proof (r_hok _ _ Hr _ _ Hin) as Hold.
          apply validate_spec; [|assumption].
          pose proof (r_np_pos _ _ Hr). destruct t; cbn [handle_ok] in Hold; lia. }
        split; [split; [lia | intros t h Hin; apply Hhok; apply (r_handles _ _ Hr); assumption]|].
        destruct Hr. constructor; bsimpl;
          try (unfold_settings; rewrite last_set_snoc; cbn beta iota; unfold_settings; solve [assumption | reflexivity]);
          try assumption; try lia.
        intros h0 t0; rewrite in_add_snoc_other by (intros; discriminate); auto.
      * right. split; [reflexivity|]. intros [_ Hreval].
        assert (forallb (fun p => validate_player_handle (snd p) (fst p) n) (b_handles b) = true); [|congruence].
        apply forallb_forall. intros [h t] Hin. cbn [fst snd].
        pose proof (r_hok _ _ Hr _ _ Hin) as Hold. pose proof (r_np_pos _ _ Hr).
        apply validate_spec; [destruct t; cbn [handle_ok] in Hold; lia|].
        apply Hreval. apply (r_handles _ _ Hr). assumption.
  - setting_case Hr.
  - setting_case Hr.
  - setting_case Hr.
  - setting_case Hr.
  - setting_case Hr.
  - setting_case Hr.
  - (* with_fps *)
    unfold with_fps. destruct (f =? 0) eqn:Hf.
    + right. split; [reflexivity | lia].
    + left. eexists. split; [reflexivity | split; [lia|]].
      destruct Hr; constructor; bsimpl;
        try (unfold_settings; rewrite last_set_snoc; cbn beta iota; unfold_settings; solve [assumption | reflexivity]);
        try assumption.
      intros h0 t0; rewrite in_add_snoc_other by (intros; discriminate); auto.
  - setting_case Hr.
  - (* with_max_frames_behind *)
    unfold with_max_frames_behind. destruct (m <? 1) eqn:H1.
    + right. split; [reflexivity | lia].
    + destruct (SPECTATOR_BUFFER_SIZE <=? m) eqn:H2.
      * right. split; [reflexivity | lia].
      * left. eexists. split; [reflexivity | split; [lia|]].
        destruct Hr; constructor; bsimpl;
          try (unfold_settings; rewrite last_set_snoc; cbn beta iota; unfold_settings; solve [assumption | reflexivity]);
          try assumption.
        intros h0 t0; rewrite in_add_snoc_other by (intros; discriminate); auto.
  - (* with_catchup_speed *)
    unfold with_catchup_speed. destruct (s <? 1) eqn:H1.
    + right. split; [reflexivity | lia].
    + left. eexists. split; [reflexivity | split; [lia|]].
      destruct Hr; constructor; bsimpl;
        try (unfold_settings; rewrite last_set_snoc; cbn beta iota; unfold_settings; solve [assumption | reflexivity]);
        try assumption.
      intros h0 t0; rewrite in_add_snoc_other by (intros; discriminate); auto.
Qed.

(* ---------- finishers ---------- *)

Lemma in_zrange : forall n h, In h (zrange n) <-> 0 <= h < n.
Proof.
  intros n h. unfold zrange. rewrite in_map_iff. split.
  - intros [k [Hk Hin]]. apply in_seq in Hin. lia.
  - intro H. exists (Z.to_nat h). split; [lia | apply in_seq; lia].
Qed.

Lemma registered_spec : forall pre b, repr pre b ->
  (forallb (fun h => contains_key h (b_handles b)) (zrange (b_num_players b)) = true <->
   forall h, 0 <= h < np_of pre -> exists t, In (CAddPlayer t h) pre).
Proof.
  intros pre b Hr. rewrite forallb_forall. rewrite <- (r_np _ _ Hr). split.
  - intros H h Hh. apply in_zrange in Hh. apply H in Hh. apply contains_key_spec in Hh.
    destruct Hh as [t Hin]. exists t. apply (r_handles _ _ Hr). assumption.
  - intros H h Hh. apply in_zrange in Hh. destruct (H h Hh) as [t Hin].
    apply contains_key_spec. exists t. apply (r_handles _ _ Hr). assumption.
Qed.

Lemma no_local_assert : forall pre b, repr pre b ->
  forallb (fun p => if is_local (snd p) then fst p <? b_num_players b else true) (b_handles b) = true.
Proof.
  intros pre b Hr. apply forallb_forall. intros [h t] Hin. cbn [fst snd].
  pose proof (r_hok _ _ Hr _ _ Hin) as Hok. destruct t; cbn [is_local handle_ok] in *; [lia | reflexivity | reflexivity].
Qed.

Lemma finish_spec : forall pre b f, repr pre b ->
  (exists s, finish b f = Ok s /\ fin_ok pre f) \/ (finish b f = Err /\ ~ fin_ok pre f).
Proof.
  intros pre b f Hr. destruct f; cbn [finish fin_ok].
  - unfold start_p2p_session.
    pose proof (r_desync _ _ Hr) as Hd.
    destruct (match b_desync b with Some i => i =? 0 | None => false end) eqn:Hd0.
    + right. split; [reflexivity|]. intros [_ Hne]. apply Hne. rewrite <- Hd.
      destruct (b_desync b); [f_equal; lia | discriminate].
    + pose proof (registered_spec _ _ Hr) as Hreg.
      destruct (forallb (fun h => contains_key h (b_handles b)) (zrange (b_num_players b))) eqn:Hall; cbn [negb].
      * rewrite (no_local_assert _ _ Hr). cbn [negb]. left. eexists. split; [reflexivity|].
        split; [apply Hreg; reflexivity|]. rewrite <- Hd. destruct (b_desync b); [intro H; inversion H; lia | discriminate].
      * right. split; [reflexivity|]. intros [Hall' _]. apply Hreg in Hall'. discriminate.
  - left. eexists. split; [reflexivity | exact I].
  - unfold start_synctest_session. rewrite <- (r_cd _ _ Hr), <- (r_win _ _ Hr), <- (r_sparse _ _ Hr).
    destruct (b_max_prediction b <=? b_check_dist b) eqn:H1.
    + right. split; [reflexivity | lia].
    + destruct (b_sparse b) eqn:H2.
      * right. split; [reflexivity|]. intros [_ H]; discriminate.
      * left. eexists. split; [reflexivity|]. split; [lia | reflexivity].
Qed.

(* ---------- the run ---------- *)

Lemma calls_ok_nil : calls_ok [].
Proof. intros pre c post H. destruct pre; discriminate. Qed.

Lemma snoc_cases : forall (A : Type) (l : list A), l = [] \/ exists l' y, l = l' ++ [y].
Proof. intros A l. induction l using rev_ind; [left; reflexivity | right; eauto]. Qed.

Lemma calls_ok_snoc : forall pre c, calls_ok pre -> call_ok pre c -> calls_ok (pre ++ [c]).
Proof.
  intros pre c Hok Hc p x q Heq.
  destruct (snoc_cases _ q) as [-> | [q' [y ->]]].
  - apply app_inj_tail in Heq. destruct Heq; subst. assumption.
  - replace (p ++ x :: q' ++ [y]) with ((p ++ x :: q') ++ [y]) in Heq
      by (rewrite <- app_assoc; reflexivity).
    apply app_inj_tail in Heq. destruct Heq as [Heq _]. eapply Hok. exact Heq.
Qed.

Lemma first_invalid_not_valid : forall cs f n, first_invalid cs f n -> ~ valid_calls cs f.
Proof.
  intros cs f n [Hle [_ Hbad]] [Hok Hfin].
  destruct (nth_error cs n) as [c|] eqn:Hn.
  - apply nth_error_split in Hn. destruct Hn as [l1 [l2 [Heq Hlen]]].
    assert (firstn n cs = l1).
    { subst cs n. rewrite firstn_app, Nat.sub_diag, firstn_all. cbn [firstn]. apply app_nil_r. }
    rewrite H in Hbad. apply Hbad. eapply Hok. exact Heq.
  - contradiction.
Qed.

Lemma run_from_spec : forall cs pre b f,
  repr pre b -> calls_ok pre -> Forall usize_call cs ->
  (exists b' s, run_from b (length pre) cs f = (length (pre ++ cs), Ok s) /\
                repr (pre ++ cs) b' /\ finish b' f = Ok s /\ valid_calls (pre ++ cs) f) \/
  (exists n, run_from b (length pre) cs f = (n, Err) /\ first_invalid (pre ++ cs) f n).
Proof.
  induction cs as [|c rest IH]; intros pre b f Hr Hok Hu.
  - rewrite app_nil_r. cbn [run_from].
    destruct (finish_spec pre b f Hr) as [[s [Hf Hfin]] | [Hf Hnf]].
    + left. exists b, s. rewrite Hf.
      split; [reflexivity | split; [assumption | split; [reflexivity | split; assumption]]].
    + right. exists (length pre). rewrite Hf. split; [reflexivity|].
      unfold first_invalid. rewrite firstn_all. split; [lia|]. split; [assumption|].
      assert (Hn : nth_error pre (length pre) = None) by (apply nth_error_None; lia).
      rewrite Hn. assumption.
  - inversion Hu as [|? ? Hc Hrest]; subst. cbn [run_from].
    destruct (step_spec pre b c Hr Hc) as [[b' [Ha [Hcok Hr']]] | [Ha Hnc]]; rewrite Ha.
    + specialize (IH (pre ++ [c]) b' f Hr' (calls_ok_snoc _ _ Hok Hcok) Hrest).
      rewrite app_length in IH. cbn [length] in IH. rewrite Nat.add_1_r in IH.
      rewrite <- app_assoc in IH. cbn [app] in IH. exact IH.
    + right. exists (length pre). split; [reflexivity|].
      unfold first_invalid. rewrite firstn_app, Nat.sub_diag, firstn_all. cbn [firstn]. rewrite app_nil_r.
      split; [rewrite app_length; lia|]. split; [assumption|].
      rewrite nth_error_app2, Nat.sub_diag by lia. cbn [nth_error]. assumption.
Qed.

Lemma run_calls_cases : 1 <= DEFAULT_PLAYERS -> forall cs f, Forall usize_call cs ->
  (exists b s, run_calls cs f = (length cs, Ok s) /\ repr cs b /\ finish b f = Ok s /\ valid_calls cs f) \/
  (exists n, run_calls cs f = (n, Err) /\ first_invalid cs f n).
Proof.
  intros Hd cs f Hu. exact (run_from_spec cs [] new_builder f (repr_new Hd) calls_ok_nil Hu).
Qed.

(* C16_builder_spec *)
Theorem builder_spec : 1 <= DEFAULT_PLAYERS -> forall cs f, Forall usize_call cs ->
  snd (run_calls cs f) <> Panic /\
  ((exists s, snd (run_calls cs f) = Ok s) <-> valid_calls cs f) /\
  ((exists s, snd (run_calls cs f) = Ok s) -> fst (run_calls cs f) = length cs) /\
  (snd (run_calls cs f) = Err <-> ~ valid_calls cs f) /\
  (snd (run_calls cs f) = Err -> first_invalid cs f (fst (run_calls cs f))).
Proof.
  intros Hd cs f Hu.
  destruct (run_calls_cases Hd cs f Hu) as [[b [s [Hrun [_ [_ Hv]]]]] | [n [Hrun Hfi]]]; rewrite Hrun; cbn [fst snd].
  - split; [discriminate|]. split; [split; [intros; assumption | intros; exists s; reflexivity]|].
    split; [reflexivity|]. split; [split; [discriminate | intro H; contradiction] | discriminate].
  - pose proof (first_invalid_not_valid _ _ _ Hfi) as Hnv.
    split; [discriminate|]. split; [split; [intros [s H]; discriminate | intro; contradiction]|].
    split; [intros [s H]; discriminate|]. split; [split; intros; [assumption | reflexivity] | intros; assumption].
Qed.

(* the index of the first rejected call is unique, so "the reported index" is determined by the predicate *)
Lemma first_invalid_unique : forall cs f n m, first_invalid cs f n -> first_invalid cs f m -> n = m.
Proof.
  assert (Hlt : forall cs f n m, (n < m)%nat -> first_invalid cs f n -> first_invalid cs f m -> False).
  { intros cs f n m Hnm [Hn1 [_ Hn3]] [Hm1 [Hm2 _]].
    destruct (nth_error cs n) as [c|] eqn:Hc.
    - apply nth_error_split in Hc. destruct Hc as [l1 [l2 [Heq Hlen]]].
      assert (Hf : firstn n cs = l1).
      { subst cs n. rewrite firstn_app, Nat.sub_diag, firstn_all. cbn [firstn]. apply app_nil_r. }
      rewrite Hf in Hn3. apply Hn3.
      assert (Hm : firstn m cs = l1 ++ c :: firstn (m - S n) l2).
      { subst cs n. rewrite firstn_app. rewrite firstn_all2 by lia.
        replace (m - length l1)%nat with (S (m - S (length l1)))%nat by lia. reflexivity. }
      eapply Hm2. exact Hm.
    - apply nth_error_None in Hc. lia. }
  intros cs f n m Hn Hm.
  destruct (Nat.lt_trichotomy n m) as [H | [H | H]]; [exfalso; eauto | assumption | exfalso; eauto].
Qed.

(* ---------- shape of accepted P2P configurations ---------- *)

Lemma in_insert_sorted : forall x y l, In x (insert_sorted y l) <-> x = y \/ In x l.
Proof.
  intros x y l. induction l as [|a r IH]; cbn [insert_sorted].
  - cbn [In]. intuition.
  - destruct (y <=? a); cbn [In] in *; [intuition | rewrite IH; intuition].
Qed.

Lemma in_sortZ : forall x l, In x (sortZ l) <-> In x l.
Proof.
  intros x l. unfold sortZ. induction l as [|a r IH]; cbn [fold_right]; [reflexivity|].
  rewrite in_insert_sorted, IH. cbn [In]. intuition.
Qed.

Lemma in_insert_uniq : forall x y l, In x (insert_uniq y l) <-> x = y \/ In x l.
Proof.
  intros x y l. induction l as [|a r IH]; cbn [insert_uniq].
  - cbn [In]. intuition.
  - destruct (y <? a) eqn:H1; [cbn [In]; intuition|].
    destruct (y =? a) eqn:H2.
    + assert (y = a) by lia. subst. cbn [In]. intuition.
    + cbn [In]. rewrite IH. intuition.
Qed.

Lemma in_sort_uniq : forall x l, In x (sort_uniq l) <-> In x l.
Proof.
  intros x l. unfold sort_uniq. induction l as [|a r IH]; cbn [fold_right]; [reflexivity|].
  rewrite in_insert_uniq, IH. cbn [In]. intuition.
Qed.

Lemma insert_uniq_sorted : forall x l, StronglySorted Z.lt l -> StronglySorted Z.lt (insert_uniq x l).
Proof.
  intros x l. induction l as [|a r IH]; intro Hs; cbn [insert_uniq].
  - constructor; constructor.
  - inversion Hs as [|? ? Hr Hall]; subst.
    destruct (x <? a) eqn:H1.
    + constructor; [assumption|]. constructor; [lia|].
      eapply Forall_impl; [|exact Hall]. intros; lia.
    + destruct (x =? a) eqn:H2; [assumption|].
      constructor; [apply IH; assumption|].
      rewrite Forall_forall. intros y Hy. apply in_insert_uniq in Hy.
      rewrite Forall_forall in Hall. destruct Hy; [lia | auto].
Qed.

Lemma sort_uniq_nodup : forall l, NoDup (sort_uniq l).
Proof.
  intro l. assert (Hs : StronglySorted Z.lt (sort_uniq l)).
  { unfold sort_uniq. induction l; cbn [fold_right]; [constructor | apply insert_uniq_sorted; assumption]. }
  induction Hs as [|a r Hr IH Hall]; constructor; [|assumption].
  intro Hin. rewrite Forall_forall in Hall. specialize (Hall _ Hin). lia.
Qed.

Lemma in_handles_where : forall f hs h,
  In h (handles_where f hs) <-> exists t, In (h, t) hs /\ f t = true.
Proof.
  intros f hs h. unfold handles_where. rewrite in_sortZ, in_map_iff. split.
  - intros [[h' t] [Heq Hin]]. cbn [fst] in Heq. subst. apply filter_In in Hin. exists t. exact Hin.
  - intros [t [Hin Hf]]. exists (h, t). split; [reflexivity | apply filter_In; split; assumption].
Qed.

Definition peer (spectator : bool) (a : Z) : ptype := if spectator then Spectator a else Remote a.

Lemma ptype_eqb_eq : forall t u, ptype_eqb t u = true <-> t = u.
Proof.
  intros t u. destruct t, u; cbn [ptype_eqb]; split; intro H; try discriminate; try reflexivity;
    try (f_equal; lia); inversion H; lia.
Qed.

Lemma in_remote_addrs : forall hs a, In a (remote_addrs hs) <-> exists h, In (h, Remote a) hs.
Proof.
  intros hs a. unfold remote_addrs. rewrite in_sort_uniq, in_flat_map. split.
  - intros [[h t] [Hin Ha]]. cbn [snd] in Ha. destruct t; cbn [In] in Ha; try contradiction.
    destruct Ha as [Ha | []]. subst. exists h; assumption.
  - intros [h Hin]. exists (h, Remote a). split; [assumption | left; reflexivity].
Qed.

Lemma in_spectator_addrs : forall hs a, In a (spectator_addrs hs) <-> exists h, In (h, Spectator a) hs.
Proof.
  intros hs a. unfold spectator_addrs. rewrite in_sort_uniq, in_flat_map. split.
  - intros [[h t] [Hin Ha]]. cbn [snd] in Ha. destruct t; cbn [In] in Ha; try contradiction.
    destruct Ha as [Ha | []]. subst. exists h; assumption.
  - intros [h Hin]. exists (h, Spectator a). split; [assumption | left; reflexivity].
Qed.

Lemma in_endpoints : forall hs e,
  In e (endpoints hs) <->
  (exists h, In (h, peer (e_spectator e) (e_addr e)) hs) /\
  e_handles e = handles_where (ptype_eqb (peer (e_spectator e) (e_addr e))) hs.
Proof.
  intros hs e. unfold endpoints. rewrite in_app_iff, !in_map_iff. split.
  - intros [[a [He Hin]] | [a [He Hin]]]; subst e; cbn [e_addr e_spectator e_handles peer].
    + apply in_remote_addrs in Hin. split; [assumption | reflexivity].
    + apply in_spectator_addrs in Hin. split; [assumption | reflexivity].
  - destruct e as [a hl k]. cbn [e_addr e_spectator e_handles]. intros [Hex Heq]. subst hl.
    destruct k; cbn [peer] in *.
    + right. exists a. split; [reflexivity | apply in_spectator_addrs; assumption].
    + left. exists a. split; [reflexivity | apply in_remote_addrs; assumption].
Qed.

Lemma nodup_app : forall (A : Type) (l1 l2 : list A),
  NoDup l1 -> NoDup l2 -> (forall x, In x l1 -> ~ In x l2) -> NoDup (l1 ++ l2).
Proof.
  intros A l1 l2 H1 H2 Hd. induction H1 as [|a l Hnin Hl IH]; cbn [app]; [assumption|].
  constructor.
  - rewrite in_app_iff. intros [H | H]; [contradiction | apply (Hd a); [left; reflexivity | assumption]].
  - apply IH. intros x Hx. apply Hd. right; assumption.
Qed.

Lemma endpoints_nodup : forall hs,
  NoDup (map (fun e => (e_addr e, e_spectator e)) (endpoints hs)).
Proof.
  intro hs. unfold endpoints. rewrite map_app, !map_map. cbn [e_addr e_spectator].
  apply nodup_app.
  - apply Injective_map_NoDup; [intros x y H; inversion H; reflexivity | apply sort_uniq_nodup].
  - apply Injective_map_NoDup; [intros x y H; inversion H; reflexivity | apply sort_uniq_nodup].
  - intros [a k] H1 H2. apply in_map_iff in H1. apply in_map_iff in H2.
    destruct H1 as [? [H1 _]]. destruct H2 as [? [H2 _]]. inversion H1; inversion H2; congruence.
Qed.

Lemma nodup_map_filter : forall (A B : Type) (g : A -> B) (p : A -> bool) (l : list A),
  NoDup (map g l) -> NoDup (map g (filter p l)).
Proof.
  intros A B g p l. induction l as [|a r IH]; cbn [map filter]; intro H; [constructor|].
  inversion H; subst. destruct (p a); cbn [map]; [|auto].
  constructor; [|auto]. intro Hin. apply in_map_iff in Hin. destruct Hin as [x [Hx Hin]].
  apply filter_In in Hin. destruct Hin as [Hin _]. apply H2. rewrite <- Hx. apply in_map. assumption.
Qed.

Lemma zrange_nodup : forall n, NoDup (zrange n).
Proof.
  intro n. unfold zrange. apply Injective_map_NoDup; [intros x y H; lia | apply seq_NoDup].
Qed.

(* P2PSession::num_players() counts the Local/Remote entries; for an accepted configuration this
   is the configured num_players *)
Lemma player_count : forall pre b, repr pre b ->
  (forall h, 0 <= h < np_of pre -> exists t, In (CAddPlayer t h) pre) ->
  Z.of_nat (length (filter (fun p => negb (is_spectator (snd p))) (b_handles b))) = b_num_players b.
Proof.
  intros pre b Hr Hreg.
  set (F := filter (fun p => negb (is_spectator (snd p))) (b_handles b)).
  assert (Hperm : Permutation (map fst F) (zrange (b_num_players b))).
  { apply NoDup_Permutation.
    - apply nodup_map_filter. apply (r_nodup _ _ Hr).
    - apply zrange_nodup.
    - intro h. rewrite in_zrange, in_map_iff. split.
      + intros [[h' t] [Heq Hin]]. cbn [fst] in Heq. subst h'. apply filter_In in Hin. destruct Hin as [Hin Hns].
        cbn [snd] in Hns. pose proof (r_hok _ _ Hr _ _ Hin) as Hok.
        destruct t; cbn [handle_ok is_spectator negb] in *; [assumption | assumption | discriminate].
      + intro Hh. rewrite (r_np _ _ Hr) in Hh. destruct (Hreg h Hh) as [t Hin].
        apply (r_handles _ _ Hr) in Hin. exists (h, t). split; [reflexivity|].
        apply filter_In. split; [assumption|]. cbn [snd].
        pose proof (r_hok _ _ Hr _ _ Hin) as Hok. rewrite (r_np _ _ Hr) in Hok.
        destruct t; cbn [handle_ok is_spectator negb] in *; [reflexivity | reflexivity | lia]. }
  apply Permutation_length in Hperm. rewrite map_length in Hperm. rewrite Hperm.
  unfold zrange. rewrite map_length, seq_length. pose proof (r_np_pos _ _ Hr). lia.
Qed.

(* C16_p2p_endpoints / C16_p2p_handles *)
Theorem p2p_shape : 1 <= DEFAULT_PLAYERS -> forall cs n p, Forall usize_call cs ->
  run_calls cs FP2P = (n, Ok (SP2P p)) ->
  (* one endpoint per distinct (address, remote/spectator) pair that was registered ... *)
  NoDup (map (fun e => (e_addr e, e_spectator e)) (p_endpoints p)) /\
  (forall a k, (exists e, In e (p_endpoints p) /\ e_addr e = a /\ e_spectator e = k) <->
               (exists h, In (CAddPlayer (peer k a) h) cs)) /\
  (* ... carrying exactly the handles registered for it *)
  (forall e h, In e (p_endpoints p) ->
               (In h (e_handles e) <-> In (CAddPlayer (peer (e_spectator e) (e_addr e)) h) cs)) /\
  (* the session starts Running iff there is no endpoint *)
  (p_running p = true <-> p_endpoints p = []) /\
  (* handles 0..num_players-1 are exactly the local and remote players, spectators are above *)
  p_cfg_num_players p = np_of cs /\ p_num_players p = np_of cs /\ 1 <= np_of cs /\
  (forall h, 0 <= h < np_of cs <-> In h (p_local p) \/ In h (p_remote p)) /\
  (forall h, In h (p_local p) <-> In (CAddPlayer Local h) cs) /\
  (forall h, In h (p_remote p) <-> exists a, In (CAddPlayer (Remote a) h) cs) /\
  (forall h, In h (p_spectators p) <-> exists a, In (CAddPlayer (Spectator a) h) cs) /\
  (forall h, In h (p_spectators p) -> np_of cs <= h) /\
  (* the remaining settings are the ones in force; sparse saving is forced off in lockstep mode *)
  p_max_prediction p = window_of cs /\ p_input_delay p = delay_of cs /\ p_desync p = desync_of cs /\
  p_sparse p = (if window_of cs =? 0 then false else sparse_of cs).
Proof.
  intros Hd cs n p Hu Hrun.
  destruct (run_calls_cases Hd cs FP2P Hu) as [[b [s [Hrun' [Hr [Hfin [_ Hfok]]]]]] | [m [Hrun' _]]];
    rewrite Hrun in Hrun'; inversion Hrun'; subst; clear Hrun'.
  cbn [finish fin_ok] in *. destruct Hfok as [Hreg _].
  pose proof (player_count _ _ Hr Hreg) as Hcount.
  unfold start_p2p_session in Hfin.
  destruct (match b_desync b with Some i => i =? 0 | None => false end); [discriminate|].
  destruct (negb (forallb (fun h => contains_key h (b_handles b)) (zrange (b_num_players b)))); [discriminate|].
  destruct (negb (forallb (fun p0 => if is_local (snd p0) then fst p0 <? b_num_players b else true) (b_handles b))); [discriminate|].
  inversion Hfin; subst p; clear Hfin.
  cbn [p_num_players p_cfg_num_players p_running p_endpoints p_local p_remote p_spectators p_by_addr
       p_max_prediction p_sparse p_desync p_input_delay p_fps].
  pose proof (r_handles _ _ Hr) as Hh. pose proof (r_np _ _ Hr) as Hnp. pose proof (r_np_pos _ _ Hr) as Hpos.
  split; [apply endpoints_nodup|].
  split.
  { intros a k. split.
    - intros [e [Hin [Ha Hk]]]. apply in_endpoints in Hin. destruct Hin as [[h Hin] _]. subst.
      exists h. apply Hh. assumption.
    - intros [h Hin]. apply Hh in Hin.
      exists (mkE a (handles_where (ptype_eqb (peer k a)) (b_handles b)) k).
      split; [|split; reflexivity]. apply in_endpoints. cbn [e_addr e_spectator e_handles].
      split; [exists h; assumption | reflexivity]. }
  split.
  { intros e h Hin. apply in_endpoints in Hin. destruct Hin as [_ Heq]. rewrite Heq.
    rewrite in_handles_where. split.
    - intros [t [Hin Ht]]. apply ptype_eqb_eq in Ht. subst t. apply Hh. assumption.
    - intro Hin. eexists. split; [apply Hh; exact Hin | apply ptype_eqb_eq; reflexivity]. }
  split.
  { destruct (endpoints (b_handles b)); split; intro H; try reflexivity; discriminate. }
  split; [assumption|]. split; [lia|]. split; [lia|].
  split.
  { intro h. rewrite !in_handles_where. split.
    - intro Hrange. destruct (Hreg h Hrange) as [t Hin]. apply Hh in Hin.
      pose proof (r_hok _ _ Hr _ _ Hin) as Hok. rewrite Hnp in Hok.
      destruct t; cbn [handle_ok] in Hok.
      + left. exists Local. split; [assumption | reflexivity].
      + right. exists (Remote a). split; [assumption | reflexivity].
      + lia.
    - intros [[t [Hin Ht]] | [t [Hin Ht]]]; pose proof (r_hok _ _ Hr _ _ Hin) as Hok; rewrite Hnp in Hok;
        destruct t; cbn [is_local is_remote handle_ok] in *; try discriminate; assumption. }
  split.
  { intro h. rewrite in_handles_where. split.
    - intros [t [Hin Ht]]. destruct t; try discriminate. apply Hh. assumption.
    - intro Hin. exists Local. split; [apply Hh; assumption | reflexivity]. }
  split.
  { intro h. rewrite in_handles_where. split.
    - intros [t [Hin Ht]]. destruct t; try discriminate. exists a. apply Hh. assumption.
    - intros [a Hin]. exists (Remote a). split; [apply Hh; assumption | reflexivity]. }
  split.
  { intro h. rewrite in_handles_where. split.
    - intros [t [Hin Ht]]. destruct t; try discriminate. exists a. apply Hh. assumption.
    - intros [a Hin]. exists (Spectator a). split; [apply Hh; assumption | reflexivity]. }
  split.
  { intros h Hin. apply in_handles_where in Hin. destruct Hin as [t [Hin Ht]].
    pose proof (r_hok _ _ Hr _ _ Hin) as Hok. rewrite Hnp in Hok.
    destruct t; try discriminate. exact Hok. }
  rewrite <- (r_win _ _ Hr), <- (r_delay _ _ Hr), <- (r_desync _ _ Hr), <- (r_sparse _ _ Hr).
  repeat split; try reflexivity.
  destruct (b_max_prediction b =? 0); destruct (b_sparse b); reflexivity.
Qed.

(* accepted spectator and synctest sessions carry the settings in force *)
Theorem other_sessions_shape : 1 <= DEFAULT_PLAYERS -> forall cs f n s, Forall usize_call cs ->
  run_calls cs f = (n, Ok s) ->
  match s with
  | SP2P _ => f = FP2P
  | SSpectator np host _ _ => f = FSpectator host /\ np = np_of cs /\ 1 <= np
  | SSyncTest np w cd d => f = FSyncTest /\ np = np_of cs /\ 1 <= np /\ w = window_of cs /\
                           cd = check_dist_of cs /\ d = delay_of cs /\ cd < w
  end.
Proof.
  intros Hd cs f n s Hu Hrun.
  destruct (run_calls_cases Hd cs f Hu) as [[b [s' [Hrun' [Hr [Hfin [_ Hfok]]]]]] | [m [Hrun' _]]];
    rewrite Hrun in Hrun'; inversion Hrun'; subst; clear Hrun'.
  pose proof (r_np _ _ Hr) as Hnp. pose proof (r_np_pos _ _ Hr) as Hpos.
  destruct f; cbn [finish fin_ok] in *.
  - unfold start_p2p_session in Hfin.
    destruct (match b_desync b with Some i => i =? 0 | None => false end); [discriminate|].
    destruct (negb _); [discriminate|]. destruct (negb _); [discriminate|].
    inversion Hfin; reflexivity.
  - unfold start_spectator_session in Hfin. inversion Hfin; subst. repeat split; [assumption | lia].
  - unfold start_synctest_session in Hfin.
    destruct (b_max_prediction b <=? b_check_dist b) eqn:H1; [discriminate|].
    destruct (b_sparse b); [discriminate|]. inversion Hfin; subst.
    rewrite <- (r_win _ _ Hr), <- (r_cd _ _ Hr), <- (r_delay _ _ Hr).
    repeat split; try assumption; lia.
Qed.

(* ---------- non-vacuity witnesses ---------- *)

(* num_players 2, local 0, remote 1 at address 7, spectator handle 2 at address 9: accepted *)
Definition ex_valid : list call :=
  [CNumPlayers 2; CAddPlayer Local 0; CAddPlayer (Remote 7) 1; CAddPlayer (Spectator 9) 2; CInputDelay 2].

Lemma ex_valid_runs :
  run_calls ex_valid FP2P =
  (5%nat, Ok (SP2P (mkP 2 2 false [mkE 7 [1] false; mkE 9 [2] true] [0] [1] [2] [(7, [1]); (9, [2])]
                        DEFAULT_MAX_PREDICTION_FRAMES false None 2 DEFAULT_FPS))).
Proof. vm_compute. reflexivity. Qed.

Lemma ex_valid_usize : Forall usize_call ex_valid.
Proof. repeat constructor; cbn [usize_call]; lia. Qed.

(* the same players, then shrinking num_players to 1: the remote handle 1 becomes invalid, the
   call with index 3 is rejected; a later invalid call (fps 0) is not what is reported *)
Definition ex_invalid : list call :=
  [CAddPlayer Local 0; CAddPlayer (Remote 7) 1; CAddPlayer (Spectator 9) 2; CNumPlayers 1; CFps 0].

Lemma ex_invalid_runs : run_calls ex_invalid FP2P = (3%nat, Err).
Proof. vm_compute. reflexivity. Qed.

Lemma ex_invalid_usize : Forall usize_call ex_invalid.
Proof. repeat constructor; cbn [usize_call]; lia. Qed.

(* both directly from the declarative predicate, without the model *)
Lemma ex_valid_is_valid : valid_calls ex_valid FP2P.
Proof.
  split.
  - intros pre c post Heq. unfold ex_valid in Heq.
    do 6 (destruct pre as [|? pre]; [inversion Heq; subst; clear Heq;
          cbn [call_ok handle_ok app]; unfold np_of; cbn [last_set];
          try exact I;
          try (split; [try (unfold DEFAULT_PLAYERS); lia|];
               first [ intros [t' Hin]; cbn [In] in Hin; repeat (destruct Hin as [Hin | Hin]; [discriminate|]); contradiction
                     | intros t h Hin; cbn [In] in Hin; contradiction ])
        | inversion Heq; subst; clear Heq; rename H1 into Heq]).
    all: try (destruct pre; discriminate).
  - cbn [fin_ok]. split.
    + intros h Hh. unfold np_of, ex_valid in *. cbn [last_set] in Hh.
      assert (h = 0 \/ h = 1) as [-> | ->] by lia; [exists Local | exists (Remote 7)]; cbn [In]; auto.
    + unfold desync_of, ex_valid. cbn [last_set]. discriminate.
Qed.

Lemma ex_invalid_first_invalid : first_invalid ex_invalid FP2P 3.
Proof.
  unfold first_invalid. split; [cbn; lia|]. split.
  - cbn [firstn ex_invalid]. intros pre c post Heq.
    do 4 (destruct pre as [|? pre]; [inversion Heq; subst; clear Heq;
          cbn [call_ok handle_ok app]; unfold np_of; cbn [last_set]; unfold DEFAULT_PLAYERS;
          (split; [lia|]; intros [t' Hin]; cbn [In] in Hin;
           repeat (destruct Hin as [Hin | Hin]; [discriminate|]); contradiction)
        | inversion Heq; subst; clear Heq; rename H1 into Heq]).
    all: try (destruct pre; discriminate).
  - cbn [nth_error ex_invalid firstn call_ok]. intros [_ H].
    specialize (H (Remote 7) 1). cbn [In handle_ok] in H. assert (0 <= 1 < 1) by (apply H; auto). lia.
Qed.
