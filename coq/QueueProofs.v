(* Invariants of the InputQueue ring model: the ring is a window [low, n) of an append-only
   history of real inputs; no modelled assert fires under the stated preconditions. *)
From GGRS Require Import Base Consts Queue.
From Coq Require Import ZifyBool ZifyNat ZifyN.
Ltac Zify.zify_post_hook ::= Z.div_mod_to_equations.
Open Scope Z_scope.

Lemma QLEN_pos : 0 < QLEN.
Proof. reflexivity. Qed.
Global Opaque QLEN.

(* decide every boolean comparison in the goal that lia can settle from the context *)
Ltac zbool1 :=
  match goal with
  | |- context [?a <? ?b] => first [ replace (a <? b) with true by (symmetry; apply Z.ltb_lt; unfold NULL in *; lia)
                                   | replace (a <? b) with false by (symmetry; apply Z.ltb_ge; unfold NULL in *; lia) ]
  | |- context [?a <=? ?b] => first [ replace (a <=? b) with true by (symmetry; apply Z.leb_le; unfold NULL in *; lia)
                                    | replace (a <=? b) with false by (symmetry; apply Z.leb_gt; unfold NULL in *; lia) ]
  | |- context [?a =? ?b] => first [ replace (a =? b) with true by (symmetry; apply Z.eqb_eq; unfold NULL in *; lia)
                                   | replace (a =? b) with false by (symmetry; apply Z.eqb_neq; unfold NULL in *; lia) ]
  end.
Ltac zbool := repeat zbool1; cbn [negb andb orb].

(* ---------- list plumbing ---------- *)
Lemma upd_length : forall l i x, length (upd l i x) = length l.
Proof. induction l as [|y r IH]; intros [|k] x; cbn; auto. Qed.

Lemma nth_upd_same : forall l i x d, (i < length l)%nat -> nth i (upd l i x) d = x.
Proof. induction l as [|y r IH]; intros [|k] x d H; cbn in *; try lia; auto. apply IH; lia. Qed.

Lemma nth_upd_other : forall l i j x d, i <> j -> nth j (upd l i x) d = nth j l d.
Proof.
  induction l as [|y r IH]; intros [|k] [|j] x d H; cbn; auto; try congruence.
Qed.

Lemma slot_upd_same : forall l i x, 0 <= i < Z.of_nat (length l) -> slot (upd l (Z.to_nat i) x) i = x.
Proof. intros l i x H. unfold slot. apply nth_upd_same. lia. Qed.

Lemma slot_upd_other : forall l i j x, 0 <= i -> 0 <= j -> i <> j -> slot (upd l (Z.to_nat i) x) j = slot l j.
Proof. intros l i j x Hi Hj H. unfold slot. apply nth_upd_other. lia. Qed.

Lemma slot_repeat_blank : forall n i, slot (repeat (blank NULL) n) i = blank NULL.
Proof.
  intros n i. unfold slot. generalize (Z.to_nat i). induction n as [|k IH]; intros [|m]; cbn; auto.
Qed.

Lemma nth_app_last {A} (l : list A) x d : nth (length l) (l ++ [x]) d = x.
Proof. rewrite app_nth2 by lia. rewrite Nat.sub_diag. reflexivity. Qed.

Lemma nth_app_old {A} (l : list A) x d i : (i < length l)%nat -> nth i (l ++ [x]) d = nth i l d.
Proof. intro H. apply app_nth1. exact H. Qed.

(* two frames inside one ring window occupy different slots *)
Lemma mod_window_inj : forall f g low, low <= f < low + QLEN -> low <= g < low + QLEN ->
  f mod QLEN = g mod QLEN -> f = g.
Proof.
  intros f g low Hf Hg H. pose proof QLEN_pos as HQ.
  pose proof (Z.div_mod f QLEN ltac:(lia)) as Df. pose proof (Z.div_mod g QLEN ltac:(lia)) as Dg.
  assert (E : f - g = QLEN * (f / QLEN - g / QLEN)) by lia.
  assert (f / QLEN - g / QLEN = 0) by nia. lia.
Qed.

Lemma prev_pos_mod : forall n, prev_pos (n mod QLEN) = (n - 1) mod QLEN.
Proof.
  intro n. pose proof QLEN_pos as HQ. unfold prev_pos.
  pose proof (Z.div_mod n QLEN ltac:(lia)) as D.
  pose proof (Z.mod_pos_bound n QLEN HQ) as B.
  destruct (Z.eqb_spec (n mod QLEN) 0) as [E|E].
  - apply (Z.mod_unique_pos _ _ (n / QLEN - 1)); lia.
  - apply (Z.mod_unique_pos _ _ (n / QLEN)); lia.
Qed.

Definition hlen (hist : list Z) : Z := Z.of_nat (length hist).
Definition hval (hist : list Z) (f : Z) : Z := nth (Z.to_nat f) hist 0.
Definition hlast (hist : list Z) : Z := last hist 0.

Lemma hlast_app : forall h v, hlast (h ++ [v]) = v.
Proof. intros h v. unfold hlast. apply last_last. Qed.
Lemma hlen_app : forall h v, hlen (h ++ [v]) = hlen h + 1.
Proof. intros. unfold hlen. rewrite app_length. cbn. lia. Qed.
Lemma hval_last : forall h, h <> [] -> hval h (hlen h - 1) = hlast h.
Proof.
  intros h Hne. unfold hval, hlast, hlen.
  destruct (exists_last Hne) as (l & x & ->). rewrite last_last.
  rewrite app_length. cbn [length].
  replace (Z.to_nat (Z.of_nat (length l + 1) - 1)) with (length l) by lia.
  apply nth_app_last.
Qed.

(* ---------- the ring invariant ---------- *)
(* hist = the real inputs of frames 0 .. n-1 ever inserted; the ring holds frames low .. n-1 *)
Record RInv (q : queue) (hist : list Z) (low : Z) : Prop := {
  ri_len : Z.of_nat (length (q_inputs q)) = QLEN;
  ri_head : q_head q = hlen hist mod QLEN;
  ri_last : q_last_added q = hlen hist - 1;
  ri_first : q_first q = (hlen hist =? 0);
  ri_low : 0 <= low /\ (hist <> [] -> low < hlen hist) /\ (hist = [] -> low = 0);
  ri_tail : q_tail q = low mod QLEN;
  ri_length : q_length q = hlen hist - low;
  ri_cap : hlen hist - low <= QLEN;
  ri_slots : forall f, low <= f < hlen hist -> slot (q_inputs q) (f mod QLEN) = mkpi f (hval hist f);
  ri_blank : hist = [] -> q_inputs q = repeat (blank NULL) (Z.to_nat QLEN);
}.

Lemma RInv_new : RInv q_new [] 0.
Proof.
  pose proof QLEN_pos.
  constructor; unfold q_new, hlen;
    cbn [q_inputs q_head q_tail q_length q_first q_last_added length Z.of_nat].
  - rewrite repeat_length. lia.
  - rewrite Z.mod_0_l; lia.
  - reflexivity.
  - reflexivity.
  - repeat split; try lia; congruence.
  - rewrite Z.mod_0_l; lia.
  - lia.
  - lia.
  - intros f Hf. lia.
  - reflexivity.
Qed.

(* frame stored at the tail slot: low when the queue is not empty, NULL when it is *)
Lemma tail_frame : forall q hist low, RInv q hist low ->
  pi_frame (slot (q_inputs q) (q_tail q)) = if hlen hist =? 0 then NULL else low.
Proof.
  intros q hist low I. rewrite (ri_tail _ _ _ I).
  destruct (Z.eqb_spec (hlen hist) 0) as [E|E].
  - assert (hist = []) by (destruct hist; [reflexivity|unfold hlen in E; cbn in E; lia]).
    rewrite (ri_blank _ _ _ I H), slot_repeat_blank. reflexivity.
  - assert (Hne : hist <> []) by (intro; subst; apply E; reflexivity).
    destruct (ri_low _ _ _ I) as (L0 & L1 & _). specialize (L1 Hne).
    rewrite (ri_slots _ _ _ I low) by lia. reflexivity.
Qed.

(* value at the slot before head: the last real input (0 for the empty queue) *)
Lemma prev_slot : forall q hist low, RInv q hist low ->
  slot (q_inputs q) (prev_pos (q_head q)) = if hlen hist =? 0 then blank NULL else mkpi (hlen hist - 1) (hlast hist).
Proof.
  intros q hist low I. pose proof QLEN_pos as HQ.
  destruct (Z.eqb_spec (hlen hist) 0) as [E|E].
  - assert (hist = []) by (destruct hist; [reflexivity|unfold hlen in E; cbn in E; lia]).
    rewrite (ri_blank _ _ _ I H). apply slot_repeat_blank.
  - assert (Hne : hist <> []) by (intro; subst; apply E; reflexivity).
    destruct (ri_low _ _ _ I) as (L0 & L1 & _). specialize (L1 Hne).
    assert (Hpp : prev_pos (q_head q) = (hlen hist - 1) mod QLEN).
    { rewrite (ri_head _ _ _ I). apply prev_pos_mod. }
    rewrite Hpp. rewrite (ri_slots _ _ _ I (hlen hist - 1)) by lia.
    rewrite hval_last by exact Hne. reflexivity.
Qed.

(* ---------- add_input_by_frame ---------- *)
Definition pred_ok (q : queue) (fn : Z) : Prop :=
  pi_frame (q_pred q) = NULL \/ pi_frame (q_pred q) = fn.

(* what an insertion does to the prediction bookkeeping *)
Definition fi_after (q : queue) (v fn : Z) : Z :=
  if pi_frame (q_pred q) =? NULL then q_first_incorrect q
  else if (q_first_incorrect q =? NULL) && negb (pi_val (q_pred q) =? v) then fn else q_first_incorrect q.
Definition pred_after (q : queue) (v fn : Z) : pinput :=
  if pi_frame (q_pred q) =? NULL then q_pred q
  else if (pi_frame (q_pred q) =? q_last_requested q) && (fi_after q v fn =? NULL)
       then mkpi NULL (pi_val (q_pred q)) else mkpi (pi_frame (q_pred q) + 1) (pi_val (q_pred q)).

Lemma add_by_frame_ok : forall q hist low v,
  RInv q hist low -> hlen hist - low < QLEN -> pred_ok q (hlen hist) ->
  exists q', add_input_by_frame q v (hlen hist) = Ok q' /\ RInv q' (hist ++ [v]) low /\
             q_delay q' = q_delay q /\ q_last_user q' = q_last_user q /\ q_last_requested q' = q_last_requested q /\
             q_first_incorrect q' = fi_after q v (hlen hist) /\ q_pred q' = pred_after q v (hlen hist) /\
             pred_ok q' (hlen hist + 1).
Proof.
  intros q hist low v I Hcap Hp. pose proof QLEN_pos as HQ.
  unfold add_input_by_frame.
  pose proof (prev_slot _ _ _ I) as Hprev.
  rewrite (ri_last _ _ _ I).
  assert (((hlen hist - 1 =? NULL) || (hlen hist =? hlen hist - 1 + 1)) = true) as -> by lia.
  cbn [negb].
  assert (A2 : ((hlen hist =? 0) || (pi_frame (slot (q_inputs q) (prev_pos (q_head q))) =? hlen hist - 1)) = true).
  { rewrite Hprev. destruct (Z.eqb_spec (hlen hist) 0); cbn; lia. }
  rewrite A2. cbn [negb].
  rewrite (ri_length _ _ _ I).
  assert ((QLEN <? hlen hist - low + 1) = false) as -> by lia.
  assert (Hhead : 0 <= q_head q < QLEN) by (rewrite (ri_head _ _ _ I); apply Z.mod_pos_bound; lia).
  set (inputs' := upd (q_inputs q) (Z.to_nat (q_head q)) (mkpi (hlen hist) v)).
  assert (Hinv : forall fi pr, RInv (mkq ((q_head q + 1) mod QLEN) (q_tail q) (hlen hist - low + 1) false (hlen hist)
                               (q_last_user q) fi (q_last_requested q) (q_delay q) inputs' pr) (hist ++ [v]) low).
  { intros fi pr. destruct (ri_low _ _ _ I) as (L0 & L1 & L2).
    constructor; cbn [q_inputs q_head q_tail q_length q_first q_last_added]; rewrite ?hlen_app.
    - subst inputs'. rewrite upd_length. apply (ri_len _ _ _ I).
    - rewrite (ri_head _ _ _ I). rewrite Zplus_mod_idemp_l. reflexivity.
    - lia.
    - unfold hlen. lia.
    - repeat split; try lia.
      + intros _. destruct hist as [|x r]; [rewrite (L2 eq_refl); unfold hlen; cbn; lia|].
        specialize (L1 ltac:(discriminate)). lia.
      + intro E. destruct hist; discriminate.
    - apply (ri_tail _ _ _ I).
    - lia.
    - lia.
    - intros f Hf. destruct (Z.eq_dec f (hlen hist)) as [->|Hne].
      + subst inputs'. rewrite <- (ri_head _ _ _ I).
        rewrite slot_upd_same by (rewrite (ri_len _ _ _ I); lia).
        f_equal. unfold hval, hlen. rewrite Nat2Z.id. symmetry. apply nth_app_last.
      + subst inputs'. rewrite slot_upd_other.
        * rewrite (ri_slots _ _ _ I f) by lia. f_equal. unfold hval.
          symmetry. apply nth_app_old. unfold hlen in *. lia.
        * lia.
        * apply Z.mod_pos_bound; lia.
        * rewrite (ri_head _ _ _ I). intro E.
          apply (mod_window_inj (hlen hist) f low) in E; lia.
    - intro E. destruct hist; discriminate. }
  destruct (Z.eqb_spec (pi_frame (q_pred q)) NULL) as [Epn|Epn]; cbn [negb].
  - eexists; split; [reflexivity|]. split; [apply Hinv|]. cbn [q_delay q_last_user q_last_requested q_first_incorrect q_pred].
    unfold pred_after, fi_after. rewrite !Epn. cbn [Z.eqb NULL Pos.eqb].
    repeat split; auto. left. exact Epn.
  - destruct Hp as [Hp|Hp]; [congruence|]. rewrite Hp, Z.eqb_refl. cbn [negb].
    eexists; split; [reflexivity|]. split; [apply Hinv|]. cbn [q_delay q_last_user q_last_requested q_first_incorrect q_pred].
    assert (En : (pi_frame (q_pred q) =? NULL) = false) by lia.
    unfold pred_after, fi_after. rewrite !En, ?Hp.
    split; [reflexivity|]. split; [reflexivity|]. split; [reflexivity|]. split; [reflexivity|]. split; [reflexivity|].
    unfold pred_ok. cbn [q_pred].
    match goal with |- context [if ?c then _ else _] => destruct c end; cbn [pi_frame]; [left|right]; reflexivity.
Qed.

(* ---------- fill_to ---------- *)
Lemma fill_to_ok : forall fuel q hist low v t,
  RInv q hist low -> hlen hist <= t -> (Z.to_nat (t - hlen hist) <= fuel)%nat ->
  t - low <= QLEN -> pi_frame (q_pred q) = NULL ->
  exists q', fill_to fuel q v (hlen hist) t = Ok q' /\
             RInv q' (hist ++ repeat v (Z.to_nat (t - hlen hist))) low /\
             q_delay q' = q_delay q /\ q_last_user q' = q_last_user q /\ q_last_requested q' = q_last_requested q /\
             q_first_incorrect q' = q_first_incorrect q /\ q_pred q' = q_pred q.
Proof.
  induction fuel as [|k IH]; intros q hist low v t I Ht Hf Hcap Hp.
  - assert (t = hlen hist) by lia. subst t. cbn [fill_to]. rewrite Z.leb_refl.
    exists q. rewrite Z.sub_diag. cbn [Z.to_nat repeat]. rewrite app_nil_r.
    refine (conj eq_refl (conj I _)). repeat split; reflexivity.
  - cbn [fill_to]. destruct (Z.leb_spec t (hlen hist)) as [Hle|Hgt].
    + assert (t = hlen hist) by lia. subst t.
      exists q. rewrite Z.sub_diag. cbn [Z.to_nat repeat]. rewrite app_nil_r.
      refine (conj eq_refl (conj I _)). repeat split; reflexivity.
    + destruct (add_by_frame_ok q hist low v I ltac:(lia) (or_introl Hp))
        as (q1 & E1 & I1 & D1 & U1 & R1 & F1 & P1 & _).
      rewrite E1. cbn [res_bind].
      assert (Hp1 : pi_frame (q_pred q1) = NULL).
      { rewrite P1. unfold pred_after. rewrite Hp. cbn. exact Hp. }
      assert (Hfi1 : q_first_incorrect q1 = q_first_incorrect q).
      { rewrite F1. unfold fi_after. rewrite Hp. reflexivity. }
      destruct (IH q1 (hist ++ [v]) low v t I1) as (q2 & E2 & I2 & D2 & U2 & R2 & F2 & P2);
        rewrite ?hlen_app; try lia; try assumption.
      exists q2. rewrite hlen_app in E2, I2. split; [exact E2|].
      replace (Z.to_nat (t - hlen hist)) with (S (Z.to_nat (t - (hlen hist + 1)))) by lia.
      cbn [repeat]. rewrite <- app_assoc in I2. cbn [app] in I2.
      refine (conj I2 _). repeat split; try congruence.
      rewrite P2, P1. unfold pred_after. rewrite Hp. reflexivity.
Qed.

(* ---------- small frame lemmas ---------- *)
Lemma RInv_with_delay : forall q hist low d, RInv q hist low -> RInv (with_delay q d) hist low.
Proof. intros q hist low d I. destruct I. constructor; cbn; auto. Qed.

Lemma RInv_ext : forall q q' hist low,
  RInv q hist low ->
  q_head q' = q_head q -> q_tail q' = q_tail q -> q_length q' = q_length q -> q_first q' = q_first q ->
  q_last_added q' = q_last_added q -> q_inputs q' = q_inputs q -> RInv q' hist low.
Proof.
  intros q q' hist low I H1 H2 H3 H4 H5 H6. destruct I.
  constructor; rewrite ?H1, ?H2, ?H3, ?H4, ?H5, ?H6; auto.
Qed.

Lemma hlen_nonneg : forall h, 0 <= hlen h.
Proof. intro h. unfold hlen. lia. Qed.
Lemma hlen_zero : forall h, hlen h = 0 <-> h = [].
Proof. intro h. unfold hlen. destruct h; cbn; split; intro; try lia; try discriminate; auto. Qed.
Lemma hlen_repeat : forall h v n, hlen (h ++ repeat v n) = hlen h + Z.of_nat n.
Proof. intros. unfold hlen. rewrite app_length, repeat_length. lia. Qed.
Lemma hlast_nil : hlast [] = 0.
Proof. reflexivity. Qed.
Lemma hlast_repeat : forall h v n, (0 < n)%nat -> hlast (h ++ repeat v n) = v.
Proof.
  intros h v n Hn. destruct n as [|k]; [lia|].
  replace (repeat v (S k)) with (repeat v k ++ [v]).
  - rewrite app_assoc. apply hlast_app.
  - clear. induction k; cbn in *; [reflexivity|]. f_equal. exact IHk.
Qed.

(* value replicated by fills and by the first delayed input: the newest real input, 0 for none *)
Lemma prev_val : forall q hist low, RInv q hist low ->
  pi_val (slot (q_inputs q) (prev_pos (q_head q))) = hlast hist.
Proof.
  intros q hist low I. rewrite (prev_slot _ _ _ I).
  destruct (Z.eqb_spec (hlen hist) 0) as [E|E]; [|reflexivity].
  apply hlen_zero in E. subst. reflexivity.
Qed.

Lemma expected_frame : forall q hist low, RInv q hist low ->
  (if q_first q then 0 else pi_frame (slot (q_inputs q) (prev_pos (q_head q))) + 1) = hlen hist.
Proof.
  intros q hist low I. rewrite (ri_first _ _ _ I), (prev_slot _ _ _ I).
  destruct (Z.eqb_spec (hlen hist) 0); cbn; lia.
Qed.

(* ---------- add_input for a queue that is not predicting (local players) ---------- *)
Definition set_last_user (q : queue) (u : Z) : queue :=
  mkq (q_head q) (q_tail q) (q_length q) (q_first q) (q_last_added q) u
      (q_first_incorrect q) (q_last_requested q) (q_delay q) (q_inputs q) (q_pred q).

Lemma add_input_seq : forall q uf v,
  (q_last_user q = NULL \/ uf = q_last_user q + 1) -> 0 <= uf ->
  add_input q uf v =
    res_bind (advance_queue_head (set_last_user q uf) uf) (fun '(q2, nf) =>
      if nf =? NULL then Ok (q2, NULL)
      else res_bind (add_input_by_frame q2 v nf) (fun q3 => Ok (q3, nf))).
Proof.
  intros q uf v Hs Hu. unfold add_input.
  assert ((negb (q_last_user q =? NULL) && negb (uf =? q_last_user q + 1)) = false) as ->.
  { destruct Hs as [->| ->]; [reflexivity|]. rewrite Z.eqb_refl. cbn. apply andb_false_r. }
  reflexivity.
Qed.

Lemma add_input_ok : forall q hist low uf v,
  RInv q hist low -> pi_frame (q_pred q) = NULL -> 0 <= q_delay q ->
  (q_last_user q = NULL \/ uf = q_last_user q + 1) -> 0 <= uf ->
  let t := uf + q_delay q in
  (t < hlen hist -> add_input q uf v = Ok (set_last_user q uf, NULL)) /\
  (hlen hist <= t -> t + 1 - low <= QLEN ->
   exists q', add_input q uf v = Ok (q', t) /\
     RInv q' (hist ++ repeat (hlast hist) (Z.to_nat (t - hlen hist)) ++ [v]) low /\
     q_delay q' = q_delay q /\ q_last_user q' = uf /\ q_last_requested q' = q_last_requested q /\
     q_first_incorrect q' = q_first_incorrect q /\ q_pred q' = q_pred q).
Proof.
  intros q hist low uf v I Hp Hd Hs Hu t.
  rewrite (add_input_seq q uf v Hs Hu).
  assert (I0 : RInv (set_last_user q uf) hist low) by (eapply RInv_ext; [exact I|reflexivity..]).
  unfold advance_queue_head.
  rewrite (expected_frame _ _ _ I0). cbn [set_last_user q_delay].
  fold t. split.
  - intro Hlt. assert ((t <? hlen hist) = true) as -> by lia. cbn [res_bind]. reflexivity.
  - intros Hge Hcap. assert ((t <? hlen hist) = false) as -> by lia.
    rewrite (prev_val _ _ _ I0).
    destruct (fill_to_ok (Z.to_nat (t - hlen hist)) (set_last_user q uf) hist low (hlast hist) t I0 Hge ltac:(lia) ltac:(lia) Hp)
      as (q1 & E1 & I1 & D1 & U1 & R1 & F1 & P1).
    rewrite E1. cbn [res_bind].
    set (hist1 := hist ++ repeat (hlast hist) (Z.to_nat (t - hlen hist))) in *.
    assert (Hl1 : hlen hist1 = t) by (subst hist1; rewrite hlen_repeat; lia).
    assert (A : (t =? 0) || (t =? pi_frame (slot (q_inputs q1) (prev_pos (q_head q1))) + 1) = true).
    { rewrite (prev_slot _ _ _ I1), Hl1. destruct (Z.eqb_spec t 0); cbn; lia. }
    rewrite A. cbn [negb res_bind]. cbv beta iota.
    assert ((t =? NULL) = false) as -> by (unfold NULL; lia).
    assert (Hp1 : pi_frame (q_pred q1) = NULL) by (rewrite P1; exact Hp).
    destruct (add_by_frame_ok q1 hist1 low v I1 ltac:(lia) (or_introl Hp1))
      as (q2 & E2 & I2 & D2 & U2 & R2 & F2 & P2 & _).
    rewrite Hl1 in E2, F2, P2.
    rewrite E2. cbn [res_bind]. exists q2. split; [reflexivity|].
    subst hist1. rewrite <- app_assoc in I2.
    refine (conj I2 _).
    assert (Hpa : pred_after q1 v t = q_pred q1) by (unfold pred_after; rewrite Hp1; reflexivity).
    assert (Hfa : fi_after q1 v t = q_first_incorrect q1) by (unfold fi_after; rewrite Hp1; reflexivity).
    repeat split.
    + rewrite D2, D1. reflexivity.
    + rewrite U2, U1. reflexivity.
    + rewrite R2, R1. reflexivity.
    + rewrite F2, Hfa, F1. reflexivity.
    + rewrite P2, Hpa, P1. reflexivity.
Qed.

(* ---------- set_frame_delay (repaired) ---------- *)
Definition delay_fills (q : queue) (hist : list Z) (d : Z) : nat :=
  if (hlen hist =? 0) || (q_last_user q =? NULL) then 0%nat
  else Z.to_nat (q_last_user q + d + 1 - hlen hist).

Lemma set_frame_delay_ok : forall q hist low d,
  RInv q hist low -> pi_frame (q_pred q) = NULL ->
  hlen hist + Z.of_nat (delay_fills q hist d) - low <= QLEN ->
  exists q', set_frame_delay q d = Ok (q', fill_list (hlast hist) (hlen hist) (delay_fills q hist d)) /\
    RInv q' (hist ++ repeat (hlast hist) (delay_fills q hist d)) low /\
    q_delay q' = d /\ q_last_user q' = q_last_user q /\ q_last_requested q' = q_last_requested q /\
    q_first_incorrect q' = q_first_incorrect q /\ q_pred q' = q_pred q.
Proof.
  intros q hist low d I Hp Hcap. unfold set_frame_delay, delay_fills in *.
  rewrite (ri_last _ _ _ I).
  assert (E0 : (hlen hist - 1 =? NULL) = (hlen hist =? 0)) by (unfold NULL; lia).
  rewrite E0.
  pose proof (RInv_with_delay q hist low d I) as I1.
  destruct ((hlen hist =? 0) || (q_last_user q =? NULL)) eqn:Ec.
  - exists (with_delay q d). cbn [repeat fill_list]. rewrite app_nil_r.
    split; [reflexivity|]. refine (conj I1 _). repeat split; reflexivity.
  - replace (hlen hist - 1 + 1) with (hlen hist) by lia.
    destruct (Z.ltb_spec (q_last_user q + d) (hlen hist)) as [Hlt|Hge].
    + exists (with_delay q d).
      replace (Z.to_nat (q_last_user q + d + 1 - hlen hist)) with 0%nat by lia.
      cbn [repeat fill_list]. rewrite app_nil_r.
      split; [reflexivity|]. refine (conj I1 _). repeat split; reflexivity.
    + rewrite (prev_val _ _ _ I).
      destruct (fill_to_ok (Z.to_nat (q_last_user q + d + 1 - hlen hist)) (with_delay q d) hist low (hlast hist)
                  (q_last_user q + d + 1) I1 ltac:(lia) ltac:(lia) ltac:(lia) Hp)
        as (q2 & E2 & I2 & D2 & U2 & R2 & F2 & P2).
      rewrite E2. cbn [res_bind]. exists q2. split; [reflexivity|].
      refine (conj I2 _). repeat split; try assumption.
Qed.

(* ---------- discard_confirmed_frames ---------- *)
Definition discard_low (q : queue) (low f : Z) : Z :=
  let f' := if q_last_requested q =? NULL then f else Z.min f (q_last_requested q) in
  Z.max low f'.

Lemma discard_ok : forall q hist low f,
  RInv q hist low -> f < hlen hist - 1 ->
  RInv (discard_confirmed_frames q f) hist (discard_low q low f) /\
  q_delay (discard_confirmed_frames q f) = q_delay q /\
  q_last_user (discard_confirmed_frames q f) = q_last_user q /\
  q_last_requested (discard_confirmed_frames q f) = q_last_requested q /\
  q_first_incorrect (discard_confirmed_frames q f) = q_first_incorrect q /\
  q_pred (discard_confirmed_frames q f) = q_pred q.
Proof.
  intros q hist low f I Hf. pose proof QLEN_pos as HQ.
  unfold discard_confirmed_frames, discard_low.
  set (f' := if q_last_requested q =? NULL then f else Z.min f (q_last_requested q)).
  assert (Hf' : f' <= f) by (subst f'; destruct (q_last_requested q =? NULL); lia).
  rewrite (ri_last _ _ _ I).
  assert ((hlen hist - 1 <=? f') = false) as -> by lia.
  rewrite (tail_frame _ _ _ I).
  destruct (ri_low _ _ _ I) as (L0 & L1 & L2).
  destruct (Z.eqb_spec (hlen hist) 0) as [E|E].
  - (* empty queue: f < -1, nothing happens *)
    assert ((f' <=? NULL) = true) as -> by (unfold NULL; lia).
    assert (Hneg : f' < 0) by lia.
    apply hlen_zero in E. pose proof (L2 E) as L3.
    replace (Z.max low f') with low by lia. split; [exact I|]. repeat split; reflexivity.
  - assert (Hne : hist <> []) by (intro; subst; apply E; reflexivity). specialize (L1 Hne).
    destruct (Z.leb_spec f' low) as [Hle|Hgt].
    + replace (Z.max low f') with low by lia. split; [exact I|]. repeat split; reflexivity.
    + replace (Z.max low f') with f' by lia.
      split; [|repeat split; reflexivity].
      constructor; cbn [q_inputs q_head q_tail q_length q_first q_last_added].
      * apply (ri_len _ _ _ I).
      * apply (ri_head _ _ _ I).
      * reflexivity.
      * apply (ri_first _ _ _ I).
      * repeat split; try lia. intro; congruence.
      * rewrite (ri_tail _ _ _ I). rewrite Zplus_mod_idemp_l. f_equal. lia.
      * rewrite (ri_length _ _ _ I). lia.
      * pose proof (ri_cap _ _ _ I). lia.
      * intros g Hg. apply (ri_slots _ _ _ I). lia.
      * apply (ri_blank _ _ _ I).
Qed.

(* ---------- reset_prediction ---------- *)
Lemma reset_ok : forall q hist low, RInv q hist low -> RInv (reset_prediction q) hist low.
Proof. intros q hist low I. eapply RInv_ext; [exact I|reflexivity..]. Qed.

(* ---------- input ---------- *)
Definition set_last_requested (q : queue) (f : Z) : queue :=
  mkq (q_head q) (q_tail q) (q_length q) (q_first q) (q_last_added q) (q_last_user q)
      (q_first_incorrect q) f (q_delay q) (q_inputs q) (q_pred q).
Definition set_requested_pred (q : queue) (f : Z) (p : pinput) : queue :=
  mkq (q_head q) (q_tail q) (q_length q) (q_first q) (q_last_added q) (q_last_user q)
      (q_first_incorrect q) f (q_delay q) (q_inputs q) p.

Lemma tail_offset_mod : forall f low, (f - low + low mod QLEN) mod QLEN = f mod QLEN.
Proof.
  intros f low. pose proof QLEN_pos.
  rewrite Zplus_mod_idemp_r. f_equal. lia.
Qed.

Section WithPredictor.
Variable predict : Z -> Z.

Definition predval (hist : list Z) : Z := if hlen hist =? 0 then 0 else predict (hlast hist).

Lemma input_confirmed : forall q hist low f,
  RInv q hist low -> q_first_incorrect q = NULL -> pi_frame (q_pred q) = NULL ->
  low <= f < hlen hist ->
  input predict q f = Ok (set_last_requested q f, (hval hist f, Confirmed)).
Proof.
  intros q hist low f I Hfi Hp Hf. unfold input, set_last_requested.
  destruct (ri_low _ _ _ I) as (L0 & _ & _).
  rewrite Hfi, Z.eqb_refl. cbn [negb].
  rewrite (tail_frame _ _ _ I).
  assert ((hlen hist =? 0) = false) as -> by lia.
  assert ((f <? low) = false) as -> by lia.
  rewrite Hp. assert ((NULL <? 0) = true) as -> by reflexivity.
  rewrite (ri_length _ _ _ I).
  assert ((f - low <? hlen hist - low) = true) as -> by lia.
  rewrite (ri_tail _ _ _ I), tail_offset_mod.
  rewrite (ri_slots _ _ _ I f Hf). cbn [pi_frame pi_val]. rewrite Z.eqb_refl.
  reflexivity.
Qed.

Lemma input_predict_start : forall q hist low f,
  RInv q hist low -> q_first_incorrect q = NULL -> pi_frame (q_pred q) = NULL ->
  hlen hist <= f -> 0 <= f ->
  input predict q f =
    Ok (set_requested_pred q f (mkpi (hlen hist) (predval hist)), (predval hist, Predicted)).
Proof.
  intros q hist low f I Hfi Hp Hf H0. unfold input, predval.
  pose proof (tail_frame _ _ _ I) as Ht. pose proof (ri_length _ _ _ I) as Hl.
  pose proof (ri_last _ _ _ I) as Hla. pose proof (prev_slot _ _ _ I) as Hps.
  destruct (ri_low _ _ _ I) as (L0 & L1 & L2). pose proof (hlen_nonneg hist) as Hnn.
  destruct (Z.eqb_spec (hlen hist) 0) as [E|E].
  - pose proof (proj1 (hlen_zero hist) E) as Hn. pose proof (L2 Hn) as Hlow.
    rewrite Ht. zbool. rewrite ?orb_true_r, ?Hp. cbn [pi_frame pi_val]. rewrite ?Hp. zbool.
    unfold set_requested_pred. repeat f_equal; unfold NULL; lia.
  - assert (Hne : hist <> []) by (intro; subst; apply E; reflexivity). specialize (L1 Hne).
    rewrite Ht. zbool. rewrite Hps. zbool. cbn [pi_frame pi_val]. zbool.
    unfold set_requested_pred. repeat f_equal; unfold NULL; lia.
Qed.

Lemma input_predicting : forall q hist low f,
  RInv q hist low -> q_first_incorrect q = NULL -> pi_frame (q_pred q) = hlen hist ->
  (if hlen hist =? 0 then NULL else low) <= f ->
  input predict q f = Ok (set_last_requested q f, (pi_val (q_pred q), Predicted)).
Proof.
  intros q hist low f I Hfi Hp Hf. unfold input, set_last_requested.
  rewrite Hfi, Z.eqb_refl. cbn [negb].
  rewrite (tail_frame _ _ _ I).
  assert ((f <? (if hlen hist =? 0 then NULL else low)) = false) as -> by lia.
  rewrite Hp. pose proof (hlen_nonneg hist).
  assert ((hlen hist <? 0) = false) as -> by lia.
  assert ((hlen hist =? NULL) = false) as -> by (unfold NULL; lia).
  reflexivity.
Qed.

End WithPredictor.
