From GGRS Require Import Base Varint.
From Coq Require Import ZifyBool ZifyNat ZifyN.
Ltac Zify.zify_post_hook ::= Z.div_mod_to_equations.
Open Scope N_scope.

Lemma vdec_go_venc_fuel : forall fuel n rest val fac cnt,
  n < 128 ^ N.of_nat (S fuel) ->
  vdec_go (venc_fuel fuel n ++ rest) val fac cnt
  = Some (val + fac * n, (cnt + length (venc_fuel fuel n))%nat).
Proof.
  induction fuel as [|k IH]; intros n rest val fac cnt Hsz.
  - change (128 ^ N.of_nat 1) with 128 in Hsz.
    cbn [venc_fuel app vdec_go length].
    assert (n <? 128 = true) as -> by (apply N.ltb_lt; lia).
    rewrite N.mod_small by lia. replace (cnt + 1)%nat with (S cnt) by lia. reflexivity.
  - cbn [venc_fuel]. destruct (N.leb_spec n 127) as [Hle|Hgt].
    + cbn [app vdec_go length]. assert (n <? 128 = true) as -> by (apply N.ltb_lt; lia).
      rewrite N.mod_small by lia. replace (cnt + 1)%nat with (S cnt) by lia. reflexivity.
    + cbn [app vdec_go length].
      assert ((n mod 128 + 128) <? 128 = false) as -> by (apply N.ltb_ge; lia).
      assert (Hm : (n mod 128 + 128) mod 128 = n mod 128).
      { pose proof (N.mod_lt n 128 ltac:(lia)).
        rewrite <- (N.mul_1_l 128) at 2. rewrite N.mod_add by lia. apply N.mod_small; lia. }
      rewrite Hm. rewrite IH.
      * f_equal. f_equal; [|lia].
        pose proof (N.div_mod n 128 ltac:(lia)). lia.
      * apply N.div_lt_upper_bound; [lia|].
        replace (N.of_nat (S (S k))) with (N.succ (N.of_nat (S k))) in Hsz by lia.
        rewrite N.pow_succ_r' in Hsz. exact Hsz.
Qed.

Theorem vdec_venc : forall n rest, n < 2^64 ->
  vdec (venc n ++ rest) = Some (n, length (venc n)).
Proof.
  intros n rest H. unfold vdec, venc. rewrite vdec_go_venc_fuel.
  - f_equal. f_equal. lia.
  - eapply N.lt_trans; [exact H|]. reflexivity.
Qed.

(* length of the encoding: a value below 128^(k+1) takes at most k+1 bytes *)
Lemma venc_fuel_len : forall fuel k n, (k <= fuel)%nat -> n < 128 ^ N.of_nat (S k) ->
  (length (venc_fuel fuel n) <= S k)%nat.
Proof.
  induction fuel as [|f IH]; intros k n Hk Hn.
  - cbn. lia.
  - cbn [venc_fuel]. destruct (N.leb_spec n 127) as [Hle|Hgt]; [cbn; lia|].
    cbn [length]. destruct k as [|k'].
    + change (128 ^ N.of_nat 1) with 128 in Hn. lia.
    + apply le_n_S. apply IH; [lia|].
      apply N.div_lt_upper_bound; [lia|].
      replace (N.of_nat (S (S k'))) with (N.succ (N.of_nat (S k'))) in Hn by lia.
      rewrite N.pow_succ_r' in Hn. exact Hn.
Qed.

Lemma venc_len9 : forall n, n < 2^63 -> (length (venc n) <= 9)%nat.
Proof.
  intros n H. unfold venc. apply (venc_fuel_len 9 8); [lia|].
  change (128 ^ N.of_nat 9) with (2^63). exact H.
Qed.

Lemma venc_nonempty : forall n, venc n <> [].
Proof. intro n. unfold venc. cbn [venc_fuel]. destruct (n <=? 127); discriminate. Qed.

Lemma vdec_go_cnt : forall buf val fac cnt r c, vdec_go buf val fac cnt = Some (r, c) -> (cnt < c <= cnt + length buf)%nat.
Proof.
  induction buf as [|b rest IH]; intros val fac cnt r c H; cbn in H; [discriminate|].
  destruct (b <? 128).
  - inversion H; subst. cbn [length]. lia.
  - apply IH in H. cbn [length]. lia.
Qed.
Lemma vdec_cnt : forall buf r c, vdec buf = Some (r, c) -> (0 < c <= length buf)%nat.
Proof. intros buf r c H. apply vdec_go_cnt in H. lia. Qed.

(* the bounded reader agrees with the idealised one whenever the varint is short enough *)
Lemma vdecB_go_of_vdec_go : forall fuel buf val fac cnt r c,
  vdec_go buf val fac cnt = Some (r, c) -> (c - cnt <= fuel)%nat ->
  vdecB_go fuel buf val fac cnt = Some (r, c).
Proof.
  induction fuel as [|k IH]; intros buf val fac cnt r c H Hc.
  - destruct buf as [|b rest]; cbn in H; [discriminate|].
    destruct (b <? 128).
    + inversion H; subst. lia.
    + apply vdec_go_cnt in H.
      lia.
  - destruct buf as [|b rest]; cbn in H; [discriminate|]. cbn [vdecB_go].
    destruct (b <? 128); [exact H|]. apply IH; [exact H|lia].
Qed.

Lemma vdecB_venc : forall n rest, n < 2^63 ->
  vdecB (venc n ++ rest) = Some (n, length (venc n)).
Proof.
  intros n rest H. unfold vdecB. apply vdecB_go_of_vdec_go.
  - apply vdec_venc. eapply N.lt_trans; [exact H|reflexivity].
  - pose proof (venc_len9 n H). lia.
Qed.

(* the bounded reader never overflows: its result is what the faithful u64 reader computes,
   in both build profiles, and what the idealised reader computes *)
Lemma vdecB_go_sound : forall fuel dbg buf val fac cnt r c i,
  vdecB_go fuel buf val fac cnt = Some (r, c) ->
  fac = 128 ^ N.of_nat i -> val < fac -> (i + fuel <= 9)%nat ->
  vdecF_go dbg buf val fac cnt = Ok (r, c) /\ vdec_go buf val fac cnt = Some (r, c)
  /\ r < 2^63 /\ (cnt < c <= cnt + length buf)%nat.
Proof.
  induction fuel as [|k IH]; intros dbg buf val fac cnt r c i H Hfac Hval Hi; [discriminate|].
  destruct buf as [|b rest]; [discriminate|]. cbn [vdecB_go] in H. cbn [vdecF_go vdec_go length].
  assert (Hpow : 128 ^ N.of_nat (S i) <= 2^63).
  { change (2^63) with (128 ^ N.of_nat 9). apply N.pow_le_mono_r; lia. }
  assert (Hs : 128 ^ N.of_nat (S i) = fac * 128).
  { replace (N.of_nat (S i)) with (N.succ (N.of_nat i)) by lia. rewrite N.pow_succ_r', Hfac. lia. }
  pose proof (N.mod_lt b 128 ltac:(lia)) as Hb.
  assert (Hv' : val + fac * (b mod 128) < fac * 128) by nia.
  assert (H63 : 2^63 < U64) by reflexivity.
  assert (Hprod : fac * (b mod 128) < U64) by lia.
  assert (Hsum : val + fac * (b mod 128) < U64) by lia.
  assert ((U64 <=? fac * (b mod 128)) = false) as -> by (apply N.leb_gt; exact Hprod).
  rewrite andb_false_r. rewrite (N.mod_small _ _ Hprod).
  assert ((U64 <=? val + fac * (b mod 128)) = false) as -> by (apply N.leb_gt; exact Hsum).
  rewrite andb_false_r. rewrite (N.mod_small _ _ Hsum).
  destruct (b <? 128).
  - inversion H; subst. repeat split; try reflexivity; lia.
  - assert (Hf : (fac * 128) mod U64 = fac * 128).
    { destruct k as [|k']; [discriminate|]. apply N.mod_small.
      assert (128 ^ N.of_nat (S i) <= 128 ^ N.of_nat 8) by (apply N.pow_le_mono_r; lia).
      change (128 ^ N.of_nat 8) with 72057594037927936 in *. unfold U64. lia. }
    rewrite Hf.
    destruct (IH dbg rest _ (fac * 128) (S cnt) r c (S i) H) as (A & B & C & D); try lia.
    repeat split; try assumption; lia.
Qed.

Lemma vdecB_sound : forall dbg buf r c, vdecB buf = Some (r, c) ->
  vdecF dbg buf = Ok (r, c) /\ vdec buf = Some (r, c) /\ r < 2^63 /\ (0 < c <= length buf)%nat.
Proof.
  intros dbg buf r c H. unfold vdecB in H.
  destruct (vdecB_go_sound 9 dbg buf 0 1 O r c O H) as (A & B & C & D); try reflexivity; try lia.
  repeat split; try assumption; lia.
Qed.

(* the faithful reader panics on a buffer that ends inside a varint: the F1 witness shape *)
Example vdecF_truncated_panics : vdecF true [128] = Panic /\ vdecF false [128] = Panic.
Proof. split; reflexivity. Qed.
